// Raw socket peer (libc only): sends byte segments with SCM_RIGHTS, reads
// replies header by header.  Descriptors are identified by inode, never by number.
use std::collections::HashMap;
use std::os::unix::io::RawFd;

pub struct FdTable {
    pub by_id: HashMap<u64, (RawFd, u64)>, // id -> (our fd, inode)
    pub by_ino: HashMap<u64, u64>,         // inode -> id
}

pub fn ino_of(fd: RawFd) -> u64 {
    unsafe {
        let mut st: libc::stat = std::mem::zeroed();
        if libc::fstat(fd, &mut st) != 0 {
            return 0;
        }
        // device and inode together: inode numbers of different filesystems (sockfs, shmem, pipefs) can coincide
        ((st.st_dev as u64) << 40) ^ (st.st_ino as u64)
    }
}

impl FdTable {
    pub fn new() -> Self {
        FdTable { by_id: HashMap::new(), by_ino: HashMap::new() }
    }
    /// a fresh memfd standing for descriptor `id`
    pub fn get(&mut self, id: u64) -> RawFd {
        if let Some((fd, _)) = self.by_id.get(&id) {
            return *fd;
        }
        let name = std::ffi::CString::new(format!("vv{}", id)).unwrap();
        let fd = unsafe { libc::memfd_create(name.as_ptr(), libc::MFD_CLOEXEC) };
        assert!(fd >= 0, "memfd_create failed");
        let ino = ino_of(fd);
        self.by_id.insert(id, (fd, ino));
        self.by_ino.insert(ino, id);
        fd
    }
    pub fn id_of_fd(&self, fd: RawFd) -> u64 {
        *self.by_ino.get(&ino_of(fd)).unwrap_or(&9999)
    }
    /// close our own copies (after sending, so that any remaining open descriptor with a
    /// known inode belongs to the receiving side)
    pub fn close_ours(&mut self) {
        for (_, (fd, _)) in self.by_id.iter_mut() {
            if *fd >= 0 {
                unsafe { libc::close(*fd) };
                *fd = -1;
            }
        }
    }
    /// ids of known inodes currently open in this process
    pub fn present(&self) -> Vec<u64> {
        let mut out = vec![];
        if let Ok(rd) = std::fs::read_dir("/proc/self/fd") {
            for e in rd.flatten() {
                if let Ok(n) = e.file_name().to_string_lossy().parse::<i32>() {
                    let ino = ino_of(n);
                    if let Some(id) = self.by_ino.get(&ino) {
                        out.push(*id);
                    }
                }
            }
        }
        out.sort();
        out
    }
}

pub fn count_open_fds() -> usize {
    std::fs::read_dir("/proc/self/fd").map(|r| r.count()).unwrap_or(0)
}

pub unsafe fn send_with_fds(sock: RawFd, data: &[u8], fds: &[RawFd]) -> isize {
    let mut iov = libc::iovec { iov_base: data.as_ptr() as *mut libc::c_void, iov_len: data.len() };
    let mut msg: libc::msghdr = std::mem::zeroed();
    msg.msg_iov = &mut iov;
    msg.msg_iovlen = 1;
    let space = libc::CMSG_SPACE((fds.len() * 4) as u32) as usize;
    let mut cbuf = vec![0u64; (space + 7) / 8];
    if !fds.is_empty() {
        msg.msg_control = cbuf.as_mut_ptr() as *mut libc::c_void;
        msg.msg_controllen = space as _;
        let c = libc::CMSG_FIRSTHDR(&msg);
        (*c).cmsg_level = libc::SOL_SOCKET;
        (*c).cmsg_type = libc::SCM_RIGHTS;
        (*c).cmsg_len = libc::CMSG_LEN((fds.len() * 4) as u32) as _;
        std::ptr::copy_nonoverlapping(fds.as_ptr() as *const u8, libc::CMSG_DATA(c), fds.len() * 4);
    }
    libc::syscall(libc::SYS_sendmsg, sock, &msg as *const libc::msghdr, libc::MSG_NOSIGNAL) as isize
}

/// one raw recvmsg of at most `n` bytes, non-blocking; returns (bytes, fds) or None on EOF/EAGAIN
pub unsafe fn recv_some(sock: RawFd, n: usize) -> Option<(Vec<u8>, Vec<RawFd>)> {
    let mut buf = vec![0u8; n];
    let mut iov = libc::iovec { iov_base: buf.as_mut_ptr() as *mut libc::c_void, iov_len: n };
    let mut msg: libc::msghdr = std::mem::zeroed();
    msg.msg_iov = &mut iov;
    msg.msg_iovlen = 1;
    let mut cbuf = vec![0u64; 256];
    msg.msg_control = cbuf.as_mut_ptr() as *mut libc::c_void;
    msg.msg_controllen = (cbuf.len() * 8) as _;
    let r = libc::syscall(libc::SYS_recvmsg, sock, &mut msg as *mut libc::msghdr, libc::MSG_DONTWAIT) as isize;
    if r <= 0 {
        return None;
    }
    buf.truncate(r as usize);
    let mut fds = vec![];
    let mut c = libc::CMSG_FIRSTHDR(&msg);
    while !c.is_null() {
        if (*c).cmsg_level == libc::SOL_SOCKET && (*c).cmsg_type == libc::SCM_RIGHTS {
            let n = ((*c).cmsg_len as usize - libc::CMSG_LEN(0) as usize) / 4;
            let p = libc::CMSG_DATA(c) as *const RawFd;
            for i in 0..n {
                fds.push(std::ptr::read_unaligned(p.add(i)));
            }
        }
        c = libc::CMSG_NXTHDR(&msg, c);
    }
    Some((buf, fds))
}

/// read everything the other side wrote, as messages delimited by the size field of
/// their 12-byte headers; trailing garbage is returned as a last raw chunk
pub unsafe fn drain_messages(sock: RawFd) -> Vec<(Vec<u8>, Vec<RawFd>)> {
    let mut out = vec![];
    loop {
        let mut hdr = vec![];
        let mut fds = vec![];
        while hdr.len() < 12 {
            match recv_some(sock, 12 - hdr.len()) {
                Some((b, f)) => {
                    hdr.extend_from_slice(&b);
                    fds.extend_from_slice(&f);
                }
                None => break,
            }
        }
        if hdr.is_empty() {
            break;
        }
        if hdr.len() < 12 {
            out.push((hdr, fds));
            break;
        }
        let size = u32::from_le_bytes([hdr[8], hdr[9], hdr[10], hdr[11]]) as usize;
        let mut body = vec![];
        while body.len() < size && size <= (1 << 20) {
            match recv_some(sock, size - body.len()) {
                Some((b, f)) => {
                    body.extend_from_slice(&b);
                    fds.extend_from_slice(&f);
                }
                None => break,
            }
        }
        hdr.extend_from_slice(&body);
        out.push((hdr, fds));
    }
    out
}
