// family "fe": the real Frontend endpoint against a scripted raw peer.  The peer's reply
// bytes are preloaded; the interposed recvmsg delivers them segment by segment and then
// reports end-of-stream, so no operation can block.
use crate::fam_be::err_name;
use crate::peer::{self, FdTable};
use crate::shim;
use crate::val::Val;
use std::os::fd::OwnedFd;
use std::os::unix::io::{AsRawFd, FromRawFd, RawFd};
use std::os::unix::net::UnixStream;
use vhost::vhost_user::message::*;
use vhost::vhost_user::{Frontend, VhostUserFrontend};
use vhost::{VhostBackend, VhostUserDirtyLogRegion, VhostUserMemoryRegionInfo, VringConfigData};
use vmm_sys_util::eventfd::EventFd;

fn n(v: u64) -> Val {
    Val::N(v as u128)
}
fn verr(e: &vhost::Error) -> Val {
    match e {
        vhost::Error::VhostUserProtocol(u) => Val::s(err_name(u)),
        _ => Val::s("OtherError"),
    }
}
fn ok(vals: Vec<Val>) -> Val {
    let mut v = vec![Val::s("ok")];
    v.extend(vals);
    Val::L(v)
}
fn res_unit(r: vhost::Result<()>) -> Val {
    match r {
        Ok(()) => ok(vec![]),
        Err(e) => verr(&e),
    }
}

pub struct Ctx {
    pub fdt: FdTable,
    pub eventfds: std::collections::HashMap<u64, EventFd>,
}

impl Ctx {
    fn raw(&mut self, id: u64) -> RawFd {
        if id == 0 {
            return -1;
        }
        self.fdt.get(id)
    }
    /// the API wants an `&EventFd`; the library only forwards its raw descriptor, so a memfd in an
    /// EventFd wrapper does, and it can be identified by inode like every other descriptor
    fn evfd(&mut self, id: u64) -> &EventFd {
        if !self.eventfds.contains_key(&id) {
            let fd = self.fdt.get(id);
            let d = unsafe { libc::dup(fd) };
            self.eventfds.insert(id, unsafe { EventFd::from_raw_fd(d) });
        }
        self.eventfds.get(&id).unwrap()
    }
    fn id_of(&self, fd: RawFd) -> u64 {
        self.fdt.id_of_fd(fd)
    }
}

struct Borrowed(RawFd);
impl AsRawFd for Borrowed {
    fn as_raw_fd(&self) -> RawFd {
        self.0
    }
}

fn get(a: &[u64], i: usize) -> u64 {
    *a.get(i).unwrap_or(&0)
}

#[allow(clippy::too_many_arguments)]
pub fn call_op(fe: &mut Frontend, cx: &mut Ctx, name: &str, a: &[u64], bytes: &[u8], fds: &[u64], regions: &[Vec<u64>]) -> Val {
    match name {
        "set_hdr_flags" => {
            fe.set_hdr_flags(VhostUserHeaderFlag::from_bits_truncate(get(a, 0) as u32));
            ok(vec![])
        }
        "get_features" => match fe.get_features() {
            Ok(v) => ok(vec![n(v)]),
            Err(e) => verr(&e),
        },
        "set_features" => res_unit(fe.set_features(get(a, 0))),
        "set_owner" => res_unit(fe.set_owner()),
        "reset_owner" => res_unit(fe.reset_owner()),
        "set_mem_table" => {
            let regs: Vec<VhostUserMemoryRegionInfo> = regions
                .iter()
                .map(|r| VhostUserMemoryRegionInfo {
                    guest_phys_addr: get(r, 0),
                    memory_size: get(r, 1),
                    userspace_addr: get(r, 2),
                    mmap_offset: get(r, 3),
                    mmap_handle: cx.raw(get(r, 4)),
                })
                .collect();
            res_unit(fe.set_mem_table(&regs))
        }
        "set_log_base" => {
            let region = if get(a, 1) == 1 {
                Some(VhostUserDirtyLogRegion { mmap_size: get(a, 2), mmap_offset: get(a, 3), mmap_handle: cx.raw(get(fds, 0)) })
            } else {
                None
            };
            res_unit(fe.set_log_base(get(a, 0), region))
        }
        "set_log_fd" => res_unit(fe.set_log_fd(cx.raw(get(fds, 0)))),
        "set_vring_num" => res_unit(fe.set_vring_num(get(a, 0) as usize, get(a, 1) as u16)),
        "set_vring_addr" => {
            let cfg = VringConfigData {
                queue_max_size: 256,
                queue_size: 256,
                flags: get(a, 1) as u32,
                desc_table_addr: get(a, 2),
                used_ring_addr: get(a, 3),
                avail_ring_addr: get(a, 4),
                log_addr: if get(a, 5) == 1 { Some(get(a, 6)) } else { None },
            };
            res_unit(fe.set_vring_addr(get(a, 0) as usize, &cfg))
        }
        "set_vring_base" => res_unit(fe.set_vring_base(get(a, 0) as usize, get(a, 1) as u16)),
        "get_vring_base" => match fe.get_vring_base(get(a, 0) as usize) {
            Ok(v) => ok(vec![n(v as u64)]),
            Err(e) => verr(&e),
        },
        "set_vring_call" | "set_vring_kick" | "set_vring_err" => {
            let id = get(fds, 0);
            let e = unsafe { EventFd::from_raw_fd(libc::dup(cx.evfd(id).as_raw_fd())) };
            let r = match name {
                "set_vring_call" => fe.set_vring_call(get(a, 0) as usize, &e),
                "set_vring_kick" => fe.set_vring_kick(get(a, 0) as usize, &e),
                _ => fe.set_vring_err(get(a, 0) as usize, &e),
            };
            res_unit(r)
        }
        "get_protocol_features" => match fe.get_protocol_features() {
            Ok(v) => ok(vec![n(v.bits())]),
            Err(e) => verr(&e),
        },
        "set_protocol_features" => res_unit(fe.set_protocol_features(VhostUserProtocolFeatures::from_bits_truncate(get(a, 0)))),
        "get_queue_num" => match fe.get_queue_num() {
            Ok(v) => ok(vec![n(v)]),
            Err(e) => verr(&e),
        },
        "reset_device" => res_unit(fe.reset_device()),
        "set_vring_enable" => res_unit(fe.set_vring_enable(get(a, 0) as usize, get(a, 1) != 0)),
        "get_config" => {
            match fe.get_config(get(a, 0) as u32, get(a, 1) as u32, VhostUserConfigFlags::from_bits_retain(get(a, 2) as u32), bytes) {
                Ok((c, p)) => ok(vec![n(c.offset as u64), n(c.size as u64), n(c.flags as u64), Val::H(p)]),
                Err(e) => verr(&e),
            }
        }
        "set_config" => res_unit(fe.set_config(get(a, 0) as u32, VhostUserConfigFlags::from_bits_retain(get(a, 1) as u32), bytes)),
        "set_backend_request_fd" => {
            let fd = cx.raw(get(fds, 0));
            res_unit(fe.set_backend_request_fd(&Borrowed(fd)))
        }
        "get_shared_object" => {
            let mut u = [0u8; 16];
            for (i, b) in bytes.iter().take(16).enumerate() {
                u[i] = *b;
            }
            let mut msg = VhostUserSharedMsg::default();
            msg.uuid = uuid::Uuid::from_bytes(u);
            match fe.get_shared_object(&msg) {
                Ok(f) => ok(vec![Val::L(vec![n(cx.fdt.id_of_fd(f.as_raw_fd()))])]),
                Err(e) => verr(&e),
            }
        }
        "get_inflight_fd" | "set_inflight_fd" => {
            let mut infl: VhostUserInflight = unsafe { std::mem::zeroed() };
            infl.mmap_size = get(a, 0);
            infl.mmap_offset = get(a, 1);
            infl.num_queues = get(a, 2) as u16;
            infl.queue_size = get(a, 3) as u16;
            if name == "get_inflight_fd" {
                match fe.get_inflight_fd(&infl) {
                    Ok((r, f)) => ok(vec![
                        n(r.mmap_size),
                        n(r.mmap_offset),
                        n(r.num_queues as u64),
                        n(r.queue_size as u64),
                        Val::L(vec![n(cx.fdt.id_of_fd(f.as_raw_fd()))]),
                    ]),
                    Err(e) => verr(&e),
                }
            } else {
                res_unit(fe.set_inflight_fd(&infl, cx.raw(get(fds, 0))))
            }
        }
        "get_max_mem_slots" => match fe.get_max_mem_slots() {
            Ok(v) => ok(vec![n(v)]),
            Err(e) => verr(&e),
        },
        "add_mem_region" | "remove_mem_region" => {
            let r = VhostUserMemoryRegionInfo {
                guest_phys_addr: get(a, 0),
                memory_size: get(a, 1),
                userspace_addr: get(a, 2),
                mmap_offset: get(a, 3),
                mmap_handle: cx.raw(get(a, 4)),
            };
            if name == "add_mem_region" {
                res_unit(fe.add_mem_region(&r))
            } else {
                res_unit(fe.remove_mem_region(&r))
            }
        }
        "get_shmem_config" => match fe.get_shmem_config() {
            Ok(c) => ok(vec![n(c.nregions as u64), Val::L(c.memory_sizes.iter().take(4).map(|x| n(*x)).collect())]),
            Err(e) => verr(&e),
        },
        "set_device_state_fd" => {
            let fd = cx.raw(get(fds, 0));
            let owned = unsafe { OwnedFd::from_raw_fd(libc::dup(fd)) };
            let dir = if get(a, 0) == 0 { VhostTransferStateDirection::SAVE } else { VhostTransferStateDirection::LOAD };
            match fe.set_device_state_fd(dir, VhostTransferStatePhase::STOPPED, owned) {
                Ok(None) => ok(vec![Val::L(vec![])]),
                Ok(Some(f)) => ok(vec![Val::L(vec![n(cx.fdt.id_of_fd(f.as_raw_fd()))])]),
                Err(e) => verr(&e),
            }
        }
        "check_device_state" => res_unit(fe.check_device_state()),
        _ => Val::s("harness-unknown-op"),
    }
}

pub fn nums(v: &Val) -> Vec<u64> {
    v.as_l().unwrap_or(&[]).iter().map(|x| x.as_u64().unwrap_or(0)).collect()
}

pub fn run(args: &[Val]) -> Val {
    let (maxq, steps) = match args {
        [Val::N(m), Val::L(s)] => (*m as u64, s),
        _ => return Val::err("args"),
    };
    let (a, b) = UnixStream::pair().unwrap();
    let fe_fd = a.as_raw_fd();
    let peer_fd = b.as_raw_fd();
    let mut fe = Frontend::from_stream(a, maxq);
    let mut cx = Ctx { fdt: FdTable::new(), eventfds: Default::default() };
    let mut out = vec![];
    for st in steps {
        let parts = match st.as_l() {
            Some(p) if p.len() == 6 => p,
            _ => return Val::err("step"),
        };
        let name = parts[0].as_s().unwrap_or("");
        let a_ = nums(&parts[1]);
        let bytes = parts[2].as_h().unwrap_or(&[]).to_vec();
        let fds = nums(&parts[3]);
        let regions: Vec<Vec<u64>> = parts[4].as_l().unwrap_or(&[]).iter().map(nums).collect();
        // preload the scripted reply segments
        let mut seg_sizes = vec![];
        for seg in parts[5].as_l().unwrap_or(&[]) {
            if let Some([Val::H(bs), Val::L(sfds)]) = seg.as_l() {
                if bs.is_empty() {
                    continue;
                }
                let raw: Vec<RawFd> = sfds.iter().map(|f| cx.fdt.get(f.as_u64().unwrap_or(0))).collect();
                let r = unsafe { peer::send_with_fds(peer_fd, bs, &raw) };
                if r != bs.len() as isize {
                    return Val::err("peer-send");
                }
                seg_sizes.push(bs.len());
            }
        }
        shim::register(fe_fd, &seg_sizes);
        shim::set_rx_eof(fe_fd, true);
        let res = call_op(&mut fe, &mut cx, name, &a_, &bytes, &fds, &regions);
        shim::unregister(fe_fd);
        // whatever the operation left unread does not carry over to the next step
        loop {
            match unsafe { peer::recv_some(fe_fd, 65536) } {
                Some((_, rf)) => {
                    for f in rf {
                        unsafe { libc::close(f) };
                    }
                }
                None => break,
            }
        }
        // what the frontend put on the wire
        let sent = unsafe { peer::drain_messages(peer_fd) };
        let mut sv = vec![];
        for (mut bs, rf) in sent {
            // the tail padding of VhostUserInflight is not specified: mask it
            if bs.len() == 12 + 24 {
                let code = u32::from_le_bytes([bs[0], bs[1], bs[2], bs[3]]);
                if code == 31 || code == 32 {
                    for x in bs[32..36].iter_mut() {
                        *x = 0;
                    }
                }
            }
            let ids: Vec<Val> = rf.iter().map(|f| n(cx.id_of(*f))).collect();
            for f in rf {
                unsafe { libc::close(f) };
            }
            sv.push(Val::L(vec![Val::H(bs), Val::L(ids)]));
        }
        // lent descriptors must still be open
        let mut lent_closed = false;
        for (_, (fd, _)) in cx.fdt.by_id.iter() {
            if *fd >= 0 && unsafe { libc::fcntl(*fd, libc::F_GETFD) } < 0 {
                lent_closed = true;
            }
        }
        let res = if lent_closed { Val::L(vec![Val::s("lent-descriptor-closed"), res]) } else { res };
        out.push(Val::L(vec![res, Val::L(sv)]));
    }
    drop(fe);
    drop(b);
    cx.fdt.close_ours();
    Val::L(out)
}

/// family "tx": one operation written through a socket that accepts only part of each write
pub fn run_tx(args: &[Val]) -> Val {
    let (maxq, st, caps) = match args {
        [Val::N(m), st, Val::L(c)] => (*m as u64, st, c),
        _ => return Val::err("args"),
    };
    let parts = match st.as_l() {
        Some(p) if p.len() == 6 => p,
        _ => return Val::err("step"),
    };
    let (a, b) = UnixStream::pair().unwrap();
    let fe_fd = a.as_raw_fd();
    let peer_fd = b.as_raw_fd();
    let mut fe = Frontend::from_stream(a, maxq);
    let mut cx = Ctx { fdt: FdTable::new(), eventfds: Default::default() };
    let name = parts[0].as_s().unwrap_or("");
    let a_ = nums(&parts[1]);
    let bytes = parts[2].as_h().unwrap_or(&[]).to_vec();
    let fds = nums(&parts[3]);
    let regions: Vec<Vec<u64>> = parts[4].as_l().unwrap_or(&[]).iter().map(nums).collect();
    let caps: Vec<usize> = caps.iter().map(|c| c.as_u64().unwrap_or(0) as usize).collect();
    shim::register(fe_fd, &[]);
    shim::set_rx_eof(fe_fd, true);
    shim::set_tx_caps(fe_fd, &caps);
    let res = call_op(&mut fe, &mut cx, name, &a_, &bytes, &fds, &regions);
    shim::unregister(fe_fd);
    // the peer reads byte by byte so that the byte a descriptor list rides on is known exactly
    let mut wire = vec![];
    let mut fdpos = vec![];
    loop {
        match unsafe { peer::recv_some(peer_fd, 1) } {
            Some((bs, rf)) => {
                if !rf.is_empty() {
                    let ids: Vec<Val> = rf.iter().map(|f| n(cx.id_of(*f))).collect();
                    for f in rf {
                        unsafe { libc::close(f) };
                    }
                    fdpos.push(Val::L(vec![n(wire.len() as u64), Val::L(ids)]));
                }
                wire.extend_from_slice(&bs);
            }
            None => break,
        }
    }
    if wire.len() == 12 + 24 {
        let code = u32::from_le_bytes([wire[0], wire[1], wire[2], wire[3]]);
        if code == 31 || code == 32 {
            for x in wire[32..36].iter_mut() {
                *x = 0;
            }
        }
    }
    drop(fe);
    drop(b);
    cx.fdt.close_ours();
    Val::L(vec![res, Val::H(wire), Val::L(fdpos)])
}
