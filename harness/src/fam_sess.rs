// family "sess": the real Frontend talking to the real BackendReqHandler (served, like the
// daemon does, until the first error and then closed) with a recording handler.
use crate::fam_be::{new_rec, Rec};
use crate::fam_fe::{call_op, nums, Ctx};
use crate::peer::FdTable;
use crate::val::Val;
use std::os::unix::io::AsRawFd;
use std::os::unix::net::UnixStream;
use std::sync::atomic::{AtomicBool, Ordering};
use std::sync::{Arc, Mutex};
use std::time::{Duration, Instant};
use vhost::vhost_user::{BackendReqHandler, Frontend};
use vhost::VhostBackend;

pub fn run(args: &[Val]) -> Val {
    let (maxq, cfg, steps) = match args {
        [Val::N(m), Val::L(c), Val::L(s)] => (*m as u64, c, s),
        _ => return Val::err("args"),
    };
    let features = cfg[0].as_u64().unwrap_or(0);
    let pfeatures = cfg[1].as_u64().unwrap_or(0);
    let (a, b) = UnixStream::pair().unwrap();
    let fe_sock_dup = a.try_clone().unwrap();
    let mut fe = Frontend::from_stream(a, maxq);
    // the handler identifies received descriptors through the same table the frontend side fills
    let fdt = Arc::new(Mutex::new(FdTable::new()));
    let rec = Arc::new(Mutex::new(new_rec(features, pfeatures, fdt.clone())));
    rec.lock().unwrap().sender_in_process = true;
    let dead = Arc::new(AtomicBool::new(false));
    let srv_rec = rec.clone();
    let srv_dead = dead.clone();
    let srv_sock = b.try_clone().unwrap();
    let server = std::thread::spawn(move || {
        let mut srv = BackendReqHandler::from_stream(b, srv_rec);
        loop {
            if srv.handle_request().is_err() {
                break;
            }
        }
        srv_dead.store(true, Ordering::SeqCst);
        let _ = srv_sock.shutdown(std::net::Shutdown::Both);
    });
    let mut cx = Ctx { fdt: FdTable::new(), eventfds: Default::default() };
    // files the handler hands out are known to the frontend side too
    for (ino, id) in fdt.lock().unwrap().by_ino.iter() {
        cx.fdt.by_ino.insert(*ino, *id);
    }
    let mut out = vec![];
    for st in steps {
        let parts = match st.as_l() {
            Some(p) if p.len() == 6 => p,
            _ => return Val::err("step"),
        };
        let name = parts[0].as_s().unwrap_or("").to_string();
        let a_ = nums(&parts[1]);
        let bytes = parts[2].as_h().unwrap_or(&[]).to_vec();
        let fds = nums(&parts[3]);
        let regions: Vec<Vec<u64>> = parts[4].as_l().unwrap_or(&[]).iter().map(nums).collect();
        let outcome = parts[5].as_u64().unwrap_or(0);
        // make every descriptor the step may pass known to the handler's table (same inodes)
        {
            let mut ids: Vec<u64> = fds.clone();
            for r in &regions {
                ids.push(*r.get(4).unwrap_or(&0));
            }
            if name == "add_mem_region" {
                ids.push(*a_.get(4).unwrap_or(&0));
            }
            let mut t = fdt.lock().unwrap();
            for id in ids {
                if id != 0 {
                    let fd = cx.fdt.get(id);
                    let ino = crate::peer::ino_of(fd);
                    t.by_ino.insert(ino, id);
                }
            }
            for (k, (fd, _)) in cx.fdt.by_id.iter() {
                let _ = (k, fd);
            }
        }
        {
            let mut r = rec.lock().unwrap();
            r.outcome = outcome;
            r.quiet = false;
            let hname = match name.as_str() {
                "set_backend_request_fd" => "set_backend_req_fd".to_string(),
                n => n.to_string(),
            };
            r.only = Some(hname);
            r.pre_fds = std::fs::read_dir("/proc/self/fd")
                .map(|rd| rd.flatten().filter_map(|e| e.file_name().to_string_lossy().parse::<i32>().ok()).collect())
                .unwrap_or_default();
            // the directory handle used for the listing is gone again: keep only what is really open
            r.pre_fds.retain(|fd| unsafe { libc::fcntl(*fd, libc::F_GETFD) } >= 0);
            r.calls.clear();
        }
        // watchdog: a call that does not return is unblocked by shutting the socket down
        let done = Arc::new(AtomicBool::new(false));
        let blocked = Arc::new(AtomicBool::new(false));
        let wd_done = done.clone();
        let wd_blocked = blocked.clone();
        let wd_sock = fe_sock_dup.try_clone().unwrap();
        let wd = std::thread::spawn(move || {
            let t0 = Instant::now();
            while !wd_done.load(Ordering::SeqCst) {
                if t0.elapsed() > Duration::from_millis(2500) {
                    wd_blocked.store(true, Ordering::SeqCst);
                    let _ = wd_sock.shutdown(std::net::Shutdown::Both);
                    return;
                }
                std::thread::sleep(Duration::from_millis(2));
            }
        });
        let res = call_op(&mut fe, &mut cx, &name, &a_, &bytes, &fds, &regions);
        done.store(true, Ordering::SeqCst);
        let _ = wd.join();
        let was_blocked = blocked.load(Ordering::SeqCst);
        let res = if was_blocked { Val::s("blocked") } else { res };
        // synchronise with the server: one GET_VRING_BASE round trip (answered in every backend state,
        // changes no negotiation state on either side); its own handler call is removed from the log
        if !was_blocked {
            if name == "get_vring_base" {
                // reply-bearing: the server is done with it; the round trip below must not inherit its outcome
                rec.lock().unwrap().outcome = 0;
            }
            // the round trip is the harness's own: the recording handler does not log it
            rec.lock().unwrap().skip_sync = true;
            let sync_ok = fe.get_vring_base(0).is_ok();
            if !sync_ok {
                // the server has stopped (or is stopping): wait for it; if it lives on (the caller's side lost step
                // with the stream), give it the time to get through the round trip's request before logging resumes
                let t0 = Instant::now();
                while !dead.load(Ordering::SeqCst) && t0.elapsed() < Duration::from_millis(1000) {
                    std::thread::sleep(Duration::from_millis(1));
                }
            }
            rec.lock().unwrap().skip_sync = false;
        }
        let calls = std::mem::take(&mut rec.lock().unwrap().calls);
        out.push(Val::L(vec![res, Val::L(calls)]));
        if was_blocked || dead.load(Ordering::SeqCst) {
            break;
        }
    }
    drop(fe);
    let _ = fe_sock_dup.shutdown(std::net::Shutdown::Both);
    let _ = server.join();
    {
        let mut r = rec.lock().unwrap();
        r.held.clear();
        r.held_other.clear();
    }
    cx.fdt.close_ours();
    fdt.lock().unwrap().close_ours();
    Val::L(out)
}
