// The universal case/observation value (same concrete syntax as Base/Val.v).
#[derive(Clone, Debug, PartialEq)]
pub enum Val {
    N(u128),
    S(String),
    H(Vec<u8>),
    L(Vec<Val>),
}

impl Val {
    pub fn s(x: &str) -> Val {
        Val::S(x.to_string())
    }
    pub fn b(x: bool) -> Val {
        Val::S(if x { "true" } else { "false" }.to_string())
    }
    pub fn err(x: &str) -> Val {
        Val::L(vec![Val::s("error"), Val::s(x)])
    }
    pub fn as_n(&self) -> Option<u128> {
        if let Val::N(n) = self {
            Some(*n)
        } else {
            None
        }
    }
    pub fn as_u64(&self) -> Option<u64> {
        self.as_n().map(|n| n as u64)
    }
    pub fn as_s(&self) -> Option<&str> {
        if let Val::S(s) = self {
            Some(s)
        } else {
            None
        }
    }
    pub fn as_h(&self) -> Option<&[u8]> {
        if let Val::H(h) = self {
            Some(h)
        } else {
            None
        }
    }
    pub fn as_l(&self) -> Option<&[Val]> {
        if let Val::L(l) = self {
            Some(l)
        } else {
            None
        }
    }
    pub fn print(&self, out: &mut String) {
        match self {
            Val::N(n) => {
                out.push_str("(VN ");
                out.push_str(&n.to_string());
                out.push(')');
            }
            Val::S(s) => {
                out.push_str("(VS \"");
                out.push_str(s);
                out.push_str("\")");
            }
            Val::H(h) => {
                out.push_str("(VH \"");
                for b in h {
                    out.push_str(&format!("{:02x}", b));
                }
                out.push_str("\")");
            }
            Val::L(l) => {
                out.push_str("(VL [");
                for (i, v) in l.iter().enumerate() {
                    if i > 0 {
                        out.push_str("; ");
                    }
                    v.print(out);
                }
                out.push_str("])");
            }
        }
    }
    pub fn to_string(&self) -> String {
        let mut s = String::new();
        self.print(&mut s);
        s
    }
}

pub fn parse(s: &str) -> Result<Val, String> {
    let b = s.as_bytes();
    let mut i = 0usize;
    let v = parse_v(b, &mut i)?;
    Ok(v)
}

fn skip(b: &[u8], i: &mut usize) {
    while *i < b.len() && (b[*i] == b' ' || b[*i] == b'\t' || b[*i] == b'\r' || b[*i] == b'\n') {
        *i += 1;
    }
}
fn expect(b: &[u8], i: &mut usize, c: u8) -> Result<(), String> {
    skip(b, i);
    if *i < b.len() && b[*i] == c {
        *i += 1;
        Ok(())
    } else {
        Err(format!("expected '{}' at {}", c as char, *i))
    }
}
fn quoted(b: &[u8], i: &mut usize) -> Result<String, String> {
    expect(b, i, b'"')?;
    let st = *i;
    while *i < b.len() && b[*i] != b'"' {
        *i += 1;
    }
    let r = String::from_utf8_lossy(&b[st..*i]).to_string();
    expect(b, i, b'"')?;
    Ok(r)
}
fn parse_v(b: &[u8], i: &mut usize) -> Result<Val, String> {
    expect(b, i, b'(')?;
    expect(b, i, b'V')?;
    let k = b[*i];
    *i += 1;
    let r = match k {
        b'N' => {
            skip(b, i);
            let st = *i;
            while *i < b.len() && b[*i].is_ascii_digit() {
                *i += 1;
            }
            Val::N(std::str::from_utf8(&b[st..*i]).unwrap().parse::<u128>().map_err(|e| e.to_string())?)
        }
        b'S' => Val::S(quoted(b, i)?),
        b'H' => {
            let h = quoted(b, i)?;
            let hb = h.as_bytes();
            let mut out = Vec::with_capacity(hb.len() / 2);
            let nib = |c: u8| -> u8 {
                match c {
                    b'0'..=b'9' => c - b'0',
                    b'a'..=b'f' => c - b'a' + 10,
                    b'A'..=b'F' => c - b'A' + 10,
                    _ => 0,
                }
            };
            let mut k = 0;
            while k + 1 < hb.len() {
                out.push(nib(hb[k]) * 16 + nib(hb[k + 1]));
                k += 2;
            }
            Val::H(out)
        }
        b'L' => {
            expect(b, i, b'[')?;
            skip(b, i);
            let mut items = vec![];
            if b[*i] == b']' {
                *i += 1;
            } else {
                loop {
                    items.push(parse_v(b, i)?);
                    skip(b, i);
                    if b[*i] == b';' {
                        *i += 1;
                    } else {
                        expect(b, i, b']')?;
                        break;
                    }
                }
            }
            Val::L(items)
        }
        _ => return Err("constructor".into()),
    };
    expect(b, i, b')')?;
    Ok(r)
}
