// family "dmn": a real VhostUserDaemon with a recording test backend, driven through its
// socket by the real Frontend, plus guest-side actions (kicks, shared-memory accesses) and
// backend-side actions executed on the worker threads through a custom listener.
use crate::fam_fe::nums;
use crate::peer::FdTable;
use crate::val::Val;
use std::collections::HashMap;
use std::os::unix::io::AsRawFd;
use std::os::unix::net::UnixStream;
use std::sync::mpsc::{channel, Receiver, Sender};
use std::sync::{Arc, Mutex};
use std::time::Duration;
use vhost::vhost_user::message::*;
use vhost::vhost_user::{Frontend, VhostUserFrontend};
use vhost::{VhostBackend, VhostUserDirtyLogRegion, VhostUserMemoryRegionInfo, VringConfigData};
use vhost_user_backend::bitmap::BitmapMmapRegion;
use vhost_user_backend::{VhostUserBackend, VhostUserBackendMut, VhostUserDaemon, VringMutex, VringRwLock, VringT};
use virtio_queue::QueueT;
use vm_memory::{Bytes, GuestAddress, GuestAddressSpace, GuestMemory, GuestMemoryAtomic, GuestMemoryMmap, GuestMemoryRegion};
use vmm_sys_util::epoll::EventSet;
use vmm_sys_util::event::{new_event_consumer_and_notifier, EventConsumer, EventFlag, EventNotifier};
use vmm_sys_util::eventfd::EventFd;

type GM = GuestMemoryAtomic<GuestMemoryMmap<BitmapMmapRegion>>;

fn n(v: u64) -> Val {
    Val::N(v as u128)
}

/// what a worker is asked to do inside handle_event (through the probe listener)
#[derive(Clone, Debug)]
pub enum Cmd {
    Sync,
    QueueState(usize),
    AddUsed(usize, u16, u32),
    Signal(usize),
    WriteMem(u64, Vec<u8>),
    ReadMem(u64, usize),
    Regions,
}

pub struct Shared {
    pub events: Vec<Val>,             // dispatch log: (thread, event id, ring marker)
    pub mem: Option<GM>,
    pub update_memory_calls: u64,
    pub snapshot: Vec<(u64, u64)>,   // the regions the handle resolved to when update_memory was last called
    pub acked_features: Vec<u64>,
    pub event_idx: Vec<bool>,
    pub backend_reqs: u64,
    pub beq: Option<vhost::vhost_user::Backend>,
    pub cmds: HashMap<usize, Cmd>,    // per worker thread
    pub done: Option<Sender<Val>>,
    pub exit_consumers: HashMap<usize, EventConsumer>,
    pub probe_consumers: HashMap<usize, EventFd>,
    pub listeners: HashMap<(usize, u16), EventFd>,   // (thread, delivered id) -> eventfd to drain
}

pub struct Tb<V> {
    pub nq: usize,
    pub maxq: usize,
    pub features: u64,
    pub pfeatures: u64,
    pub masks: Vec<u64>,
    pub probe_id: u16,
    pub sh: Arc<Mutex<Shared>>,
    pub exits: Arc<Mutex<HashMap<usize, (Option<EventConsumer>, EventNotifier)>>>,
    pub _v: std::marker::PhantomData<V>,
}

fn ring_marker<V: VringT<GM>>(v: &V) -> u64 {
    v.get_ref().get_queue().size() as u64
}

fn exec<V: VringT<GM>>(cmd: &Cmd, vrings: &[V], sh: &Shared, all: &[V]) -> Val {
    let _ = vrings;
    match cmd {
        Cmd::Sync => Val::s("sync"),
        Cmd::QueueState(q) => match all.get(*q) {
            Some(v) => {
                let g = v.get_ref();
                let qu = g.get_queue();
                Val::L(vec![
                    n(qu.size() as u64),
                    n(qu.ready() as u64),
                    n(qu.next_avail() as u64),
                    n(qu.next_used() as u64),
                    n(qu.desc_table()),
                    n(qu.avail_ring()),
                    n(qu.used_ring()),
                    n(qu.event_idx_enabled() as u64),
                    n(g.is_enabled() as u64),
                ])
            }
            None => Val::s("no-such-ring"),
        },
        Cmd::AddUsed(q, idx, len) => match all.get(*q) {
            Some(v) => match v.add_used(*idx, *len) {
                Ok(()) => Val::s("ok"),
                Err(_) => Val::s("error"),
            },
            None => Val::s("no-such-ring"),
        },
        Cmd::Signal(q) => match all.get(*q) {
            Some(v) => match v.signal_used_queue() {
                Ok(()) => Val::s("ok"),
                Err(_) => Val::s("error"),
            },
            None => Val::s("no-such-ring"),
        },
        Cmd::WriteMem(gpa, bytes) => match &sh.mem {
            Some(m) => match m.memory().write_slice(bytes, GuestAddress(*gpa)) {
                Ok(()) => Val::s("ok"),
                Err(_) => Val::s("error"),
            },
            None => Val::s("no-memory"),
        },
        Cmd::ReadMem(gpa, len) => match &sh.mem {
            Some(m) => {
                let mut buf = vec![0u8; *len];
                match m.memory().read_slice(&mut buf, GuestAddress(*gpa)) {
                    Ok(()) => Val::H(buf),
                    Err(_) => Val::s("error"),
                }
            }
            None => Val::s("no-memory"),
        },
        Cmd::Regions => match &sh.mem {
            Some(m) => {
                let g = m.memory();
                Val::L(g.iter().map(|r| Val::L(vec![n(r.start_addr().0), n(r.len())])).collect())
            }
            None => Val::L(vec![]),
        },
    }
}

impl<V: VringT<GM> + Clone + Send + Sync + 'static> VhostUserBackendMut for Tb<V> {
    type Bitmap = BitmapMmapRegion;
    type Vring = V;

    fn num_queues(&self) -> usize {
        self.nq
    }
    fn max_queue_size(&self) -> usize {
        self.maxq
    }
    fn features(&self) -> u64 {
        self.features
    }
    fn acked_features(&mut self, features: u64) {
        self.sh.lock().unwrap().acked_features.push(features);
    }
    fn protocol_features(&self) -> VhostUserProtocolFeatures {
        VhostUserProtocolFeatures::from_bits_truncate(self.pfeatures)
    }
    fn set_event_idx(&mut self, enabled: bool) {
        self.sh.lock().unwrap().event_idx.push(enabled);
    }
    fn update_memory(&mut self, mem: GM) -> std::io::Result<()> {
        let snap: Vec<(u64, u64)> = mem.memory().iter().map(|r| (r.start_addr().0, r.len())).collect();
        let mut s = self.sh.lock().unwrap();
        s.snapshot = snap;
        s.mem = Some(mem);
        s.update_memory_calls += 1;
        Ok(())
    }
    fn set_backend_req_fd(&mut self, backend: vhost::vhost_user::Backend) {
        let mut s = self.sh.lock().unwrap();
        s.backend_reqs += 1;
        s.beq = Some(backend);
    }
    fn queues_per_thread(&self) -> Vec<u64> {
        self.masks.clone()
    }
    fn exit_event(&self, thread_index: usize) -> Option<(EventConsumer, EventNotifier)> {
        let mut e = self.exits.lock().unwrap();
        let entry = e.entry(thread_index).or_insert_with(|| {
            let (c, nt) = new_event_consumer_and_notifier(EventFlag::NONBLOCK).unwrap();
            (Some(c), nt)
        });
        let c = entry.0.take()?;
        Some((c, entry.1.try_clone().ok()?))
    }
    fn handle_event(&mut self, device_event: u16, _evset: EventSet, vrings: &[V], thread_id: usize) -> std::io::Result<()> {
        if device_event == self.probe_id {
            let (cmd, done) = {
                let mut s = self.sh.lock().unwrap();
                if let Some(p) = s.probe_consumers.get(&thread_id) {
                    let _ = p.read();
                }
                (s.cmds.remove(&thread_id), s.done.clone())
            };
            if let (Some(cmd), Some(done)) = (cmd, done) {
                // ring-level commands address the worker's own slice by position: find the ring by marker
                let r = {
                    let s = self.sh.lock().unwrap();
                    exec(&cmd, vrings, &s, vrings)
                };
                let _ = done.send(r);
            }
            return Ok(());
        }
        if let Some(l) = self.sh.lock().unwrap().listeners.get(&(thread_id, device_event)) {
            let _ = l.read();
        }
        let marker = vrings.get(device_event as usize).map(ring_marker).unwrap_or(9999);
        self.sh.lock().unwrap().events.push(Val::L(vec![n(thread_id as u64), n(device_event as u64), n(marker)]));
        Ok(())
    }
}

thread_local! {
    /// the observations of the steps that completed, for the case that a later step brings the run down
    static PARTIAL: std::cell::RefCell<Vec<Val>> = std::cell::RefCell::new(vec![]);
}

/// how the backend object is handed to the daemon: behind Arc<Mutex<_>> or Arc<RwLock<_>> (both adapters of backend.rs)
trait Wrap<V: VringT<GM> + Clone + Send + Sync + 'static>:
    VhostUserBackend<Vring = V, Bitmap = BitmapMmapRegion> + Clone + Send + Sync + 'static
{
    fn wrap(tb: Tb<V>) -> Self;
}
impl<V: VringT<GM> + Clone + Send + Sync + 'static> Wrap<V> for Arc<Mutex<Tb<V>>> {
    fn wrap(tb: Tb<V>) -> Self {
        Arc::new(Mutex::new(tb))
    }
}
impl<V: VringT<GM> + Clone + Send + Sync + 'static> Wrap<V> for Arc<std::sync::RwLock<Tb<V>>> {
    fn wrap(tb: Tb<V>) -> Self {
        Arc::new(std::sync::RwLock::new(tb))
    }
}

struct Run<V: VringT<GM> + Clone + Send + Sync + 'static, B: Wrap<V>> {
    _v: std::marker::PhantomData<V>,
    daemon: VhostUserDaemon<B>,
    fe: Frontend,
    sh: Arc<Mutex<Shared>>,
    probes: Vec<EventFd>,
    rx: Receiver<Val>,
    nthreads: usize,
    fdt: FdTable,
    evfds: HashMap<u64, EventFd>,
    masks: Vec<u64>,
    nq: usize,
    listener_fds: HashMap<(usize, u64), EventFd>,
    panics0: u64,
    beq_ends: Option<(UnixStream, UnixStream)>,
    listener: vhost::vhost_user::Listener,
    path: std::path::PathBuf,
    watch: Arc<Watch>,
    silent_workers: std::collections::HashSet<usize>,
}

/// shuts the frontend's connection down when a step does not come back in time
#[derive(Default)]
pub struct Watch {
    deadline: Mutex<Option<std::time::Instant>>,
    sock: Mutex<Option<UnixStream>>,
    fired: std::sync::atomic::AtomicBool,
    stop: std::sync::atomic::AtomicBool,
    /// the panic count when the step began: a panic on the backend side ends the wait at once
    base: std::sync::atomic::AtomicU64,
}
impl Watch {
    fn run(&self) {
        use std::sync::atomic::Ordering::SeqCst;
        while !self.stop.load(SeqCst) {
            std::thread::sleep(Duration::from_millis(25));
            let due = match *self.deadline.lock().unwrap() {
                Some(d) => std::time::Instant::now() >= d || crate::PANICS.load(SeqCst) > self.base.load(SeqCst),
                None => false,
            };
            if due {
                *self.deadline.lock().unwrap() = None;
                self.fired.store(true, SeqCst);
                if let Some(s) = self.sock.lock().unwrap().as_ref() {
                    let _ = s.shutdown(std::net::Shutdown::Both);
                }
            }
        }
    }
}

fn vres(r: vhost::Result<()>) -> Val {
    match r {
        Ok(()) => Val::s("ok"),
        Err(_) => Val::s("err"),
    }
}

impl<V: VringT<GM> + Clone + Send + Sync + 'static, B: Wrap<V>> Run<V, B> {
    fn worker_cmd(&mut self, thread: usize, cmd: Cmd) -> Val {
        if thread >= self.nthreads {
            return Val::s("no-such-thread");
        }
        // an answer that arrived after its request had been given up must not be taken for this one's
        while self.rx.try_recv().is_ok() {}
        self.sh.lock().unwrap().cmds.insert(thread, cmd);
        let _ = self.probes[thread].write(1);
        // a busy machine must not be mistaken for a worker that has stopped: the first wait is long; a worker that
        // did not answer once is not waited for again at length
        let silent = self.silent_workers.contains(&thread);
        match self.rx.recv_timeout(Duration::from_millis(if silent { 50 } else { 3000 })) {
            Ok(v) => v,
            Err(_) => {
                self.silent_workers.insert(thread);
                Val::s("worker-timeout")
            }
        }
    }
    /// the worker that owns queue q (first mask containing it) and q's position in its slice
    fn owner(&self, q: usize) -> Option<(usize, usize)> {
        for (t, m) in self.masks.iter().enumerate() {
            if q < 64 && (m >> q) & 1 == 1 {
                let rank = (m & ((1u64 << q) - 1)).count_ones() as usize;
                return Some((t, rank));
            }
        }
        None
    }
    fn ring_cmd(&mut self, q: usize, mk: impl Fn(usize) -> Cmd) -> Val {
        match self.owner(q) {
            Some((t, rank)) if q < self.nq => self.worker_cmd(t, mk(rank)),
            _ => Val::s("no-owner"),
        }
    }
    fn sync_all(&mut self) {
        // two rounds: epoll hands the ready descriptors of one wake-up over in the order of its ready list, in which a
        // level-triggered probe descriptor may still sit from its previous delivery - ahead of a kick descriptor that became
        // ready before this probe was written.  The worker finishes the whole batch before it waits again, so once the
        // second probe is answered everything that was ready before the first one has been dispatched.
        for _ in 0..2 {
            for t in 0..self.nthreads {
                let _ = self.worker_cmd(t, Cmd::Sync);
            }
        }
    }
    fn evfd(&mut self, id: u64) -> &EventFd {
        self.evfds.entry(id).or_insert_with(|| EventFd::new(libc::EFD_NONBLOCK).unwrap())
    }

    fn step(&mut self, kind: &str, a: &[u64], data: &[u8], regions: &[Vec<u64>]) -> Val {
        let g = |i: usize| *a.get(i).unwrap_or(&0);
        match kind {
            "set_owner" => vres(self.fe.set_owner()),
            "reset_owner" => vres(self.fe.reset_owner()),
            "reset_device" => vres(self.fe.reset_device()),
            "get_features" => match self.fe.get_features() {
                Ok(v) => Val::L(vec![Val::s("ok"), n(v)]),
                Err(_) => Val::s("err"),
            },
            "set_features" => vres(self.fe.set_features(g(0))),
            "get_protocol_features" => match self.fe.get_protocol_features() {
                Ok(v) => Val::L(vec![Val::s("ok"), n(v.bits())]),
                Err(_) => Val::s("err"),
            },
            "set_protocol_features" => vres(self.fe.set_protocol_features(VhostUserProtocolFeatures::from_bits_truncate(g(0)))),
            // the frontend goes away and a new one connects to the same daemon: the handler's state (rings, memory
            // table, translation table, log, acknowledged features) persists, the connection-level state does not
            "reconnect" => {
                // the watchdog's copy of the connection would keep it open
                *self.watch.sock.lock().unwrap() = None;
                let (a, _b) = UnixStream::pair().unwrap();
                let old = std::mem::replace(&mut self.fe, Frontend::from_stream(a, 1));
                drop(old);
                let _ = self.daemon.wait();
                let p2 = self.path.clone();
                let connector = std::thread::spawn(move || UnixStream::connect(&p2));
                if self.daemon.start(&mut self.listener).is_err() {
                    return Val::s("restart-failed");
                }
                match connector.join() {
                    Ok(Ok(sock)) => {
                        *self.watch.sock.lock().unwrap() = sock.try_clone().ok();
                        self.fe = Frontend::from_stream(sock, 0x8000);
                        self.fe.set_hdr_flags(VhostUserHeaderFlag::NEED_REPLY);
                        let _ = self.fe.get_features();
                        Val::s("ok")
                    }
                    _ => Val::s("connect-failed"),
                }
            }
            "get_queue_num" => match self.fe.get_queue_num() {
                Ok(v) => Val::L(vec![Val::s("ok"), n(v)]),
                Err(_) => Val::s("err"),
            },
            "set_mem_table" => {
                let regs: Vec<VhostUserMemoryRegionInfo> = regions
                    .iter()
                    .map(|r| VhostUserMemoryRegionInfo {
                        guest_phys_addr: r[0],
                        memory_size: r[1],
                        userspace_addr: r[2],
                        mmap_offset: r[3],
                        mmap_handle: self.fdt.get(r[4]),
                    })
                    .collect();
                vres(self.fe.set_mem_table(&regs))
            }
            "add_mem" | "rem_mem" => {
                let r = VhostUserMemoryRegionInfo {
                    guest_phys_addr: g(0),
                    memory_size: g(1),
                    userspace_addr: g(2),
                    mmap_offset: g(3),
                    mmap_handle: self.fdt.get(g(4)),
                };
                if kind == "add_mem" {
                    vres(self.fe.add_mem_region(&r))
                } else {
                    vres(self.fe.remove_mem_region(&r))
                }
            }
            "file_size" => {
                let fd = self.fdt.get(g(0));
                let r = unsafe { libc::ftruncate(fd, g(1) as i64) };
                Val::s(if r == 0 { "ok" } else { "error" })
            }
            "guest_write" => {
                let fd = self.fdt.get(g(0));
                let r = unsafe { libc::pwrite(fd, data.as_ptr() as *const libc::c_void, data.len(), g(1) as i64) };
                Val::s(if r == data.len() as isize { "ok" } else { "error" })
            }
            "guest_read" => {
                let fd = self.fdt.get(g(0));
                let mut buf = vec![0u8; g(2) as usize];
                let r = unsafe { libc::pread(fd, buf.as_mut_ptr() as *mut libc::c_void, buf.len(), g(1) as i64) };
                if r < 0 {
                    Val::s("error")
                } else {
                    buf.truncate(r as usize);
                    Val::H(buf)
                }
            }
            "set_vring_num" => vres(self.fe.set_vring_num(g(0) as usize, g(1) as u16)),
            "set_vring_base" => vres(self.fe.set_vring_base(g(0) as usize, g(1) as u16)),
            "get_vring_base" => match self.fe.get_vring_base(g(0) as usize) {
                Ok(v) => Val::L(vec![Val::s("ok"), n(v as u64)]),
                Err(_) => Val::s("err"),
            },
            "set_vring_addr" => {
                let cfg = VringConfigData {
                    queue_max_size: 0,
                    queue_size: 0,
                    flags: g(1) as u32,
                    desc_table_addr: g(2),
                    used_ring_addr: g(3),
                    avail_ring_addr: g(4),
                    log_addr: None,
                };
                vres(self.fe.set_vring_addr(g(0) as usize, &cfg))
            }
            "set_vring_kick" | "set_vring_call" | "set_vring_err" => {
                let e = self.evfd(g(1)).try_clone().unwrap();
                let r = match kind {
                    "set_vring_kick" => self.fe.set_vring_kick(g(0) as usize, &e),
                    "set_vring_call" => self.fe.set_vring_call(g(0) as usize, &e),
                    _ => self.fe.set_vring_err(g(0) as usize, &e),
                };
                vres(r)
            }
            "set_vring_kick_nofd" => {
                // SET_VRING_KICK with the "no descriptor" bit (polling mode): the Frontend API cannot produce it, so the
                // message is written on the frontend's own socket while no other request is in flight
                use std::os::unix::io::AsRawFd as _;
                let fd = self.fe.as_raw_fd();
                let mut m = vec![];
                m.extend_from_slice(&12u32.to_le_bytes());
                m.extend_from_slice(&9u32.to_le_bytes());
                m.extend_from_slice(&8u32.to_le_bytes());
                m.extend_from_slice(&((g(0) & 0xff) | 0x100).to_le_bytes());
                let w = unsafe { libc::write(fd, m.as_ptr() as *const libc::c_void, m.len()) };
                if w != m.len() as isize {
                    Val::s("err")
                } else {
                    // the acknowledgement (REPLY_ACK negotiated) or end-of-stream
                    let mut r = [0u8; 20];
                    let mut got = 0usize;
                    let mut tv = libc::timeval { tv_sec: 1, tv_usec: 0 };
                    unsafe { libc::setsockopt(fd, libc::SOL_SOCKET, libc::SO_RCVTIMEO, &mut tv as *mut _ as *const libc::c_void, std::mem::size_of::<libc::timeval>() as u32) };
                    while got < 20 {
                        let k = unsafe { libc::read(fd, r[got..].as_mut_ptr() as *mut libc::c_void, 20 - got) };
                        if k <= 0 {
                            break;
                        }
                        got += k as usize;
                    }
                    tv.tv_sec = 0;
                    unsafe { libc::setsockopt(fd, libc::SOL_SOCKET, libc::SO_RCVTIMEO, &mut tv as *mut _ as *const libc::c_void, std::mem::size_of::<libc::timeval>() as u32) };
                    if got == 20 && r[12..20] == [0u8; 8] {
                        Val::s("ok")
                    } else {
                        Val::s("err")
                    }
                }
            }
            "set_vring_enable" => vres(self.fe.set_vring_enable(g(0) as usize, g(1) != 0)),
            "set_log_base" => {
                let region = VhostUserDirtyLogRegion { mmap_size: g(0), mmap_offset: g(1), mmap_handle: self.fdt.get(g(2)) };
                vres(self.fe.set_log_base(0, Some(region)))
            }
            "kick" => {
                let r = self.evfd(g(0)).write(1);
                Val::s(if r.is_ok() { "ok" } else { "error" })
            }
            "close_evfd" => {
                self.evfds.remove(&g(0));
                Val::s("ok")
            }
            "read_call" => match self.evfd(g(0)).read() {
                Ok(v) => n(v),
                Err(_) => n(0),
            },
            "queue_state" => self.ring_cmd(g(0) as usize, Cmd::QueueState),
            "add_used" => {
                let (i, l) = (g(1) as u16, g(2) as u32);
                self.ring_cmd(g(0) as usize, move |r| Cmd::AddUsed(r, i, l))
            }
            "signal" => self.ring_cmd(g(0) as usize, Cmd::Signal),
            "write_mem" => {
                let d = data.to_vec();
                let gpa = g(0);
                self.worker_cmd(0, Cmd::WriteMem(gpa, d))
            }
            "read_mem" => self.worker_cmd(0, Cmd::ReadMem(g(0), g(1) as usize)),
            "regions" => self.worker_cmd(0, Cmd::Regions),
            "par_write" => {
                // one thread per address, all released together, each writing `data` through the guest memory
                let mem = self.sh.lock().unwrap().mem.clone();
                match mem {
                    None => Val::s("no-memory"),
                    Some(m) => {
                        let barrier = Arc::new(std::sync::Barrier::new(a.len()));
                        let hs: Vec<_> = a
                            .iter()
                            .map(|gpa| {
                                let (m, b, d, gpa) = (m.clone(), barrier.clone(), data.to_vec(), *gpa);
                                std::thread::spawn(move || {
                                    b.wait();
                                    m.memory().write_slice(&d, GuestAddress(gpa)).is_ok()
                                })
                            })
                            .collect();
                        let ok = hs.into_iter().map(|h| h.join().unwrap_or(false)).fold(true, |x, y| x && y);
                        Val::s(if ok { "ok" } else { "error" })
                    }
                }
            }
            "par_stress" => {
                // a = [log file; offset of one log byte in it; rounds; gpa ...]: the addresses lie on different pages whose
                // bits share that log byte.  Per round: the byte is cleared, all writers are released together, each
                // writes one byte at its address, and the log byte must then show every writer's bit.  The byte is put
                // back afterwards; the result counts the rounds in which a bit was missing.
                let mem = self.sh.lock().unwrap().mem.clone();
                let (fd, off, rounds) = (self.fdt.get(g(0)), g(1) as i64, g(2).min(200_000));
                let gpas: Vec<u64> = a.iter().skip(3).copied().collect();
                match mem {
                    None => Val::s("no-memory"),
                    Some(_) if gpas.is_empty() || gpas.len() > 8 => Val::s("args"),
                    Some(m) => {
                        let mut saved = [0u8; 1];
                        unsafe { libc::pread(fd, saved.as_mut_ptr() as *mut libc::c_void, 1, off) };
                        let want: u8 = gpas.iter().fold(0u8, |acc, gpa| acc | (1u8 << ((gpa / 4096) % 8)));
                        let nw = gpas.len() as u64;
                        let go = Arc::new(std::sync::atomic::AtomicU64::new(0));
                        let done = Arc::new(std::sync::atomic::AtomicU64::new(0));
                        let byte = data.first().copied().unwrap_or(0x5a);
                        let hs: Vec<_> = gpas
                            .iter()
                            .map(|gpa| {
                                let (m, go, done, gpa) = (m.clone(), go.clone(), done.clone(), *gpa);
                                std::thread::spawn(move || {
                                    use std::sync::atomic::Ordering::SeqCst;
                                    for r in 1..=rounds {
                                        while go.load(SeqCst) < r {
                                            std::hint::spin_loop();
                                        }
                                        let _ = m.memory().write_slice(&[byte], GuestAddress(gpa));
                                        done.fetch_add(1, SeqCst);
                                    }
                                })
                            })
                            .collect();
                        let mut lost = 0u64;
                        for r in 1..=rounds {
                            use std::sync::atomic::Ordering::SeqCst;
                            let zero = [0u8; 1];
                            unsafe { libc::pwrite(fd, zero.as_ptr() as *const libc::c_void, 1, off) };
                            go.store(r, SeqCst);
                            while done.load(SeqCst) < r * nw {
                                std::hint::spin_loop();
                            }
                            let mut got = [0u8; 1];
                            unsafe { libc::pread(fd, got.as_mut_ptr() as *mut libc::c_void, 1, off) };
                            // some writers' bits are there and others' are not: a lost update (no bit at all: no log
                            // is in force for these pages, which other steps of the history judge)
                            if got[0] & want != want && got[0] & want != 0 {
                                lost += 1;
                            }
                        }
                        for h in hs {
                            let _ = h.join();
                        }
                        unsafe { libc::pwrite(fd, saved.as_ptr() as *const libc::c_void, 1, off) };
                        Val::L(vec![Val::s("ok"), n(lost)])
                    }
                }
            }
            "add_listener" => {
                // a = [thread; id]: register a fresh eventfd as a custom listener with that id
                let t = g(0) as usize;
                let handlers = self.daemon.get_epoll_handlers();
                match handlers.get(t) {
                    Some(h) => {
                        let e = EventFd::new(libc::EFD_NONBLOCK).unwrap();
                        match h.register_listener(e.as_raw_fd(), EventSet::IN, g(1)) {
                            Ok(()) => {
                                self.sh.lock().unwrap().listeners.insert((t, g(1) as u16), e.try_clone().unwrap());
                                self.listener_fds.insert((t, g(1)), e);
                                Val::s("ok")
                            }
                            Err(_) => Val::s("err"),
                        }
                    }
                    None => Val::s("no-such-thread"),
                }
            }
            "fire_listener" => match self.listener_fds.get(&(g(0) as usize, g(1))) {
                Some(e) => {
                    let _ = e.write(1);
                    Val::s("ok")
                }
                None => Val::s("no-listener"),
            },
            "set_backend_req" => {
                let (a, b) = UnixStream::pair().unwrap();
                let r = vres(self.fe.set_backend_request_fd(&a));
                self.beq_ends = Some((a, b));
                r
            }
            "proxy_probe" => {
                use std::io::{Read, Write};
                use vhost::vhost_user::VhostUserFrontendReqHandler;
                let be = self.sh.lock().unwrap().beq.clone();
                match (be, self.beq_ends.as_mut()) {
                    (Some(be), Some((ours, peer))) => {
                        let code: u32 = if g(0) == 0 { 6 } else { 10 };
                        // an acknowledgement waits for the proxy in case it asks for one
                        let mut ack = vec![];
                        ack.extend_from_slice(&code.to_le_bytes());
                        ack.extend_from_slice(&5u32.to_le_bytes());
                        ack.extend_from_slice(&8u32.to_le_bytes());
                        ack.extend_from_slice(&0u64.to_le_bytes());
                        let _ = peer.write_all(&ack);
                        let r = if g(0) == 0 {
                            let mut u = [0u8; 16];
                            u[3] = 7;
                            be.shared_object_add(&VhostUserSharedMsg { uuid: uuid::Uuid::from_bytes(u) })
                        } else {
                            be.shmem_unmap(&VhostUserMMap { shmid: 1, len: 4096, ..Default::default() })
                        };
                        // what the proxy wrote
                        let _ = peer.set_nonblocking(true);
                        let mut sent = vec![0u8; 256];
                        let k = peer.read(&mut sent).unwrap_or(0);
                        let _ = peer.set_nonblocking(false);
                        // an acknowledgement the proxy did not read must not stay in its queue
                        let _ = ours.set_nonblocking(true);
                        let mut junk = [0u8; 64];
                        let _ = ours.read(&mut junk);
                        let _ = ours.set_nonblocking(false);
                        match r {
                            Err(e) if e.to_string().contains("not negotiated") => Val::s("refused"),
                            Err(_) => Val::s("error"),
                            Ok(_) if k >= 12 => {
                                let flags = u32::from_le_bytes([sent[4], sent[5], sent[6], sent[7]]);
                                Val::L(vec![Val::s("sent"), n(((flags >> 3) & 1) as u64)])
                            }
                            Ok(_) => Val::s("nothing-sent"),
                        }
                    }
                    _ => Val::s("no-channel"),
                }
            }
            "panics" => n(crate::PANICS.load(std::sync::atomic::Ordering::SeqCst) - self.panics0),
            "snapshot" => {
                let s = self.sh.lock().unwrap();
                Val::L(s.snapshot.iter().map(|(a, l)| Val::L(vec![n(*a), n(*l)])).collect())
            }
            "backend_log" => {
                let s = self.sh.lock().unwrap();
                Val::L(vec![
                    n(s.update_memory_calls),
                    Val::L(s.acked_features.iter().map(|x| n(*x)).collect()),
                    Val::L(s.event_idx.iter().map(|x| n(*x as u64)).collect()),
                    n(s.backend_reqs),
                ])
            }
            _ => Val::s("harness-unknown-step"),
        }
    }
}

/// a history whose last step is "teardown" ends with the count of descriptors that are still open after the
/// frontend, the connection, the daemon and everything the harness created are gone, relative to the count
/// before the daemon was built (C09: descriptors the daemon received are closed by it at the latest here)
fn run_with<V: VringT<GM> + Clone + Send + Sync + 'static, B: Wrap<V>>(cfg: &[Val], steps: &[Val]) -> Val {
    let wants = steps.last().and_then(|s| s.as_l()).and_then(|p| p.first()).and_then(|k| k.as_s()) == Some("teardown");
    let before = crate::peer::count_open_fds();
    PARTIAL.with(|p| p.borrow_mut().clear());
    // a panic on the backend side (a worker thread, or the request server once a lock is poisoned) ends the history:
    // what was observed up to there is kept, so that the Spec can still judge the steps that completed, and the
    // last entry says that the run did not survive
    let inner = std::panic::catch_unwind(std::panic::AssertUnwindSafe(|| {
        run_inner::<V, B>(cfg, if wants { &steps[..steps.len() - 1] } else { steps })
    }));
    let v = match inner {
        Ok(v) => v,
        Err(_) => {
            crate::PANICS.fetch_add(1, std::sync::atomic::Ordering::SeqCst);
            let mut out = PARTIAL.with(|p| p.borrow().clone());
            out.push(Val::L(vec![Val::s("panic"), Val::L(vec![])]));
            return Val::L(out);
        }
    };
    if !wants {
        return v;
    }
    // worker threads are joined by the daemon's drop; give the kernel a moment for anything closed asynchronously
    let mut after = crate::peer::count_open_fds();
    for _ in 0..20 {
        if after <= before {
            break;
        }
        std::thread::sleep(Duration::from_millis(5));
        after = crate::peer::count_open_fds();
    }
    if after > before && std::env::var("VV_FD_DEBUG").is_ok() {
        if let Ok(rd) = std::fs::read_dir("/proc/self/fd") {
            for e in rd.flatten() {
                eprintln!("open after teardown: {:?} -> {:?}", e.file_name(), std::fs::read_link(e.path()).ok());
            }
        }
    }
    match v {
        Val::L(mut out) => {
            out.push(Val::L(vec![Val::L(vec![Val::s("ok"), Val::N(after.saturating_sub(before) as u128)]), Val::L(vec![])]));
            Val::L(out)
        }
        other => other,
    }
}

fn run_inner<V: VringT<GM> + Clone + Send + Sync + 'static, B: Wrap<V>>(cfg: &[Val], steps: &[Val]) -> Val {
    let nq = cfg[0].as_u64().unwrap_or(1) as usize;
    let maxq = cfg[1].as_u64().unwrap_or(256) as usize;
    let features = cfg[2].as_u64().unwrap_or(0);
    let pfeatures = cfg[3].as_u64().unwrap_or(0);
    let masks: Vec<u64> = cfg[4].as_l().unwrap_or(&[]).iter().map(|v| v.as_u64().unwrap_or(0)).collect();
    let (tx, rx) = channel();
    let sh = Arc::new(Mutex::new(Shared {
        events: vec![],
        mem: None,
        update_memory_calls: 0,
        snapshot: vec![],
        acked_features: vec![],
        event_idx: vec![],
        backend_reqs: 0,
        beq: None,
        cmds: HashMap::new(),
        done: Some(tx),
        exit_consumers: HashMap::new(),
        probe_consumers: HashMap::new(),
        listeners: HashMap::new(),
    }));
    let probe_id = 60000u16; // a listener id the generated cases never use
    let tb: Tb<V> = Tb {
        nq,
        maxq,
        features,
        pfeatures,
        masks: masks.clone(),
        probe_id,
        sh: sh.clone(),
        exits: Arc::new(Mutex::new(HashMap::new())),
        _v: std::marker::PhantomData,
    };
    let backend: B = B::wrap(tb);
    let mem: GM = GuestMemoryAtomic::new(GuestMemoryMmap::new());
    let mut daemon = match VhostUserDaemon::new("vv".to_string(), backend.clone(), mem) {
        Ok(d) => d,
        Err(_) => return Val::err("daemon-new"),
    };
    // one probe listener per worker
    let handlers = daemon.get_epoll_handlers();
    let nthreads = handlers.len();
    let mut probes = vec![];
    for (t, h) in handlers.iter().enumerate() {
        let e = EventFd::new(libc::EFD_NONBLOCK).unwrap();
        if h.register_listener(e.as_raw_fd(), EventSet::IN, probe_id as u64).is_err() {
            return Val::err("register-probe");
        }
        sh.lock().unwrap().probe_consumers.insert(t, e.try_clone().unwrap());
        probes.push(e);
    }
    drop(handlers);
    // connect: the daemon serves one end of a socketpair through start_client on an abstract path is
    // not available; use a listener in a temporary directory
    let dir = std::env::temp_dir().join(format!("vv-dmn-{}-{:?}", std::process::id(), std::thread::current().id()));
    let _ = std::fs::create_dir_all(&dir);
    let path = dir.join("s");
    let _ = std::fs::remove_file(&path);
    let mut listener = match vhost::vhost_user::Listener::new(&path, true) {
        Ok(l) => l,
        Err(_) => return Val::err("listener"),
    };
    let p2 = path.clone();
    let connector = std::thread::spawn(move || UnixStream::connect(&p2));
    if daemon.start(&mut listener).is_err() {
        return Val::err("daemon-start");
    }
    let sock = match connector.join() {
        Ok(Ok(s)) => s,
        _ => return Val::err("connect"),
    };
    // a daemon that stops answering without closing the connection must not hang the run: a watchdog shuts the
    // connection down under a step that takes too long (the library itself retries a timed-out read for ever)
    let watch = Arc::new(Watch::default());
    *watch.sock.lock().unwrap() = sock.try_clone().ok();
    {
        let w = watch.clone();
        std::thread::spawn(move || w.run());
    }
    let fe = Frontend::from_stream(sock, 0x8000);
    fe.set_hdr_flags(VhostUserHeaderFlag::NEED_REPLY);
    let _ = fe.get_features();
    let mut run: Run<V, B> = Run { _v: std::marker::PhantomData, daemon, fe, sh: sh.clone(), probes, rx, nthreads, fdt: FdTable::new(), evfds: HashMap::new(), masks, nq, listener_fds: HashMap::new(), panics0: crate::PANICS.load(std::sync::atomic::Ordering::SeqCst), beq_ends: None, listener, path: path.clone(), watch: watch.clone(), silent_workers: Default::default() };
    let mut out = vec![];
    for st in steps {
        let parts = match st.as_l() {
            Some(p) if p.len() >= 2 => p,
            _ => return Val::err("step"),
        };
        let kind = parts[0].as_s().unwrap_or("").to_string();
        let a = nums(&parts[1]);
        let data = parts.get(2).and_then(|v| v.as_h()).unwrap_or(&[]).to_vec();
        let regions: Vec<Vec<u64>> = parts.get(3).and_then(|v| v.as_l()).unwrap_or(&[]).iter().map(nums).collect();
        run.sh.lock().unwrap().events.clear();
        let panics_before = crate::PANICS.load(std::sync::atomic::Ordering::SeqCst);
        watch.base.store(panics_before, std::sync::atomic::Ordering::SeqCst);
        *watch.deadline.lock().unwrap() = Some(std::time::Instant::now() + Duration::from_millis(6000));
        let res = run.step(&kind, &a, &data, &regions);
        // control messages without an acknowledgement: a GET_FEATURES round trip orders them
        let control = !matches!(
            kind.as_str(),
            "reconnect" | "kick" | "close_evfd" | "read_call" | "add_listener" | "fire_listener" | "queue_state" | "add_used" | "signal" | "write_mem" | "read_mem" | "regions" | "par_write" | "par_stress"
                | "backend_log" | "snapshot" | "panics" | "proxy_probe" | "guest_write" | "guest_read" | "file_size"
        );
        if control {
            let _ = run.fe.get_features();
        }
        // a thread of the backend side panicked while this step was served: that is the observation of the step, and
        // the history ends here (what a daemon does after losing its request thread is not specified); likewise a
        // daemon that neither answers nor closes the connection (the calls of the step ran into the read timeout)
        *watch.deadline.lock().unwrap() = None;
        let panicked = crate::PANICS.load(std::sync::atomic::Ordering::SeqCst) > panics_before;
        let hung = watch.fired.swap(false, std::sync::atomic::Ordering::SeqCst);
        if panicked || hung {
            out.push(Val::L(vec![Val::s(if panicked { "panic" } else { "hung" }), Val::L(vec![])]));
            PARTIAL.with(|p| p.borrow_mut().push(out.last().unwrap().clone()));
            break;
        }
        // let every worker drain what is ready, then collect the dispatch log of this step
        std::thread::sleep(Duration::from_millis(if kind == "kick" || kind == "fire_listener" { 3 } else { 0 }));
        run.sync_all();
        let mut ev = std::mem::take(&mut run.sh.lock().unwrap().events);
        ev.sort_by_key(|v| match v.as_l() {
            Some([Val::N(t), Val::N(i), Val::N(m)]) => (*t, *i, *m),
            _ => (0, 0, 0),
        });
        out.push(Val::L(vec![res, Val::L(ev)]));
        PARTIAL.with(|p| p.borrow_mut().push(out.last().unwrap().clone()));
    }
    // teardown
    watch.stop.store(true, std::sync::atomic::Ordering::SeqCst);
    *watch.sock.lock().unwrap() = None;
    let Run { mut daemon, fe, mut fdt, .. } = run;
    drop(fe);
    let _ = daemon.wait();
    drop(daemon);
    fdt.close_ours();
    if std::env::var("VV_FD_DEBUG").is_ok() {
        eprintln!("strong counts after daemon drop: sh={}", Arc::strong_count(&sh));
    }
    let _ = std::fs::remove_file(&path);
    let _ = std::fs::remove_dir(&dir);
    Val::L(out)
}

/// dmn: [VL [nq; maxq; features; pfeatures; VL masks; kind]; VL steps]; step = VL [VS kind; nums; VH data; VL regions]
pub fn run(args: &[Val]) -> Val {
    let (cfg, steps) = match args {
        [Val::L(c), Val::L(s)] if c.len() >= 6 => (c, s),
        _ => return Val::err("args"),
    };
    // kind: bit 0 = RwLock-backed rings, bit 1 = the backend behind Arc<RwLock<_>> instead of Arc<Mutex<_>>
    match cfg[5].as_u64().unwrap_or(0) {
        1 => run_with::<VringRwLock<GM>, Arc<Mutex<Tb<VringRwLock<GM>>>>>(cfg, steps),
        2 => run_with::<VringMutex<GM>, Arc<std::sync::RwLock<Tb<VringMutex<GM>>>>>(cfg, steps),
        3 => run_with::<VringRwLock<GM>, Arc<std::sync::RwLock<Tb<VringRwLock<GM>>>>>(cfg, steps),
        _ => run_with::<VringMutex<GM>, Arc<Mutex<Tb<VringMutex<GM>>>>>(cfg, steps),
    }
}
