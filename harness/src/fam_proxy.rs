// families on the backend-initiated channel:
//   "fsrv"  : the real FrontendReqHandler fed a scripted stream by a raw peer
//   "proxy" : the real Backend proxy against a scripted raw peer
//   "psess" : the real Backend proxy against the real FrontendReqHandler
use crate::fam_be::{err_name, msgs_val};
use crate::fam_fe::nums;
use crate::peer::{self, FdTable};
use crate::shim;
use crate::val::Val;
use std::os::unix::io::{AsRawFd, RawFd};
use std::os::unix::net::UnixStream;
use std::sync::atomic::{AtomicBool, Ordering};
use std::sync::{Arc, Mutex};
use std::time::{Duration, Instant};
use vhost::vhost_user::message::*;
use vhost::vhost_user::{Backend, Error, FrontendReqHandler, VhostUserFrontendReqHandler, VhostUserFrontendReqHandlerMut};

fn n(v: u64) -> Val {
    Val::N(v as u128)
}

pub struct FRec {
    pub kind: u64,
    pub value: u64,
    pub calls: Vec<Val>,
    pub fdt: Arc<Mutex<FdTable>>,
}
impl FRec {
    fn res(&self) -> std::io::Result<u64> {
        match self.kind {
            0 => Ok(self.value),
            1 => Err(std::io::Error::from_raw_os_error(self.value as i32)),
            _ => Err(std::io::Error::other("no errno")),
        }
    }
    fn fdid(&self, fd: &dyn AsRawFd) -> Val {
        Val::L(vec![n(self.fdt.lock().unwrap().id_of_fd(fd.as_raw_fd()))])
    }
}
fn mmap_vals(m: &VhostUserMMap) -> Vec<Val> {
    vec![n(m.shmid as u64), n(m.fd_offset), n(m.shm_offset), n(m.len), n(m.flags)]
}
impl VhostUserFrontendReqHandlerMut for FRec {
    fn handle_config_change(&mut self) -> std::io::Result<u64> {
        self.calls.push(Val::L(vec![Val::s("handle_config_change")]));
        self.res()
    }
    fn shared_object_add(&mut self, uuid: &VhostUserSharedMsg) -> std::io::Result<u64> {
        self.calls.push(Val::L(vec![Val::s("shared_object_add"), Val::H(uuid.uuid.as_bytes().to_vec())]));
        self.res()
    }
    fn shared_object_remove(&mut self, uuid: &VhostUserSharedMsg) -> std::io::Result<u64> {
        self.calls.push(Val::L(vec![Val::s("shared_object_remove"), Val::H(uuid.uuid.as_bytes().to_vec())]));
        self.res()
    }
    fn shared_object_lookup(&mut self, uuid: &VhostUserSharedMsg, fd: &dyn AsRawFd) -> std::io::Result<u64> {
        let f = self.fdid(fd);
        self.calls.push(Val::L(vec![Val::s("shared_object_lookup"), Val::H(uuid.uuid.as_bytes().to_vec()), f]));
        self.res()
    }
    fn shmem_map(&mut self, req: &VhostUserMMap, fd: &dyn AsRawFd) -> std::io::Result<u64> {
        let f = self.fdid(fd);
        let mut v = vec![Val::s("shmem_map")];
        v.extend(mmap_vals(req));
        v.push(f);
        self.calls.push(Val::L(v));
        self.res()
    }
    fn shmem_unmap(&mut self, req: &VhostUserMMap) -> std::io::Result<u64> {
        let mut v = vec![Val::s("shmem_unmap")];
        v.extend(mmap_vals(req));
        self.calls.push(Val::L(v));
        self.res()
    }
}

fn set_hres(rec: &Arc<Mutex<FRec>>, h: Option<&Val>) {
    let (k, v) = match h.and_then(|x| x.as_l()) {
        Some([Val::N(k), Val::N(v)]) => (*k as u64, *v as u64),
        _ => (0, 0),
    };
    let mut r = rec.lock().unwrap();
    r.kind = k;
    r.value = v;
}

fn res_val(r: &vhost::vhost_user::Result<u64>) -> Val {
    match r {
        Ok(v) => Val::L(vec![Val::s("ok"), n(*v)]),
        Err(e) => Val::s(err_name(e)),
    }
}

/// fsrv: [VN reply_ack; VL hres-script; VL msgs]
pub fn run_fsrv(args: &[Val]) -> Val {
    let (ra, hs, msgs) = match args {
        [Val::N(r), Val::L(h), Val::L(m)] => (*r == 1, h, m),
        _ => return Val::err("args"),
    };
    let before = peer::count_open_fds();
    let fdt = Arc::new(Mutex::new(FdTable::new()));
    let rec = Arc::new(Mutex::new(FRec { kind: 0, value: 0, calls: vec![], fdt: fdt.clone() }));
    let mut srv = FrontendReqHandler::new(rec.clone()).unwrap();
    srv.set_reply_ack_flag(ra);
    let peer_fd: RawFd = unsafe { libc::dup(srv.get_tx_raw_fd()) };
    let mut seg_sizes = vec![];
    for m in msgs {
        let (bytes, fds) = match m.as_l() {
            Some([Val::H(bs), Val::L(fds)]) => (bs.clone(), fds.clone()),
            _ => return Val::err("msg"),
        };
        if bytes.is_empty() {
            continue;
        }
        let raw: Vec<RawFd> = {
            let mut t = fdt.lock().unwrap();
            fds.iter().map(|f| t.get(f.as_u64().unwrap_or(0))).collect()
        };
        let r = unsafe { peer::send_with_fds(peer_fd, &bytes, &raw) };
        if r != bytes.len() as isize {
            return Val::err("peer-send");
        }
        seg_sizes.push(bytes.len());
    }
    fdt.lock().unwrap().close_ours();
    let srv_fd = srv.as_raw_fd();
    shim::register(srv_fd, &seg_sizes);
    shim::set_rx_eof(srv_fd, true);
    let mut results = vec![];
    let mut it = 0usize;
    loop {
        set_hres(&rec, hs.get(it));
        it += 1;
        let r = srv.handle_request();
        results.push(res_val(&r));
        if let Err(e) = &r {
            if matches!(e, Error::Disconnected | Error::PartialMessage | Error::SocketBroken(_) | Error::SocketError(_)) {
                break;
            }
        }
        if it > seg_sizes.iter().sum::<usize>() + seg_sizes.len() + 2 {
            results.push(Val::s("harness-loop-cap"));
            break;
        }
    }
    shim::unregister(srv_fd);
    let replies = unsafe { peer::drain_messages(peer_fd) };
    let sent = msgs_val(replies, &fdt.lock().unwrap());
    let calls = std::mem::take(&mut rec.lock().unwrap().calls);
    drop(srv);
    unsafe { libc::close(peer_fd) };
    let still = fdt.lock().unwrap().present().len() as u64;
    drop(rec);
    let after = peer::count_open_fds();
    let leaked = still + (after as i64 - before as i64).max(0) as u64;
    Val::L(vec![Val::L(results), Val::L(calls), sent, n(leaked)])
}

struct Borrowed(RawFd);
impl AsRawFd for Borrowed {
    fn as_raw_fd(&self) -> RawFd {
        self.0
    }
}

fn call_proxy(px: &Backend, fdt: &mut FdTable, name: &str, a: &[u64], uuid: &[u8], fds: &[u64]) -> Val {
    let mut u = [0u8; 16];
    for (i, b) in uuid.iter().take(16).enumerate() {
        u[i] = *b;
    }
    let mut msg = VhostUserSharedMsg::default();
    msg.uuid = uuid::Uuid::from_bytes(u);
    let g = |i: usize| *a.get(i).unwrap_or(&0);
    let mut mm = VhostUserMMap::default();
    mm.shmid = g(0) as u8;
    mm.fd_offset = g(1);
    mm.shm_offset = g(2);
    mm.len = g(3);
    mm.flags = g(4);
    let fd = Borrowed(if fds.is_empty() { -1 } else { fdt.get(fds[0]) });
    let r = match name {
        "shared_object_add" => px.shared_object_add(&msg),
        "shared_object_remove" => px.shared_object_remove(&msg),
        "shared_object_lookup" => px.shared_object_lookup(&msg, &fd),
        "shmem_map" => px.shmem_map(&mm, &fd),
        "shmem_unmap" => px.shmem_unmap(&mm),
        _ => return Val::s("harness-unknown-op"),
    };
    match r {
        Ok(v) => Val::L(vec![Val::s("ok"), n(v)]),
        Err(e) => {
            // io::Error wrapping the crate error, or the "not negotiated" refusal
            let s = e.to_string();
            if s.contains("not negotiated") {
                Val::s("NotNegotiated")
            } else if let Some(inner) = e.get_ref().and_then(|x| x.downcast_ref::<Error>()) {
                Val::s(err_name(inner))
            } else {
                Val::s("OtherError")
            }
        }
    }
}

/// proxy: [VL [ra; shared; shmem]; VL steps]; step = VL [VS op; nums; VH uuid; fds; VL script]
pub fn run_proxy(args: &[Val]) -> Val {
    let (flags, steps) = match args {
        [Val::L(f), Val::L(s)] => (f, s),
        _ => return Val::err("args"),
    };
    let (a, b) = UnixStream::pair().unwrap();
    let px_fd = a.as_raw_fd();
    let peer_fd = b.as_raw_fd();
    let px = Backend::from_stream(a);
    px.set_reply_ack_flag(flags[0].as_u64() == Some(1));
    px.set_shared_object_flag(flags[1].as_u64() == Some(1));
    px.set_shmem_flag(flags[2].as_u64() == Some(1));
    let mut fdt = FdTable::new();
    let mut out = vec![];
    for st in steps {
        let parts = match st.as_l() {
            Some(p) if p.len() == 5 => p,
            _ => return Val::err("step"),
        };
        let name = parts[0].as_s().unwrap_or("");
        let a_ = nums(&parts[1]);
        let uuid = parts[2].as_h().unwrap_or(&[]).to_vec();
        let fds = nums(&parts[3]);
        let mut seg_sizes = vec![];
        for seg in parts[4].as_l().unwrap_or(&[]) {
            if let Some([Val::H(bs), Val::L(sfds)]) = seg.as_l() {
                if bs.is_empty() {
                    continue;
                }
                let raw: Vec<RawFd> = sfds.iter().map(|f| fdt.get(f.as_u64().unwrap_or(0))).collect();
                let r = unsafe { peer::send_with_fds(peer_fd, bs, &raw) };
                if r != bs.len() as isize {
                    return Val::err("peer-send");
                }
                seg_sizes.push(bs.len());
            }
        }
        shim::register(px_fd, &seg_sizes);
        shim::set_rx_eof(px_fd, true);
        let res = call_proxy(&px, &mut fdt, name, &a_, &uuid, &fds);
        shim::unregister(px_fd);
        loop {
            match unsafe { peer::recv_some(px_fd, 65536) } {
                Some((_, rf)) => {
                    for f in rf {
                        unsafe { libc::close(f) };
                    }
                }
                None => break,
            }
        }
        let sent = unsafe { peer::drain_messages(peer_fd) };
        let sv = msgs_val(sent, &fdt);
        out.push(Val::L(vec![res, sv]));
    }
    drop(px);
    drop(b);
    fdt.close_ours();
    Val::L(out)
}

/// psess: [VL [ra; shared; shmem]; VL steps]; step = VL [VS op; nums; VH uuid; fds; VL [kind; v]]
pub fn run_psess(args: &[Val]) -> Val {
    let (flags, steps) = match args {
        [Val::L(f), Val::L(s)] => (f, s),
        _ => return Val::err("args"),
    };
    let ra = flags[0].as_u64() == Some(1);
    let fdt = Arc::new(Mutex::new(FdTable::new()));
    let rec = Arc::new(Mutex::new(FRec { kind: 0, value: 0, calls: vec![], fdt: fdt.clone() }));
    let mut srv = FrontendReqHandler::new(rec.clone()).unwrap();
    srv.set_reply_ack_flag(ra);
    let tx = unsafe { libc::dup(srv.get_tx_raw_fd()) };
    let sock = unsafe { <UnixStream as std::os::unix::io::FromRawFd>::from_raw_fd(tx) };
    let wd_sock = sock.try_clone().unwrap();
    let px = Backend::from_stream(sock);
    px.set_reply_ack_flag(ra);
    px.set_shared_object_flag(flags[1].as_u64() == Some(1));
    px.set_shmem_flag(flags[2].as_u64() == Some(1));
    let stop = Arc::new(AtomicBool::new(false));
    let served = Arc::new(std::sync::atomic::AtomicUsize::new(0));
    let s_stop = stop.clone();
    let s_served = served.clone();
    let server = std::thread::spawn(move || {
        loop {
            let r = srv.handle_request();
            s_served.fetch_add(1, Ordering::SeqCst);
            if let Err(e) = &r {
                if matches!(e, Error::Disconnected | Error::PartialMessage | Error::SocketBroken(_) | Error::SocketError(_)) {
                    break;
                }
            }
            if s_stop.load(Ordering::SeqCst) {
                break;
            }
        }
    });
    let mut my = FdTable::new();
    let mut out = vec![];
    for st in steps {
        let parts = match st.as_l() {
            Some(p) if p.len() == 5 => p,
            _ => return Val::err("step"),
        };
        let name = parts[0].as_s().unwrap_or("").to_string();
        let a_ = nums(&parts[1]);
        let uuid = parts[2].as_h().unwrap_or(&[]).to_vec();
        let fds = nums(&parts[3]);
        for id in &fds {
            let fd = my.get(*id);
            fdt.lock().unwrap().by_ino.insert(peer::ino_of(fd), *id);
        }
        set_hres(&rec, Some(&parts[4]));
        rec.lock().unwrap().calls.clear();
        let before = served.load(Ordering::SeqCst);
        let done = Arc::new(AtomicBool::new(false));
        let blocked = Arc::new(AtomicBool::new(false));
        let (wd_done, wd_blocked, wsock) = (done.clone(), blocked.clone(), wd_sock.try_clone().unwrap());
        let wd = std::thread::spawn(move || {
            let t0 = Instant::now();
            while !wd_done.load(Ordering::SeqCst) {
                if t0.elapsed() > Duration::from_millis(2500) {
                    wd_blocked.store(true, Ordering::SeqCst);
                    let _ = wsock.shutdown(std::net::Shutdown::Both);
                    return;
                }
                std::thread::sleep(Duration::from_millis(2));
            }
        });
        let res = call_proxy(&px, &mut my, &name, &a_, &uuid, &fds);
        done.store(true, Ordering::SeqCst);
        let _ = wd.join();
        let was_blocked = blocked.load(Ordering::SeqCst);
        let res = if was_blocked { Val::s("blocked") } else { res };
        // without an acknowledgement the server may still be working on the request: wait for it
        if !was_blocked {
            let sent_something = !matches!(&res, Val::S(s) if s == "NotNegotiated");
            let t0 = Instant::now();
            while sent_something && served.load(Ordering::SeqCst) == before && t0.elapsed() < Duration::from_millis(1000) {
                std::thread::sleep(Duration::from_millis(1));
            }
        }
        let calls = std::mem::take(&mut rec.lock().unwrap().calls);
        out.push(Val::L(vec![res, Val::L(calls)]));
        if was_blocked {
            break;
        }
    }
    stop.store(true, Ordering::SeqCst);
    let _ = wd_sock.shutdown(std::net::Shutdown::Both);
    drop(px);
    let _ = server.join();
    my.close_ours();
    Val::L(out)
}
