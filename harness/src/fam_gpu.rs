// family "gpu": every operation of the GPU proxy (GpuBackend) against a scripted raw peer: what the
// proxy writes (bytes and descriptors) and what it makes of the bytes the peer feeds as the answer.
use crate::fam_be::msgs_val;
use crate::fam_fe::nums;
use crate::peer::{self, FdTable};
use crate::shim;
use crate::val::Val;
use std::os::unix::io::{AsRawFd, FromRawFd, RawFd};
use std::os::unix::net::UnixStream;
use vhost::vhost_user::gpu_message::*;
use vhost::vhost_user::message::VhostUserU64;
use vhost::vhost_user::GpuBackend;
use vm_memory::ByteValued;

fn classify(e: &std::io::Error) -> Val {
    let s = e.to_string();
    Val::s(if s.contains("partial message") {
        "PartialMessage"
    } else if s.contains("invalid message") {
        "InvalidMessage"
    } else if s.contains("disconnected") {
        "Disconnected"
    } else {
        "err"
    })
}
fn unit(r: std::io::Result<()>) -> Val {
    match r {
        Ok(()) => Val::L(vec![Val::s("ok")]),
        Err(e) => classify(&e),
    }
}

fn call(g: &GpuBackend, fdt: &mut FdTable, name: &str, a: &[u64], data: &[u8], fds: &[u64]) -> Val {
    let x = |i: usize| *a.get(i).unwrap_or(&0) as u32;
    let dm = VhostUserGpuDMABUFScanout {
        scanout_id: x(0),
        x: x(1),
        y: x(2),
        width: x(3),
        height: x(4),
        fd_width: x(5),
        fd_height: x(6),
        fd_stride: x(7),
        fd_flags: x(8),
        fd_drm_fourcc: x(9),
    };
    let file = fds.first().map(|id| {
        let fd = unsafe { libc::dup(fdt.get(*id)) };
        unsafe { std::fs::File::from_raw_fd(fd) }
    });
    match name {
        "get_protocol_features" => match g.get_protocol_features() {
            Ok(v) => Val::L(vec![Val::s("ok"), Val::N(v.value as u128)]),
            Err(e) => classify(&e),
        },
        "set_protocol_features" => unit(g.set_protocol_features(&VhostUserU64::new(*a.first().unwrap_or(&0)))),
        "get_display_info" => match g.get_display_info() {
            Ok(v) => Val::L(vec![Val::s("ok"), Val::H(v.as_slice().to_vec())]),
            Err(e) => classify(&e),
        },
        "get_edid" => match g.get_edid(&VhostUserGpuEdidRequest { scanout_id: x(0) }) {
            Ok(v) => Val::L(vec![Val::s("ok"), Val::H(v.as_slice().to_vec())]),
            Err(e) => classify(&e),
        },
        "set_scanout" => unit(g.set_scanout(&VhostUserGpuScanout { scanout_id: x(0), width: x(1), height: x(2) })),
        "update_scanout" => unit(g.update_scanout(&VhostUserGpuUpdate { scanout_id: x(0), x: x(1), y: x(2), width: x(3), height: x(4) }, data)),
        "set_dmabuf_scanout" => unit(g.set_dmabuf_scanout(&dm, file.as_ref())),
        "set_dmabuf_scanout2" => unit(g.set_dmabuf_scanout2(&VhostUserGpuDMABUFScanout2 { dmabuf_scanout: dm, modifier: *a.get(10).unwrap_or(&0) }, file.as_ref())),
        "update_dmabuf_scanout" => unit(g.update_dmabuf_scanout(&VhostUserGpuUpdate { scanout_id: x(0), x: x(1), y: x(2), width: x(3), height: x(4) })),
        "cursor_pos" => unit(g.cursor_pos(&VhostUserGpuCursorPos { scanout_id: x(0), x: x(1), y: x(2) })),
        "cursor_pos_hide" => unit(g.cursor_pos_hide(&VhostUserGpuCursorPos { scanout_id: x(0), x: x(1), y: x(2) })),
        "cursor_update" => {
            let mut img = [0u8; 4 * 64 * 64];
            for (i, b) in img.iter_mut().enumerate() {
                *b = data.get(i % data.len().max(1)).cloned().unwrap_or(0);
            }
            unit(g.cursor_update(
                &VhostUserGpuCursorUpdate { pos: VhostUserGpuCursorPos { scanout_id: x(0), x: x(1), y: x(2) }, hot_x: x(3), hot_y: x(4) },
                &img,
            ))
        }
        _ => Val::s("harness-unknown-op"),
    }
}

/// gpu: [VL steps]; step = VL [VS op; nums; VH data; fds; VL segments]; segment = VL [VH bytes; VL fds]
pub fn run(args: &[Val]) -> Val {
    let steps = match args {
        [Val::L(s)] => s,
        _ => return Val::err("args"),
    };
    let (a, b) = UnixStream::pair().unwrap();
    let px_fd = a.as_raw_fd();
    let peer_fd = b.as_raw_fd();
    let g = GpuBackend::from_stream(a);
    let mut fdt = FdTable::new();
    let mut out = vec![];
    for st in steps {
        let parts = match st.as_l() {
            Some(p) if p.len() == 5 => p,
            _ => return Val::err("step"),
        };
        let name = parts[0].as_s().unwrap_or("");
        let a_ = nums(&parts[1]);
        let data = parts[2].as_h().unwrap_or(&[]).to_vec();
        let fds = nums(&parts[3]);
        let mut seg_sizes = vec![];
        for seg in parts[4].as_l().unwrap_or(&[]) {
            if let Some([Val::H(bs), Val::L(sfds)]) = seg.as_l() {
                if bs.is_empty() {
                    continue;
                }
                let raw: Vec<RawFd> = sfds.iter().map(|f| fdt.get(f.as_u64().unwrap_or(0))).collect();
                let r = unsafe { peer::send_with_fds(peer_fd, bs, &raw) };
                if r != bs.len() as isize {
                    return Val::err("peer-send");
                }
                seg_sizes.push(bs.len());
            }
        }
        shim::register(px_fd, &seg_sizes);
        shim::set_rx_eof(px_fd, true);
        let res = call(&g, &mut fdt, name, &a_, &data, &fds);
        shim::unregister(px_fd);
        loop {
            match unsafe { peer::recv_some(px_fd, 65536) } {
                Some((_, rf)) => {
                    for f in rf {
                        unsafe { libc::close(f) };
                    }
                }
                None => break,
            }
        }
        let sent = unsafe { peer::drain_messages(peer_fd) };
        let sv = msgs_val(sent, &fdt);
        out.push(Val::L(vec![res, sv]));
    }
    drop(g);
    drop(b);
    fdt.close_ours();
    Val::L(out)
}
