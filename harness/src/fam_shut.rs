// family "shut": daemon shutdown / teardown scenarios (C16).  A real VhostUserDaemon is brought
// to a chosen position by a raw peer (idle, mid-header, between header and body, inside the
// handler - the backend's features() callback blocks on a gate -, after a reply, peer gone), then
// shutdown is requested by 0..3 callers, wait() is called under a watchdog, the peer reads until
// end-of-stream, a new connection is attempted, and the daemon is dropped.
use crate::val::Val;
use std::io::{Read, Write};
use std::os::unix::net::UnixStream;
use std::sync::mpsc::channel;
use std::sync::{Arc, Condvar, Mutex};
use std::time::{Duration, Instant};
use vhost::vhost_user::message::VhostUserProtocolFeatures;
use vhost::vhost_user::Listener;
use vhost_user_backend::{VhostUserBackendMut, VhostUserDaemon, VringMutex};
use vm_memory::{GuestMemoryAtomic, GuestMemoryMmap};
use vmm_sys_util::epoll::EventSet;
use vmm_sys_util::event::{new_event_consumer_and_notifier, EventConsumer, EventFlag, EventNotifier};

type GM = GuestMemoryAtomic<GuestMemoryMmap<()>>;

struct Gate {
    closed: bool,
    entered: u64,
}

struct Sb {
    gate: Arc<(Mutex<Gate>, Condvar)>,
    exits: bool,
    threads: usize,
}

impl VhostUserBackendMut for Sb {
    type Bitmap = ();
    type Vring = VringMutex<GM>;
    fn num_queues(&self) -> usize {
        2
    }
    fn max_queue_size(&self) -> usize {
        64
    }
    fn features(&self) -> u64 {
        // hold point "inside the handler": GET_FEATURES blocks here while the gate is closed
        let (m, c) = &*self.gate;
        let mut g = m.lock().unwrap();
        g.entered += 1;
        c.notify_all();
        while g.closed {
            g = c.wait(g).unwrap();
        }
        1 << 30
    }
    fn protocol_features(&self) -> VhostUserProtocolFeatures {
        VhostUserProtocolFeatures::all()
    }
    fn set_event_idx(&mut self, _e: bool) {}
    fn update_memory(&mut self, _m: GM) -> std::io::Result<()> {
        Ok(())
    }
    fn queues_per_thread(&self) -> Vec<u64> {
        if self.threads == 2 {
            vec![1, 2]
        } else {
            vec![3]
        }
    }
    fn exit_event(&self, _t: usize) -> Option<(EventConsumer, EventNotifier)> {
        if self.exits {
            new_event_consumer_and_notifier(EventFlag::NONBLOCK).ok()
        } else {
            None
        }
    }
    fn handle_event(&mut self, _d: u16, _e: EventSet, _v: &[VringMutex<GM>], _t: usize) -> std::io::Result<()> {
        Ok(())
    }
}

fn workers_alive() -> u64 {
    let mut n = 0;
    if let Ok(rd) = std::fs::read_dir("/proc/self/task") {
        for e in rd.flatten() {
            if let Ok(s) = std::fs::read_to_string(e.path().join("comm")) {
                if s.trim() == "vring_worker" {
                    n += 1;
                }
            }
        }
    }
    n
}

fn wait_workers_gone(limit_ms: u64) -> u64 {
    let t0 = Instant::now();
    loop {
        let n = workers_alive();
        if n == 0 || t0.elapsed() > Duration::from_millis(limit_ms) {
            return n;
        }
        std::thread::sleep(Duration::from_millis(5));
    }
}

fn hdr(code: u32, flags: u32, size: u32) -> Vec<u8> {
    let mut v = vec![];
    v.extend_from_slice(&code.to_le_bytes());
    v.extend_from_slice(&flags.to_le_bytes());
    v.extend_from_slice(&size.to_le_bytes());
    v
}

fn classify(r: Result<(), vhost_user_backend::Error>) -> String {
    use vhost::vhost_user::Error as E;
    match r {
        Ok(()) => "ok".into(),
        Err(vhost_user_backend::Error::HandleRequest(e)) => match e {
            E::Disconnected => "err:Disconnected".into(),
            E::PartialMessage => "err:PartialMessage".into(),
            E::InvalidMessage => "err:InvalidMessage".into(),
            E::SocketBroken(_) => "err:SocketBroken".into(),
            _ => "err:other".into(),
        },
        Err(_) => "err:daemon".into(),
    }
}

fn peer_read_to_eof(s: &mut UnixStream) -> &'static str {
    let _ = s.set_read_timeout(Some(Duration::from_millis(800)));
    let mut buf = [0u8; 256];
    loop {
        match s.read(&mut buf) {
            Ok(0) => return "eof",
            Ok(_) => continue,
            Err(e) if e.kind() == std::io::ErrorKind::WouldBlock || e.kind() == std::io::ErrorKind::TimedOut => return "timeout",
            Err(_) => return "eof", // reset counts as the end of the stream
        }
    }
}

fn tmp_path(tag: &str) -> std::path::PathBuf {
    let dir = std::env::temp_dir().join(format!("vv-shut-{}-{:?}", std::process::id(), std::thread::current().id()));
    let _ = std::fs::create_dir_all(&dir);
    let p = dir.join(tag);
    let _ = std::fs::remove_file(&p);
    p
}

fn connect_daemon(daemon: &mut VhostUserDaemon<Arc<Mutex<Sb>>>, tag: &str) -> Option<UnixStream> {
    let path = tmp_path(tag);
    let mut listener = Listener::new(&path, true).ok()?;
    let p2 = path.clone();
    let connector = std::thread::spawn(move || UnixStream::connect(&p2));
    daemon.start(&mut listener).ok()?;
    let s = connector.join().ok()?.ok()?;
    let _ = std::fs::remove_file(&path);
    Some(s)
}

/// wait() under a watchdog; the daemon comes back through the channel
fn timed_wait(mut daemon: VhostUserDaemon<Arc<Mutex<Sb>>>) -> (String, Option<VhostUserDaemon<Arc<Mutex<Sb>>>>) {
    let (tx, rx) = channel();
    std::thread::spawn(move || {
        let r = daemon.wait();
        let _ = tx.send((classify(r), daemon));
    });
    match rx.recv_timeout(Duration::from_millis(2500)) {
        Ok((r, d)) => (r, Some(d)),
        Err(_) => ("timeout".into(), None),
    }
}

/// shut: [VS position; VN k; VN shutdown; VN callers; VN repeats; VN release_first; VN threads; VN exits]
pub fn run(args: &[Val]) -> Val {
    let pos = args.first().and_then(|v| v.as_s()).unwrap_or("").to_string();
    let g = |i: usize| args.get(i).and_then(|v| v.as_u64()).unwrap_or(0);
    let (k, shutdown, callers, repeats, release_first, threads, exits) = (g(1) as usize, g(2) != 0, g(3).max(1) as usize, g(4).max(1), g(5) != 0, g(6) as usize, g(7) != 0);
    let gate = Arc::new((Mutex::new(Gate { closed: false, entered: 0 }), Condvar::new()));
    let backend = Arc::new(Mutex::new(Sb { gate: gate.clone(), exits, threads }));
    let mem: GM = GuestMemoryAtomic::new(GuestMemoryMmap::new());

    if pos.starts_with("serve") {
        return run_serve(&pos, k, backend, mem, exits);
    }

    let mut daemon = match VhostUserDaemon::new("vv-shut".to_string(), backend, mem) {
        Ok(d) => d,
        Err(_) => return Val::err("daemon-new"),
    };
    let mut peer = match connect_daemon(&mut daemon, "a") {
        Some(s) => s,
        None => return Val::err("connect"),
    };
    let get_features = hdr(1, 1, 0);
    let set_features = {
        let mut m = hdr(2, 1, 8);
        m.extend_from_slice(&0u64.to_le_bytes());
        m
    };
    let mut peer_open = true;
    let mut gated = false;
    match pos.as_str() {
        "idle" => {}
        "partial_hdr" => {
            let _ = peer.write_all(&get_features[..k.min(11).max(1)]);
        }
        "header_only" => {
            let _ = peer.write_all(&set_features[..12 + k.min(7)]);
        }
        "in_handler" | "reply_to_closed_peer" => {
            gate.0.lock().unwrap().closed = true;
            gated = true;
            let _ = peer.write_all(&get_features);
            // wait until the daemon thread is inside the handler
            let (m, c) = &*gate;
            let mut gd = m.lock().unwrap();
            let t0 = Instant::now();
            while gd.entered == 0 && t0.elapsed() < Duration::from_secs(2) {
                gd = c.wait_timeout(gd, Duration::from_millis(50)).unwrap().0;
            }
            drop(gd);
            if pos == "reply_to_closed_peer" {
                drop(std::mem::replace(&mut peer, UnixStream::pair().unwrap().0));
                peer_open = false;
            }
        }
        "after_reply" => {
            for _ in 0..k.max(1) {
                let _ = peer.write_all(&get_features);
                let mut r = [0u8; 20];
                let _ = peer.set_read_timeout(Some(Duration::from_millis(1500)));
                let _ = peer.read_exact(&mut r);
            }
        }
        "peer_closed" => {
            drop(std::mem::replace(&mut peer, UnixStream::pair().unwrap().0));
            peer_open = false;
            std::thread::sleep(Duration::from_millis(30));
        }
        "peer_closed_partial" => {
            let _ = peer.write_all(&set_features[..k.min(19).max(1)]);
            drop(std::mem::replace(&mut peer, UnixStream::pair().unwrap().0));
            peer_open = false;
            std::thread::sleep(Duration::from_millis(30));
        }
        "peer_halfclose" => {
            // the peer sends the first k bytes of a request (none for k = 0), closes only its sending side and keeps
            // reading: the daemon stops serving, and the peer must then observe end-of-stream without anybody calling wait()
            if k > 0 {
                let _ = peer.write_all(&set_features[..k.min(19)]);
            }
            let _ = peer.shutdown(std::net::Shutdown::Write);
            std::thread::sleep(Duration::from_millis(30));
        }
        "reply_blocked" => {
            // the peer sends requests and never reads: the daemon thread ends up blocked in the middle of writing a reply
            let _ = peer.set_nonblocking(true);
            let mut last = Instant::now();
            let t0 = Instant::now();
            while last.elapsed() < Duration::from_millis(250 + 50 * k as u64) && t0.elapsed() < Duration::from_secs(5) {
                match peer.write(&get_features) {
                    Ok(n) if n > 0 => last = Instant::now(),
                    _ => std::thread::sleep(Duration::from_millis(5)),
                }
            }
            let _ = peer.set_nonblocking(false);
        }
        "invalid_request" => {
            // a header the server rejects: unknown request code / oversized body
            let bad = if k % 2 == 0 { hdr(0, 1, 0) } else { hdr(2, 1, 0x2000) };
            let _ = peer.write_all(&bad);
            std::thread::sleep(Duration::from_millis(30));
        }
        _ => return Val::err("position"),
    }
    let release = |gate: &Arc<(Mutex<Gate>, Condvar)>| {
        let (m, c) = &**gate;
        m.lock().unwrap().closed = false;
        c.notify_all();
    };
    if gated && (release_first || !shutdown) {
        release(&gate);
    }
    if shutdown {
        let handle = match daemon.shutdown_handle() {
            Some(h) => h,
            None => return Val::err("no-handle"),
        };
        let barrier = Arc::new(std::sync::Barrier::new(callers));
        let hs: Vec<_> = (0..callers)
            .map(|_| {
                let (h, b) = (handle.clone(), barrier.clone());
                std::thread::spawn(move || {
                    b.wait();
                    for _ in 0..repeats {
                        h.shutdown();
                    }
                })
            })
            .collect();
        for h in hs {
            let _ = h.join();
        }
        if k % 2 == 1 {
            daemon.request_shutdown();
        }
    }
    if gated && !(release_first || !shutdown) {
        // the handler is released only after the shutdown request completed
        let g2 = gate.clone();
        std::thread::spawn(move || {
            std::thread::sleep(Duration::from_millis(20));
            let (m, c) = &*g2;
            m.lock().unwrap().closed = false;
            c.notify_all();
        });
    }
    // when the daemon stops serving on its own (request error), the peer must see end-of-stream even before
    // anybody calls wait(): the daemon object still holds a clone of the connection at that point
    let early_peer = if !shutdown && peer_open { Some(peer_read_to_eof(&mut peer)) } else { None };
    let t0 = Instant::now();
    let (wres, back) = timed_wait(daemon);
    let bounded = t0.elapsed() < Duration::from_millis(2000);
    let peer_obs = match early_peer {
        Some(p) => p,
        None => {
            if peer_open {
                peer_read_to_eof(&mut peer)
            } else {
                "closed"
            }
        }
    };
    let mut daemon = match back {
        Some(d) => d,
        None => return Val::L(vec![Val::s(&wres), Val::N(bounded as u128), Val::s(peer_obs), Val::s("n/a"), Val::N(99)]),
    };
    // a second wait is harmless
    let again = classify(daemon.wait());
    // the daemon accepts a new connection and serves it
    let restart = match connect_daemon(&mut daemon, "b") {
        Some(mut s2) => {
            let _ = s2.write_all(&get_features);
            let mut r = [0u8; 20];
            let _ = s2.set_read_timeout(Some(Duration::from_millis(1500)));
            let ok = s2.read_exact(&mut r).is_ok() && r[0] == 1 && r[4] & 4 == 4;
            daemon.request_shutdown();
            let (w2, back2) = timed_wait(daemon);
            match back2 {
                Some(d2) => {
                    daemon = d2;
                    if ok && w2 == "ok" {
                        "ok".to_string()
                    } else {
                        format!("served={} wait={}", ok, w2)
                    }
                }
                None => return Val::L(vec![Val::s(&wres), Val::N(bounded as u128), Val::s(peer_obs), Val::s("restart-wait-timeout"), Val::N(99)]),
            }
        }
        None => "no-connection".to_string(),
    };
    drop(daemon);
    let left = if exits { wait_workers_gone(1500) } else { 0 };
    Val::L(vec![Val::s(&format!("{}/{}", wres, again)), Val::N(bounded as u128), Val::s(peer_obs), Val::s(&restart), Val::N(left as u128)])
}

fn run_serve(pos: &str, k: usize, backend: Arc<Mutex<Sb>>, mem: GM, exits: bool) -> Val {
    let mut daemon = match VhostUserDaemon::new("vv-serve".to_string(), backend, mem) {
        Ok(d) => d,
        Err(_) => return Val::err("daemon-new"),
    };
    let path = tmp_path("s");
    let p2 = path.clone();
    let (tx, rx) = channel();
    std::thread::spawn(move || {
        let r = daemon.serve(&p2);
        let _ = tx.send((classify(r), daemon));
    });
    // connect once the socket exists
    let t0 = Instant::now();
    let mut peer = loop {
        match UnixStream::connect(&path) {
            Ok(s) => break s,
            Err(_) if t0.elapsed() < Duration::from_secs(2) => std::thread::sleep(Duration::from_millis(5)),
            Err(_) => return Val::err("connect"),
        }
    };
    let get_features = hdr(1, 1, 0);
    match pos {
        "serve_clean" => {
            for _ in 0..k {
                let _ = peer.write_all(&get_features);
                let mut r = [0u8; 20];
                let _ = peer.set_read_timeout(Some(Duration::from_millis(1500)));
                let _ = peer.read_exact(&mut r);
            }
        }
        "serve_partial" => {
            let _ = peer.write_all(&get_features[..k.min(11).max(1)]);
        }
        "serve_invalid" => {
            let _ = peer.write_all(&hdr(0, 1, 0));
        }
        _ => return Val::err("position"),
    }
    let peer_obs = if pos == "serve_invalid" {
        peer_read_to_eof(&mut peer)
    } else {
        drop(peer);
        "closed"
    };
    let (res, daemon) = match rx.recv_timeout(Duration::from_millis(2500)) {
        Ok(x) => x,
        Err(_) => return Val::L(vec![Val::s("timeout"), Val::N(0), Val::s(peer_obs), Val::s("n/a"), Val::N(99)]),
    };
    // serve() raises every worker's exit event whatever the result: the workers end while the daemon still exists
    let left = if exits { wait_workers_gone(1500) } else { 0 };
    drop(daemon);
    let _ = std::fs::remove_file(&path);
    Val::L(vec![Val::s(&res), Val::N(1), Val::s(peer_obs), Val::s("n/a"), Val::N(left as u128)])
}
