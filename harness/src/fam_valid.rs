// family "valid": real `is_valid()` on values built from raw bytes.
use crate::val::Val;
use vhost::vhost_user::gpu_message::*;
use vhost::vhost_user::message::*;
use vhost::vhost_user::verif_hooks;
use vm_memory::ByteValued;

fn chk<T: ByteValued + VhostUserMsgValidator + Default>(bytes: &[u8]) -> Val {
    if bytes.len() != std::mem::size_of::<T>() {
        return Val::err("decode");
    }
    let mut t = T::default();
    t.as_mut_slice().copy_from_slice(bytes);
    Val::b(t.is_valid())
}

fn hdr(bytes: &[u8], f: fn(&[u8; 12]) -> bool) -> Val {
    if bytes.len() != 12 {
        return Val::err("decode");
    }
    let mut a = [0u8; 12];
    a.copy_from_slice(bytes);
    Val::b(f(&a))
}

pub fn run(args: &[Val]) -> Val {
    let (ty, bytes) = match args {
        [Val::S(t), Val::H(b)] => (t.as_str(), b.as_slice()),
        _ => return Val::err("args"),
    };
    match ty {
        "VhostUserMsgHeader<FrontendReq>" => hdr(bytes, verif_hooks::frontend_hdr_is_valid),
        "VhostUserMsgHeader<BackendReq>" => hdr(bytes, verif_hooks::backend_hdr_is_valid),
        "VhostUserGpuMsgHeader<GpuBackendReq>" => hdr(bytes, verif_hooks::gpu_hdr_is_valid),
        "VhostUserU64" => chk::<VhostUserU64>(bytes),
        "VhostUserMemory" => chk::<VhostUserMemory>(bytes),
        "VhostUserMemoryRegion" => chk::<VhostUserMemoryRegion>(bytes),
        "VhostUserSingleMemoryRegion" => chk::<VhostUserSingleMemoryRegion>(bytes),
        "VhostUserVringState" => chk::<VhostUserVringState>(bytes),
        "VhostUserVringAddr" => chk::<VhostUserVringAddr>(bytes),
        "VhostUserConfig" => chk::<VhostUserConfig>(bytes),
        "VhostUserInflight" => chk::<VhostUserInflight>(bytes),
        "VhostUserLog" => chk::<VhostUserLog>(bytes),
        "VhostUserSharedMsg" => chk::<VhostUserSharedMsg>(bytes),
        "VhostUserTransferDeviceState" => chk::<VhostUserTransferDeviceState>(bytes),
        "VhostUserMMap" => chk::<VhostUserMMap>(bytes),
        "VhostUserShMemConfig" => chk::<VhostUserShMemConfig>(bytes),
        "VhostUserGpuEdidRequest" => chk::<VhostUserGpuEdidRequest>(bytes),
        "VhostUserGpuScanout" => chk::<VhostUserGpuScanout>(bytes),
        "VhostUserGpuCursorPos" => chk::<VhostUserGpuCursorPos>(bytes),
        _ => Val::err("type"),
    }
}
