// family "kern": every operation of the kernel-vhost, vhost-net, vhost-vsock and vhost-vDPA
// backends on a dummy descriptor, with ioctl (and open of /dev/vhost-*) interposed: the request
// numbers and argument bytes the code hands to the kernel are the observation.
use crate::fam_fe::nums;
use crate::shim;
use crate::val::Val;
use std::fs::File;
use std::io::{Read, Seek, SeekFrom};
use std::os::unix::io::{AsRawFd, FromRawFd};
use vhost::net::VhostNet;
use vhost::vdpa::VhostVdpa;
use vhost::vhost_kern::net::Net;
use vhost::vhost_kern::vdpa::VhostKernVdpa;
use vhost::vhost_kern::vsock::Vsock;
use vhost::vhost_kern::VhostKernFeatures;
use vhost::vsock::VhostVsock;
use vhost::vhost_kern::vhost_binding::{vhost_msg, vhost_msg_v2};
use vhost::{VhostAccess, VhostBackend, VhostIotlbBackend, VhostIotlbMsg, VhostIotlbMsgParser, VhostIotlbType, VhostUserMemoryRegionInfo, VringConfigData};
use vm_memory::{GuestAddress, GuestMemory, GuestMemoryMmap};
use vmm_sys_util::eventfd::EventFd;

fn n(v: u64) -> Val {
    Val::N(v as u128)
}
/// guest memory layouts (C19 quantifies over 1..=3 regions): 0 = two regions, 1 = one, 2 = three
fn layout(k: u64) -> Vec<(u64, usize)> {
    match k {
        1 => vec![(0x10000, 0x20000)],
        2 => vec![(0x0, 0x8000), (0x10000, 0x20000), (0x100000, 0x1000)],
        _ => vec![(0x10000, 0x20000), (0x100000, 0x1000)],
    }
}

fn access(v: u64) -> VhostAccess {
    match v {
        1 => VhostAccess::ReadOnly,
        2 => VhostAccess::WriteOnly,
        3 => VhostAccess::ReadWrite,
        _ => VhostAccess::No,
    }
}
fn iotlb_type(v: u64) -> VhostIotlbType {
    match v {
        1 => VhostIotlbType::Miss,
        2 => VhostIotlbType::Update,
        3 => VhostIotlbType::Invalidate,
        4 => VhostIotlbType::AccessFail,
        5 => VhostIotlbType::BatchBegin,
        6 => VhostIotlbType::BatchEnd,
        _ => VhostIotlbType::Empty,
    }
}
fn parsed(r: vhost::Result<()>, m: &VhostIotlbMsg) -> Val {
    match r {
        Ok(()) => Val::L(vec![
            Val::s("ok"),
            Val::L(vec![n(m.iova), n(m.size), n(m.userspace_addr), n(m.perm as u8 as u64), n(m.msg_type as u8 as u64)]),
        ]),
        Err(vhost::Error::InvalidIotlbMsg) => Val::s("InvalidIotlbMsg"),
        Err(_) => Val::s("err"),
    }
}
/// the bytes of a message as the kernel would hand them over, through the crate's own parser.
/// perm and type bytes outside the enums' ranges are not fed in (the parser trusts the kernel for those).
fn parse_bytes(v2: bool, bytes: &[u8]) -> Val {
    let mut out = VhostIotlbMsg::default();
    if v2 {
        if bytes.len() != std::mem::size_of::<vhost_msg_v2>() {
            return Val::s("size");
        }
        let mut m = vhost_msg_v2::default();
        // SAFETY: plain-old-data structure of exactly this size
        unsafe { std::ptr::copy_nonoverlapping(bytes.as_ptr(), &mut m as *mut vhost_msg_v2 as *mut u8, bytes.len()) };
        let r = m.parse(&mut out);
        parsed(r, &out)
    } else {
        if bytes.len() != std::mem::size_of::<vhost_msg>() {
            return Val::s("size");
        }
        let mut m = vhost_msg::default();
        // SAFETY: plain-old-data structure of exactly this size
        unsafe { std::ptr::copy_nonoverlapping(bytes.as_ptr(), &mut m as *mut vhost_msg as *mut u8, bytes.len()) };
        let r = m.parse(&mut out);
        parsed(r, &out)
    }
}

fn res<T>(r: vhost::Result<T>, f: impl Fn(T) -> Val) -> Val {
    match r {
        Ok(v) => Val::L(vec![Val::s("ok"), f(v)]),
        Err(e) => Val::s(match e {
            vhost::Error::InvalidQueue => "InvalidQueue",
            vhost::Error::InvalidGuestMemory => "InvalidGuestMemory",
            vhost::Error::LogAddress => "LogAddress",
            vhost::Error::DescriptorTableAddress => "DescriptorTableAddress",
            vhost::Error::AvailAddress => "AvailAddress",
            vhost::Error::UsedAddress => "UsedAddress",
            _ => "err",
        }),
    }
}
fn unit(_: ()) -> Val {
    Val::L(vec![])
}

fn common<B: VhostBackend>(b: &B, op: &str, a: &[u64], _data: &[u8], ev: &EventFd) -> Option<Val> {
    let g = |i: usize| *a.get(i).unwrap_or(&0);
    Some(match op {
        "get_features" => res(b.get_features(), n),
        "set_features" => res(b.set_features(g(0)), unit),
        "set_owner" => res(b.set_owner(), unit),
        "reset_owner" => res(b.reset_owner(), unit),
        "set_mem_table" => {
            // a = [count; then per region gpa, size, ua]
            let cnt = g(0) as usize;
            let regs: Vec<VhostUserMemoryRegionInfo> = (0..cnt)
                .map(|i| VhostUserMemoryRegionInfo {
                    guest_phys_addr: g(1).wrapping_add(0x1000 * i as u64),
                    memory_size: g(2).wrapping_add(i as u64),
                    userspace_addr: g(3).wrapping_add(0x2000 * i as u64),
                    mmap_offset: 77,
                    mmap_handle: 5,
                })
                .collect();
            res(b.set_mem_table(&regs), unit)
        }
        "set_log_base" => res(b.set_log_base(g(0), None), unit),
        "set_log_fd" => res(b.set_log_fd(g(0) as i32), unit),
        "set_vring_num" => res(b.set_vring_num(g(0) as usize, g(1) as u16), unit),
        "set_vring_base" => res(b.set_vring_base(g(0) as usize, g(1) as u16), unit),
        "get_vring_base" => res(b.get_vring_base(g(0) as usize), |v| n(v as u64)),
        "set_vring_kick" => res(b.set_vring_kick(g(0) as usize, ev), unit),
        "set_vring_call" => res(b.set_vring_call(g(0) as usize, ev), unit),
        "set_vring_err" => res(b.set_vring_err(g(0) as usize, ev), unit),
        _ => return None,
    })
}

fn cfg(a: &[u64]) -> VringConfigData {
    let g = |i: usize| *a.get(i).unwrap_or(&0);
    // a = [queue; max; size; flags; desc; used; avail; has_log; log]
    VringConfigData {
        queue_max_size: g(1) as u16,
        queue_size: g(2) as u16,
        flags: g(3) as u32,
        desc_table_addr: g(4),
        used_ring_addr: g(5),
        avail_ring_addr: g(6),
        log_addr: if g(7) != 0 { Some(g(8)) } else { None },
    }
}

/// kern: [VS backend; VS op; VL nums; VH data; VN acked_backend_features]
pub fn run(args: &[Val]) -> Val {
    let backend = args.first().and_then(|v| v.as_s()).unwrap_or("").to_string();
    let op = args.get(1).and_then(|v| v.as_s()).unwrap_or("").to_string();
    let a = args.get(2).map(nums).unwrap_or_default();
    let data = args.get(3).and_then(|v| v.as_h()).unwrap_or(&[]).to_vec();
    let acked = args.get(4).and_then(|v| v.as_u64()).unwrap_or(0);
    let g = |i: usize| *a.get(i).unwrap_or(&0);
    let lay = layout(args.get(5).and_then(|v| v.as_u64()).unwrap_or(0));
    let ranges: Vec<(GuestAddress, usize)> = lay.iter().map(|(g, l)| (GuestAddress(*g), *l)).collect();
    let mem = match GuestMemoryMmap::<()>::from_ranges(&ranges) {
        Ok(m) => m,
        Err(_) => return Val::err("mem"),
    };
    let hosts: Vec<(u64, u64, u64)> =
        lay.iter().map(|(g, l)| (mem.get_host_address(GuestAddress(*g)).unwrap() as u64, *g, *l as u64)).collect();
    if op == "parse_iotlb" {
        // no descriptor involved: a[0] = 1 for the v2 layout
        return Val::L(vec![Val::L(vec![]), Val::H(vec![]), parse_bytes(g(0) != 0, &data)]);
    }
    shim::kern_begin();
    let ev = EventFd::new(0).unwrap();
    // descriptor numbers are replaced by a marker in the observation
    let evfd = ev.as_raw_fd() as u32;
    let mut dummy: Option<File> = None;
    let result = match backend.as_str() {
        "vsock" => match Vsock::new(&mem) {
            Err(_) => Val::err("open"),
            Ok(b) => common(&b, &op, &a, &data, &ev).unwrap_or_else(|| match op.as_str() {
                "set_guest_cid" => res(b.set_guest_cid(g(0)), unit),
                "start" => res(b.start(), unit),
                "stop" => res(b.stop(), unit),
                "set_vring_addr" => res(b.set_vring_addr(g(0) as usize, &cfg(&a)), unit),
                _ => Val::s("harness-unknown-op"),
            }),
        },
        "net" => match Net::new(&mem) {
            Err(_) => Val::err("open"),
            Ok(b) => common(&b, &op, &a, &data, &ev).unwrap_or_else(|| match op.as_str() {
                "set_backend" => {
                    if g(1) != 0 {
                        let f = File::open("/dev/null").unwrap();
                        res(b.set_backend(g(0) as usize, Some(&f)), unit)
                    } else {
                        res(b.set_backend(g(0) as usize, None), unit)
                    }
                }
                "set_vring_addr" => res(b.set_vring_addr(g(0) as usize, &cfg(&a)), unit),
                _ => Val::s("harness-unknown-op"),
            }),
        },
        "vdpa" => {
            let fd = unsafe { libc::memfd_create(b"vv-vdpa\0".as_ptr() as *const libc::c_char, libc::MFD_CLOEXEC) };
            shim::kern_add_fd(fd);
            let f = unsafe { File::from_raw_fd(fd) };
            dummy = f.try_clone().ok();
            let mut b = VhostKernVdpa::with(f, &mem, acked);
            match common(&b, &op, &a, &data, &ev) {
                Some(v) => v,
                None => match op.as_str() {
                    "set_vring_addr" => res(b.set_vring_addr(g(0) as usize, &cfg(&a)), unit),
                    "get_device_id" => res(b.get_device_id(), |v| n(v as u64)),
                    "get_status" => res(b.get_status(), |v| n(v as u64)),
                    "set_status" => res(b.set_status(g(0) as u8), unit),
                    "get_config" => {
                        let mut buf = vec![0u8; g(1) as usize];
                        let r = b.get_config(g(0) as u32, &mut buf);
                        res(r, |_| Val::H(buf.clone()))
                    }
                    "set_config" => res(b.set_config(g(0) as u32, &data), unit),
                    "set_vring_enable" => res(b.set_vring_enable(g(0) as usize, g(1) != 0), unit),
                    "get_vring_num" => res(b.get_vring_num(), |v| n(v as u64)),
                    "set_config_call" => res(b.set_config_call(&ev), unit),
                    "get_iova_range" => res(b.get_iova_range(), |r| Val::L(vec![n(r.first), n(r.last)])),
                    "get_config_size" => res(b.get_config_size(), |v| n(v as u64)),
                    "get_vqs_count" => res(b.get_vqs_count(), |v| n(v as u64)),
                    "get_group_num" => res(b.get_group_num(), |v| n(v as u64)),
                    "get_as_num" => res(b.get_as_num(), |v| n(v as u64)),
                    "get_vring_group" => res(b.get_vring_group(g(0) as u32), |v| n(v as u64)),
                    "set_group_asid" => res(b.set_group_asid(g(0) as u32, g(1) as u32), unit),
                    "suspend" => res(b.suspend(), unit),
                    "dma_map" => res(b.dma_map(g(0), g(1), g(2) as *const u8, g(3) != 0), unit),
                    "dma_unmap" => res(b.dma_unmap(g(0), g(1)), unit),
                    "send_iotlb" | "iotlb_roundtrip" => {
                        let m = VhostIotlbMsg { iova: g(0), size: g(1), userspace_addr: g(2), perm: access(g(3)), msg_type: iotlb_type(g(4)) };
                        let r = b.send_iotlb_msg(&m);
                        if op == "iotlb_roundtrip" && r.is_ok() {
                            // what was written, read back and handed to the parser of the same layout
                            let mut w = vec![];
                            if let Some(f) = dummy.as_mut() {
                                let _ = f.seek(SeekFrom::Start(0));
                                let _ = f.read_to_end(&mut w);
                            }
                            // both layouts have the same size: the outer type word says which one was written
                            let v2 = w.len() >= 4 && u32::from_le_bytes([w[0], w[1], w[2], w[3]]) == 2;
                            parse_bytes(v2, &w)
                        } else {
                            res(r, unit)
                        }
                    }
                    "refused_features_iotlb" => {
                        // the kernel refuses the negotiation; then one IOTLB message
                        shim::kern_fail_nr(Some(0x25));
                        let r = b.set_backend_features(g(0));
                        shim::kern_fail_nr(None);
                        let m = VhostIotlbMsg { iova: g(1), size: g(2), userspace_addr: g(3), perm: access(g(4)), msg_type: iotlb_type(g(5)) };
                        let r2 = b.send_iotlb_msg(&m);
                        if r.is_err() && r2.is_ok() {
                            Val::L(vec![Val::s("refused"), n(b.get_backend_features_acked())])
                        } else {
                            Val::s("harness-unexpected")
                        }
                    }
                    "get_backend_features" => res(b.get_backend_features(), n),
                    "set_backend_features" => {
                        let r = b.set_backend_features(g(0));
                        let ackd = b.get_backend_features_acked();
                        res(r, |_| n(ackd))
                    }
                    _ => Val::s("harness-unknown-op"),
                },
            }
        }
        _ => Val::err("backend"),
    };
    let recs = shim::kern_end();
    let is_addr = |req: u64| req & 0xff == 0x11;
    let ioctls: Vec<Val> = recs
        .into_iter()
        .map(|r| {
            let mut arg = r.arg.clone();
            if is_addr(r.req) && backend != "vdpa" && arg.len() == 40 {
                // host addresses back to guest addresses through the harness's own knowledge of the mapping
                for off in [8usize, 16, 24] {
                    let p = u64::from_le_bytes(arg[off..off + 8].try_into().unwrap());
                    let gpa = hosts
                        .iter()
                        .find(|(h, _, l)| p >= *h && p < *h + *l)
                        .map(|(h, g, _)| p - h + g)
                        .unwrap_or(0xdead_0000_0000_0000 | (p & 0xffff));
                    arg[off..off + 8].copy_from_slice(&gpa.to_le_bytes());
                }
            }
            // descriptor numbers are run-dependent: eventfd -> 0xEEEEEEEE, any other non-negative -> 0xDDDDDDDD
            let nr = r.req & 0xff;
            if (0x20..=0x22).contains(&nr) || nr == 0x30 {
                if arg.len() == 8 {
                    let fd = u32::from_le_bytes(arg[4..8].try_into().unwrap());
                    let m: u32 = if fd == evfd { 0xeeee_eeee } else if fd == 0xffff_ffff { fd } else { 0xdddd_dddd };
                    arg[4..8].copy_from_slice(&m.to_le_bytes());
                }
            } else if nr == 0x77 && arg.len() == 4 {
                let fd = u32::from_le_bytes(arg[0..4].try_into().unwrap());
                let m: u32 = if fd == evfd { 0xeeee_eeee } else { 0xdddd_dddd };
                arg.copy_from_slice(&m.to_le_bytes());
            }
            Val::L(vec![n(r.req), Val::H(arg)])
        })
        .collect();
    // what was written to the descriptor (IOTLB messages)
    let mut written = vec![];
    if let Some(mut f) = dummy {
        let _ = f.seek(SeekFrom::Start(0));
        let _ = f.read_to_end(&mut written);
    }
    Val::L(vec![Val::L(ioctls), Val::H(written), result])
}
