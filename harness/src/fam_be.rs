// family "be": the real BackendReqHandler fed a scripted byte stream by a raw peer,
// with a recording application handler whose outcomes are scripted per iteration.
use crate::peer::{self, FdTable};
use crate::shim;
use crate::val::Val;
use std::fs::File;
use std::os::unix::io::{AsRawFd, FromRawFd, IntoRawFd, RawFd};
use std::os::unix::net::UnixStream;
use std::sync::{Arc, Mutex};
use vhost::vhost_user::message::*;
use vhost::vhost_user::{Backend, BackendReqHandler, Error, GpuBackend, Result, VhostUserBackendReqHandlerMut};

pub fn err_name(e: &Error) -> &'static str {
    match e {
        Error::InvalidParam => "InvalidParam",
        Error::InvalidOperation(_) => "InvalidOperation",
        Error::InactiveFeature(_) => "InactiveFeature",
        Error::InactiveOperation(_) => "InactiveOperation",
        Error::InvalidMessage => "InvalidMessage",
        Error::PartialMessage => "PartialMessage",
        Error::Disconnected => "Disconnected",
        Error::OversizedMsg => "OversizedMsg",
        Error::IncorrectFds => "IncorrectFds",
        Error::SocketConnect(_) => "SocketConnect",
        Error::SocketError(_) => "SocketError",
        Error::SocketBroken(_) => "SocketBroken",
        Error::SocketRetry(_) => "SocketRetry",
        Error::BackendInternalError => "BackendInternalError",
        Error::FrontendInternalError => "FrontendInternalError",
        Error::FeatureMismatch => "FeatureMismatch",
        Error::ReqHandlerError(_) => "ReqHandlerError",
        Error::MemFdCreateError => "MemFdCreateError",
        Error::FileTruncateError => "FileTruncateError",
        Error::MemFdSealError => "MemFdSealError",
    }
}

pub struct Rec {
    pub features: u64,
    pub pfeatures: u64,
    pub outcome: u64,
    /// when set, calls are neither logged nor failed (used for synchronisation round trips)
    pub quiet: bool,
    /// when set, the next GET_VRING_BASE of ring 0 is the harness's own round trip: it is not logged
    pub skip_sync: bool,
    /// when set, the scripted outcome applies to this handler only (others succeed)
    pub only: Option<String>,
    /// the sending side lives in this process too and still holds its own copy of every descriptor
    pub sender_in_process: bool,
    /// descriptor numbers open before the current step (sender in the same process)
    pub pre_fds: std::collections::HashSet<i32>,
    pub cur: String,
    pub calls: Vec<Val>,
    pub held: Vec<File>,
    pub held_ids: Vec<u64>,
    pub held_other: Vec<Box<dyn std::any::Any + Send>>,
    pub hidden_ids: Vec<u64>,
    pub fdt: Arc<Mutex<FdTable>>,
    pub own: std::collections::HashMap<u64, RawFd>, // handler-created files 1000..
}

fn n(v: u64) -> Val {
    Val::N(v as u128)
}

impl Rec {
    fn oc(&self) -> u64 {
        match &self.only {
            Some(n) if *n != self.cur => 0,
            _ => self.outcome,
        }
    }
    fn call(&mut self, name: &str, mut args: Vec<Val>) {
        self.cur = name.to_string();
        if self.quiet {
            return;
        }
        if self.skip_sync && name == "get_vring_base" && matches!(args.as_slice(), [Val::N(0)]) {
            self.skip_sync = false;
            return;
        }
        let mut v = vec![Val::s(name)];
        v.append(&mut args);
        self.calls.push(Val::L(v));
    }
    /// the failure the scripted outcome stands for: 1, 2 = EINVAL; 3 = an io::Error whose OS code is 0 (what
    /// io::Error::last_os_error() gives when errno happens to be 0); 4 = an error without an OS code
    fn failure(&self) -> Error {
        match self.oc() {
            3 => Error::ReqHandlerError(std::io::Error::from_raw_os_error(0)),
            4 => Error::ReqHandlerError(std::io::Error::other("handler failed")),
            _ => Error::ReqHandlerError(std::io::Error::from_raw_os_error(libc::EINVAL)),
        }
    }
    fn res(&self) -> Result<()> {
        if self.oc() == 0 {
            Ok(())
        } else {
            Err(self.failure())
        }
    }
    fn fail<T>(&self) -> Result<T> {
        Err(self.failure())
    }
    fn keep(&mut self, f: File) -> u64 {
        let id = self.fdt.lock().unwrap().id_of_fd(f.as_raw_fd());
        self.held.push(f);
        self.held_ids.push(id);
        id
    }
    fn keep_opt(&mut self, f: Option<File>) -> Val {
        match f {
            Some(f) => Val::L(vec![n(self.keep(f))]),
            None => Val::L(vec![]),
        }
    }
    fn own_file(&mut self, id: u64) -> File {
        // a duplicate of the handler-owned memfd with the given id
        let fd = *self.own.get(&id).unwrap();
        let d = unsafe { libc::dup(fd) };
        unsafe { File::from_raw_fd(d) }
    }
    /// the descriptor wrapped inside a Backend/GpuBackend: the known inode that is open in the
    /// process but not held by the handler
    fn hidden_id(&mut self) -> Vec<u64> {
        if self.sender_in_process {
            // descriptors that appeared in the process during this step and belong to a known file
            let mut out = vec![];
            if let Ok(rd) = std::fs::read_dir("/proc/self/fd") {
                for e in rd.flatten() {
                    if let Ok(n) = e.file_name().to_string_lossy().parse::<i32>() {
                        if !self.pre_fds.contains(&n) {
                            let id = self.fdt.lock().unwrap().id_of_fd(n);
                            if id != 9999 && !(1000..=1002).contains(&id) && !self.held_ids.contains(&id) {
                                out.push(id);
                            }
                        }
                    }
                }
            }
            out.sort();
            return out;
        }
        let present = self.fdt.lock().unwrap().present();
        let mut held = self.held_ids.clone();
        held.extend_from_slice(&self.hidden_ids);
        let mut out = vec![];
        let mut seen_once: Vec<u64> = vec![];
        for p in present {
            if (1000..=1002).contains(&p) {
                continue;
            }
            if self.sender_in_process && !seen_once.contains(&p) {
                // the first occurrence is the sender's own copy
                seen_once.push(p);
                continue;
            }
            if let Some(pos) = held.iter().position(|h| *h == p) {
                held.remove(pos);
            } else {
                out.push(p);
            }
        }
        self.hidden_ids.extend_from_slice(&out);
        out
    }
}

fn region_val(r: &VhostUserMemoryRegion) -> Val {
    Val::L(vec![n(r.guest_phys_addr), n(r.memory_size), n(r.user_addr), n(r.mmap_offset)])
}

impl VhostUserBackendReqHandlerMut for Rec {
    fn set_owner(&mut self) -> Result<()> {
        self.call("set_owner", vec![]);
        self.res()
    }
    fn reset_owner(&mut self) -> Result<()> {
        self.call("reset_owner", vec![]);
        self.res()
    }
    fn reset_device(&mut self) -> Result<()> {
        self.call("reset_device", vec![]);
        self.res()
    }
    fn get_features(&mut self) -> Result<u64> {
        self.call("get_features", vec![]);
        if self.oc() == 0 {
            Ok(self.features)
        } else {
            self.fail()
        }
    }
    fn set_features(&mut self, features: u64) -> Result<()> {
        self.call("set_features", vec![n(features)]);
        self.res()
    }
    fn set_mem_table(&mut self, ctx: &[VhostUserMemoryRegion], files: Vec<File>) -> Result<()> {
        let regs = ctx.iter().map(region_val).collect();
        let ids: Vec<Val> = files.into_iter().map(|f| n(self.keep(f))).collect();
        self.call("set_mem_table", vec![Val::L(regs), Val::L(ids)]);
        self.res()
    }
    fn set_vring_num(&mut self, index: u32, num: u32) -> Result<()> {
        self.call("set_vring_num", vec![n(index as u64), n(num as u64)]);
        self.res()
    }
    fn set_vring_addr(
        &mut self,
        index: u32,
        flags: VhostUserVringAddrFlags,
        descriptor: u64,
        used: u64,
        available: u64,
        log: u64,
    ) -> Result<()> {
        self.call(
            "set_vring_addr",
            vec![n(index as u64), n(flags.bits() as u64), n(descriptor), n(used), n(available), n(log)],
        );
        self.res()
    }
    fn set_vring_base(&mut self, index: u32, base: u32) -> Result<()> {
        self.call("set_vring_base", vec![n(index as u64), n(base as u64)]);
        self.res()
    }
    fn get_vring_base(&mut self, index: u32) -> Result<VhostUserVringState> {
        self.call("get_vring_base", vec![n(index as u64)]);
        if self.oc() == 0 {
            Ok(VhostUserVringState::new(index, ((index as u64 * 7 + 3) & 0xffff_ffff) as u32))
        } else {
            self.fail()
        }
    }
    fn set_vring_kick(&mut self, index: u8, fd: Option<File>) -> Result<()> {
        let f = self.keep_opt(fd);
        self.call("set_vring_kick", vec![n(index as u64), f]);
        self.res()
    }
    fn set_vring_call(&mut self, index: u8, fd: Option<File>) -> Result<()> {
        let f = self.keep_opt(fd);
        self.call("set_vring_call", vec![n(index as u64), f]);
        self.res()
    }
    fn set_vring_err(&mut self, index: u8, fd: Option<File>) -> Result<()> {
        let f = self.keep_opt(fd);
        self.call("set_vring_err", vec![n(index as u64), f]);
        self.res()
    }
    fn get_protocol_features(&mut self) -> Result<VhostUserProtocolFeatures> {
        self.call("get_protocol_features", vec![]);
        if self.oc() == 0 {
            Ok(VhostUserProtocolFeatures::from_bits_truncate(self.pfeatures))
        } else {
            self.fail()
        }
    }
    fn set_protocol_features(&mut self, features: u64) -> Result<()> {
        self.call("set_protocol_features", vec![n(features)]);
        self.res()
    }
    fn get_queue_num(&mut self) -> Result<u64> {
        self.call("get_queue_num", vec![]);
        if self.oc() == 0 {
            Ok(4660)
        } else {
            self.fail()
        }
    }
    fn set_vring_enable(&mut self, index: u32, enable: bool) -> Result<()> {
        self.call("set_vring_enable", vec![n(index as u64), n(enable as u64)]);
        self.res()
    }
    fn get_config(&mut self, offset: u32, size: u32, flags: VhostUserConfigFlags) -> Result<Vec<u8>> {
        self.call("get_config", vec![n(offset as u64), n(size as u64), n(flags.bits() as u64)]);
        let full: Vec<u8> = (0..size as u64).map(|i| ((offset as u64 + i) % 251) as u8).collect();
        match self.oc() {
            0 => Ok(full),
            2 => Ok(full[..full.len().saturating_sub(1)].to_vec()),
            // wrong length the other way: more bytes than were asked for
            5 => {
                let mut long = full;
                long.push(0xee);
                Ok(long)
            }
            _ => self.fail(),
        }
    }
    fn set_config(&mut self, offset: u32, buf: &[u8], flags: VhostUserConfigFlags) -> Result<()> {
        self.call("set_config", vec![n(offset as u64), Val::H(buf.to_vec()), n(flags.bits() as u64)]);
        self.res()
    }
    fn set_backend_req_fd(&mut self, backend: Backend) {
        let ids = self.hidden_id().into_iter().map(n).collect();
        self.call("set_backend_req_fd", vec![Val::L(ids)]);
        self.held_other.push(Box::new(backend));
    }
    fn set_gpu_socket(&mut self, gpu_backend: GpuBackend) -> Result<()> {
        let ids = self.hidden_id().into_iter().map(n).collect();
        self.call("set_gpu_socket", vec![Val::L(ids)]);
        self.held_other.push(Box::new(gpu_backend));
        self.res()
    }
    fn get_shared_object(&mut self, uuid: VhostUserSharedMsg) -> Result<File> {
        self.call("get_shared_object", vec![Val::H(uuid.uuid.as_bytes().to_vec())]);
        if self.oc() == 0 {
            Ok(self.own_file(1000))
        } else {
            self.fail()
        }
    }
    fn get_inflight_fd(&mut self, inflight: &VhostUserInflight) -> Result<(VhostUserInflight, File)> {
        self.call(
            "get_inflight_fd",
            vec![n(inflight.mmap_size), n(inflight.mmap_offset), n(inflight.num_queues as u64), n(inflight.queue_size as u64)],
        );
        if self.oc() == 0 {
            // a zeroed value, so that padding bytes are deterministic
            let mut r: VhostUserInflight = unsafe { std::mem::zeroed() };
            r.mmap_size = inflight.mmap_size.wrapping_add(1);
            r.mmap_offset = inflight.mmap_offset;
            r.num_queues = inflight.num_queues;
            r.queue_size = inflight.queue_size;
            Ok((r, self.own_file(1001)))
        } else {
            self.fail()
        }
    }
    fn set_inflight_fd(&mut self, inflight: &VhostUserInflight, file: File) -> Result<()> {
        let id = self.keep(file);
        self.call(
            "set_inflight_fd",
            vec![
                n(inflight.mmap_size),
                n(inflight.mmap_offset),
                n(inflight.num_queues as u64),
                n(inflight.queue_size as u64),
                Val::L(vec![n(id)]),
            ],
        );
        self.res()
    }
    fn get_max_mem_slots(&mut self) -> Result<u64> {
        self.call("get_max_mem_slots", vec![]);
        if self.oc() == 0 {
            Ok(509)
        } else {
            self.fail()
        }
    }
    fn add_mem_region(&mut self, region: &VhostUserSingleMemoryRegion, fd: File) -> Result<()> {
        let id = self.keep(fd);
        self.call("add_mem_region", vec![region_val(region), Val::L(vec![n(id)])]);
        self.res()
    }
    fn remove_mem_region(&mut self, region: &VhostUserSingleMemoryRegion) -> Result<()> {
        self.call("remove_mem_region", vec![region_val(region)]);
        self.res()
    }
    fn set_device_state_fd(
        &mut self,
        direction: VhostTransferStateDirection,
        phase: VhostTransferStatePhase,
        fd: File,
    ) -> Result<Option<File>> {
        let id = self.keep(fd);
        self.call("set_device_state_fd", vec![n(direction as u64), n(phase as u64), Val::L(vec![n(id)])]);
        match self.oc() {
            0 => Ok(None),
            2 => Ok(Some(self.own_file(1002))),
            _ => self.fail(),
        }
    }
    fn check_device_state(&mut self) -> Result<()> {
        self.call("check_device_state", vec![]);
        self.res()
    }
    fn get_shmem_config(&mut self) -> Result<VhostUserShMemConfig> {
        self.call("get_shmem_config", vec![]);
        if self.oc() == 0 {
            Ok(VhostUserShMemConfig::new(2, &[4096, 8192]))
        } else {
            self.fail()
        }
    }
    fn set_log_base(&mut self, log: &VhostUserLog, file: File) -> Result<()> {
        let id = self.keep(file);
        self.call("set_log_base", vec![n(log.mmap_size), n(log.mmap_offset), Val::L(vec![n(id)])]);
        self.res()
    }
}

pub fn new_rec(features: u64, pfeatures: u64, fdt: Arc<Mutex<FdTable>>) -> Rec {
    let mut own = std::collections::HashMap::new();
    {
        let mut t = fdt.lock().unwrap();
        for id in [1000u64, 1001, 1002] {
            own.insert(id, t.get(id));
        }
    }
    Rec {
        features,
        pfeatures,
        outcome: 0,
        quiet: false,
        skip_sync: false,
        only: None,
        sender_in_process: false,
        pre_fds: Default::default(),
        cur: String::new(),
        calls: vec![],
        held: vec![],
        held_ids: vec![],
        held_other: vec![],
        hidden_ids: vec![],
        fdt,
        own,
    }
}

pub fn msgs_val(msgs: Vec<(Vec<u8>, Vec<RawFd>)>, fdt: &FdTable) -> Val {
    let mut out = vec![];
    for (bytes, fds) in msgs {
        let ids: Vec<Val> = fds.iter().map(|f| n(fdt.id_of_fd(*f))).collect();
        for f in fds {
            unsafe { libc::close(f) };
        }
        out.push(Val::L(vec![Val::H(bytes), Val::L(ids)]));
    }
    Val::L(out)
}

/// family "bgone": as "be", but the peer stops reading before the server runs, so that every reply fails to be sent
pub fn run_gone(args: &[Val]) -> Val {
    PEER_GONE.with(|g| g.set(true));
    let r = run(args);
    PEER_GONE.with(|g| g.set(false));
    r
}
thread_local! {
    static PEER_GONE: std::cell::Cell<bool> = const { std::cell::Cell::new(false) };
}

pub fn run(args: &[Val]) -> Val {
    let (cfg, outs, msgs) = match args {
        [Val::L(c), Val::L(o), Val::L(m)] => (c, o, m),
        _ => return Val::err("args"),
    };
    let features = cfg[0].as_u64().unwrap_or(0);
    let pfeatures = cfg[1].as_u64().unwrap_or(0);
    let outs: Vec<u64> = outs.iter().map(|v| v.as_u64().unwrap_or(0)).collect();
    let before = peer::count_open_fds();
    let fdt = Arc::new(Mutex::new(FdTable::new()));
    let (a, b) = UnixStream::pair().unwrap();
    let peer_fd = b.as_raw_fd();
    // send every segment up front, then half-close
    let mut seg_sizes = vec![];
    for m in msgs {
        let (bytes, fds) = match m.as_l() {
            Some([Val::H(bs), Val::L(fds)]) => (bs.clone(), fds.clone()),
            _ => return Val::err("msg"),
        };
        if bytes.is_empty() {
            continue;
        }
        let raw: Vec<RawFd> = {
            let mut t = fdt.lock().unwrap();
            fds.iter().map(|f| t.get(f.as_u64().unwrap_or(0))).collect()
        };
        let r = unsafe { peer::send_with_fds(peer_fd, &bytes, &raw) };
        if r != bytes.len() as isize {
            return Val::err("peer-send");
        }
        seg_sizes.push(bytes.len());
    }
    unsafe { libc::shutdown(peer_fd, libc::SHUT_WR) };
    if PEER_GONE.with(|g| g.get()) {
        unsafe { libc::shutdown(peer_fd, libc::SHUT_RD) };
    }
    let rec = Arc::new(Mutex::new(new_rec(features, pfeatures, fdt.clone())));
    // our own copies of the sent descriptors go away now: what stays open is the receiver's
    {
        let mut t = fdt.lock().unwrap();
        let keep: Vec<u64> = vec![1000, 1001, 1002];
        for (id, (fd, _)) in t.by_id.iter_mut() {
            if !keep.contains(id) && *fd >= 0 {
                unsafe { libc::close(*fd) };
                *fd = -1;
            }
        }
    }
    let srv_fd = a.as_raw_fd();
    shim::register(srv_fd, &seg_sizes);
    let mut srv = BackendReqHandler::from_stream(a, rec.clone());
    let mut results = vec![];
    let mut it = 0usize;
    loop {
        rec.lock().unwrap().outcome = *outs.get(it).unwrap_or(&0);
        it += 1;
        let r = srv.handle_request();
        match &r {
            Ok(()) => results.push(Val::s("ok")),
            Err(e) => results.push(Val::s(err_name(e))),
        }
        if let Err(e) = &r {
            if matches!(e, Error::Disconnected | Error::PartialMessage | Error::SocketBroken(_) | Error::SocketError(_)) {
                break;
            }
        }
        if it > seg_sizes.iter().sum::<usize>() + seg_sizes.len() + 2 {
            results.push(Val::s("harness-loop-cap"));
            break;
        }
    }
    shim::unregister(srv_fd);
    let replies = unsafe { peer::drain_messages(peer_fd) };
    let sent = msgs_val(replies, &fdt.lock().unwrap());
    let calls = std::mem::take(&mut rec.lock().unwrap().calls);
    // teardown: drop the server, the handler state and the peer socket; nothing may stay open
    drop(srv);
    {
        let mut r = rec.lock().unwrap();
        r.held.clear();
        r.held_other.clear();
        r.held_ids.clear();
        r.hidden_ids.clear();
    }
    drop(b);
    let still: Vec<u64> = fdt.lock().unwrap().present().into_iter().filter(|i| *i < 1000).collect();
    {
        let mut t = fdt.lock().unwrap();
        t.close_ours();
    }
    drop(rec);
    let after = peer::count_open_fds();
    let leaked = still.len() as u64 + (after as i64 - before as i64).max(0) as u64;
    Val::L(vec![Val::L(results), Val::L(calls), sent, n(leaked)])
}
