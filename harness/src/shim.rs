// Interposed system calls.  Defining these symbols in the executable makes the
// crates' libc calls resolve here; unscripted descriptors pass straight through.
use std::collections::{HashMap, VecDeque};
use std::sync::Mutex;

pub struct FdScript {
    /// remaining sizes of the peer's segments: a recvmsg never crosses a boundary
    pub rx_segments: VecDeque<usize>,
    /// explicit per-call caps (applied on top of the segment rule), if any
    pub rx_caps: VecDeque<usize>,
    /// per-call caps for sendmsg (partial writes), if any
    pub tx_caps: VecDeque<usize>,
    pub recv_calls: usize,
    pub send_calls: usize,
    /// when the scripted segments are used up, recvmsg reports end-of-stream instead of blocking
    pub rx_eof: bool,
}


static REG: Mutex<Option<HashMap<i32, FdScript>>> = Mutex::new(None);

pub fn register(fd: i32, segs: &[usize]) {
    let mut g = REG.lock().unwrap();
    let m = g.get_or_insert_with(HashMap::new);
    m.insert(
        fd,
        FdScript {
            rx_segments: segs.iter().cloned().filter(|s| *s > 0).collect(),
            rx_caps: VecDeque::new(),
            tx_caps: VecDeque::new(),
            recv_calls: 0,
            send_calls: 0,
            rx_eof: false,
        },
    );
}
pub fn set_rx_caps(fd: i32, caps: &[usize]) {
    let mut g = REG.lock().unwrap();
    if let Some(s) = g.as_mut().and_then(|m| m.get_mut(&fd)) {
        s.rx_caps = caps.iter().cloned().collect();
    }
}
pub fn set_tx_caps(fd: i32, caps: &[usize]) {
    let mut g = REG.lock().unwrap();
    let m = g.get_or_insert_with(HashMap::new);
    let e = m.entry(fd).or_insert(FdScript {
        rx_segments: VecDeque::new(),
        rx_caps: VecDeque::new(),
        tx_caps: VecDeque::new(),
        recv_calls: 0,
        send_calls: 0,
        rx_eof: false,
    });
    e.tx_caps = caps.iter().cloned().collect();
}
pub fn set_rx_eof(fd: i32, v: bool) {
    let mut g = REG.lock().unwrap();
    if let Some(s) = g.as_mut().and_then(|m| m.get_mut(&fd)) {
        s.rx_eof = v;
    }
}
pub fn unregister(fd: i32) -> Option<(usize, usize)> {
    let mut g = REG.lock().unwrap();
    g.as_mut().and_then(|m| m.remove(&fd)).map(|s| (s.recv_calls, s.send_calls))
}

unsafe fn shorten(iov: *const libc::iovec, n: usize, cap: usize) -> Vec<libc::iovec> {
    let mut out = Vec::with_capacity(n);
    let mut left = cap;
    for i in 0..n {
        let v = *iov.add(i);
        if left == 0 {
            break;
        }
        let l = v.iov_len.min(left);
        out.push(libc::iovec { iov_base: v.iov_base, iov_len: l });
        left -= l;
    }
    out
}

#[no_mangle]
pub unsafe extern "C" fn recvmsg(fd: libc::c_int, msg: *mut libc::msghdr, flags: libc::c_int) -> libc::ssize_t {
    let cap: Option<usize> = {
        let mut g = REG.lock().unwrap();
        match g.as_mut().and_then(|m| m.get_mut(&fd)) {
            Some(s) => {
                s.recv_calls += 1;
                if s.rx_segments.is_empty() && s.rx_eof {
                    (*msg).msg_controllen = 0;
                    (*msg).msg_flags = 0;
                    return 0;
                }
                let mut c = s.rx_segments.front().cloned();
                if let Some(k) = s.rx_caps.pop_front() {
                    c = Some(c.map(|x| x.min(k)).unwrap_or(k));
                }
                c
            }
            None => None,
        }
    };
    match cap {
        None => libc::syscall(libc::SYS_recvmsg, fd, msg, flags) as libc::ssize_t,
        Some(cap) => {
            let mut m2 = *msg;
            let iov = shorten((*msg).msg_iov, (*msg).msg_iovlen as usize, cap.max(1));
            m2.msg_iov = iov.as_ptr() as *mut libc::iovec;
            m2.msg_iovlen = iov.len() as _;
            let r = libc::syscall(libc::SYS_recvmsg, fd, &mut m2 as *mut libc::msghdr, flags) as libc::ssize_t;
            (*msg).msg_flags = m2.msg_flags;
            (*msg).msg_controllen = m2.msg_controllen;
            (*msg).msg_namelen = m2.msg_namelen;
            if r > 0 {
                let mut g = REG.lock().unwrap();
                if let Some(s) = g.as_mut().and_then(|m| m.get_mut(&fd)) {
                    let mut left = r as usize;
                    while left > 0 {
                        match s.rx_segments.front_mut() {
                            Some(f) => {
                                if *f > left {
                                    *f -= left;
                                    left = 0;
                                } else {
                                    left -= *f;
                                    s.rx_segments.pop_front();
                                }
                            }
                            None => break,
                        }
                    }
                }
            }
            r
        }
    }
}

#[no_mangle]
pub unsafe extern "C" fn sendmsg(fd: libc::c_int, msg: *const libc::msghdr, flags: libc::c_int) -> libc::ssize_t {
    let cap: Option<usize> = {
        let mut g = REG.lock().unwrap();
        match g.as_mut().and_then(|m| m.get_mut(&fd)) {
            Some(s) => {
                s.send_calls += 1;
                s.tx_caps.pop_front()
            }
            None => None,
        }
    };
    match cap {
        None => libc::syscall(libc::SYS_sendmsg, fd, msg, flags) as libc::ssize_t,
        Some(0) => {
            *libc::__errno_location() = libc::EAGAIN;
            -1
        }
        Some(cap) => {
            let mut m2 = *msg;
            let iov = shorten((*msg).msg_iov, (*msg).msg_iovlen as usize, cap);
            m2.msg_iov = iov.as_ptr() as *mut libc::iovec;
            m2.msg_iovlen = iov.len() as _;
            libc::syscall(libc::SYS_sendmsg, fd, &m2 as *const libc::msghdr, flags) as libc::ssize_t
        }
    }
}

// ---------------------------------------------------------------- ioctl / open interposition (family "kern")
pub struct IoctlRec {
    pub req: u64,
    pub arg: Vec<u8>,
}
static KERN: Mutex<Option<(Vec<i32>, Vec<IoctlRec>)>> = Mutex::new(None);

/// start capturing: `open64` of /dev/vhost-* returns a memfd, ioctls on such descriptors are recorded and answered
pub fn kern_begin() {
    *KERN.lock().unwrap() = Some((vec![], vec![]));
}
pub fn kern_add_fd(fd: i32) {
    if let Some((fds, _)) = KERN.lock().unwrap().as_mut() {
        fds.push(fd);
    }
}
/// the next ioctls with this request number are refused by "the kernel" (recorded, answered -1 / ENOTTY)
static KERN_FAIL_NR: std::sync::atomic::AtomicU64 = std::sync::atomic::AtomicU64::new(u64::MAX);
pub fn kern_fail_nr(nr: Option<u64>) {
    KERN_FAIL_NR.store(nr.unwrap_or(u64::MAX), std::sync::atomic::Ordering::SeqCst);
}
pub fn kern_end() -> Vec<IoctlRec> {
    KERN.lock().unwrap().take().map(|x| x.1).unwrap_or_default()
}

#[no_mangle]
pub unsafe extern "C" fn open64(path: *const libc::c_char, flags: libc::c_int, mode: libc::mode_t) -> libc::c_int {
    let p = std::ffi::CStr::from_ptr(path).to_bytes();
    if p.starts_with(b"/dev/vhost") {
        let mut g = KERN.lock().unwrap();
        if let Some((fds, _)) = g.as_mut() {
            let fd = libc::memfd_create(b"vv-kern\0".as_ptr() as *const libc::c_char, libc::MFD_CLOEXEC);
            fds.push(fd);
            return fd;
        }
    }
    libc::syscall(libc::SYS_openat, libc::AT_FDCWD, path, flags | libc::O_LARGEFILE, mode as libc::c_uint) as libc::c_int
}

#[no_mangle]
pub unsafe extern "C" fn ioctl(fd: libc::c_int, req: libc::c_ulong, arg: *mut libc::c_void) -> libc::c_int {
    let ours = KERN.lock().unwrap().as_ref().map(|(fds, _)| fds.contains(&fd)).unwrap_or(false);
    if !ours {
        return libc::syscall(libc::SYS_ioctl, fd, req, arg) as libc::c_int;
    }
    let req = req as u64 & 0xffff_ffff;
    let dir = (req >> 30) & 3;
    let mut size = ((req >> 16) & 0x3fff) as usize;
    let nr = req & 0xff;
    let p = arg as *mut u8;
    let mut bytes = vec![];
    if !p.is_null() && size > 0 {
        // structures ending in a flexible array: the header says how much follows
        let head = std::slice::from_raw_parts(p, size);
        if nr == 0x03 && size == 8 {
            let n = u32::from_le_bytes([head[0], head[1], head[2], head[3]]) as usize;
            size += n.min(4096) * 32;
        } else if (nr == 0x73 || nr == 0x74) && size == 8 {
            let n = u32::from_le_bytes([head[4], head[5], head[6], head[7]]) as usize;
            size += n.min(65536);
        }
        bytes = std::slice::from_raw_parts(p, size).to_vec();
        // what "the kernel" writes back: a recognisable pattern
        if dir & 2 != 0 {
            let out = std::slice::from_raw_parts_mut(p, size);
            let keep = if dir == 3 { 4 } else if nr == 0x73 { 8 } else { 0 };
            for (i, b) in out.iter_mut().enumerate().skip(keep) {
                *b = 0xa0u8.wrapping_add(i as u8).wrapping_add(nr as u8);
            }
        }
    }
    if let Some((_, recs)) = KERN.lock().unwrap().as_mut() {
        recs.push(IoctlRec { req, arg: bytes });
    }
    if KERN_FAIL_NR.load(std::sync::atomic::Ordering::SeqCst) == nr {
        *libc::__errno_location() = libc::ENOTTY;
        return -1;
    }
    0
}
