// Interposed system calls.  Defining these symbols in the executable makes the
// crates' libc calls resolve here; unscripted descriptors pass straight through.
use std::collections::{HashMap, VecDeque};
use std::sync::Mutex;

pub struct FdScript {
    /// remaining sizes of the peer's segments: a recvmsg never crosses a boundary
    pub rx_segments: VecDeque<usize>,
    /// explicit per-call caps (applied on top of the segment rule), if any
    pub rx_caps: VecDeque<usize>,
    /// per-call caps for sendmsg (partial writes), if any
    pub tx_caps: VecDeque<usize>,
    pub recv_calls: usize,
    pub send_calls: usize,
    /// when the scripted segments are used up, recvmsg reports end-of-stream instead of blocking
    pub rx_eof: bool,
}


static REG: Mutex<Option<HashMap<i32, FdScript>>> = Mutex::new(None);

pub fn register(fd: i32, segs: &[usize]) {
    let mut g = REG.lock().unwrap();
    let m = g.get_or_insert_with(HashMap::new);
    m.insert(
        fd,
        FdScript {
            rx_segments: segs.iter().cloned().filter(|s| *s > 0).collect(),
            rx_caps: VecDeque::new(),
            tx_caps: VecDeque::new(),
            recv_calls: 0,
            send_calls: 0,
            rx_eof: false,
        },
    );
}
pub fn set_rx_caps(fd: i32, caps: &[usize]) {
    let mut g = REG.lock().unwrap();
    if let Some(s) = g.as_mut().and_then(|m| m.get_mut(&fd)) {
        s.rx_caps = caps.iter().cloned().collect();
    }
}
pub fn set_tx_caps(fd: i32, caps: &[usize]) {
    let mut g = REG.lock().unwrap();
    let m = g.get_or_insert_with(HashMap::new);
    let e = m.entry(fd).or_insert(FdScript {
        rx_segments: VecDeque::new(),
        rx_caps: VecDeque::new(),
        tx_caps: VecDeque::new(),
        recv_calls: 0,
        send_calls: 0,
        rx_eof: false,
    });
    e.tx_caps = caps.iter().cloned().collect();
}
pub fn set_rx_eof(fd: i32, v: bool) {
    let mut g = REG.lock().unwrap();
    if let Some(s) = g.as_mut().and_then(|m| m.get_mut(&fd)) {
        s.rx_eof = v;
    }
}
pub fn unregister(fd: i32) -> Option<(usize, usize)> {
    let mut g = REG.lock().unwrap();
    g.as_mut().and_then(|m| m.remove(&fd)).map(|s| (s.recv_calls, s.send_calls))
}

unsafe fn shorten(iov: *const libc::iovec, n: usize, cap: usize) -> Vec<libc::iovec> {
    let mut out = Vec::with_capacity(n);
    let mut left = cap;
    for i in 0..n {
        let v = *iov.add(i);
        if left == 0 {
            break;
        }
        let l = v.iov_len.min(left);
        out.push(libc::iovec { iov_base: v.iov_base, iov_len: l });
        left -= l;
    }
    out
}

#[no_mangle]
pub unsafe extern "C" fn recvmsg(fd: libc::c_int, msg: *mut libc::msghdr, flags: libc::c_int) -> libc::ssize_t {
    let cap: Option<usize> = {
        let mut g = REG.lock().unwrap();
        match g.as_mut().and_then(|m| m.get_mut(&fd)) {
            Some(s) => {
                s.recv_calls += 1;
                if s.rx_segments.is_empty() && s.rx_eof {
                    (*msg).msg_controllen = 0;
                    (*msg).msg_flags = 0;
                    return 0;
                }
                let mut c = s.rx_segments.front().cloned();
                if let Some(k) = s.rx_caps.pop_front() {
                    c = Some(c.map(|x| x.min(k)).unwrap_or(k));
                }
                c
            }
            None => None,
        }
    };
    match cap {
        None => libc::syscall(libc::SYS_recvmsg, fd, msg, flags) as libc::ssize_t,
        Some(cap) => {
            let mut m2 = *msg;
            let iov = shorten((*msg).msg_iov, (*msg).msg_iovlen as usize, cap.max(1));
            m2.msg_iov = iov.as_ptr() as *mut libc::iovec;
            m2.msg_iovlen = iov.len() as _;
            let r = libc::syscall(libc::SYS_recvmsg, fd, &mut m2 as *mut libc::msghdr, flags) as libc::ssize_t;
            (*msg).msg_flags = m2.msg_flags;
            (*msg).msg_controllen = m2.msg_controllen;
            (*msg).msg_namelen = m2.msg_namelen;
            if r > 0 {
                let mut g = REG.lock().unwrap();
                if let Some(s) = g.as_mut().and_then(|m| m.get_mut(&fd)) {
                    let mut left = r as usize;
                    while left > 0 {
                        match s.rx_segments.front_mut() {
                            Some(f) => {
                                if *f > left {
                                    *f -= left;
                                    left = 0;
                                } else {
                                    left -= *f;
                                    s.rx_segments.pop_front();
                                }
                            }
                            None => break,
                        }
                    }
                }
            }
            r
        }
    }
}

#[no_mangle]
pub unsafe extern "C" fn sendmsg(fd: libc::c_int, msg: *const libc::msghdr, flags: libc::c_int) -> libc::ssize_t {
    let cap: Option<usize> = {
        let mut g = REG.lock().unwrap();
        match g.as_mut().and_then(|m| m.get_mut(&fd)) {
            Some(s) => {
                s.send_calls += 1;
                s.tx_caps.pop_front()
            }
            None => None,
        }
    };
    match cap {
        None => libc::syscall(libc::SYS_sendmsg, fd, msg, flags) as libc::ssize_t,
        Some(0) => {
            *libc::__errno_location() = libc::EAGAIN;
            -1
        }
        Some(cap) => {
            let mut m2 = *msg;
            let iov = shorten((*msg).msg_iov, (*msg).msg_iovlen as usize, cap);
            m2.msg_iov = iov.as_ptr() as *mut libc::iovec;
            m2.msg_iovlen = iov.len() as _;
            libc::syscall(libc::SYS_sendmsg, fd, &m2 as *const libc::msghdr, flags) as libc::ssize_t
        }
    }
}
