// family "race": forced interleavings of a ring worker with the control path (C12).  One ring,
// one worker.  A program of tokens drives the schedule through the hold points compiled in with
// cfg(vhost_verif): worker:after_epoll, worker:after_read, ctl:after_state, ctl:after_epoll.
// The observation is the ordered log of dispatches (handle_event entries for the ring) and control
// replies, and the kick counter left at the end.
use crate::val::Val;
use std::os::unix::io::AsRawFd;
use std::os::unix::net::UnixStream;
use std::sync::{Arc, Mutex};
use std::time::Duration;
use vhost::vhost_user::message::*;
use vhost::vhost_user::verif_hooks::hold;
use vhost::vhost_user::{Frontend, Listener, VhostUserFrontend};
use vhost::VhostBackend;
use vhost_user_backend::{VhostUserBackendMut, VhostUserDaemon, VringMutex};
use vm_memory::{GuestMemoryAtomic, GuestMemoryMmap};
use vmm_sys_util::epoll::EventSet;
use vmm_sys_util::event::{new_event_consumer_and_notifier, EventConsumer, EventFlag, EventNotifier};
use vmm_sys_util::eventfd::EventFd;

type GM = GuestMemoryAtomic<GuestMemoryMmap<()>>;
const PROBE: u16 = 60000;

struct Rb {
    log: Arc<Mutex<Vec<String>>>,
    probe: Arc<Mutex<Option<EventFd>>>,
    done: Arc<Mutex<Option<std::sync::mpsc::Sender<()>>>>,
}

impl VhostUserBackendMut for Rb {
    type Bitmap = ();
    type Vring = VringMutex<GM>;
    fn num_queues(&self) -> usize {
        1
    }
    fn max_queue_size(&self) -> usize {
        64
    }
    fn features(&self) -> u64 {
        (1 << 30) | 1
    }
    fn protocol_features(&self) -> VhostUserProtocolFeatures {
        VhostUserProtocolFeatures::all()
    }
    fn set_event_idx(&mut self, _e: bool) {}
    fn update_memory(&mut self, _m: GM) -> std::io::Result<()> {
        Ok(())
    }
    fn exit_event(&self, _t: usize) -> Option<(EventConsumer, EventNotifier)> {
        new_event_consumer_and_notifier(EventFlag::NONBLOCK).ok()
    }
    fn handle_event(&mut self, d: u16, _e: EventSet, _v: &[VringMutex<GM>], _t: usize) -> std::io::Result<()> {
        if d == PROBE {
            if let Some(p) = self.probe.lock().unwrap().as_ref() {
                let _ = p.read();
            }
            if let Some(tx) = self.done.lock().unwrap().as_ref() {
                let _ = tx.send(());
            }
        } else if d == 0 {
            self.log.lock().unwrap().push("dispatch".into());
        }
        Ok(())
    }
}

/// race: [VL tokens]; token = VL [VS verb; VS arg]
pub fn run(args: &[Val]) -> Val {
    let toks: Vec<(String, String)> = match args.first().and_then(|v| v.as_l()) {
        Some(l) => l
            .iter()
            .filter_map(|t| match t.as_l() {
                Some([a, b]) => Some((a.as_s()?.to_string(), b.as_s()?.to_string())),
                _ => None,
            })
            .collect(),
        None => return Val::err("args"),
    };
    hold::reset();
    let log = Arc::new(Mutex::new(vec![]));
    let probe_slot = Arc::new(Mutex::new(None));
    let done_slot = Arc::new(Mutex::new(None));
    let backend = Arc::new(Mutex::new(Rb { log: log.clone(), probe: probe_slot.clone(), done: done_slot.clone() }));
    let mem: GM = GuestMemoryAtomic::new(GuestMemoryMmap::new());
    let mut daemon = match VhostUserDaemon::new("vv-race".to_string(), backend, mem) {
        Ok(d) => d,
        Err(_) => return Val::err("daemon-new"),
    };
    let probe = EventFd::new(libc::EFD_NONBLOCK).unwrap();
    *probe_slot.lock().unwrap() = Some(probe.try_clone().unwrap());
    let (tx, rx) = std::sync::mpsc::channel();
    *done_slot.lock().unwrap() = Some(tx);
    {
        let hs = daemon.get_epoll_handlers();
        if hs[0].register_listener(probe.as_raw_fd(), EventSet::IN, PROBE as u64).is_err() {
            return Val::err("probe");
        }
    }
    let dir = std::env::temp_dir().join(format!("vv-race-{}-{:?}", std::process::id(), std::thread::current().id()));
    let _ = std::fs::create_dir_all(&dir);
    let path = dir.join("s");
    let _ = std::fs::remove_file(&path);
    let mut listener = match Listener::new(&path, true) {
        Ok(l) => l,
        Err(_) => return Val::err("listener"),
    };
    let p2 = path.clone();
    let connector = std::thread::spawn(move || UnixStream::connect(&p2));
    if daemon.start(&mut listener).is_err() {
        return Val::err("start");
    }
    let sock = match connector.join() {
        Ok(Ok(s)) => s,
        _ => return Val::err("connect"),
    };
    let mut fe = Frontend::from_stream(sock, 1);
    let kick = EventFd::new(libc::EFD_NONBLOCK).unwrap();
    let setup = (|| -> vhost::Result<()> {
        fe.set_owner()?;
        let f = fe.get_features()?;
        fe.set_features(f)?;
        let _ = fe.get_protocol_features()?;
        fe.set_protocol_features(VhostUserProtocolFeatures::REPLY_ACK | VhostUserProtocolFeatures::RESET_DEVICE)?;
        fe.set_hdr_flags(VhostUserHeaderFlag::NEED_REPLY);
        fe.set_vring_kick(0, &kick)?;
        fe.set_vring_enable(0, true)?;
        Ok(())
    })();
    if setup.is_err() {
        return Val::err("setup");
    }
    let mut ctl: Option<(String, std::thread::JoinHandle<bool>)> = None;
    let mut armed: std::collections::HashSet<String> = std::collections::HashSet::new();
    let settle = |probe: &EventFd, rx: &std::sync::mpsc::Receiver<()>| -> bool {
        while rx.try_recv().is_ok() {}
        let _ = probe.write(1);
        rx.recv_timeout(Duration::from_millis(400)).is_ok()
    };
    for (verb, arg) in &toks {
        match verb.as_str() {
            "kick" => {
                log.lock().unwrap().push("kick".into());
                let _ = kick.write(1);
                std::thread::sleep(Duration::from_millis(2));
            }
            "arm" => {
                armed.insert(arg.clone());
                hold::arm(arg)
            }
            "wait" => {
                let h = hold::wait_held(arg, Duration::from_millis(300));
                log.lock().unwrap().push(format!("{}:{}", if h { "held" } else { "not-held" }, arg));
            }
            "release" => {
                armed.remove(arg);
                hold::release(arg);
                std::thread::sleep(Duration::from_millis(3));
            }
            "ctl" => {
                log.lock().unwrap().push(format!("ctl:{}", arg));
                let mut f2 = fe.clone();
                let name = arg.clone();
                let k2 = kick.try_clone().unwrap();
                let h = std::thread::spawn(move || match name.as_str() {
                    "disable" => f2.set_vring_enable(0, false).is_ok(),
                    "enable" => f2.set_vring_enable(0, true).is_ok(),
                    // after RESET_DEVICE the features have to be acknowledged again before a ring can be enabled
                    "reenable" => f2.get_features().and_then(|f| f2.set_features(f)).is_ok() && f2.set_vring_enable(0, true).is_ok(),
                    "stop" => f2.get_vring_base(0).is_ok(),
                    "restart" => f2.set_vring_kick(0, &k2).is_ok(),
                    "reset" => f2.reset_device().is_ok(),
                    _ => false,
                });
                ctl = Some((arg.clone(), h));
            }
            "join" => {
                if let Some((name, h)) = ctl.take() {
                    let ok = h.join().unwrap_or(false);
                    // a dispatch the message made due (an enabling message with a kick pending) runs on the worker
                    // thread concurrently with this one: let the worker finish it before the reply is logged, as
                    // the model's "everything free runs" does; not when the worker is parked at a hold point
                    if !armed.iter().any(|a| a.starts_with("worker:")) {
                        let _ = settle(&probe, &rx);
                    }
                    log.lock().unwrap().push(format!("reply:{}:{}", name, if ok { "ok" } else { "err" }));
                }
            }
            "settle" => {
                let ok = settle(&probe, &rx);
                if !ok {
                    // with the worker parked at a hold point the schedule simply has no settled state here; with
                    // the worker free an unanswered probe is only believed after a much longer wait, so that a
                    // slow machine is not mistaken for a worker that has stopped serving its events
                    let parked = armed.iter().any(|a| a.starts_with("worker:"));
                    if parked {
                        log.lock().unwrap().push("settle-timeout".into());
                    } else if rx.recv_timeout(Duration::from_millis(3000)).is_err() {
                        log.lock().unwrap().push("worker-stuck".into());
                    }
                }
            }
            _ => {}
        }
    }
    hold::reset();
    if let Some((name, h)) = ctl.take() {
        let ok = h.join().unwrap_or(false);
        log.lock().unwrap().push(format!("reply:{}:{}", name, if ok { "ok" } else { "err" }));
    }
    if !settle(&probe, &rx) && rx.recv_timeout(Duration::from_millis(3000)).is_err() {
        log.lock().unwrap().push("worker-stuck".into());
    }
    let pending = kick.read().unwrap_or(0);
    let mut out: Vec<Val> = log.lock().unwrap().iter().map(|s| Val::s(s)).collect();
    out.push(Val::s(&format!("pending:{}", pending)));
    drop(fe);
    let _ = daemon.wait();
    drop(daemon);
    let _ = std::fs::remove_file(&path);
    let _ = std::fs::remove_dir(&dir);
    Val::L(out)
}
