// family "conc": 2..3 threads calling through clones of one endpoint (Frontend, Backend proxy,
// GpuBackend) against a scripted raw peer that delays every answer while watching the socket: a
// second request arriving before the first one has been answered is an overlap.  Replies are
// tagged by the request's identity so that every caller can tell whether it got its own.
use crate::val::Val;
use std::io::{Read, Write};
use std::os::unix::io::AsRawFd;
use std::os::unix::net::UnixStream;
use std::sync::atomic::{AtomicBool, AtomicU64, Ordering};
use std::sync::{Arc, Barrier};
use std::time::Duration;
use vhost::vhost_user::gpu_message;
use vhost::vhost_user::message::*;
use vhost::vhost_user::{Backend, Frontend, GpuBackend, VhostUserFrontend, VhostUserFrontendReqHandler};
use vhost::VhostBackend;

fn readable_within(s: &UnixStream, ms: i32) -> bool {
    let mut p = libc::pollfd { fd: s.as_raw_fd(), events: libc::POLLIN, revents: 0 };
    // SAFETY: one valid pollfd
    let r = unsafe { libc::poll(&mut p, 1, ms) };
    r > 0 && (p.revents & libc::POLLIN) != 0
}

fn le32(b: &[u8]) -> u32 {
    u32::from_le_bytes([b[0], b[1], b[2], b[3]])
}

/// the peer: answers every request after `delay` ms; counts requests that arrive while one is still unanswered
fn peer_loop(mut s: UnixStream, delay: i32, acks: Arc<AtomicBool>, overlaps: Arc<AtomicU64>, gpu: bool, frontend: bool) {
    loop {
        let mut h = [0u8; 12];
        if s.read_exact(&mut h).is_err() {
            return;
        }
        let (code, flags, size) = (le32(&h[0..4]), le32(&h[4..8]), le32(&h[8..12]) as usize);
        let mut body = vec![0u8; size];
        if size > 0 && s.read_exact(&mut body).is_err() {
            return;
        }
        let reply_body: Option<Vec<u8>> = if gpu {
            match code {
                1 => Some(0x55u64.to_le_bytes().to_vec()), // GET_PROTOCOL_FEATURES
                10 => Some(vec![]),                          // DMABUF_UPDATE: empty acknowledgement
                _ => None,                                   // CURSOR_POS and the like: no answer
            }
        } else {
            match code {
                1 => Some(((1u64 << 30) | 1).to_le_bytes().to_vec()),         // GET_FEATURES
                15 => Some((0x8u64 | 0x2 | 0x1).to_le_bytes().to_vec()),       // GET_PROTOCOL_FEATURES: REPLY_ACK | LOG_SHMFD | MQ
                6 if frontend && body.len() == 16 => Some(body.clone()),                  // SET_LOG_BASE with a log region: answered with the region
                17 => Some(64u64.to_le_bytes().to_vec()),                      // GET_QUEUE_NUM
                11 => {
                    let idx = le32(&body[0..4]);
                    let mut b = idx.to_le_bytes().to_vec();
                    b.extend_from_slice(&(1000 + idx).to_le_bytes());
                    Some(b)
                }
                _ => {
                    if flags & 0x8 != 0 && acks.load(Ordering::SeqCst) {
                        // on the backend-request channel the first byte of the body names the caller's object /
                        // region: 128 and above are refused, so that a caller can tell an acknowledgement meant for
                        // another caller from its own
                        let refused = !frontend && !body.is_empty() && body[0] >= 128;
                        Some((refused as u64).to_le_bytes().to_vec())
                    } else {
                        None
                    }
                }
            }
        };
        if let Some(b) = reply_body {
            if readable_within(&s, delay) {
                overlaps.fetch_add(1, Ordering::SeqCst);
            }
            let mut out = vec![];
            out.extend_from_slice(&code.to_le_bytes());
            out.extend_from_slice(&(if gpu { 0x4u32 } else { 0x5u32 }).to_le_bytes());
            out.extend_from_slice(&(b.len() as u32).to_le_bytes());
            out.extend_from_slice(&b);
            if s.write_all(&out).is_err() {
                return;
            }
        }
    }
}

/// conc: [VS endpoint; VL [VL [VS op; VN arg]...]; VN delay_ms]
pub fn run(args: &[Val]) -> Val {
    let endpoint = args.first().and_then(|v| v.as_s()).unwrap_or("").to_string();
    let ops: Vec<(String, u64)> = args
        .get(1)
        .and_then(|v| v.as_l())
        .unwrap_or(&[])
        .iter()
        .filter_map(|o| match o.as_l() {
            Some([a, b]) => Some((a.as_s()?.to_string(), b.as_u64()?)),
            _ => None,
        })
        .collect();
    let delay = args.get(2).and_then(|v| v.as_u64()).unwrap_or(15) as i32;
    let reps = args.get(3).and_then(|v| v.as_u64()).unwrap_or(1).max(1);
    let (a, b) = match UnixStream::pair() {
        Ok(p) => p,
        Err(_) => return Val::err("socketpair"),
    };
    let acks = Arc::new(AtomicBool::new(true));
    let overlaps = Arc::new(AtomicU64::new(0));
    let gpu = endpoint == "gpu";
    {
        let (acks, overlaps) = (acks.clone(), overlaps.clone());
        let frontend = endpoint == "frontend";
        std::thread::spawn(move || peer_loop(b, delay, acks, overlaps, gpu, frontend));
    }
    let n = ops.len();
    let barrier = Arc::new(Barrier::new(n));
    let (tx, rx) = std::sync::mpsc::channel::<(usize, String)>();
    match endpoint.as_str() {
        "frontend" => {
            let mut fe = Frontend::from_stream(a, 64);
            // negotiation, sequentially
            let neg = (|| -> vhost::Result<()> {
                let f = fe.get_features()?;
                fe.set_features(f)?;
                let pf = fe.get_protocol_features()?;
                fe.set_protocol_features(pf)?;
                Ok(())
            })();
            if neg.is_err() {
                return Val::err("negotiation");
            }
            fe.set_hdr_flags(VhostUserHeaderFlag::NEED_REPLY);
            overlaps.store(0, Ordering::SeqCst);
            // one descriptor for all SET_LOG_BASE calls, open for the whole run
            let logfd = {
                let e = vmm_sys_util::eventfd::EventFd::new(0).unwrap();
                let fd = e.as_raw_fd();
                std::mem::forget(e);
                fd
            };
            for (i, (op, arg)) in ops.iter().cloned().enumerate() {
                let (mut f, bar, tx) = (fe.clone(), barrier.clone(), tx.clone());
                std::thread::spawn(move || {
                    bar.wait();
                    let mut r = "ok".to_string();
                    for _ in 0..reps {
                    let r1 = match op.as_str() {
                        "get_vring_base" => match f.get_vring_base(arg as usize) {
                            Ok(v) if v as u64 == 1000 + arg => "ok".to_string(),
                            Ok(v) => format!("wrong:{}", v),
                            Err(_) => "err".to_string(),
                        },
                        "get_queue_num" => match f.get_queue_num() {
                            Ok(64) => "ok".to_string(),
                            Ok(v) => format!("wrong:{}", v),
                            Err(_) => "err".to_string(),
                        },
                        "set_vring_num" => if f.set_vring_num(arg as usize, 64).is_ok() { "ok".into() } else { "err".into() },
                        "set_vring_base" => if f.set_vring_base(arg as usize, 3).is_ok() { "ok".into() } else { "err".into() },
                        "get_features" => match f.get_features() {
                            Ok(_) => "ok".to_string(),
                            Err(_) => "err".to_string(),
                        },
                        // the only acknowledged-by-reply form of SET_LOG_BASE: LOG_SHMFD negotiated and a region given
                        "set_log_base" => {
                            let region = vhost::VhostUserDirtyLogRegion { mmap_size: 0x1000, mmap_offset: 0, mmap_handle: logfd };
                            if f.set_log_base(0x4000 + arg, Some(region)).is_ok() { "ok".into() } else { "err".into() }
                        }
                        _ => "unknown".to_string(),
                    };
                    if r1 != "ok" {
                        r = r1;
                        break;
                    }
                    }
                    let _ = tx.send((i, r));
                });
            }
        }
        "proxy" => {
            let be = Backend::from_stream(a);
            be.set_reply_ack_flag(true);
            be.set_shared_object_flag(true);
            be.set_shmem_flag(true);
            for (i, (op, arg)) in ops.iter().cloned().enumerate() {
                let (p, bar, tx) = (be.clone(), barrier.clone(), tx.clone());
                std::thread::spawn(move || {
                    bar.wait();
                    let id = 1 + arg as u8;
                    let mut u = [0u8; 16];
                    u[0] = id;
                    let msg = VhostUserSharedMsg { uuid: uuid::Uuid::from_bytes(u) };
                    let mm = VhostUserMMap { shmid: id, len: 4096, ..Default::default() };
                    let file = vmm_sys_util::eventfd::EventFd::new(0).unwrap();
                    let mut r = "ok".to_string();
                    if op == "toggle_ack" {
                        // the thread that serves SET_PROTOCOL_FEATURES switches the acknowledgements off and on again while
                        // other clones have calls in flight: every call must still see one consistent setting
                        for _ in 0..reps {
                            p.set_reply_ack_flag(false);
                            std::thread::yield_now();
                            p.set_reply_ack_flag(true);
                            std::thread::yield_now();
                        }
                        let _ = tx.send((i, r));
                        return;
                    }
                    for _ in 0..reps {
                        let res = match op.as_str() {
                            "shared_object_remove" => p.shared_object_remove(&msg),
                            "shmem_map" => p.shmem_map(&mm, &file),
                            "shmem_unmap" => p.shmem_unmap(&mm),
                            _ => p.shared_object_add(&msg),
                        };
                        // the peer accepts ids below 128 and refuses the others
                        match (res, id >= 128) {
                            (Ok(0), false) | (Err(_), true) => {}
                            (Ok(v), _) => {
                                r = format!("wrong:{}", v);
                                break;
                            }
                            (Err(_), false) => {
                                r = "err".to_string();
                                break;
                            }
                        }
                    }
                    let _ = tx.send((i, r));
                });
            }
        }
        "gpu" => {
            let g = GpuBackend::from_stream(a);
            for (i, (op, _)) in ops.iter().cloned().enumerate() {
                let (p, bar, tx) = (g.clone(), barrier.clone(), tx.clone());
                std::thread::spawn(move || {
                    bar.wait();
                    let mut r = "ok".to_string();
                    for k in 0..reps {
                        let r1 = match op.as_str() {
                            // acknowledged: the request and the reading of its (empty) acknowledgement
                            "update_dmabuf_scanout" => {
                                let u = gpu_message::VhostUserGpuUpdate { scanout_id: 1, x: k as u32, y: 2, width: 3, height: 4 };
                                if p.update_dmabuf_scanout(&u).is_ok() { "ok".to_string() } else { "err".to_string() }
                            }
                            // fire and forget
                            "cursor_pos" => {
                                let c = gpu_message::VhostUserGpuCursorPos { scanout_id: 1, x: k as u32, y: 2 };
                                if p.cursor_pos(&c).is_ok() { "ok".to_string() } else { "err".to_string() }
                            }
                            _ => match p.get_protocol_features() {
                                Ok(v) if v.value == 0x55 => "ok".to_string(),
                                Ok(v) => format!("wrong:{}", v.value),
                                Err(_) => "err".to_string(),
                            },
                        };
                        if r1 != "ok" {
                            r = r1;
                            break;
                        }
                    }
                    let _ = tx.send((i, r));
                });
            }
        }
        _ => return Val::err("endpoint"),
    }
    drop(tx);
    let mut results = vec!["not-completed".to_string(); n];
    let mut completed = 0u64;
    let deadline = std::time::Instant::now() + Duration::from_millis(8000);
    while completed < n as u64 {
        let left = deadline.saturating_duration_since(std::time::Instant::now());
        match rx.recv_timeout(left) {
            Ok((i, r)) => {
                results[i] = r;
                completed += 1;
            }
            Err(_) => break,
        }
    }
    Val::L(vec![
        Val::N(overlaps.load(Ordering::SeqCst) as u128),
        Val::L(results.iter().map(|r| Val::s(r)).collect()),
        Val::N(completed as u128),
    ])
}
