// vv-harness: runs the real crates from /repo on generated cases.
// stdin: one case (val) per line; stdout: one observation (val) per line.
mod fam_be;
mod fam_conc;
mod fam_dmn;
mod fam_fe;
mod fam_gpu;
mod fam_kern;
mod fam_proxy;
mod fam_race;
mod fam_sess;
mod fam_shut;
mod fam_valid;
mod peer;
mod shim;
mod val;

use std::io::{BufRead, Write};
use val::Val;

fn run_case(c: &Val) -> Val {
    let l = match c.as_l() {
        Some(l) if !l.is_empty() => l,
        _ => return Val::err("case"),
    };
    let fam = l[0].as_s().unwrap_or("");
    let args = &l[1..];
    match fam {
        "valid" => fam_valid::run(args),
        "be" => fam_be::run(args),
        "bgone" => fam_be::run_gone(args),
        "fe" => fam_fe::run(args),
        "dmn" => fam_dmn::run(args),
        "fsrv" => fam_proxy::run_fsrv(args),
        "proxy" => fam_proxy::run_proxy(args),
        "psess" => fam_proxy::run_psess(args),
        "tx" => fam_fe::run_tx(args),
        "sess" => fam_sess::run(args),
        "shut" => fam_shut::run(args),
        "kern" => fam_kern::run(args),
        "race" => fam_race::run(args),
        "conc" => fam_conc::run(args),
        "gpu" => fam_gpu::run(args),
        "iovs" => {
            let lens: Vec<usize> = args[0].as_l().unwrap_or(&[]).iter().map(|v| v.as_u64().unwrap_or(0) as usize).collect();
            let skip = args[1].as_u64().unwrap_or(0) as usize;
            let (i, off) = vhost::vhost_user::verif_hooks::sub_iovs_offset(&lens, skip);
            Val::L(vec![Val::N(i as u128), Val::N(off as u128)])
        }
        "seg" => {
            // [cfg; outs; whole msgs; variant msgs; kind; k; o] -> [obs(whole); obs(variant)]
            if args.len() < 4 {
                return Val::err("args");
            }
            let a = fam_be::run(&[args[0].clone(), args[1].clone(), args[2].clone()]);
            let b = fam_be::run(&[args[0].clone(), args[1].clone(), args[3].clone()]);
            Val::L(vec![a, b])
        }
        _ => Val::err("family"),
    }
}

pub static PANICS: std::sync::atomic::AtomicU64 = std::sync::atomic::AtomicU64::new(0);

fn main() {
    // silent hook that counts: a panic on any thread (daemon thread, ring workers) is observable through the "panics" step
    std::panic::set_hook(Box::new(|_| {
        PANICS.fetch_add(1, std::sync::atomic::Ordering::SeqCst);
    }));
    let stdin = std::io::stdin();
    let stdout = std::io::stdout();
    let mut out = stdout.lock();
    for line in stdin.lock().lines() {
        let line = line.unwrap();
        if line.trim().is_empty() {
            continue;
        }
        let obs = match val::parse(&line) {
            Ok(c) => match std::panic::catch_unwind(std::panic::AssertUnwindSafe(|| run_case(&c))) {
                Ok(v) => v,
                Err(e) => {
                    let msg = if let Some(s) = e.downcast_ref::<String>() {
                        s.clone()
                    } else if let Some(s) = e.downcast_ref::<&str>() {
                        s.to_string()
                    } else {
                        "?".to_string()
                    };
                    let kind = if msg.contains("overflow") {
                        "overflow"
                    } else if msg.contains("out of range") || msg.contains("out of bounds") {
                        "oob"
                    } else if msg.contains("unwrap") {
                        "unwrap"
                    } else {
                        "other"
                    };
                    Val::L(vec![Val::s("panic"), Val::s(kind)])
                }
            },
            Err(e) => Val::L(vec![Val::s("harness-parse-error"), Val::S(e)]),
        };
        writeln!(out, "{}", obs.to_string()).unwrap();
    }
}
