#!/bin/sh
# Build the framework from files on disk only (offline).
set -e
cd "$(dirname "$0")"
export CARGO_NET_OFFLINE=true
mkdir -p .build coq/Gen
(cd translator && cargo build --offline)
.build/translator/debug/rs2v /repo coq/Gen
python3 tools/uapi_gen.py coq/Gen
(cd coq && coq_makefile -f _CoqProject -o Makefile && timeout 3000 make -j16)
mkdir -p .build/ocaml
(cd .build/ocaml && coqc -Q ../../coq VV ../../coq/Extract/Extract.v && cp ../../ocaml/driver.ml . && \
  ocamlfind ocamlopt -O3 -w -a -package zarith -linkpkg vv_model.mli vv_model.ml driver.ml -o vv_eval)
(cd harness && cargo build --offline)
echo "setup ok"
