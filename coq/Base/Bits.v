(* Machine integers as N with explicit widths; the vocabulary the translator
   rs2v emits and the hand models share.  Definitions only use stdlib N. *)
From Coq Require Export String.
From Coq Require Export Arith NArith List Bool Lia.
From Coq Require Import ZArith ZifyBool ZifyN.
Export ListNotations.
Open Scope N_scope.

Ltac Zify.zify_post_hook ::= Z.div_mod_to_equations.

Arguments N.add : simpl never.
Arguments N.sub : simpl never.
Arguments N.mul : simpl never.
Arguments N.div : simpl never.
Arguments N.modulo : simpl never.
Arguments N.pow : simpl never.
Arguments N.land : simpl never.
Arguments N.lor : simpl never.
Arguments N.lxor : simpl never.
Arguments N.shiftl : simpl never.
Arguments N.shiftr : simpl never.
Arguments N.eqb : simpl never.
Arguments N.ltb : simpl never.
Arguments N.leb : simpl never.
Arguments N.ones : simpl never.

(* ---- outcomes of translated Rust code: a value, a Rust-level error value
        is ordinary data; a panic is [Abort]. ---- *)
Inductive panic := POvf | POob | PUnwrap | PShift | PAssert | PDivZero.
Inductive res (A : Type) := Val (a : A) | Abort (p : panic).
Arguments Val {A} a.
Arguments Abort {A} p.
Definition rbind {A B} (m : res A) (f : A -> res B) : res B :=
  match m with Val a => f a | Abort p => Abort p end.
Notation "x <- m ;; k" := (rbind m (fun x => k))
  (at level 61, m at next level, right associativity).
Definition is_abort {A} (m : res A) : bool :=
  match m with Abort _ => true | _ => false end.

(* ---- widths ---- *)
Definition two_p (w : N) : N := 2 ^ w.
Definition wrap (w x : N) : N := x mod 2 ^ w.
Definition fits (w x : N) : bool := x <? 2 ^ w.

(* Rust `a + b` with overflow checks on (the harness builds with them) *)
Definition add_chk (w a b : N) : res N :=
  if a + b <? 2 ^ w then Val (a + b) else Abort POvf.
Definition sub_chk (w a b : N) : res N :=
  if b <=? a then Val (a - b) else Abort POvf.
Definition mul_chk (w a b : N) : res N :=
  if a * b <? 2 ^ w then Val (a * b) else Abort POvf.
(* checked_add / wrapping / saturating *)
Definition checked_add (w a b : N) : option N :=
  if a + b <? 2 ^ w then Some (a + b) else None.
Definition checked_sub (w a b : N) : option N :=
  if b <=? a then Some (a - b) else None.
Definition wrapping_add (w a b : N) : N := (a + b) mod 2 ^ w.
Definition wrapping_sub (w a b : N) : N := (a + 2 ^ w - b mod 2 ^ w) mod 2 ^ w.
Definition saturating_add (w a b : N) : N :=
  if a + b <? 2 ^ w then a + b else 2 ^ w - 1.
Definition saturating_sub (w a b : N) : N := a - b.
(* bit operations at width w; arguments are assumed < 2^w *)
Definition lnot (w x : N) : N := N.lxor (N.ones w) (x mod 2 ^ w).
Definition shl_chk (w a s : N) : res N :=
  if s <? w then Val ((N.shiftl a s) mod 2 ^ w) else Abort PShift.
Definition shr_chk (w a s : N) : res N :=
  if s <? w then Val (N.shiftr a s) else Abort PShift.
(* `x as uK` from a wider unsigned type *)
Definition cast (w x : N) : N := x mod 2 ^ w.

Definition nonzero (x : N) : bool := negb (x =? 0).

(* popcount, structurally on positive *)
Fixpoint popcount_pos (p : positive) : N :=
  match p with
  | xH => 1
  | xO q => popcount_pos q
  | xI q => 1 + popcount_pos q
  end.
Definition popcount (x : N) : N :=
  match x with N0 => 0 | Npos p => popcount_pos p end.
(* usize::is_power_of_two *)
Definition is_pow2 (n : N) : bool := popcount n =? 1.

(* ---- little-endian byte encodings ---- *)
Fixpoint le_encode (k : nat) (v : N) : list N :=
  match k with
  | O => []
  | S k' => (v mod 256) :: le_encode k' (v / 256)
  end.
Fixpoint le_decode (bs : list N) : N :=
  match bs with
  | [] => 0
  | b :: r => b + 256 * le_decode r
  end.

Definition is_byte (b : N) : bool := b <? 256.
Definition bytes_ok (bs : list N) : bool := forallb is_byte bs.

(* slices with explicit failure *)
Definition slice {A} (l : list A) (off len : nat) : option (list A) :=
  if Nat.leb (off + len) (length l) then Some (firstn len (skipn off l)) else None.

(* ---- lemmas ---- *)
Lemma le_encode_length k v : length (le_encode k v) = k.
Proof. revert v; induction k; intros; simpl; auto. Qed.

Lemma le_decode_encode k v : v < 2 ^ (8 * N.of_nat k) -> le_decode (le_encode k v) = v.
Proof.
  revert v; induction k as [|k IH]; intros v Hv.
  - simpl in *. change (2 ^ (8 * 0)) with 1 in Hv. lia.
  - cbn [le_encode le_decode]. rewrite IH.
    + pose proof (N.div_mod v 256). lia.
    + replace (8 * N.of_nat (S k)) with (8 + 8 * N.of_nat k) in Hv by lia.
      rewrite N.pow_add_r in Hv. change (2 ^ 8) with 256 in Hv.
      apply N.div_lt_upper_bound; lia.
Qed.

Lemma le_encode_bytes k v : bytes_ok (le_encode k v) = true.
Proof.
  revert v; induction k as [|k IH]; intros v; cbn [le_encode bytes_ok forallb]; auto.
  fold (bytes_ok (le_encode k (v / 256))). rewrite IH.
  unfold is_byte. pose proof (N.mod_lt v 256). destruct (N.ltb_spec (v mod 256) 256); auto; lia.
Qed.

Lemma le_decode_bound bs : bytes_ok bs = true -> le_decode bs < 2 ^ (8 * N.of_nat (length bs)).
Proof.
  induction bs as [|b r IH]; intros H.
  - simpl. change (2 ^ (8 * 0)) with 1. lia.
  - cbn [bytes_ok forallb] in H. apply andb_true_iff in H as [Hb Hr].
    fold (bytes_ok r) in Hr. specialize (IH Hr).
    unfold is_byte in Hb. apply N.ltb_lt in Hb.
    cbn [le_decode length].
    replace (8 * N.of_nat (S (length r))) with (8 + 8 * N.of_nat (length r)) by lia.
    rewrite N.pow_add_r. change (2 ^ 8) with 256. lia.
Qed.

Lemma le_encode_decode bs : bytes_ok bs = true -> le_encode (length bs) (le_decode bs) = bs.
Proof.
  induction bs as [|b r IH]; intros H; auto.
  cbn [bytes_ok forallb] in H. apply andb_true_iff in H as [Hb Hr].
  fold (bytes_ok r) in Hr. unfold is_byte in Hb. apply N.ltb_lt in Hb.
  cbn [length le_encode le_decode].
  replace ((b + 256 * le_decode r) mod 256) with b by lia.
  replace ((b + 256 * le_decode r) / 256) with (le_decode r) by lia.
  now rewrite IH.
Qed.

(* mask lemmas *)
Lemma land_low_mask x k : N.land x (N.ones k) = x mod 2 ^ k.
Proof. apply N.land_ones. Qed.

Lemma land_low_zero x k : N.land x (N.ones k) = 0 <-> x mod 2 ^ k = 0.
Proof. rewrite N.land_ones. tauto. Qed.

Lemma land_high_mask_zero x k m :
  x < 2 ^ (k + m) -> (N.land x (N.shiftl (N.ones m) k) = 0 <-> x < 2 ^ k).
Proof.
  intros Hx. split.
  - intros H.
    assert (Hs : N.shiftr (N.land x (N.shiftl (N.ones m) k)) k = 0) by (rewrite H; apply N.shiftr_0_l).
    rewrite N.shiftr_land, N.shiftr_shiftl_l, N.sub_diag, N.shiftl_0_r in Hs by lia.
    rewrite N.land_ones in Hs.
    rewrite N.shiftr_div_pow2 in Hs.
    assert (x / 2 ^ k < 2 ^ m).
    { apply N.div_lt_upper_bound. apply N.pow_nonzero; lia. rewrite <- N.pow_add_r. auto. }
    rewrite N.mod_small in Hs by auto.
    apply N.div_small_iff in Hs; auto. apply N.pow_nonzero; lia.
  - intros H. apply N.bits_inj_0. intros n.
    rewrite N.land_spec. destruct (N.ltb_spec n k).
    + rewrite N.shiftl_spec_low by auto. apply andb_false_r.
    + replace (N.testbit x n) with false; auto.
      symmetry. destruct (N.eq_dec x 0) as [->|Hnz]; [apply N.bits_0|].
      apply N.bits_above_log2.
      apply N.log2_lt_pow2; [lia|]. eapply N.lt_le_trans; [exact H|].
      apply N.pow_le_mono_r; lia.
Qed.

Lemma ltb_pow2_fits w x : fits w x = true <-> x < 2 ^ w.
Proof. unfold fits. apply N.ltb_lt. Qed.

Lemma popcount_pos_pos p : 0 < popcount_pos p.
Proof. induction p; simpl; lia. Qed.
