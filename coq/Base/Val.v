(* Universal case/observation values exchanged between the generator, the
   Rust harness and the extracted model evaluator.  The concrete syntax used
   in case files is Gallina itself, so a case file can be pasted into a .v
   file and re-evaluated by vm_compute. *)
From VV Require Export Base.Bits.
From Coq Require Import Ascii.
Open Scope N_scope.

Inductive val :=
| VN (n : N)
| VS (s : string)
| VH (hex : string)          (* bytes, two lowercase hex digits each *)
| VL (l : list val).
Arguments VS _%string.
Arguments VH _%string.

Definition nibble (c : ascii) : N :=
  let n := N_of_ascii c in
  if (48 <=? n) && (n <=? 57) then n - 48
  else if (97 <=? n) && (n <=? 102) then n - 87
  else if (65 <=? n) && (n <=? 70) then n - 55
  else 0.
Fixpoint hex_bytes (s : string) : list N :=
  match s with
  | String a (String b r) => (16 * nibble a + nibble b) :: hex_bytes r
  | _ => []
  end.
Definition hexdigit (n : N) : ascii :=
  if n <? 10 then ascii_of_N (48 + n) else ascii_of_N (87 + n).
Fixpoint bytes_hex (l : list N) : string :=
  match l with
  | [] => EmptyString
  | b :: r => String (hexdigit (b / 16)) (String (hexdigit (b mod 16)) (bytes_hex r))
  end.

Definition vbool (b : bool) : val := VS (if b then "true" else "false").
Definition vbytes (l : list N) : val := VH (bytes_hex l).
Definition verror (s : string) : val := VL [VS "error"; VS s].

Definition val_bytes (v : val) : option (list N) :=
  match v with VH h => Some (hex_bytes h) | _ => None end.
Definition val_N (v : val) : option N := match v with VN n => Some n | _ => None end.
Definition val_S (v : val) : option string := match v with VS s => Some s | _ => None end.
Definition val_L (v : val) : option (list val) := match v with VL l => Some l | _ => None end.

Fixpoint all_some {A} (l : list (option A)) : option (list A) :=
  match l with
  | [] => Some []
  | None :: _ => None
  | Some a :: r => match all_some r with Some r' => Some (a :: r') | None => None end
  end.
Definition val_NL (v : val) : option (list N) :=
  match v with VL l => all_some (map val_N l) | _ => None end.
