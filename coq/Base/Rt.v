(* Runtime vocabulary for code emitted by the translator rs2v: enum tables,
   bitflags helpers, Result/Error, struct layouts and byte (de)serialisation. *)
From VV Require Export Base.Bits.
Open Scope N_scope.

(* crate error values, canonical (what the harness maps real errors to) *)
Inductive verr :=
| EInvalidParam | EInvalidOperation | EInactiveFeature (bits : N) | EInactiveOperation (bits : N)
| EInvalidMessage | EPartialMessage | EDisconnected | EOversizedMsg | EIncorrectFds
| ESocketConnect | ESocketError | ESocketBroken | ESocketRetry
| EBackendInternal | EFrontendInternal | EFeatureMismatch | EReqHandler
| EMemFdCreate | EFileTruncate | EMemFdSeal.

Inductive rresult (A : Type) := ROk (a : A) | RErr (e : verr).
Arguments ROk {A} a.
Arguments RErr {A} e.
Definition r_is_ok {A} (r : rresult A) : bool := match r with ROk _ => true | _ => false end.
Definition r_is_err {A} (r : rresult A) : bool := negb (r_is_ok r).
Definition o_is_some {A} (o : option A) : bool := match o with Some _ => true | None => false end.
Definition o_is_none {A} (o : option A) : bool := negb (o_is_some o).
Definition ok_or {A} (o : option A) (e : verr) : rresult A :=
  match o with Some a => ROk a | None => RErr e end.
Definition map_err_const {A} (o : option A) (e : verr) : rresult A := ok_or o e.

(* enum_value! enums: name/value tables *)
Definition enum_tbl := list (string * N).
Definition enum_mem (t : enum_tbl) (v : N) : bool := existsb (fun p => snd p =? v) t.
Definition enum_try_from (t : enum_tbl) (v : N) : option N :=
  if enum_mem t v then Some v else None.
Fixpoint enum_lookup (t : enum_tbl) (n : string) : option N :=
  match t with
  | [] => None
  | (k, v) :: r => if String.eqb k n then Some v else enum_lookup r n
  end.
Fixpoint enum_name (t : enum_tbl) (v : N) : option string :=
  match t with
  | [] => None
  | (k, x) :: r => if x =? v then Some k else enum_name r v
  end.

(* bitflags! *)
Definition flags_all (t : enum_tbl) : N := fold_right (fun p a => N.lor (snd p) a) 0 t.
Definition flags_from_bits (w all v : N) : option N :=
  if N.land v (lnot w all) =? 0 then Some v else None.
Definition flags_truncate (all v : N) : N := N.land v all.

(* Uuid as 16 bytes *)
Definition uuid_is_nil (u : list N) : bool := forallb (fun b => b =? 0) u.
Definition uuid_is_max (u : list N) : bool := forallb (fun b => b =? 255) u.

(* ---- struct layouts ---- *)
Local Open Scope nat_scope.
Inductive fty :=
| TInt (bytes : nat)                 (* u8..u64, i32: little-endian, size = alignment *)
| TArr (elem : fty) (n : nat)
| TStruct (name : string) (packed : bool) (fields : list (string * fty)).

Fixpoint fty_align (t : fty) : nat :=
  match t with
  | TInt b => b
  | TArr e _ => fty_align e
  | TStruct _ true _ => 1%nat
  | TStruct _ false fs =>
      (fix go (l : list (string * fty)) : nat :=
         match l with [] => 1%nat | (_, f) :: r => Nat.max (fty_align f) (go r) end) fs
  end.

Definition align_up (off a : nat) : nat :=
  match a with O => off | _ => (((off + a - 1) / a) * a)%nat end.

Fixpoint fty_size (t : fty) : nat :=
  match t with
  | TInt b => b
  | TArr e n => (n * fty_size e)%nat
  | TStruct _ packed fs =>
      let al := fty_align t in
      let fix go (l : list (string * fty)) (off : nat) : nat :=
          match l with
          | [] => off
          | (_, f) :: r =>
              let o := if packed then off else align_up off (fty_align f) in
              go r (o + fty_size f)%nat
          end in
      let raw := go fs 0%nat in
      if packed then raw else align_up raw al
  end.

(* offsets of the direct fields of a struct type *)
Definition field_offsets (t : fty) : list (string * nat * nat) :=
  match t with
  | TStruct _ packed fs =>
      let fix go (l : list (string * fty)) (off : nat) : list (string * nat * nat) :=
          match l with
          | [] => []
          | (n, f) :: r =>
              let o := if packed then off else align_up off (fty_align f) in
              (n, o, fty_size f) :: go r (o + fty_size f)%nat
          end in
      go fs 0%nat
  | _ => []
  end.

Fixpoint field_off (l : list (string * nat * nat)) (n : string) : nat :=
  match l with
  | [] => 0%nat
  | (k, o, _) :: r => if String.eqb k n then o else field_off r n
  end.

(* read helpers used by generated decoders; the caller has checked the length *)
Definition rd_int (bs : list N) (off sz : nat) : N := le_decode (firstn sz (skipn off bs)).
Definition rd_bytes (bs : list N) (off sz : nat) : list N := firstn sz (skipn off bs).
Fixpoint rd_arr (bs : list N) (off esz : nat) (n : nat) : list N :=
  match n with
  | O => []
  | S k => rd_int bs off esz :: rd_arr bs (off + esz)%nat esz k
  end.

(* write helper: place [v] (already a byte list) at [off] in a zero-filled image *)
Fixpoint put_at (img : list N) (off : nat) (v : list N) : list N :=
  match off, img with
  | O, _ => v ++ skipn (List.length v) img
  | S k, [] => []
  | S k, b :: r => b :: put_at r k v
  end.
Definition zeros (n : nat) : list N := repeat 0%N n.
Definition wr_arr (esz : nat) (l : list N) : list N := flat_map (le_encode esz) l.

(* ---- statement-level events of the descriptors emitted by rs2v (GenArms) ---- *)
Inductive ev :=
| EvGateProto (bit : N) | EvGateVirtio (bit : N)
| EvCheckSize | EvCheckFiles | EvCheckState
| EvExtract (ty : string) | EvTakeSingle
| EvHandler (name : string) | EvSock (name : string)
| EvUpdateFlag | EvAck | EvReply | EvReplyPayload | EvNewReplyHdr
| EvSendReq (fn : string) (code : N) | EvRecv (kind : string) | EvSend (name : string)
| EvAssign (field : string) | EvHelper (name : string) | EvHelperEnd (name : string)
| EvLocalErr | EvReturn
| EvLock (how : string) | EvUnlock.
