(* C data layout (System V x86-64 rules) for the kernel UAPI structures:
   natural alignment, unions, flexible array members. *)
From Coq Require Export List String NArith Arith.
Export ListNotations.
Open Scope string_scope.
Open Scope list_scope.

Inductive cty :=
| CInt (bytes : nat)
| CArr (elem : cty) (n : nat)
| CFlex (elem : cty)                               (* flexible array member: no size, element alignment *)
| CStruct (fields : list (string * cty))
| CUnion (members : list (string * cty)).

Definition c_align_up (off a : nat) : nat :=
  match a with O => off | _ => (((off + a - 1) / a) * a)%nat end.

Fixpoint c_align (t : cty) : nat :=
  match t with
  | CInt b => b
  | CArr e _ => c_align e
  | CFlex e => c_align e
  | CStruct fs => (fix go (l : list (string * cty)) : nat :=
                     match l with [] => 1%nat | (_, f) :: r => Nat.max (c_align f) (go r) end) fs
  | CUnion fs => (fix go (l : list (string * cty)) : nat :=
                    match l with [] => 1%nat | (_, f) :: r => Nat.max (c_align f) (go r) end) fs
  end.

Fixpoint c_size (t : cty) : nat :=
  match t with
  | CInt b => b
  | CArr e n => (n * c_size e)%nat
  | CFlex _ => 0%nat
  | CStruct fs =>
      let fix go (l : list (string * cty)) (off : nat) : nat :=
          match l with
          | [] => off
          | (_, f) :: r => go r (c_align_up off (c_align f) + c_size f)%nat
          end in
      c_align_up (go fs 0%nat) (c_align t)
  | CUnion fs =>
      let fix go (l : list (string * cty)) : nat :=
          match l with [] => 0%nat | (_, f) :: r => Nat.max (c_size f) (go r) end in
      c_align_up (go fs) (c_align t)
  end.

(* (field, offset, size) of the direct fields *)
Definition c_fields (t : cty) : list (string * nat * nat) :=
  match t with
  | CStruct fs =>
      let fix go (l : list (string * cty)) (off : nat) : list (string * nat * nat) :=
          match l with
          | [] => []
          | (n, f) :: r => let o := c_align_up off (c_align f) in (n, o, c_size f) :: go r (o + c_size f)%nat
          end in
      go fs 0%nat
  | CUnion fs => map (fun nf => (fst nf, 0%nat, c_size (snd nf))) fs
  | _ => []
  end.

Fixpoint c_field_off (l : list (string * nat * nat)) (n : string) : option nat :=
  match l with
  | [] => None
  | (k, o, _) :: r => if String.eqb k n then Some o else c_field_off r n
  end.

(* _IOC(dir, type, nr, size): dir in bits 30-31 (write = 1, read = 2), size in bits 16-29, type 8-15, nr 0-7 *)
Definition ioc (dir ty nr size : N) : N := (dir * 2 ^ 30 + size * 2 ^ 16 + ty * 2 ^ 8 + nr)%N.
