(* Complete exploration of a finite transition system inside Coq, and the lemma
   that lifts a predicate checked on the computed set to every reachable state. *)
From Coq Require Import List Bool.
Import ListNotations.

Section Explore.
  Variable A : Type.
  Variable eqb : A -> A -> bool.
  Hypothesis eqb_eq : forall a b, eqb a b = true <-> a = b.
  Variable steps : A -> list A.

  Definition mem (s : A) (l : list A) : bool := existsb (eqb s) l.
  Lemma mem_in s l : mem s l = true <-> In s l.
  Proof.
    unfold mem. rewrite existsb_exists. split.
    - intros [x [Hin He]]. apply (proj1 (eqb_eq s x)) in He. subst. exact Hin.
    - intros H. exists s. split; [exact H|]. apply (proj2 (eqb_eq s s)). reflexivity.
  Qed.

  Fixpoint add_new (cand seen fresh : list A) : list A * list A :=
    match cand with
    | [] => (seen, fresh)
    | x :: r => if mem x seen then add_new r seen fresh else add_new r (x :: seen) (x :: fresh)
    end.
  Fixpoint bfs (fuel : nat) (frontier seen : list A) : list A :=
    match fuel with
    | O => seen
    | S f =>
        match frontier with
        | [] => seen
        | _ => let '(seen', fresh) := add_new (flat_map steps frontier) seen [] in bfs f fresh seen'
        end
    end.
  Definition closed_b (S : list A) : bool := forallb (fun s => forallb (fun s' => mem s' S) (steps s)) S.

  Inductive reach : A -> A -> Prop :=
  | reach_refl s : reach s s
  | reach_step s s' s'' : reach s s' -> In s'' (steps s') -> reach s s''.

  Lemma closed_sound S : closed_b S = true -> forall s0 s, In s0 S -> reach s0 s -> In s S.
  Proof.
    intros Hc s0 s H0 Hr. induction Hr as [|s s' s'' _ IH Hin]; [exact H0|].
    specialize (IH H0). unfold closed_b in Hc. rewrite forallb_forall in Hc. specialize (Hc s' IH).
    rewrite forallb_forall in Hc. apply (proj1 (mem_in s'' S)). apply Hc. exact Hin.
  Qed.

  Lemma lift (inits S : list A) (P : A -> bool) :
    closed_b S = true -> forallb (fun s => mem s S) inits = true -> forallb P S = true ->
    forall s0 s, In s0 inits -> reach s0 s -> P s = true.
  Proof.
    intros Hc Hi HP s0 s H0 Hr. rewrite forallb_forall in HP. apply HP.
    eapply closed_sound; [exact Hc| |exact Hr].
    rewrite forallb_forall in Hi. apply (proj1 (mem_in s0 S)). apply Hi. exact H0.
  Qed.
End Explore.
