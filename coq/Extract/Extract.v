(* Extraction of the executable model.  Only ExtrOcamlBasic is used, so bool,
   option, unit, list, prod, sumbool, sumor map to OCaml's and andb/orb are
   inlined; N, positive, nat, string, ascii stay the extracted inductives. *)
Require Extraction.
Require Import ExtrOcamlBasic.
From VV Require Import Base.Val Model.Run.
Extraction Language OCaml.
Extraction "vv_model.ml" run.
