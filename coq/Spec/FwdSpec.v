(* What the two proxies may do with a caller's message (C01, C18, C06 for the GPU channel): each forwarding operation
   hands the send primitive its own request code, the caller's message object itself (the parameter, untouched - no field
   is dropped, defaulted or recomputed on the way), the caller's payload where the message has one, and exactly the
   caller's descriptor, after the negotiated-feature gate of the backend-initiated channel; reply-bearing operations read
   their reply afterwards.  Written from the property texts and the two protocol documents; compared by theorem with the
   table rs2v regenerates from backend_req.rs and gpu_backend_req.rs (Gen.GenArms.fwd_ops). *)
From VV Require Import Base.Bits Base.Val.
Open Scope string_scope.
Open Scope list_scope.
Open Scope N_scope.

Inductive fdk := FdNone | FdOne | FdOpt.       (* no descriptor; exactly the caller's; the caller's optional one *)
Record fwd_spec := { fw_code : N; fw_body : bool; fw_payload : bool; fw_fd : fdk; fw_gate : list string; fw_recv : list string }.

Definition mkf c b p f g r := {| fw_code := c; fw_body := b; fw_payload := p; fw_fd := f; fw_gate := g; fw_recv := r |}.
Definition fwd_expected : list (string * string * fwd_spec) :=
  [("Backend", "shared_object_add", mkf 6 true false FdNone ["! guard . shared_object_negotiated"] []);
   ("Backend", "shared_object_remove", mkf 7 true false FdNone ["! guard . shared_object_negotiated"] []);
   ("Backend", "shared_object_lookup", mkf 8 true false FdOne ["! guard . shared_object_negotiated"] []);
   ("Backend", "shmem_map", mkf 9 true false FdOne ["! guard . shmem_negotiated"] []);
   ("Backend", "shmem_unmap", mkf 10 true false FdNone ["! guard . shmem_negotiated"] []);
   ("GpuBackend", "get_protocol_features", mkf 1 false false FdNone [] ["recv_reply"]);
   ("GpuBackend", "set_protocol_features", mkf 2 true false FdNone [] []);
   ("GpuBackend", "get_display_info", mkf 3 false false FdNone [] ["recv_reply"]);
   ("GpuBackend", "cursor_pos", mkf 4 true false FdNone [] []);
   ("GpuBackend", "cursor_pos_hide", mkf 5 true false FdNone [] []);
   ("GpuBackend", "cursor_update", mkf 6 true true FdNone [] []);
   ("GpuBackend", "set_scanout", mkf 7 true false FdNone [] []);
   ("GpuBackend", "update_scanout", mkf 8 true true FdNone [] []);
   ("GpuBackend", "set_dmabuf_scanout", mkf 9 true false FdOpt [] []);
   ("GpuBackend", "update_dmabuf_scanout", mkf 10 true false FdNone [] ["recv_reply"]);
   ("GpuBackend", "get_edid", mkf 11 true false FdNone [] ["recv_reply"]);
   ("GpuBackend", "set_dmabuf_scanout2", mkf 12 true false FdOpt [] [])].

Fixpoint strs_eq (a b : list string) : bool :=
  match a, b with
  | [], [] => true
  | x :: ra, y :: rb => String.eqb x y && strs_eq ra rb
  | _, _ => false
  end.

(* the token strings the source must show, given the method's own parameter names *)
Definition fwd_row_ok (row : string * string * list string * list string * list string * list (string * N * list string) * list string) : bool :=
  let '(ty, m, params, lets, gates, sends, recvs) := row in
  match find (fun e => String.eqb (fst (fst e)) ty && String.eqb (snd (fst e)) m) fwd_expected with
  | None => false
  | Some (_, sp) =>
      let body := nth 0 params "" in
      let second := nth 1 params "" in
      let prim := if fw_payload sp then "send_message_with_payload" else if fw_body sp then "send_message" else "send_header" in
      let fdarg := match fw_fd sp with
                   | FdNone => "None"
                   | FdOne => String.append "Some (& [" (String.append second " . as_raw_fd ()])")
                   | FdOpt => second
                   end in
      let want_args := (if fw_body sp then [body] else []) ++ (if fw_payload sp then [second] else []) ++ [fdarg] in
      let want_lets := match fw_fd sp with
                       | FdOpt => [String.append second (String.append " = " (String.append second " . map (AsRawFd :: as_raw_fd)"));
                                   String.append second (String.append " = " (String.append second " . as_ref () . map (slice :: from_ref)"))]
                       | _ => []
                       end in
      let nparams := ((if fw_body sp then 1 else 0) + (if fw_payload sp then 1 else 0)
                      + match fw_fd sp with FdNone => 0 | _ => 1 end)%nat in
      match sends with
      | [(p, code, args)] =>
          String.eqb p prim && (code =? fw_code sp) && strs_eq args want_args && strs_eq lets want_lets
          && strs_eq gates (fw_gate sp) && strs_eq recvs (fw_recv sp) && Nat.eqb (List.length params) nparams
      | _ => false
      end
  end.
