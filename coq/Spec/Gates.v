(* Which protocol feature gates which operation (vhost-user specification and
   property C07).  Frontend side: operation name -> request code and gate. *)
From VV Require Import Base.Bits Spec.BeSpec.
Open Scope string_scope.
Open Scope list_scope.
Open Scope N_scope.

(* frontend operations: (operation, request code, gate) ; GVirtioPF here means
   "the backend has OFFERED VHOST_USER_F_PROTOCOL_FEATURES" for the protocol-feature
   exchange itself *)
Definition fe_gate_table : list (string * (N * gate)) :=
  [("get_features", (1, GNone)); ("set_features", (2, GNone)); ("set_owner", (3, GNone));
   ("reset_owner", (4, GNone)); ("set_mem_table", (5, GNone)); ("set_log_fd", (7, GNone));
   ("set_vring_num", (8, GNone)); ("set_vring_addr", (9, GNone)); ("set_vring_base", (10, GNone));
   ("get_vring_base", (11, GNone)); ("set_vring_kick", (12, GNone)); ("set_vring_call", (13, GNone));
   ("set_vring_err", (14, GNone));
   ("get_protocol_features", (15, GVirtioPF)); ("set_protocol_features", (16, GVirtioPF));
   ("get_queue_num", (17, GProto PF_MQ)); ("reset_device", (34, GProto PF_RESET_DEVICE));
   ("get_config", (24, GProto PF_CONFIG)); ("set_config", (25, GProto PF_CONFIG));
   ("set_backend_request_fd", (21, GProto PF_BACKEND_REQ));
   ("get_shared_object", (41, GProto PF_SHARED_OBJECT));
   ("get_inflight_fd", (31, GProto PF_INFLIGHT_SHMFD)); ("set_inflight_fd", (32, GProto PF_INFLIGHT_SHMFD));
   ("get_max_mem_slots", (36, GProto PF_CONFIGURE_MEM_SLOTS));
   ("add_mem_region", (37, GProto PF_CONFIGURE_MEM_SLOTS)); ("remove_mem_region", (38, GProto PF_CONFIGURE_MEM_SLOTS));
   ("get_shmem_config", (44, GProto PF_SHMEM));
   ("set_device_state_fd", (42, GProto PF_DEVICE_STATE)); ("check_device_state", (43, GProto PF_DEVICE_STATE))].
(* operations whose gate the frontend tests inline rather than through the common check
   (ring enable: acknowledged VHOST_USER_F_PROTOCOL_FEATURES; set_log_base: LOG_SHMFD selects
   the message form); they are covered by the model/correspondence, not by the table theorem *)
Definition fe_inline_gated : list string := ["set_vring_enable"; "set_log_base"].
