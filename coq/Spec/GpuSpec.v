(* Specification of the GPU proxy's behaviour (C06 for the GPU channel, wire shape per C01), from the property text and
   the vhost-user-gpu protocol; independent of Model/Gpu.v.  Judges one step:
   step = VL [VS op; nums; VH data; fds; VL segments], observation = VL [result; VL sent]. *)
From VV Require Import Base.Bits Base.Val Spec.ValidityDec Spec.BeSpec.
Open Scope string_scope.
Open Scope list_scope.
Open Scope N_scope.

(* request code, body size, reply body size (None: no reply is read) *)
Definition gpu_table : list (string * (N * N * option N)) :=
  [("get_protocol_features", (1, 0, Some 8)); ("set_protocol_features", (2, 8, None)); ("get_display_info", (3, 0, Some 408));
   ("cursor_pos", (4, 12, None)); ("cursor_pos_hide", (5, 12, None)); ("cursor_update", (6, 20, None)); ("set_scanout", (7, 12, None));
   ("update_scanout", (8, 20, None)); ("set_dmabuf_scanout", (9, 40, None)); ("update_dmabuf_scanout", (10, 20, Some 0));
   ("get_edid", (11, 4, Some 1056)); ("set_dmabuf_scanout2", (12, 48, None))].
Fixpoint glookup (l : list (string * (N * N * option N))) (k : string) : option (N * N * option N) :=
  match l with [] => None | (n, v) :: r => if String.eqb n k then Some v else glookup r k end.

Fixpoint nl_eqb_spec (a b : list N) : bool :=
  match a, b with
  | [], [] => true
  | x :: ra, y :: rb => (x =? y) && nl_eqb_spec ra rb
  | _, _ => false
  end.

Definition seg_bytes (segs : list val) : list N :=
  flat_map (fun s => match s with VL [VH h; _] => hex_bytes h | _ => [] end) segs.
Definition seg_has_fds (segs : list val) : bool :=
  existsb (fun s => match s with VL [VH _; VL (_ :: _)] => true | _ => false end) segs.

Definition judge_gpu (st obs : val) : N :=
  match st, obs with
  | VL [VS op; nums; VH data; VL fds; VL segs], VL [res; VL sent] =>
      match glookup gpu_table op with
      | None => 0
      | Some (code, bsize, reply) =>
          let payload := if String.eqb op "update_scanout" then N.of_nat (List.length (hex_bytes data))
                         else if String.eqb op "cursor_update" then 16384 else 0 in
          (* exactly one message goes out: the request code, flags 0, size = body + payload; descriptors only on the
             dmabuf scanout messages *)
          let sent_ok :=
              match sent with
              | [VL [VH h; VL sfds]] =>
                  let b := hex_bytes h in
                  (u b 0 4 =? code) && (u b 4 4 =? 0) && (u b 8 4 =? bsize + payload)
                  && (N.of_nat (List.length b) =? 12 + bsize + payload)
                  && Nat.eqb (List.length sfds) (List.length fds)
              | _ => false
              end in
          if negb sent_ok then 1
          else match reply with
               | None => (match res with VL [VS "ok"] => 0 | _ => 1 end)
               | Some rsize =>
                   (* accepted only if the fed bytes are exactly a reply to this very request: REPLY flag, same code,
                      the body size the reply type has, no descriptors *)
                   let fed := seg_bytes segs in
                   let conforming := (N.of_nat (List.length fed) =? 12 + rsize) && (u fed 0 4 =? code) && (u fed 4 4 =? 4)
                                     && negb (seg_has_fds segs) in
                   match res with
                   | VL (VS "ok" :: rest) =>
                       if negb conforming then 6
                       else match rest with
                            | [VN v] => if v =? u fed 12 8 then 0 else 6
                            | [VH h] => if nl_eqb_spec (hex_bytes h) (skipn 12 fed) then 0 else 6
                            | [] => 0
                            | _ => 6
                            end
                   | _ => if conforming then 6 else 0
                   end
               end
      end
  | _, _ => 1
  end.

Fixpoint judge_gpu_all (steps obs : list val) : N :=
  match steps, obs with
  | s :: rs, o :: ro => let v := judge_gpu s o in if v =? 0 then judge_gpu_all rs ro else v
  | _, _ => 0
  end.
Definition gpu_spec (args : list val) : val :=
  match args with
  | [VL steps; VL obs] =>
      let v := judge_gpu_all steps obs in
      if v =? 0 then VS "true" else if v =? 6 then VS "false:C06" else VS "false:C01"
  | [_; _] => VS "false:C06"
  | _ => verror "args"
  end.
