(* Protocol validity rules, written from the vhost-user / vhost-user-gpu
   specification text and the wording of property C20.  Arithmetic only: no
   bit operations, no reference to any generated definition. *)
From Coq Require Import NArith List.
Import ListNotations.
Open Scope N_scope.

Definition u8_max : N := 2 ^ 8.
Definition u16_max : N := 2 ^ 16.
Definition u32_max : N := 2 ^ 32.
Definition u64_max : N := 2 ^ 64.

(* request code ranges defined by the specifications *)
Definition frontend_req_known (code : N) : Prop := 1 <= code <= 44.
Definition backend_req_known (code : N) : Prop := 1 <= code <= 10.
Definition gpu_req_known (code : N) : Prop := 1 <= code <= 12.

(* header: known code, size <= 4096, version 1 (low two flag bits = 1), no
   reserved bits (only bits 0..3 may be set) *)
Definition header_valid (known : N -> Prop) (code flags size : N) : Prop :=
  known code /\ size <= 4096 /\ flags mod 4 = 1 /\ flags < 16.

(* GPU header: known code, flags is 0 or REPLY (4) *)
Definition gpu_header_valid (code flags : N) : Prop :=
  gpu_req_known code /\ (flags = 0 \/ flags = 4).

Definition memory_valid (num_regions padding : N) : Prop :=
  padding = 0 /\ 1 <= num_regions <= 32.

(* region: non-zero size; guest, user and mmap ranges do not wrap 64 bits *)
Definition region_valid (gpa size ua off : N) : Prop :=
  size <> 0 /\ gpa + size < u64_max /\ ua + size < u64_max /\ off + size < u64_max.

Definition vring_addr_valid (flags desc used avail : N) : Prop :=
  flags < 2 /\ desc mod 16 = 0 /\ avail mod 2 = 0 /\ used mod 4 = 0.

Definition config_valid (offset size flags : N) : Prop :=
  1 <= size /\ offset + size <= 4096 /\ offset + size < u32_max /\ flags < 4.

Definition inflight_valid (num_queues queue_size : N) : Prop :=
  num_queues <> 0 /\ queue_size <> 0.

Definition log_valid (size off : N) : Prop :=
  size <> 0 /\ off + size < u64_max.

Definition transfer_state_valid (direction phase : N) : Prop :=
  (direction = 0 \/ direction = 1) /\ phase = 0.

Definition uuid_valid (u : list N) : Prop :=
  u <> repeat 0 16 /\ u <> repeat 255 16.

Definition mmap_valid (fd_off shm_off len flags : N) : Prop :=
  len <> 0 /\ fd_off + len < u64_max /\ shm_off + len < u64_max /\ flags < 2.
