(* Specification of the daemon's memory table, address translation and ring
   configuration (C13, C14), written from the property text; independent of the
   hand model.  [mwalk] judges the observed results of a run: it keeps its own
   idea of the accepted memory table, of the bytes in the shared files and of
   every ring's configuration, and compares what the backend side shows. *)
From VV Require Import Base.Bits Base.Val Spec.BeSpec.
Open Scope string_scope.
Open Scope list_scope.
Open Scope N_scope.

(* a region as the frontend sends it: [gpa; size; user; off; file] *)
Definition g_gpa (r : list N) := nth 0 r 0.
Definition g_size (r : list N) := nth 1 r 0.
Definition g_user (r : list N) := nth 2 r 0.
Definition g_off (r : list N) := nth 3 r 0.
Definition g_file (r : list N) := nth 4 r 0.

Record mring := {
  mr_size : N;
  mr_next_avail : N;
  mr_next_used : option N;                 (* None: not determined by the history *)
  mr_addrs : option (N * N * N);           (* desc, avail, used (guest-physical); None: not determined *)
  mr_call : option (option N) }.           (* None: not determined; Some None: none installed *)

Definition UNKNOWN : N := 256.

Record mstate := {
  ms_table : list (list N);
  ms_changes : N;
  ms_bytes : list (N * N * N);             (* (file, offset, byte or UNKNOWN), newest first; default 0 *)
  ms_rings : list mring;
  ms_acked : list N;
  ms_evidx : N;
  ms_calls : list (N * N);
  ms_fuzzy_bytes : bool; ms_fuzzy_calls : bool;
  ms_offered : N; ms_maxq : N;
  ms_log : option (N * N * N);
  ms_pf : N;                               (* protocol features acknowledged by the last successful SET_PROTOCOL_FEATURES *)
  ms_beq : option N }.                     (* ... as they were when the backend-request channel was attached *)             (* the accepted dirty log: file, window offset, window length *)

Definition sbyte (s : mstate) (f off : N) : N :=
  match find (fun t => (fst (fst t) =? f) && (snd (fst t) =? off)) (ms_bytes s) with Some t => snd t | None => 0 end.

Fixpoint mupd {A} (l : list A) (i : nat) (x : A) : list A :=
  match l, i with
  | [], _ => []
  | _ :: r, O => x :: r
  | y :: r, S k => y :: mupd r k x
  end.

Definition set_table (s : mstate) (t : list (list N)) : mstate :=
  {| ms_table := t; ms_changes := ms_changes s + 1; ms_bytes := ms_bytes s; ms_rings := ms_rings s; ms_acked := ms_acked s;
     ms_evidx := ms_evidx s; ms_calls := ms_calls s; ms_fuzzy_bytes := ms_fuzzy_bytes s; ms_fuzzy_calls := ms_fuzzy_calls s;
     ms_offered := ms_offered s; ms_maxq := ms_maxq s; ms_log := ms_log s; ms_pf := ms_pf s; ms_beq := ms_beq s |}.
Definition set_bytes (s : mstate) (b : list (N * N * N)) (fuzzy : bool) : mstate :=
  {| ms_table := ms_table s; ms_changes := ms_changes s; ms_bytes := b; ms_rings := ms_rings s; ms_acked := ms_acked s;
     ms_evidx := ms_evidx s; ms_calls := ms_calls s; ms_fuzzy_bytes := fuzzy; ms_fuzzy_calls := ms_fuzzy_calls s;
     ms_offered := ms_offered s; ms_maxq := ms_maxq s; ms_log := ms_log s; ms_pf := ms_pf s; ms_beq := ms_beq s |}.
Definition set_mrings (s : mstate) (r : list mring) : mstate :=
  {| ms_table := ms_table s; ms_changes := ms_changes s; ms_bytes := ms_bytes s; ms_rings := r; ms_acked := ms_acked s;
     ms_evidx := ms_evidx s; ms_calls := ms_calls s; ms_fuzzy_bytes := ms_fuzzy_bytes s; ms_fuzzy_calls := ms_fuzzy_calls s;
     ms_offered := ms_offered s; ms_maxq := ms_maxq s; ms_log := ms_log s; ms_pf := ms_pf s; ms_beq := ms_beq s |}.
Definition set_feat (s : mstate) (acked : list N) (ev : N) : mstate :=
  {| ms_table := ms_table s; ms_changes := ms_changes s; ms_bytes := ms_bytes s; ms_rings := ms_rings s; ms_acked := acked;
     ms_evidx := ev; ms_calls := ms_calls s; ms_fuzzy_bytes := ms_fuzzy_bytes s; ms_fuzzy_calls := ms_fuzzy_calls s;
     ms_offered := ms_offered s; ms_maxq := ms_maxq s; ms_log := ms_log s; ms_pf := ms_pf s; ms_beq := ms_beq s |}.
Definition set_calls (s : mstate) (c : list (N * N)) (fuzzy : bool) : mstate :=
  {| ms_table := ms_table s; ms_changes := ms_changes s; ms_bytes := ms_bytes s; ms_rings := ms_rings s; ms_acked := ms_acked s;
     ms_evidx := ms_evidx s; ms_calls := c; ms_fuzzy_bytes := ms_fuzzy_bytes s; ms_fuzzy_calls := fuzzy;
     ms_offered := ms_offered s; ms_maxq := ms_maxq s; ms_log := ms_log s; ms_pf := ms_pf s; ms_beq := ms_beq s |}.

(* ---- the table as the property describes it ---- *)
Definition in_guest (r : list N) (a : N) : bool := (g_gpa r <=? a) && (a <? g_gpa r + g_size r).
Definition in_user (r : list N) (a : N) : bool := (g_user r <=? a) && (a <? g_user r + g_size r).

(* the file location of guest byte a, when exactly one region contains it *)
Definition loc_of (t : list (list N)) (a : N) : option (N * N) :=
  match filter (fun r => in_guest r a) t with
  | [r] => Some (g_file r, g_off r + (a - g_gpa r))
  | _ => None
  end.
Definition mapped (t : list (list N)) (a : N) : bool := existsb (fun r => in_guest r a) t.
(* [a, a+n) lies inside one region *)
Definition in_one (t : list (list N)) (a n : N) : bool :=
  match filter (fun r => in_guest r a) t with
  | [r] => a + n <=? g_gpa r + g_size r
  | _ => false
  end.
(* gpa_base + (va - user_base) of the region whose user range contains va *)
Definition translate (t : list (list N)) (va : N) : option (option N) :=
  match filter (fun r => in_user r va) t with
  | [] => None                                   (* no region contains it: must be rejected *)
  | [r] => Some (Some (g_gpa r + (va - g_user r)))
  | _ => Some None                               (* several user ranges contain it: not determined *)
  end.

Fixpoint spec_put (t : list (list N)) (a : N) (bytes : list N) (acc : list (N * N * N)) : list (N * N * N) :=
  match bytes with
  | [] => acc
  | b :: r => match loc_of t a with
              | Some (f, o) => spec_put t (a + 1) r ((f, o, b) :: acc)
              | None => spec_put t (a + 1) r acc
              end
  end.
Fixpoint spec_get (s : mstate) (a : N) (n : nat) : list N :=
  match n with
  | O => []
  | S k => (match loc_of (ms_table s) a with Some (f, o) => sbyte s f o | None => UNKNOWN end) :: spec_get s (a + 1) k
  end.
Fixpoint file_put (f off : N) (bytes : list N) (acc : list (N * N * N)) : list (N * N * N) :=
  match bytes with
  | [] => acc
  | b :: r => file_put f (off + 1) r ((f, off, b) :: acc)
  end.
(* observed bytes agree with the expected ones wherever those are determined *)
Fixpoint bytes_agree (expected observed : list N) : bool :=
  match expected, observed with
  | e :: re, o :: ro => ((e =? UNKNOWN) || (e =? o)) && bytes_agree re ro
  | _, _ => true
  end.
Definition le32s (v : N) : list N := [v mod 256; (v / 256) mod 256; (v / 65536) mod 256; (v / 16777216) mod 256].

Fixpoint sort_pairs (l : list (N * N)) : list (N * N) :=
  let fix ins (x : N * N) (l : list (N * N)) :=
      match l with
      | [] => [x]
      | y :: r => if (fst x <? fst y) || ((fst x =? fst y) && (snd x <=? snd y)) then x :: l else y :: ins x r
      end in
  match l with [] => [] | x :: r => ins x (sort_pairs r) end.
Fixpoint pairs_eqb (a b : list (N * N)) : bool :=
  match a, b with
  | [], [] => true
  | x :: ra, y :: rb => (fst x =? fst y) && (snd x =? snd y) && pairs_eqb ra rb
  | _, _ => false
  end.
Fixpoint nl_eqb (a b : list N) : bool :=
  match a, b with
  | [], [] => true
  | x :: ra, y :: rb => (x =? y) && nl_eqb ra rb
  | _, _ => false
  end.
Definition obs_pairs (l : list val) : option (list (N * N)) :=
  all_some (map (fun v => match v with VL [VN a; VN b] => Some (a, b) | _ => None end) l).


(* ---- dirty log (C15): bit (gpa / 4096) of the log, least-significant bit first within each byte ---- *)
Definition set_log (s : mstate) (l : option (N * N * N)) : mstate :=
  {| ms_table := ms_table s; ms_changes := ms_changes s; ms_bytes := ms_bytes s; ms_rings := ms_rings s; ms_acked := ms_acked s;
     ms_evidx := ms_evidx s; ms_calls := ms_calls s; ms_fuzzy_bytes := ms_fuzzy_bytes s; ms_fuzzy_calls := ms_fuzzy_calls s;
     ms_offered := ms_offered s; ms_maxq := ms_maxq s; ms_log := l; ms_pf := ms_pf s; ms_beq := ms_beq s |}.
Definition page_aligned (r : list N) : bool := (g_gpa r mod 4096 =? 0) && (g_size r mod 4096 =? 0).
Definition get_b (l : list (N * N * N)) (f off : N) : N :=
  match find (fun t => (fst (fst t) =? f) && (snd (fst t) =? off)) l with Some t => snd t | None => 0 end.
(* the log bytes expected after the backend wrote guest bytes [a, a+n): determined = whether the write is known
   to have happened completely *)
Fixpoint log_marks (t : list (list N)) (log : N * N * N) (a : N) (n : nat) (determined : bool) (acc : list (N * N * N))
  : list (N * N * N) :=
  match n with
  | O => acc
  | S k =>
      let '(f, off, len) := log in
      let page := a / 4096 in
      let acc1 :=
        if page / 8 <? len then
          let old := get_b acc f (off + page / 8) in
          let aligned := match filter (fun r => in_guest r a) t with [r] => page_aligned r | _ => false end in
          if determined && aligned && negb (old =? UNKNOWN)
          then (f, off + page / 8, N.lor old (2 ^ (page mod 8))) :: acc
          else (f, off + page / 8, UNKNOWN) :: acc
        else acc in
      log_marks t log (a + 1) k determined acc1
  end.
Definition with_marks (s : mstate) (a : N) (n : nat) (determined : bool) (b : list (N * N * N)) : list (N * N * N) :=
  match ms_log s with
  | Some log => log_marks (ms_table s) log a n determined b
  | None => b
  end.

Definition m_ok (r : val) : bool :=
  match r with VS "ok" => true | VL (VS "ok" :: _) => true | _ => false end.
Definition counter (s : mstate) (f : N) : N :=
  match find (fun p => fst p =? f) (ms_calls s) with Some p => snd p | None => 0 end.

Definition per_ring (kind : string) : bool :=
  existsb (String.eqb kind)
          ["set_vring_num"; "set_vring_base"; "get_vring_base"; "set_vring_addr"; "set_vring_kick"; "set_vring_call";
           "set_vring_err"; "set_vring_enable"].

(* one step; verdict 0 = fine, 13 / 14 = the property the observation contradicts *)
Definition mstep (s : mstate) (kind : string) (a : list N) (data : list N) (rl : list (list N)) (res : val) : N * mstate :=
  let arg i := nth i a 0 in
  let q := arg 0%nat in
  let ok := m_ok res in
  let nq := N.of_nat (List.length (ms_rings s)) in
  let ring := if q <? nq then nth_error (ms_rings s) (N.to_nat q) else None in
  let put r := set_mrings s (mupd (ms_rings s) (N.to_nat q) r) in
  if per_ring kind && ok && (nq <=? q) then (14, s)            (* an out-of-range ring index is rejected by every per-ring message *)
  else if String.eqb kind "guest_write" then (0, set_bytes s (file_put q (arg 1%nat) data (ms_bytes s)) (ms_fuzzy_bytes s))
  else if String.eqb kind "guest_read" then
    match res with
    | VH h => if ms_fuzzy_bytes s then (0, s)
              else let exp := map (fun i => sbyte s q (arg 1%nat + N.of_nat i)) (seq 0 (N.to_nat (arg 2%nat))) in
                   (* which clause a wrong byte contradicts: the log window in force -> C15; a file that backs a region of
                      the table -> C13; a file that backs nothing (only guest writes and a dirty log can change it) while
                      no log is in force -> something is being logged that was never accepted: C15, and C13's "bytes are
                      the passed file's" as well *)
                   let v := match ms_log s with
                            | Some (f, _, _) => if f =? q then 15 else 13
                            | None => if existsb (fun r => nth 4 r 0 =? q) (ms_table s) then 13 else 135
                            end in
                   ((if bytes_agree exp (hex_bytes h) then 0 else v), s)
    | _ => (0, s)
    end
  else if String.eqb kind "set_mem_table" then (0, if ok then set_table s rl else s)
  else if String.eqb kind "add_mem" then (0, if ok then set_table s (ms_table s ++ [a]) else s)
  else if String.eqb kind "rem_mem" then
    if ok then
      let hit r := (g_gpa r =? g_gpa a) && (g_size r =? g_size a) in
      if existsb hit (ms_table s) then (0, set_table s (filter (fun r => negb (hit r)) (ms_table s)))
      else (13, s)                                              (* removal of an absent or size-mismatched region succeeded *)
    else (0, s)
  else if String.eqb kind "regions" then
    match res with
    | VL l =>
        if ms_changes s =? 0 then (0, s)
        else match obs_pairs l with
             | Some ps => ((if pairs_eqb (sort_pairs ps) (sort_pairs (map (fun r => (g_gpa r, g_size r)) (ms_table s))) then 0 else 13), s)
             | None => (13, s)
             end
    | _ => (0, s)
    end
  else if String.eqb kind "snapshot" then
    (* the guest memory the backend is GIVEN (what it sees when notified) is exactly the accepted regions *)
    match res with
    | VL l =>
        if ms_changes s =? 0 then (0, s)
        else match obs_pairs l with
             | Some ps => ((if pairs_eqb (sort_pairs ps) (sort_pairs (map (fun r => (g_gpa r, g_size r)) (ms_table s))) then 0 else 13), s)
             | None => (13, s)
             end
    | _ => (0, s)
    end
  else if String.eqb kind "backend_log" then
    match res with
    | VL [VN upd; VL acked; VL evlog; _] =>
        if negb (upd =? ms_changes s) then (13, s)               (* notified once per successful change *)
        else match all_some (map (fun v => match v with VN n => Some n | _ => None end) acked),
                   all_some (map (fun v => match v with VN n => Some n | _ => None end) evlog) with
             | Some ac, Some ev =>
                 if nl_eqb ac (ms_acked s) && nl_eqb ev (map (fun v => if hasb v (2 ^ 29) then 1 else 0) (ms_acked s))
                 then (0, s) else (14, s)
             | _, _ => (14, s)
             end
    | _ => (0, s)
    end
  else if String.eqb kind "read_mem" then
    if (ms_changes s =? 0) || ms_fuzzy_bytes s then (0, s)
    else
      let n := arg 1%nat in
      if in_one (ms_table s) q n then
        match res with
        | VH h => ((if bytes_agree (spec_get s q (N.to_nat n)) (hex_bytes h) && Nat.eqb (List.length (hex_bytes h)) (N.to_nat n) then 0 else 13), s)
        | VS "worker-timeout" => (0, s)
        | _ => (13, s)
        end
      else if negb (mapped (ms_table s) q) then
        match res with VH _ => (13, s) | _ => (0, s) end          (* memory outside the accepted regions *)
      else (0, s)
  else if String.eqb kind "write_mem" then
    if ms_changes s =? 0 then (0, s)
    else
      let n := N.of_nat (List.length data) in
      if ok then
        if in_one (ms_table s) q n
        then (0, set_bytes s (with_marks s q (List.length data) true (spec_put (ms_table s) q data (ms_bytes s))) (ms_fuzzy_bytes s))
        else if negb (mapped (ms_table s) q) then (13, s)
        else (0, set_bytes s (with_marks s q (List.length data) false (spec_put (ms_table s) q (map (fun _ => UNKNOWN) data) (ms_bytes s)))
                           (ms_fuzzy_bytes s))
      else
        (* a failed write may have written a part: those bytes are no longer determined *)
        (0, set_bytes s (with_marks s q (List.length data) false (spec_put (ms_table s) q (map (fun _ => UNKNOWN) data) (ms_bytes s)))
                      (ms_fuzzy_bytes s))
  else if String.eqb kind "par_write" then
    (* concurrent writers: each address is an independent write of the same bytes *)
    if ms_changes s =? 0 then (0, s)
    else
      let n := N.of_nat (List.length data) in
      let all_in := forallb (fun g => in_one (ms_table s) g n) a in
      let b := fold_left (fun acc g => if ok && all_in
                                       then with_marks s g (List.length data) true (spec_put (ms_table s) g data acc)
                                       else with_marks s g (List.length data) false (spec_put (ms_table s) g (map (fun _ => UNKNOWN) data) acc))
                         a (ms_bytes s) in
      ((if ok && existsb (fun g => negb (mapped (ms_table s) g)) a then 13 else 0), set_bytes s b (ms_fuzzy_bytes s))
  else if String.eqb kind "par_stress" then
    (* C15: concurrent writers never lose each other's bits *)
    match res with VL [VS "ok"; VN 0] => (0, s) | VL [VS "ok"; VN _] => (15, s) | _ => (0, s) end
  else if String.eqb kind "set_vring_num" then
    match ring with
    | Some r =>
        if ok then
          let n := arg 1%nat in
          if (n =? 0) || (ms_maxq s <? n) then (14, s)            (* zero or larger than the maximum is rejected *)
          else (0, put {| mr_size := n; mr_next_avail := mr_next_avail r; mr_next_used := mr_next_used r;
                          mr_addrs := mr_addrs r; mr_call := mr_call r |})
        else (0, s)
    | None => (0, s)
    end
  else if String.eqb kind "set_vring_base" then
    match ring with
    | Some r => if ok then (0, put {| mr_size := mr_size r; mr_next_avail := arg 1%nat mod 65536; mr_next_used := mr_next_used r;
                                      mr_addrs := mr_addrs r; mr_call := mr_call r |})
                else (0, s)
    | None => (0, s)
    end
  else if String.eqb kind "get_vring_base" then
    match ring, res with
    | Some r, VL [VS "ok"; VN v] =>
        if v =? mr_next_avail r
        then (0, put {| mr_size := mr_size r; mr_next_avail := mr_next_avail r; mr_next_used := mr_next_used r;
                        mr_addrs := mr_addrs r; mr_call := None |})
        else (14, s)
    | _, _ => (0, s)
    end
  else if String.eqb kind "set_vring_call" then
    match ring with
    | Some r => if ok then (0, put {| mr_size := mr_size r; mr_next_avail := mr_next_avail r; mr_next_used := mr_next_used r;
                                      mr_addrs := mr_addrs r; mr_call := Some (Some (arg 1%nat)) |})
                else (0, s)
    | None => (0, s)
    end
  else if String.eqb kind "set_vring_addr" then
    match ring with
    | Some r =>
        if ok then
          match translate (ms_table s) (arg 2%nat), translate (ms_table s) (arg 4%nat), translate (ms_table s) (arg 3%nat) with
          | Some d, Some av, Some u =>
              let addrs := match d, av, u with Some d, Some av, Some u => Some (d, av, u) | _, _, _ => None end in
              let nu := match u with
                        | Some u =>
                            if ms_fuzzy_bytes s then None
                            else match spec_get s (u + 2) 2 with
                                 | [b0; b1] => if (b0 <? 256) && (b1 <? 256) then Some (b0 + 256 * b1) else None
                                 | _ => None
                                 end
                        | None => None
                        end in
              (0, put {| mr_size := mr_size r; mr_next_avail := mr_next_avail r; mr_next_used := nu; mr_addrs := addrs; mr_call := mr_call r |})
          | _, _, _ => (134, s)       (* an address no current region contains was accepted: not a translation through the
                                         accepted table (C13), and the ring does not get the translated addresses (C14) *)
          end
        else (0, put {| mr_size := mr_size r; mr_next_avail := mr_next_avail r; mr_next_used := mr_next_used r;
                        mr_addrs := None; mr_call := mr_call r |})
    | None => (0, s)
    end
  else if String.eqb kind "queue_state" then
    match ring, res with
    | Some r, VL [VN size; VN _; VN na; VN nu; VN d; VN av; VN u; VN ev; VN _] =>
        if negb (size =? mr_size r) || negb (na =? mr_next_avail r) || negb (ev =? ms_evidx s) then (14, s)
        else if match mr_addrs r with Some (d', av', u') => negb ((d =? d') && (av =? av') && (u =? u')) | None => false end then (14, s)
        else if match mr_next_used r with Some n => negb (n =? nu) | None => false end then (14, s)
        else (0, s)
    | _, _ => (0, s)
    end
  else if String.eqb kind "add_used" then
    match ring with
    | Some r =>
        match mr_addrs r, mr_next_used r with
        | Some (_, _, u), Some nu =>
            if ok then
              let slot := u + 4 + (nu mod mr_size r) * 8 in
              let nu' := (nu + 1) mod 65536 in
              let b1 := spec_put (ms_table s) slot (le32s (arg 1%nat mod 65536) ++ le32s (arg 2%nat mod 2 ^ 32)) (ms_bytes s) in
              let b2 := spec_put (ms_table s) (u + 2) [nu' mod 256; nu' / 256] b1 in
              let b2 := with_marks s (u + 2) 2 true (with_marks s slot 8 true b2) in
              let s1 := set_bytes s b2 (ms_fuzzy_bytes s) in
              (0, set_mrings s1 (mupd (ms_rings s1) (N.to_nat q)
                                      {| mr_size := mr_size r; mr_next_avail := mr_next_avail r; mr_next_used := Some nu';
                                         mr_addrs := mr_addrs r; mr_call := mr_call r |}))
            else
              let slot := u + 4 + (nu mod mr_size r) * 8 in
              let b1 := spec_put (ms_table s) slot (repeat UNKNOWN 8) (ms_bytes s) in
              let b2 := spec_put (ms_table s) (u + 2) [UNKNOWN; UNKNOWN] b1 in
              let b2 := with_marks s (u + 2) 2 false (with_marks s slot 8 false b2) in
              let s1 := set_bytes s b2 (ms_fuzzy_bytes s) in
              (0, set_mrings s1 (mupd (ms_rings s1) (N.to_nat q)
                                      {| mr_size := mr_size r; mr_next_avail := mr_next_avail r; mr_next_used := None;
                                         mr_addrs := mr_addrs r; mr_call := mr_call r |}))
        | _, _ =>
            (* the ring's addresses are not determined: nothing about memory can be demanded afterwards *)
            let s1 := set_bytes s (ms_bytes s) true in
            (0, set_mrings s1 (mupd (ms_rings s1) (N.to_nat q)
                                    {| mr_size := mr_size r; mr_next_avail := mr_next_avail r; mr_next_used := None;
                                       mr_addrs := mr_addrs r; mr_call := mr_call r |}))
        end
    | None => (0, s)
    end
  else if String.eqb kind "signal" then
    match ring with
    | Some r =>
        if ok then
          match mr_call r with
          | Some (Some f) => (0, set_calls s ((f, counter s f + 1) :: ms_calls s) (ms_fuzzy_calls s))
          | Some None => (0, s)
          | None => (0, set_calls s (ms_calls s) true)
          end
        else (0, s)
    | None => (0, s)
    end
  else if String.eqb kind "read_call" then
    match res with
    | VN v => if ms_fuzzy_calls s then (0, s)
              else if v =? counter s q then (0, set_calls s ((q, 0) :: ms_calls s) false) else (14, s)
    | _ => (0, s)
    end
  else if String.eqb kind "set_log_base" then
    (* a = [size; off; file]: accepted only with page-aligned guest regions and a log covering the highest guest page *)
    if ok then
      if forallb (fun r => page_aligned r && (((g_gpa r + g_size r - 1) / 4096) / 8 <? q)) (ms_table s)
      then (0, set_log s (Some (arg 2%nat, arg 1%nat, q)))
      else (15, s)
    else (0, s)
  else if String.eqb kind "set_protocol_features" then
    (0, if ok then {| ms_table := ms_table s; ms_changes := ms_changes s; ms_bytes := ms_bytes s; ms_rings := ms_rings s; ms_acked := ms_acked s;
                      ms_evidx := ms_evidx s; ms_calls := ms_calls s; ms_fuzzy_bytes := ms_fuzzy_bytes s; ms_fuzzy_calls := ms_fuzzy_calls s;
                      ms_offered := ms_offered s; ms_maxq := ms_maxq s; ms_log := ms_log s; ms_pf := q; ms_beq := ms_beq s |} else s)
  else if String.eqb kind "set_backend_req" then
    (0, if ok then {| ms_table := ms_table s; ms_changes := ms_changes s; ms_bytes := ms_bytes s; ms_rings := ms_rings s; ms_acked := ms_acked s;
                      ms_evidx := ms_evidx s; ms_calls := ms_calls s; ms_fuzzy_bytes := ms_fuzzy_bytes s; ms_fuzzy_calls := ms_fuzzy_calls s;
                      ms_offered := ms_offered s; ms_maxq := ms_maxq s; ms_log := ms_log s; ms_pf := ms_pf s; ms_beq := Some (ms_pf s) |} else s)
  else if String.eqb kind "proxy_probe" then
    (* a newly attached backend-request channel inherits the negotiated reply-ack, shared-object and shared-memory
       settings: an operation whose feature was negotiated is sent (asking for an acknowledgement iff REPLY_ACK was),
       one whose feature was not is refused *)
    match ms_beq s with
    | None => (0, s)
    | Some pf =>
        let want_feature := if q =? 0 then hasb pf PF_SHARED_OBJECT else hasb pf PF_SHMEM in
        match res with
        | VS "refused" => ((if want_feature then 14 else 0), s)
        | VL [VS "sent"; VN nr] => ((if want_feature && (nr =? (if hasb pf PF_REPLY_ACK then 1 else 0)) then 0 else 14), s)
        | _ => (14, s)
        end
    end
  else if String.eqb kind "panics" then
    match res with VN 0 => (0, s) | _ => (5, s) end              (* C05: nothing on the backend side panicked *)
  else if String.eqb kind "teardown" then
    match res with VL [VS "ok"; VN 0] => (0, s) | _ => (9, s) end    (* C09: every descriptor the daemon received is closed once it is gone *)
  else if String.eqb kind "set_features" then
    if ok then
      if negb (N.land q (N.lxor (ms_offered s) (2 ^ 64 - 1)) =? 0) then (14, s)      (* accepted only for a subset of the offer *)
      else (0, set_feat s (ms_acked s ++ [q]) (if hasb q (2 ^ 29) then 1 else 0))
    else (0, s)
  else (0, s).

(* a valid SET_VRING_NUM that the daemon refuses: judged only where the step before it was a reply-bearing request that
   succeeded, which shows that the daemon was serving and that the refusal is the handler's own *)
Definition proves_serving (kind : string) (res : val) : bool :=
  (String.eqb kind "get_queue_num" || String.eqb kind "get_vring_base")
  && match res with VL [VS "ok"; VN _] => true | _ => false end.
Definition num_refused_wrongly (s : mstate) (kind : string) (a : list N) (res : val) : bool :=
  String.eqb kind "set_vring_num" && negb (m_ok res)
  && (nth 0 a 0 <? N.of_nat (List.length (ms_rings s)))
  && negb (nth 1 a 0 =? 0) && (nth 1 a 0 <=? ms_maxq s) && is_pow2 (nth 1 a 0).

Fixpoint mwalk (s : mstate) (serving : bool) (steps obs : list val) : N :=
  match steps, obs with
  | _, [] => 0
  | [], _ => 0
  | VL (VS kind :: nums :: more) :: rs, VL (res :: _) :: ro =>
      let data := match more with VH h :: _ => hex_bytes h | _ => [] end in
      let rl := match more with _ :: VL l :: _ => fold_right (fun v acc => match val_NL v with Some x => x :: acc | None => acc end) [] l
                | _ => [] end in
      match res with
      | VS "panic" => 5            (* C05: the step brought the backend side down *)
      | VS "hung" => 35            (* ... or left it neither answering nor closing the connection: the frontend's call
                                      never returns (C03) *)
      | _ =>
          match val_NL nums with
          | Some a =>
              if serving && num_refused_wrongly s kind a res then 14
              else let '(v, s') := mstep s kind a data rl res in if v =? 0 then mwalk s' (proves_serving kind res) rs ro else v
          | None => 0
          end
      end
  | _, _ => 0
  end.

Definition minit (nq maxq offered : N) : mstate :=
  {| ms_table := []; ms_changes := 0; ms_bytes := [];
     ms_rings := repeat {| mr_size := maxq; mr_next_avail := 0; mr_next_used := Some 0; mr_addrs := Some (0, 0, 0); mr_call := Some None |} (N.to_nat nq);
     ms_acked := []; ms_evidx := 0; ms_calls := []; ms_fuzzy_bytes := false; ms_fuzzy_calls := false;
     ms_offered := offered; ms_maxq := maxq; ms_log := None; ms_pf := 0; ms_beq := None |}.
