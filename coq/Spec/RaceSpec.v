(* Specification of C12 over an observed schedule log (family "race"), from the
   property text: entries are "kick", "ctl:<msg>", "reply:<msg>:ok", "dispatch",
   "held:<point>", ..., and a final "pending:<n>". *)
From VV Require Import Base.Bits Base.Val.
Open Scope string_scope.
Open Scope list_scope.
Open Scope N_scope.

Definition is_pref (p s : string) : bool := String.eqb (substring 0 (String.length p) s) p.

(* clause 1: once the reply to a disabling / stopping message is out, no dispatch for the ring until a message that
   enables / starts it again has been issued.  clause 2: no kick is lost - if the ring ends up started and enabled, every
   kick raised has a later dispatch and nothing is left pending *)
Fixpoint walk_log (l : list val) (dis stop act_en act_st : bool) (owed : bool) : N * (bool * bool * bool) :=
  match l with
  | [] => (0, (act_en, act_st, owed))
  | VS e :: r =>
      if String.eqb e "dispatch" then
        if dis || stop then (1, (act_en, act_st, owed)) else walk_log r dis stop act_en act_st false
      else if String.eqb e "kick" then walk_log r dis stop act_en act_st true
      else if String.eqb e "reply:disable:ok" || String.eqb e "reply:reset:ok" then walk_log r true stop false act_st owed
      else if String.eqb e "reply:stop:ok" then walk_log r dis true act_en false owed
      else if String.eqb e "ctl:enable" || String.eqb e "ctl:reenable" then walk_log r false stop act_en act_st owed
      else if String.eqb e "ctl:restart" then walk_log r dis false act_en act_st owed
      else if String.eqb e "reply:enable:ok" || String.eqb e "reply:reenable:ok" then walk_log r dis stop true act_st owed
      else if String.eqb e "reply:restart:ok" then walk_log r dis stop act_en true owed
      else if is_pref "pending:" e then
        (* the end of the run *)
        if act_en && act_st && (owed || negb (String.eqb e "pending:0")) then (2, (act_en, act_st, owed)) else (0, (act_en, act_st, owed))
      else walk_log r dis stop act_en act_st owed
  | _ :: r => walk_log r dis stop act_en act_st owed
  end.

Definition race_spec (args : list val) : val :=
  match args with
  | [VL _; VL log] =>
      if existsb (fun v => match v with VS e => is_pref "not-held" e || String.eqb e "join-blocked" || String.eqb e "settle-timeout" | _ => false end) log
      then VS "n/a"                       (* the schedule was not realised; "worker-stuck" (the free worker never
                                             answered a probe event) is not such a case: the run is judged *)
      else let '(v, _) := walk_log log false false true true false in
           if v =? 0 then VS "true" else VS "false:C12"
  | _ => verror "args"
  end.
