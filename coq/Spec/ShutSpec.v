(* Specification of daemon shutdown / teardown outcomes (C16), from the property
   text; judges the observation of a scenario of family "shut":
   [VS "<wait>/<second wait>"; VN bounded; VS peer; VS restart; VN workers_left]. *)
From VV Require Import Base.Bits Base.Val.
Open Scope string_scope.
Open Scope list_scope.
Open Scope N_scope.

Definition starts_with (p s : string) : bool := String.eqb (substring 0 (String.length p) s) p.

Definition shut_spec (args : list val) : val :=
  match args with
  | [VS pos; VN k; VN shutdown; VN callers; VN repeats; VN release_first; VN threads; VN exits; obs] =>
      match obs with
      | VL [VS w; VN bounded; VS peer; VS restart; VN nleft] =>
          if starts_with "serve" pos then
            (* serve: clean and partial-header disconnects are success; every worker's exit event is raised; a request
               error ends the connection (the peer observes end-of-stream) *)
            let ok_result := if String.eqb pos "serve_invalid" then starts_with "err" w else String.eqb w "ok" in
            vbool (ok_result && (nleft =? 0) && (String.eqb peer "eof" || String.eqb peer "closed"))
          else if negb (shutdown =? 0) then
            (* shutdown requested: the following wait succeeds in bounded time, the peer sees end-of-stream, a new
               connection can be served, dropping the daemon ends its workers *)
            vbool (String.eqb w "ok/ok" && (bounded =? 1) && (String.eqb peer "eof" || String.eqb peer "closed")
                   && String.eqb restart "ok" && (nleft =? 0))
          else if String.eqb pos "idle" || String.eqb pos "partial_hdr" || String.eqb pos "header_only" || String.eqb pos "after_reply" then
            (* nothing ends the connection: wait has nothing to report yet *)
            VS "n/a"
          else
            (* no shutdown request: the disconnect / request error is reported; the peer sees end-of-stream; the daemon
               can serve a new connection; dropping it ends its workers *)
            vbool (starts_with "err:" w && (String.eqb peer "eof" || String.eqb peer "closed")
                   && String.eqb restart "ok" && (nleft =? 0))
      | _ => VS "false"
      end
  | _ => verror "args"
  end.
