(* Specification-level description of the frontend operations (vhost-user
   specification + properties C01/C02/C03/C06/C07): request code, payload
   encoding at the specified offsets, descriptors, local validity, reply
   kind, gate.  Independent of Gen and of the hand model.  [fe_spec] judges an
   observed run of the real frontend against a scripted peer. *)
From VV Require Import Base.Bits Base.Val Spec.Validity Spec.ValidityDec Spec.BeSpec Spec.Gates.
Open Scope string_scope.
Open Scope list_scope.
Open Scope N_scope.

Fixpoint list_eqb (a b : list N) : bool :=
  match a, b with
  | [], [] => true
  | x :: r, y :: t => (x =? y) && list_eqb r t
  | _, _ => false
  end.
Definition le32 (v : N) : list N := le_encode 4 v.
Definition le64 (v : N) : list N := le_encode 8 v.
Definition le16 (v : N) : list N := le_encode 2 v.

Inductive rkind := RAck | RU64 | RVringState | RConfig | RFile | RInflight | RShmem | RStateFd | RCheckState | RLog | RNone.

Record op_spec := {
  os_code : N;
  os_body : option (list N);     (* None: the arguments must be rejected locally *)
  os_fds : list N;
  os_reply : rkind }.

Definition arg (a : list N) (i : nat) : N := nth i a 0.

Definition region_enc (r : list N) : list N := le64 (arg r 0) ++ le64 (arg r 1) ++ le64 (arg r 2) ++ le64 (arg r 3).

(* queue index must be below the known maximum *)
Definition q_ok (maxq : N) (a : list N) : bool := arg a 0 <? maxq.

Definition spec_op (maxq : N) (log_shmfd : bool) (name : string) (a : list N) (data : list N) (fds : list N)
           (regions : list (list N)) : option op_spec :=
  let mk code body f r := Some {| os_code := code; os_body := body; os_fds := f; os_reply := r |} in
  if String.eqb name "get_features" then mk 1 (Some []) [] RU64
  else if String.eqb name "set_features" then mk 2 (Some (le64 (arg a 0))) [] RAck
  else if String.eqb name "set_owner" then mk 3 (Some []) [] RAck
  else if String.eqb name "reset_owner" then mk 4 (Some []) [] RAck
  else if String.eqb name "set_mem_table" then
    let n := List.length regions in
    let okl := Nat.leb 1 n && Nat.leb n 32 && forallb (fun r => negb (arg r 1 =? 0) && negb (arg r 4 =? 0)) regions in
    mk 5 (if okl then Some (le32 (N.of_nat n) ++ le32 0 ++ flat_map region_enc regions) else None)
       (map (fun r => arg r 4) regions) RAck
  else if String.eqb name "set_log_base" then
    if log_shmfd && (arg a 1 =? 1) then mk 6 (Some (le64 (arg a 2) ++ le64 (arg a 3))) fds RLog
    else mk 6 (Some (le64 (arg a 0))) [] RNone
  else if String.eqb name "set_log_fd" then mk 7 (Some []) fds RAck
  else if String.eqb name "set_vring_num" then mk 8 (if q_ok maxq a then Some (le32 (arg a 0) ++ le32 (arg a 1)) else None) [] RAck
  else if String.eqb name "set_vring_addr" then
    mk 9 (if q_ok maxq a && (arg a 1 <? 2) then
            Some (le32 (arg a 0) ++ le32 (arg a 1) ++ le64 (arg a 2) ++ le64 (arg a 3) ++ le64 (arg a 4)
                  ++ le64 (if arg a 5 =? 1 then arg a 6 else 0))
          else None) [] RAck
  else if String.eqb name "set_vring_base" then mk 10 (if q_ok maxq a then Some (le32 (arg a 0) ++ le32 (arg a 1)) else None) [] RAck
  else if String.eqb name "get_vring_base" then mk 11 (if q_ok maxq a then Some (le32 (arg a 0) ++ le32 0) else None) [] RVringState
  else if String.eqb name "set_vring_kick" then mk 12 (if q_ok maxq a && (arg a 0 <? 256) then Some (le64 (arg a 0)) else None) fds RAck
  else if String.eqb name "set_vring_call" then mk 13 (if q_ok maxq a && (arg a 0 <? 256) then Some (le64 (arg a 0)) else None) fds RAck
  else if String.eqb name "set_vring_err" then mk 14 (if q_ok maxq a && (arg a 0 <? 256) then Some (le64 (arg a 0)) else None) fds RAck
  else if String.eqb name "get_protocol_features" then mk 15 (Some []) [] RU64
  else if String.eqb name "set_protocol_features" then mk 16 (Some (le64 (N.land (arg a 0) (2 ^ 22 - 1)))) [] RAck
  else if String.eqb name "get_queue_num" then mk 17 (Some []) [] RU64
  else if String.eqb name "set_vring_enable" then mk 18 (if q_ok maxq a then Some (le32 (arg a 0) ++ le32 (arg a 1)) else None) [] RAck
  else if String.eqb name "set_backend_request_fd" then mk 21 (Some []) fds RAck
  else if String.eqb name "get_config" then
    mk 24 (if config_valid_b (arg a 0) (arg a 1) (arg a 2) && (N.of_nat (List.length data) =? arg a 1) && (12 + arg a 1 <=? 4096)
           then Some (le32 (arg a 0) ++ le32 (arg a 1) ++ le32 (arg a 2) ++ data) else None) [] RConfig
  else if String.eqb name "set_config" then
    mk 25 (if config_valid_b (arg a 0) (N.of_nat (List.length data)) (arg a 1) && (12 + N.of_nat (List.length data) <=? 4096)
           then Some (le32 (arg a 0) ++ le32 (N.of_nat (List.length data)) ++ le32 (arg a 1) ++ data) else None) [] RAck
  else if String.eqb name "get_inflight_fd" then
    mk 31 (Some (le64 (arg a 0) ++ le64 (arg a 1) ++ le16 (arg a 2) ++ le16 (arg a 3) ++ le32 0)) [] RInflight
  else if String.eqb name "set_inflight_fd" then
    mk 32 (if negb (arg a 0 =? 0) && negb (arg a 2 =? 0) && negb (arg a 3 =? 0) && negb (arg fds 0 =? 0)
           then Some (le64 (arg a 0) ++ le64 (arg a 1) ++ le16 (arg a 2) ++ le16 (arg a 3) ++ le32 0) else None) fds RAck
  else if String.eqb name "reset_device" then mk 34 (Some []) [] RAck
  else if String.eqb name "get_max_mem_slots" then mk 36 (Some []) [] RU64
  else if String.eqb name "add_mem_region" then
    mk 37 (if negb (arg a 1 =? 0) && negb (arg a 4 =? 0) then Some (le64 0 ++ region_enc a) else None) [arg a 4] RAck
  else if String.eqb name "remove_mem_region" then
    mk 38 (if negb (arg a 1 =? 0) then Some (le64 0 ++ region_enc a) else None) [] RAck
  else if String.eqb name "get_shared_object" then
    mk 41 (if uuid_valid_b data && Nat.eqb (List.length data) 16 then Some data else None) [] RFile
  else if String.eqb name "set_device_state_fd" then mk 42 (Some (le32 (arg a 0) ++ le32 (arg a 1))) fds RStateFd
  else if String.eqb name "check_device_state" then mk 43 (Some []) [] RCheckState
  else if String.eqb name "get_shmem_config" then mk 44 (Some []) [] RShmem
  else None.

(* negotiation state as the specification sees it *)
Record fstate := { fs_offered : N; fs_acked_virtio : N; fs_acked_proto : N; fs_maxq : N; fs_need_reply : bool; fs_hflags : N }.

Fixpoint lookup_gate (t : list (string * (N * gate))) (n : string) : gate :=
  match t with [] => GNone | (k, (_, g)) :: r => if String.eqb k n then g else lookup_gate r n end.
Definition fe_gate_open (s : fstate) (name : string) : bool :=
  if String.eqb name "set_vring_enable" then hasb (fs_acked_virtio s) VF_PROTOCOL_FEATURES
  else match lookup_gate fe_gate_table name with
       | GNone => true
       | GProto b => hasb (fs_acked_proto s) b
       | GVirtioPF => hasb (fs_offered s) VF_PROTOCOL_FEATURES
       end.

(* the single message the peer script starts with, if any *)
Definition first_seg (script : list val) : option (list N * list N) :=
  match script with
  | VL [VH h; fds] :: _ => match val_NL fds with Some l => Some (hex_bytes h, l) | None => None end
  | _ => None
  end.
(* all scripted bytes, and the descriptors of the first segment *)
Definition script_bytes (script : list val) : list N :=
  flat_map (fun v => match v with VL [VH h; _] => hex_bytes h | _ => [] end) script.

(* do the scripted bytes start with a conformant reply to request [code] carrying a body of at least
   [blen] bytes?  (REPLY flag, same code, version 1, no reserved bits, header-valid size.)  The size
   field itself is compared only where [exact] is set (variable-length replies). *)
Definition reply_hdr_ok (code : N) (bytes : list N) (blen : option N) : bool :=
  Nat.leb 12 (List.length bytes)
  && (u bytes 0 4 =? code)
  && (N.land (u bytes 4 4) 3 =? 1) && hasb (u bytes 4 4) 4 && (u bytes 4 4 <? 16)
  && (u bytes 8 4 <=? 4096)
  && match blen with Some n => (12 + n <=? N.of_nat (List.length bytes)) | None => true end.
(* the announced size is [n] and that many bytes follow the header; whatever the peer writes after
   them belongs to the next message of the stream, not to this reply *)
Definition reply_size_is (bytes : list N) (n : N) : bool := (u bytes 8 4 =? n) && (12 + n <=? N.of_nat (List.length bytes)).

Definition is_ok (res : val) : bool := match res with VL (VS "ok" :: _) => true | _ => false end.
Definition ok_vals (res : val) : list val := match res with VL (VS "ok" :: l) => l | _ => [] end.
Definition is_err (res : val) (n : string) : bool := match res with VS x => String.eqb x n | _ => false end.

(* verdict codes: 0 ok, 1 = C01 (wire bytes), 2 = C02 (local rejection not silent / accepted call not sent),
   3 = C03 (result fidelity), 6 = C06 (accepted a non-reply), 7 = C07 (gate) *)
Definition judge_step (s : fstate) (name : string) (a data fds : list N) (regions : list (list N))
           (script : list val) (res : val) (sent : list val) : N * fstate :=
  if String.eqb name "set_hdr_flags" then
    (0, {| fs_offered := fs_offered s; fs_acked_virtio := fs_acked_virtio s; fs_acked_proto := fs_acked_proto s;
           fs_maxq := fs_maxq s; fs_need_reply := hasb (arg a 0) 8; fs_hflags := arg a 0 |})
  else
  match spec_op (fs_maxq s) (hasb (fs_acked_proto s) PF_LOG_SHMFD) name a data fds regions with
  | None => (0, s)
  | Some sp =>
      if negb (fe_gate_open s name) then
        (* C07: refused without touching the wire *)
        ((if is_ok res then 7 else match sent with [] => 0 | _ => 7 end), s)
      else
      match os_body sp with
      | None =>
          (* C02: locally rejected calls put nothing on the wire (and do not succeed) *)
          ((if is_ok res then 2 else match sent with [] => 0 | _ => 2 end), s)
      | Some body =>
          (* the request on the wire: exactly one message, the specification's encoding *)
          let flags := if fs_need_reply s then 9 else 1 in
          let expect := le32 (os_code sp) ++ le32 flags ++ le32 (N.of_nat (List.length body)) ++ body in
          let wire_ok :=
            match sent with
            | [VL [VH h; f]] =>
                (* a REPLY bit requested through set_hdr_flags is not a bit that applies to a request *)
                list_eqb (hex_bytes h) expect && match val_NL f with Some l => list_eqb l (os_fds sp) | None => false end
            | _ => false
            end in
          if negb wire_ok then (1, s)
          else
            (* state updates the specification attaches to a sent request *)
            let s1 :=
              if String.eqb name "set_features" then
                {| fs_offered := fs_offered s; fs_acked_virtio := N.land (arg a 0) (fs_offered s); fs_acked_proto := fs_acked_proto s;
                   fs_maxq := fs_maxq s; fs_need_reply := fs_need_reply s; fs_hflags := fs_hflags s |}
              else if String.eqb name "set_protocol_features" then
                {| fs_offered := fs_offered s; fs_acked_virtio := fs_acked_virtio s; fs_acked_proto := N.land (arg a 0) (2 ^ 22 - 1);
                   fs_maxq := fs_maxq s; fs_need_reply := fs_need_reply s; fs_hflags := fs_hflags s |}
              else s in
            let ack_on := hasb (fs_acked_proto s1) PF_REPLY_ACK && fs_need_reply s1 in
            let sb := script_bytes script in
            let sfds := match first_seg script with Some (_, f) => f | None => [] end in
            match os_reply sp with
            | RNone => ((if is_ok res then 0 else 3), s1)
            | RAck =>
                if negb ack_on then ((if is_ok res then 0 else 3), s1)
                else
                  let good := reply_hdr_ok (os_code sp) sb (Some 8) && match sfds with [] => true | _ => false end in
                  if is_ok res then
                    (* a failure status taken for success: misreported (C03) and a fabricated success (C06) *)
                    ((if negb good then 6 else if u sb 12 8 =? 0 then 0 else 36), s1)
                  else ((if good && (u sb 12 8 =? 0) then 3 else 0), s1)
            | RU64 | RCheckState =>
                let good := reply_hdr_ok (os_code sp) sb (Some 8) && match sfds with [] => true | _ => false end in
                let v := u sb 12 8 in
                if is_ok res then
                  if negb good then (6, s1)
                  else if match os_reply sp with RCheckState => negb (v =? 0) | _ => false end then (36, s1)
                  else
                    let s2 :=
                      if String.eqb name "get_features" then
                        {| fs_offered := v; fs_acked_virtio := fs_acked_virtio s1; fs_acked_proto := fs_acked_proto s1;
                           fs_maxq := fs_maxq s1; fs_need_reply := fs_need_reply s1; fs_hflags := fs_hflags s1 |}
                      else if String.eqb name "get_queue_num" then
                        {| fs_offered := fs_offered s1; fs_acked_virtio := fs_acked_virtio s1; fs_acked_proto := fs_acked_proto s1;
                           fs_maxq := v; fs_need_reply := fs_need_reply s1; fs_hflags := fs_hflags s1 |}
                      else s1 in
                    let expect_v := if String.eqb name "get_protocol_features" then N.land v (2 ^ 22 - 1) else v in
                    match os_reply sp, ok_vals res with
                    | RCheckState, [] => (0, s2)
                    | RU64, [VN x] => ((if x =? expect_v then 0 else 3), s2)
                    | _, _ => (3, s2)
                    end
                else
                  (* an error is always admissible for a hostile peer; for a conformant successful reply it is a C03 failure,
                     except where the frontend itself bounds the value (queue count above the protocol maximum) *)
                  ((if good && match os_reply sp with RCheckState => v =? 0 | _ => true end
                       && negb (String.eqb name "get_queue_num" && (32768 <? v)) then 3 else 0), s1)
            | RVringState =>
                let good := reply_hdr_ok (os_code sp) sb (Some 8) && match sfds with [] => true | _ => false end in
                if is_ok res then
                  (if negb good then (6, s1)
                   else match ok_vals res with [VN x] => ((if x =? u sb 16 4 then 0 else 3), s1) | _ => (3, s1) end)
                else ((if good then 3 else 0), s1)
            | RLog =>
                let good := reply_hdr_ok (os_code sp) sb (Some 16) && match sfds with [] => true | _ => false end
                            && log_valid_b (u sb 12 8) (u sb 20 8) in
                if is_ok res then ((if good then 0 else 6), s1) else ((if good then 3 else 0), s1)
            | RConfig =>
                let size := arg a 1 in
                let good := reply_hdr_ok (os_code sp) sb (Some (12 + size)) && reply_size_is sb (12 + size) && match sfds with [] => true | _ => false end
                            && (u sb 12 4 =? arg a 0) && (u sb 16 4 =? size) && (u sb 20 4 <? 4) in
                if is_ok res then
                  (if negb good then (6, s1)
                   else match ok_vals res with
                        | [VN o; VN z; VN f; VH p] =>
                            ((if (o =? arg a 0) && (z =? size) && (f =? u sb 20 4) && list_eqb (hex_bytes p) (firstn (N.to_nat size) (skipn 24 sb)) then 0 else 3), s1)
                        | _ => (3, s1)
                        end)
                else ((if good then 3 else 0), s1)
            | RFile =>
                let good := reply_hdr_ok (os_code sp) sb (Some 0) in
                if is_ok res then
                  (if negb good then (6, s1)
                   else match sfds, ok_vals res with
                        | [f], [VL [VN x]] => ((if x =? f then 0 else 3), s1)
                        | _, _ => (6, s1)
                        end)
                else ((if good && Nat.eqb (List.length sfds) 1 then 3 else 0), s1)
            | RInflight =>
                let good := reply_hdr_ok (os_code sp) sb (Some 24) && inflight_valid_b (u sb 28 2) (u sb 30 2) in
                if is_ok res then
                  (if negb good then (6, s1)
                   else match sfds, ok_vals res with
                        | [f], [VN ms; VN mo; VN nq; VN qs; VL [VN x]] =>
                            ((if (x =? f) && (ms =? u sb 12 8) && (mo =? u sb 20 8) && (nq =? u sb 28 2) && (qs =? u sb 30 2) then 0 else 3), s1)
                        | _, _ => (6, s1)
                        end)
                else ((if good && Nat.eqb (List.length sfds) 1 then 3 else 0), s1)
            | RShmem =>
                let good := reply_hdr_ok (os_code sp) sb (Some 2056) && match sfds with [] => true | _ => false end in
                if is_ok res then
                  (if negb good then (6, s1)
                   else match ok_vals res with
                        | [VN nr; VL sizes] =>
                            ((if (nr =? u sb 12 4) && match all_some (map val_N sizes) with
                                                      | Some l => list_eqb l [u sb 20 8; u sb 28 8; u sb 36 8; u sb 44 8]
                                                      | None => false end then 0 else 3), s1)
                        | _ => (3, s1)
                        end)
                else ((if good then 3 else 0), s1)
            | RStateFd =>
                let good := reply_hdr_ok (os_code sp) sb (Some 8) in
                let v := u sb 12 8 in
                if is_ok res then
                  (if negb good then (6, s1)
                   else match ok_vals res with
                        (* a value that announces no descriptor but comes with some, or announces one and comes with
                           none or several, is not a well-formed reply (C06); a failure value taken for success is C03 *)
                        | [VL []] => ((if v =? 256 then match sfds with [] => 0 | _ => 6 end else 3), s1)
                        | [VL [VN x]] => ((if v =? 0 then match sfds with [f] => if x =? f then 0 else 3 | _ => 6 end else 3), s1)
                        | _ => (3, s1)
                        end)
                else
                  ((if good && (((v =? 256) && match sfds with [] => true | _ => false end)
                                || ((v =? 0) && Nat.eqb (List.length sfds) 1)) then 3 else 0), s1)
            end
      end
  end.

(* ---- the fe-spec entry: args = [VN maxq; VL steps; VL obs] ---- *)
Definition parse_fstep (v : val) : option (string * list N * list N * list N * list (list N) * list val) :=
  match v with
  | VL [VS name; nums; VH bytes; fds; VL regions; VL script] =>
      match val_NL nums, val_NL fds, all_some (map val_NL regions) with
      | Some a, Some f, Some r => Some (name, a, hex_bytes bytes, f, r, script)
      | _, _, _ => None
      end
  | _ => None
  end.
Fixpoint judge_all (s : fstate) (steps obs : list val) : N :=
  match steps, obs with
  | [], _ => 0
  | _, [] => 1
  | st :: rs, VL [res; VL sent] :: ro =>
      match parse_fstep st with
      | Some (name, a, data, fds, regions, script) =>
          let '(v, s') := judge_step s name a data fds regions script res sent in
          let sb := script_bytes script in
          (* accepted although the stream ended inside the reply: C08 as much as C06 *)
          let truncated := (N.of_nat (List.length sb) <? 12) || (N.of_nat (List.length sb) <? 12 + u sb 8 4) in
          if v =? 0 then judge_all s' rs ro else if (v =? 6) && truncated && is_ok res then 68 else v
      | None => 0
      end
  | _, _ => 5
  end.
Definition fe_spec (args : list val) : val :=
  match args with
  | [VN maxq; VL steps; VL obs] =>
      let v := judge_all {| fs_offered := 0; fs_acked_virtio := 0; fs_acked_proto := 0; fs_maxq := maxq;
                            fs_need_reply := false; fs_hflags := 0 |} steps obs in
      if v =? 0 then VS "true"
      else if v =? 1 then VS "false:C01"
      else if v =? 2 then VS "false:C02"
      else if v =? 3 then VS "false:C03"
      else if v =? 6 then VS "false:C06"
      else if v =? 68 then VS "false:C06,C08"
      else if v =? 36 then VS "false:C03,C06"
      else if v =? 7 then VS "false:C07"
      else VS "false:C06"
  | [_; _; _] => VS "false:C06"
  | _ => verror "args"
  end.
