(* Message-level specification of the backend request server, written from
   the protocol text and properties C04/C05/C07/C09: which requests exist,
   which have a reply, which feature gates them, what a valid handler
   invocation looks like, and a decidable check of an observed run against
   these rules.  Independent of Gen and of the hand model. *)
From VV Require Import Base.Bits Base.Val Spec.Validity Spec.ValidityDec.
Open Scope string_scope.
Open Scope list_scope.
Open Scope N_scope.

(* protocol feature bits (numbers from the specification) *)
Definition PF_MQ := 2 ^ 0.            Definition PF_LOG_SHMFD := 2 ^ 1.
Definition PF_REPLY_ACK := 2 ^ 3.     Definition PF_BACKEND_REQ := 2 ^ 5.
Definition PF_PAGEFAULT := 2 ^ 8.     Definition PF_CONFIG := 2 ^ 9.
Definition PF_INFLIGHT_SHMFD := 2 ^ 12. Definition PF_RESET_DEVICE := 2 ^ 13.
Definition PF_CONFIGURE_MEM_SLOTS := 2 ^ 15. Definition PF_SHARED_OBJECT := 2 ^ 18.
Definition PF_DEVICE_STATE := 2 ^ 19. Definition PF_SHMEM := 2 ^ 21.
Definition VF_PROTOCOL_FEATURES := 2 ^ 30.
Definition hasb (x bit : N) : bool := negb (N.land x bit =? 0).

Inductive gate := GNone | GProto (bit : N) | GVirtioPF.

(* request code -> (handler name, gate, has a defined reply, descriptors allowed) ;
   only the requests the backend request server implements *)
Record req_info := { ri_name : string; ri_gate : gate; ri_reply : bool }.
Definition req_table : list (N * req_info) :=
  [(1, {| ri_name := "get_features"; ri_gate := GNone; ri_reply := true |});
   (2, {| ri_name := "set_features"; ri_gate := GNone; ri_reply := false |});
   (3, {| ri_name := "set_owner"; ri_gate := GNone; ri_reply := false |});
   (4, {| ri_name := "reset_owner"; ri_gate := GNone; ri_reply := false |});
   (5, {| ri_name := "set_mem_table"; ri_gate := GNone; ri_reply := false |});
   (6, {| ri_name := "set_log_base"; ri_gate := GProto PF_LOG_SHMFD; ri_reply := true |});
   (8, {| ri_name := "set_vring_num"; ri_gate := GNone; ri_reply := false |});
   (9, {| ri_name := "set_vring_addr"; ri_gate := GNone; ri_reply := false |});
   (10, {| ri_name := "set_vring_base"; ri_gate := GNone; ri_reply := false |});
   (11, {| ri_name := "get_vring_base"; ri_gate := GNone; ri_reply := true |});
   (12, {| ri_name := "set_vring_kick"; ri_gate := GNone; ri_reply := false |});
   (13, {| ri_name := "set_vring_call"; ri_gate := GNone; ri_reply := false |});
   (14, {| ri_name := "set_vring_err"; ri_gate := GNone; ri_reply := false |});
   (15, {| ri_name := "get_protocol_features"; ri_gate := GNone; ri_reply := true |});
   (16, {| ri_name := "set_protocol_features"; ri_gate := GNone; ri_reply := false |});
   (17, {| ri_name := "get_queue_num"; ri_gate := GProto PF_MQ; ri_reply := true |});
   (18, {| ri_name := "set_vring_enable"; ri_gate := GVirtioPF; ri_reply := false |});
   (21, {| ri_name := "set_backend_req_fd"; ri_gate := GProto PF_BACKEND_REQ; ri_reply := false |});
   (24, {| ri_name := "get_config"; ri_gate := GProto PF_CONFIG; ri_reply := true |});
   (25, {| ri_name := "set_config"; ri_gate := GProto PF_CONFIG; ri_reply := false |});
   (31, {| ri_name := "get_inflight_fd"; ri_gate := GProto PF_INFLIGHT_SHMFD; ri_reply := true |});
   (32, {| ri_name := "set_inflight_fd"; ri_gate := GProto PF_INFLIGHT_SHMFD; ri_reply := false |});
   (33, {| ri_name := "set_gpu_socket"; ri_gate := GNone; ri_reply := false |});
   (34, {| ri_name := "reset_device"; ri_gate := GProto PF_RESET_DEVICE; ri_reply := false |});
   (36, {| ri_name := "get_max_mem_slots"; ri_gate := GProto PF_CONFIGURE_MEM_SLOTS; ri_reply := true |});
   (37, {| ri_name := "add_mem_region"; ri_gate := GProto PF_CONFIGURE_MEM_SLOTS; ri_reply := false |});
   (38, {| ri_name := "remove_mem_region"; ri_gate := GProto PF_CONFIGURE_MEM_SLOTS; ri_reply := false |});
   (41, {| ri_name := "get_shared_object"; ri_gate := GProto PF_SHARED_OBJECT; ri_reply := true |});
   (42, {| ri_name := "set_device_state_fd"; ri_gate := GNone; ri_reply := true |});
   (43, {| ri_name := "check_device_state"; ri_gate := GNone; ri_reply := true |});
   (44, {| ri_name := "get_shmem_config"; ri_gate := GProto PF_SHMEM; ri_reply := true |})].
Fixpoint lookup_req (t : list (N * req_info)) (c : N) : option req_info :=
  match t with [] => None | (k, i) :: r => if k =? c then Some i else lookup_req r c end.

(* requests that may carry descriptors *)
Definition fds_allowed (c : N) : bool :=
  existsb (N.eqb c) [5; 12; 13; 14; 6; 7; 21; 32; 37; 42; 33].

(* ---------------- C05: validity of a handler invocation ---------------- *)
Definition nargs (l : list val) : option (list N) := all_some (map val_N l).
Definition is_fdlist (v : val) (n : nat) : bool :=
  match val_NL v with Some l => Nat.eqb (List.length l) n | None => false end.
Definition region_ok (v : val) : bool :=
  match val_NL v with
  | Some [gpa; size; ua; off] => region_valid_b gpa size ua off
  | _ => false
  end.

Definition valid_call_b (c : val) : bool :=
  match c with
  | VL (VS name :: args) =>
      if String.eqb name "set_mem_table" then
        match args with
        | [VL regs; VL fds] =>
            let n := List.length regs in
            (Nat.leb 1 n) && (Nat.leb n 32) && forallb region_ok regs && Nat.eqb (List.length fds) n
        | _ => false
        end
      else if String.eqb name "add_mem_region" then
        match args with [r; f] => region_ok r && is_fdlist f 1 | _ => false end
      else if String.eqb name "remove_mem_region" then
        match args with [r] => region_ok r | _ => false end
      else if String.eqb name "set_vring_addr" then
        match nargs args with
        | Some [i; flags; desc; used; avail; log] => vring_addr_valid_b flags desc used avail
        | _ => false
        end
      else if String.eqb name "get_config" then
        match nargs args with Some [off; size; flags] => config_valid_b off size flags | _ => false end
      else if String.eqb name "set_config" then
        match args with
        | [VN off; VH payload; VN flags] =>
            config_valid_b off (N.of_nat (List.length (hex_bytes payload))) flags
        | _ => false
        end
      else if String.eqb name "set_vring_enable" then
        match nargs args with Some [i; e] => (e =? 0) || (e =? 1) | _ => false end
      else if String.eqb name "set_vring_kick" || String.eqb name "set_vring_call" || String.eqb name "set_vring_err" then
        match args with [VN i; f] => (i <? 256) && (is_fdlist f 0 || is_fdlist f 1) | _ => false end
      else if String.eqb name "set_backend_req_fd" || String.eqb name "set_gpu_socket" then
        match args with [f] => is_fdlist f 1 | _ => false end
      else if String.eqb name "set_inflight_fd" then
        match args with
        | [VN ms; VN mo; VN nq; VN qs; f] => inflight_valid_b nq qs && is_fdlist f 1
        | _ => false
        end
      else if String.eqb name "get_inflight_fd" then
        match nargs args with Some [ms; mo; nq; qs] => inflight_valid_b nq qs | _ => false end
      else if String.eqb name "set_log_base" then
        match args with [VN sz; VN off; f] => log_valid_b sz off && is_fdlist f 1 | _ => false end
      else if String.eqb name "set_device_state_fd" then
        match args with [VN d; VN p; f] => transfer_state_valid_b d p && is_fdlist f 1 | _ => false end
      else if String.eqb name "get_shared_object" then
        match args with [VH u] => uuid_valid_b (hex_bytes u) && Nat.eqb (List.length (hex_bytes u)) 16 | _ => false end
      else true
  | _ => false
  end.

(* ---------------- C04 / C07: reply discipline and gating over clean histories -------- *)
Record cmsg := { m_code : N; m_flags : N; m_size : N; m_body : list N; m_fds : list N }.
Definition parse_msg (bytes fds : list N) : option cmsg :=
  if Nat.leb 12 (List.length bytes) then
    Some {| m_code := u bytes 0 4; m_flags := u bytes 4 4; m_size := u bytes 8 4;
            m_body := skipn 12 bytes; m_fds := fds |}
  else None.
(* one segment = one request the server reads completely, whatever it then decides *)
Definition clean_msg (m : cmsg) : bool :=
  header_valid_b 1 44 (m_code m) (m_flags m) (m_size m)
  && (N.of_nat (List.length (m_body m)) =? m_size m)
  && (match m_fds m with [] => true | _ => fds_allowed (m_code m) && Nat.leb (List.length (m_fds m)) 32 end).

Record nstate := { ns_offered : N; ns_acked_virtio : N; ns_acked_proto : N }.
Definition reply_ack_on (s : nstate) : bool :=
  hasb (ns_offered s) VF_PROTOCOL_FEATURES && hasb (ns_acked_proto s) PF_REPLY_ACK.
Definition gate_open (s : nstate) (g : gate) : bool :=
  match g with
  | GNone => true
  | GProto b => hasb (ns_acked_proto s) b
  | GVirtioPF => hasb (ns_acked_virtio s) VF_PROTOCOL_FEATURES
  end.

(* C05: how many descriptors the request prescribes, for requests whose handler takes any: the ring descriptor
   messages carry exactly one unless bit 8 of the payload says none; a memory table one per region; the others one.
   [None]: the request takes no descriptor (and a message that carries one is refused). *)
Definition fds_prescribed (m : cmsg) : option N :=
  let c := m_code m in
  if (c =? 12) || (c =? 13) || (c =? 14) then Some (if hasb (u (m_body m) 0 8) 256 then 0 else 1)
  else if c =? 5 then Some (u (m_body m) 0 4)
  else if existsb (N.eqb c) [6; 21; 32; 37; 42; 33] then Some 1
  else None.
Definition fds_as_prescribed (m : cmsg) : bool :=
  match fds_prescribed m with
  | Some n => N.of_nat (List.length (m_fds m)) =? n
  | None => match m_fds m with [] => true | _ => false end
  end.

Definition accepted (res : string) : bool := String.eqb res "ok" || String.eqb res "ReqHandlerError".

(* expected header of a response to request m: code, flags = version 1 + REPLY, no NEED_REPLY *)
Definition is_response_to (m : cmsg) (sent : val) (body_len : option N) : bool :=
  match sent with
  | VL [VH h; _] =>
      let b := hex_bytes h in
      Nat.leb 12 (List.length b)
      && (u b 0 4 =? m_code m) && (u b 4 4 =? 5)
      && (u b 8 4 =? N.of_nat (List.length b - 12))
      && match body_len with Some n => u b 8 4 =? n | None => true end
  | _ => false
  end.
(* the flags word of a response: version 1 plus REPLY and nothing else - in particular not the request's NEED_REPLY *)
Definition response_flags_exact (sent : val) : bool :=
  match sent with
  | VL [VH h; _] => let b := hex_bytes h in Nat.leb 12 (List.length b) && (u b 4 4 =? 5)
  | _ => false
  end.
Definition response_flags_plausible (sent : val) : bool :=
  match sent with
  | VL [VH h; _] => let b := hex_bytes h in Nat.leb 12 (List.length b) && hasb (u b 4 4) 4 && (N.land (u b 4 4) 3 =? 1)
  | _ => false
  end.
Definition ack_value (sent : val) : N :=
  match sent with VL [VH h; _] => u (hex_bytes h) 12 8 | _ => 99 end.
(* C01: the answer to GET_CONFIG is the requested window - same offset, the requested size, that many payload bytes -
   or the protocol's failure form: size 0 and no payload *)
Definition config_reply_ok (m : cmsg) (sent : val) : bool :=
  match sent with
  | VL [VH h; _] =>
      let b := hex_bytes h in
      let want := u (m_body m) 4 4 in
      let plen := N.of_nat (List.length b - 24) in
      Nat.leb 24 (List.length b) && (u b 12 4 =? u (m_body m) 0 4)
      && (((u b 16 4 =? want) && (plen =? want)) || ((u b 16 4 =? 0) && (plen =? 0)))
  | _ => false
  end.
(* C01: in the answer to SET_DEVICE_STATE_FD bit 8 ("no descriptor comes with this reply") is set exactly when no
   descriptor is attached; bits 0..7 carry the error indication *)
Definition device_state_reply_ok (sent : val) : bool :=
  match sent with
  | VL [VH h; VL fds] => Bool.eqb (hasb (u (hex_bytes h) 12 8) 256) (match fds with [] => true | _ => false end)
  | _ => false
  end.
Definition call_name (c : val) : string := match c with VL (VS n :: _) => n | _ => "" end.

(* walk the clean history; [results], [calls], [sent] are what the implementation showed.
   Result: 0 = conforms, 4 = reply/ack discipline broken (C04), 7 = gating broken (C07) *)
Definition and_then (c : bool) (code : N) (k : N) : N := if c then k else code.
Fixpoint walk (cfg_features : N) (s : nstate) (msgs : list cmsg) (results : list string)
         (calls sent : list val) : N :=
  match msgs, results with
  | [], _ => match calls, sent with [], [] => 0 | _, _ => 4 end
  | _, [] => 4
  | m :: ms, r :: rs =>
      let need_reply := hasb (m_flags m) 8 in
      if hasb (m_flags m) 4 then
        (* a message marked as a reply is not a request: never dispatched (C05) *)
        and_then (negb (accepted r)) 5
          (let plain := walk cfg_features s ms rs calls sent in
           if plain =? 0 then 0
           else match sent with
                | x :: xs =>
                    (* a failure acknowledgement for the refused message is tolerated *)
                    if need_reply && is_response_to m x (Some 8) && negb (ack_value x =? 0)
                    then walk cfg_features s ms rs calls xs else plain
                | [] => plain
                end)
      else
      match lookup_req req_table (m_code m) with
      | None =>
          (* no such request in the backend server: must be refused, silently *)
          and_then (negb (accepted r)) 4 (walk cfg_features s ms rs calls sent)
      | Some info =>
          if negb (gate_open s (ri_gate info)) then
            (* C07: refused without invoking the handler, nothing written *)
            and_then (negb (accepted r)) 7 (walk cfg_features s ms rs calls sent)
          else if accepted r then
            (* exactly one invocation, of this request's handler *)
            match calls with
            | [] => 4
            | c :: cs =>
                and_then (fds_as_prescribed m) 5 (
                (* C05: a configuration request is served only when the bytes after its 12-byte descriptor are exactly as
                   many as the descriptor declares *)
                and_then (negb ((m_code m =? 24) || (m_code m =? 25))
                          || (N.of_nat (List.length (m_body m) - 12) =? u (m_body m) 4 4)) 5 (
                and_then (String.eqb (call_name c) (ri_name info)) 4
                  (let s' :=
                    if m_code m =? 1 then
                      (if String.eqb r "ok" then {| ns_offered := cfg_features; ns_acked_virtio := ns_acked_virtio s; ns_acked_proto := ns_acked_proto s |} else s)
                    else if m_code m =? 2 then {| ns_offered := ns_offered s; ns_acked_virtio := u (m_body m) 0 8; ns_acked_proto := ns_acked_proto s |}
                    else if m_code m =? 16 then {| ns_offered := ns_offered s; ns_acked_virtio := ns_acked_virtio s; ns_acked_proto := u (m_body m) 0 8 |}
                    else s in
                  if ri_reply info then
                    if String.eqb r "ok" then
                      match sent with
                      | x :: xs =>
                          (* C07: the answer to GET_PROTOCOL_FEATURES always offers REPLY_ACK, whatever the device offers
                             and whatever was negotiated before *)
                          and_then (negb (m_code m =? 15) || hasb (ack_value x) PF_REPLY_ACK) 7
                            (and_then ((negb (m_code m =? 24) || config_reply_ok m x)
                                       && (negb (m_code m =? 42) || device_state_reply_ok x)) 1
                               (* a reply that is one (REPLY set, version 1) but carries further flag bits is wrongly
                                  encoded (C01) as much as it breaks the reply discipline (C04) *)
                               (and_then (response_flags_exact x || negb (response_flags_plausible x)) 14
                                  (and_then (is_response_to m x None) 4 (walk cfg_features s' ms rs cs xs))))
                      | [] => 4
                      end
                    else walk cfg_features s' ms rs cs sent
                  else if need_reply && reply_ack_on s' then
                    match sent with
                    | x :: xs =>
                        (* the acknowledgement is zero exactly when the handler succeeded: C03 (the frontend's call succeeds
                           only on a zero status) as much as C04 *)
                        and_then (Bool.eqb (ack_value x =? 0) (String.eqb r "ok")) 34
                          (and_then (response_flags_exact x || negb (response_flags_plausible x)) 14
                             (and_then (is_response_to m x (Some 8)) 4 (walk cfg_features s' ms rs cs xs)))
                    | [] => 4
                    end
                  else walk cfg_features s' ms rs cs sent)))
            end
          else
            (* refused (malformed body, wrong descriptors, ...): no invocation; a failure
               acknowledgement is tolerated where the protocol's NEED_REPLY rule applies *)
            let plain := walk cfg_features s ms rs calls sent in
            if plain =? 0 then 0
            else match sent with
                 | x :: xs =>
                     if negb (ri_reply info) && need_reply && reply_ack_on s
                        && is_response_to m x (Some 8) && negb (ack_value x =? 0)
                     then walk cfg_features s ms rs calls xs
                     else plain
                 | [] => plain
                 end
      end
  end.

Definition strings_of (l : list val) : option (list string) := all_some (map val_S l).

Definition parse_case_msg (v : val) : option cmsg :=
  match v with
  | VL [VH h; fds] => match val_NL fds with Some l => parse_msg (hex_bytes h) l | None => None end
  | _ => None
  end.

(* descriptors: each delivered at most once, only ones that were sent, none leaked *)
Definition fd_calls : list string :=
  ["set_mem_table"; "set_vring_kick"; "set_vring_call"; "set_vring_err"; "set_backend_req_fd"; "set_gpu_socket";
   "set_inflight_fd"; "add_mem_region"; "set_device_state_fd"; "set_log_base"].
Definition call_fds (c : val) : list N :=
  match c with
  | VL (VS name :: args) =>
      if existsb (String.eqb name) fd_calls then
        match last args (VN 0) with
        | VL inner => match all_some (map val_N inner) with Some ns => ns | None => [] end
        | _ => []
        end
      else []
  | _ => []
  end.
Fixpoint nodup_b (l : list N) : bool :=
  match l with [] => true | x :: r => negb (existsb (N.eqb x) r) && nodup_b r end.

(* the be-spec entry: args = [cfg; outs; msgs; obs] *)
Definition be_spec (args : list val) : val :=
  match args with
  | [VL [VN f; VN pf]; _; VL msgs; VL [VL results; VL calls; VL sent; VN leaked]] =>
      let c05 := forallb valid_call_b calls in
      let delivered := flat_map call_fds calls in
      let sent_ids := flat_map (fun m => match m with VL [_; fds] => match val_NL fds with Some l => l | None => [] end | _ => [] end) msgs in
      let c09 := (leaked =? 0) && nodup_b delivered && forallb (fun d => existsb (N.eqb d) sent_ids) delivered in
      let c0407 :=
        match all_some (map parse_case_msg msgs), strings_of results with
        | Some ms, Some rs =>
            if forallb clean_msg ms then
              walk f {| ns_offered := 0; ns_acked_virtio := 0; ns_acked_proto := 0 |} ms rs calls sent
            else 0
        | _, _ => 0
        end in
      if negb c05 then VS "false:C05"
      else if negb c09 then VS "false:C09"
      else if c0407 =? 34 then VS "false:C03,C04"
      else if c0407 =? 14 then VS "false:C01,C04"
      else if c0407 =? 1 then VS "false:C01"
      else if c0407 =? 4 then VS "false:C04"
      else if c0407 =? 7 then VS "false:C07"
      else if c0407 =? 5 then VS "false:C05"
      else VS "true"
  | [_; _; _; _] => VS "false:C05"     (* a panic or malformed observation *)
  | _ => verror "args"
  end.
