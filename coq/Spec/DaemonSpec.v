(* Specification of the daemon's ring life-cycle and kick routing (C11, C17),
   written from the property text; independent of the hand model.  [dmn_spec]
   judges the observed dispatches of a run against it. *)
From VV Require Import Base.Bits Base.Val Spec.BeSpec Spec.MemSpec.
Open Scope string_scope.
Open Scope list_scope.
Open Scope N_scope.

Record sring := { sr_started : bool; sr_enabled : bool; sr_kick : option N; sr_size : N; sr_next_avail : N }.
Record sstate := { ss_rings : list sring; ss_pending : list (N * N); ss_masks : list N; ss_features : N }.
(* custom listeners are kept in ss_pending under keys 2^40 + thread * 2^20 + id *)

Fixpoint supd {A} (l : list A) (i : nat) (x : A) : list A :=
  match l, i with
  | [], _ => []
  | _ :: r, O => x :: r
  | y :: r, S k => y :: supd r k x
  end.
Definition spend (s : sstate) (f : N) : N := fold_right (fun p a => if fst p =? f then snd p else a) 0 (ss_pending s).
Definition sset_pend (l : list (N * N)) (f v : N) : list (N * N) := (f, v) :: filter (fun p => negb (fst p =? f)) l.

(* C17: the owner is the first worker whose mask contains q; the event id is the number of
   lower-numbered queues in that mask *)
Fixpoint spec_owner (masks : list N) (q : N) (t : N) : option (N * N) :=
  match masks with
  | [] => None
  | m :: r => if N.testbit m q then Some (t, popcount (m mod 2 ^ q)) else spec_owner r q (t + 1)
  end.

Definition is_ok_res (r : val) : bool :=
  match r with VS "ok" => true | VL (VS "ok" :: _) => true | _ => false end.

(* the dispatches the specification demands after a step: every started and enabled ring whose current
   kick descriptor has a pending kick is dispatched once, to its owner, with its rank; the kick is consumed *)
Fixpoint due (masks : list N) (rings : list sring) (q : N) (pend : list (N * N)) : list val * list (N * N) :=
  match rings with
  | [] => ([], pend)
  | r :: rest =>
      let here :=
        match sr_kick r with
        | Some f =>
            if sr_started r && sr_enabled r
               && negb (fold_right (fun p a => if fst p =? f then snd p else a) 0 pend =? 0)
            then match spec_owner masks q 0 with
                 | Some (t, rank) => Some (f, VL [VN t; VN rank; VN (sr_size r)])
                 | None => None
                 end
            else None
        | None => None
        end in
      match here with
      | Some (f, ev) => let '(evs, p') := due masks rest (q + 1) (sset_pend pend f 0) in (ev :: evs, p')
      | None => due masks rest (q + 1) pend
      end
  end.

Fixpoint ins (x : val) (l : list val) : list val :=
  let key v := match v with VL [VN t; VN i; VN m] => t * 1000000 + i * 10000 + m | _ => 0 end in
  match l with
  | [] => [x]
  | y :: r => if key x <=? key y then x :: l else y :: ins x r
  end.
Definition sort_ev (l : list val) : list val := fold_right ins [] l.

Fixpoint ev_eqb (a b : list val) : bool :=
  match a, b with
  | [], [] => true
  | VL [VN t; VN i; VN m] :: r, VL [VN t'; VN i'; VN m'] :: r' => (t =? t') && (i =? i') && (m =? m') && ev_eqb r r'
  | _, _ => false
  end.

Definition is_p2 (n : N) : bool := popcount n =? 1.

(* one step of the specification; verdict 0 ok, 11 = C11, 17 = C17 (wrong worker/id/ring), 14 = C14 *)
Definition sstep (s : sstate) (kind : string) (a : list N) (res : val) (events : list val) : N * sstate :=
  let arg i := nth i a 0 in
  let q := arg 0%nat in
  let ok := is_ok_res res in
  let rs := ss_rings s in
  let s1 :=
    if negb ok then s
    else if String.eqb kind "set_vring_kick" then
      match nth_error rs (N.to_nat q) with
      | Some r => {| ss_rings := supd rs (N.to_nat q) {| sr_started := true; sr_enabled := sr_enabled r; sr_kick := Some (arg 1%nat);
                                                          sr_size := sr_size r; sr_next_avail := sr_next_avail r |};
                     ss_pending := ss_pending s; ss_masks := ss_masks s; ss_features := ss_features s |}
      | None => s
      end
    else if String.eqb kind "set_vring_kick_nofd" then
      match nth_error rs (N.to_nat (N.land q 255)) with
      | Some r => {| ss_rings := supd rs (N.to_nat (N.land q 255)) {| sr_started := sr_started r; sr_enabled := sr_enabled r; sr_kick := None;
                                                                        sr_size := sr_size r; sr_next_avail := sr_next_avail r |};
                     ss_pending := ss_pending s; ss_masks := ss_masks s; ss_features := ss_features s |}
      | None => s
      end
    else if String.eqb kind "get_vring_base" then
      match nth_error rs (N.to_nat q) with
      | Some r => {| ss_rings := supd rs (N.to_nat q) {| sr_started := false; sr_enabled := sr_enabled r; sr_kick := None;
                                                          sr_size := sr_size r; sr_next_avail := sr_next_avail r |};
                     ss_pending := ss_pending s; ss_masks := ss_masks s; ss_features := ss_features s |}
      | None => s
      end
    else if String.eqb kind "set_vring_enable" then
      match nth_error rs (N.to_nat q) with
      | Some r => {| ss_rings := supd rs (N.to_nat q) {| sr_started := sr_started r; sr_enabled := negb (arg 1%nat =? 0); sr_kick := sr_kick r;
                                                          sr_size := sr_size r; sr_next_avail := sr_next_avail r |};
                     ss_pending := ss_pending s; ss_masks := ss_masks s; ss_features := ss_features s |}
      | None => s
      end
    else if String.eqb kind "reset_device" then
      {| ss_rings := map (fun r => {| sr_started := sr_started r; sr_enabled := false; sr_kick := sr_kick r; sr_size := sr_size r;
                                      sr_next_avail := sr_next_avail r |}) rs;
         ss_pending := ss_pending s; ss_masks := ss_masks s; ss_features := ss_features s |}
    else if String.eqb kind "set_features" then
      if hasb q VF_PROTOCOL_FEATURES then s
      else {| ss_rings := map (fun r => {| sr_started := sr_started r; sr_enabled := true; sr_kick := sr_kick r; sr_size := sr_size r;
                                           sr_next_avail := sr_next_avail r |}) rs;
              ss_pending := ss_pending s; ss_masks := ss_masks s; ss_features := ss_features s |}
    else if String.eqb kind "set_vring_num" then
      match nth_error rs (N.to_nat q) with
      | Some r => {| ss_rings := supd rs (N.to_nat q) {| sr_started := sr_started r; sr_enabled := sr_enabled r; sr_kick := sr_kick r;
                                                          sr_size := arg 1%nat; sr_next_avail := sr_next_avail r |};
                     ss_pending := ss_pending s; ss_masks := ss_masks s; ss_features := ss_features s |}
      | None => s
      end
    else if String.eqb kind "kick" then
      {| ss_rings := rs; ss_pending := sset_pend (ss_pending s) q (spend s q + 1); ss_masks := ss_masks s; ss_features := ss_features s |}
    else s in
  (* custom listeners (C17): accepted only with an id above num_queues; delivered with exactly that id *)
  let lis_verdict :=
    if String.eqb kind "add_listener" then (if ok && (arg 1%nat <=? N.of_nat (List.length rs)) then 17 else 0) else 0 in
  let lis_expected :=
    if String.eqb kind "fire_listener" && ok then [VL [VN q; VN (arg 1%nat); VN 9999]] else [] in
  let '(expected0, pend') := due (ss_masks s1) (ss_rings s1) 0 (ss_pending s1) in
  let expected := expected0 ++ lis_expected in
  (* the ring's own state as the backend sees it: started by SET_VRING_KICK / stopped by GET_VRING_BASE, enabled as
     SET_VRING_ENABLE / SET_FEATURES / RESET_DEVICE left it *)
  let state_verdict :=
    if String.eqb kind "queue_state" then
      match nth_error rs (N.to_nat q), res with
      | Some r, VL [VN _; VN ready; VN _; VN _; VN _; VN _; VN _; VN _; VN enabled] =>
          if Bool.eqb (negb (ready =? 0)) (sr_started r) && Bool.eqb (negb (enabled =? 0)) (sr_enabled r) then 0 else 11
      | _, _ => 0
      end
    else 0 in
  if negb (state_verdict =? 0) then (state_verdict, s1) else
  if negb (lis_verdict =? 0) then (lis_verdict, s1) else
  let s2 := {| ss_rings := ss_rings s1; ss_pending := pend'; ss_masks := ss_masks s1; ss_features := ss_features s1 |} in
  if ev_eqb (sort_ev expected) events then (0, s2)
  else
    (* same number of dispatches but different worker / id / ring: routing (C17); otherwise the life-cycle (C11) *)
    (* a due dispatch that did not happen (or went elsewhere) contradicts both the life-cycle (C11: delivered when started
       and enabled) and the routing (C17: delivered to the owner with its rank); a dispatch that was not due only C11 *)
    ((if Nat.eqb (List.length expected) (List.length events) then 17
      else if Nat.ltb (List.length events) (List.length expected) then 28 else 11), s2).

Fixpoint swalk (s : sstate) (steps obs : list val) : N :=
  match steps, obs with
  | _, [] => 0
  | [], _ => 11
  | VL (VS kind :: nums :: _) :: rs, VL [res; VL events] :: ro =>
      match val_NL nums with
      | Some a => let '(v, s') := sstep s kind a res events in if v =? 0 then swalk s' rs ro else v
      | None => 0
      end
  | _, _ => 11
  end.

(* the check applies to runs in which every control message is acknowledged (REPLY_ACK negotiated by the
   first step), so that the observed results say which messages the daemon accepted *)
Definition dmn_spec (args : list val) : val :=
  match args with
  | [VL [VN nq; VN maxq; VN f; VN pf; masks; VN _]; VL steps; VL obs] =>
      match val_NL masks, steps with
      | Some ms, VL (VS "set_protocol_features" :: VL [VN v] :: _) :: _ =>
          if hasb v 8 && hasb f VF_PROTOCOL_FEATURES then
            let v := swalk {| ss_rings := repeat {| sr_started := false; sr_enabled := false; sr_kick := None; sr_size := maxq; sr_next_avail := 0 |} (N.to_nat nq);
                              ss_pending := []; ss_masks := ms; ss_features := f |} steps obs in
            (* both walks are evaluated over the whole history: a run can falsify the ring clauses (C11 / C17) and the
               memory / log / configuration clauses (C05, C09, C13, C14, C15) at once, and each property's own check must see it *)
            let ring_tag := if v =? 17 then "C17" else if v =? 28 then "C11,C17" else if negb (v =? 0) then "C11" else "" in
            let w := mwalk (minit nq maxq f) false steps obs in
            let mem_tag := if w =? 0 then "" else if w =? 5 then "C05" else if w =? 35 then "C03,C05" else if w =? 134 then "C13,C14" else if w =? 9 then "C09" else if w =? 13 then "C13"
                           else if w =? 15 then "C15" else if w =? 135 then "C13,C15" else "C14" in
            if String.eqb ring_tag "" && String.eqb mem_tag "" then VS "true"
            else if String.eqb ring_tag "" then VS (String.append "false:" mem_tag)
            else if String.eqb mem_tag "" then VS (String.append "false:" ring_tag)
            else VS (String.append "false:" (String.append ring_tag (String.append "," mem_tag)))
          else VS "n/a"
      | _, _ => VS "n/a"
      end
  | [_; _; _] => VS "false:C11"
  | _ => verror "args"
  end.
