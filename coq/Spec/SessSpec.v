(* Session-level specification (C02/C03): what the backend's handler must see
   for a frontend call, and what the caller must get back.  The handler's
   scripted answers follow the harness conventions stated below. *)
From VV Require Import Base.Bits Base.Val Spec.Validity Spec.ValidityDec Spec.BeSpec Spec.Gates Spec.FeSpec.
Open Scope string_scope.
Open Scope list_scope.
Open Scope N_scope.

Definition r4 (r : list N) : val := VL [VN (arg r 0); VN (arg r 1); VN (arg r 2); VN (arg r 3)].
Definition cl (n : string) (args : list val) : val := VL (VS n :: args).
Definition vfd (l : list N) : val := VL (map VN l).

(* the handler invocation that corresponds to a frontend operation with these arguments *)
Definition expected_call (log_shmfd : bool) (name : string) (a data fds : list N) (regions : list (list N)) : option val :=
  if String.eqb name "get_features" then Some (cl "get_features" [])
  else if String.eqb name "set_features" then Some (cl "set_features" [VN (arg a 0)])
  else if String.eqb name "set_owner" then Some (cl "set_owner" [])
  else if String.eqb name "reset_owner" then Some (cl "reset_owner" [])
  else if String.eqb name "set_mem_table" then Some (cl "set_mem_table" [VL (map r4 regions); vfd (map (fun r => arg r 4) regions)])
  else if String.eqb name "set_log_base" then
    (if log_shmfd && (arg a 1 =? 1) then Some (cl "set_log_base" [VN (arg a 2); VN (arg a 3); vfd fds]) else None)
  else if String.eqb name "set_vring_num" then Some (cl "set_vring_num" [VN (arg a 0); VN (arg a 1)])
  else if String.eqb name "set_vring_addr" then
    Some (cl "set_vring_addr" [VN (arg a 0); VN (arg a 1); VN (arg a 2); VN (arg a 3); VN (arg a 4);
                               VN (if arg a 5 =? 1 then arg a 6 else 0)])
  else if String.eqb name "set_vring_base" then Some (cl "set_vring_base" [VN (arg a 0); VN (arg a 1)])
  else if String.eqb name "get_vring_base" then Some (cl "get_vring_base" [VN (arg a 0)])
  else if String.eqb name "set_vring_kick" || String.eqb name "set_vring_call" || String.eqb name "set_vring_err" then
    Some (cl name [VN (arg a 0); vfd fds])
  else if String.eqb name "get_protocol_features" then Some (cl "get_protocol_features" [])
  else if String.eqb name "set_protocol_features" then Some (cl "set_protocol_features" [VN (N.land (arg a 0) (2 ^ 22 - 1))])
  else if String.eqb name "get_queue_num" then Some (cl "get_queue_num" [])
  else if String.eqb name "reset_device" then Some (cl "reset_device" [])
  else if String.eqb name "set_vring_enable" then Some (cl "set_vring_enable" [VN (arg a 0); VN (arg a 1)])
  else if String.eqb name "get_config" then Some (cl "get_config" [VN (arg a 0); VN (arg a 1); VN (arg a 2)])
  else if String.eqb name "set_config" then Some (cl "set_config" [VN (arg a 0); vbytes data; VN (arg a 1)])
  else if String.eqb name "set_backend_request_fd" then Some (cl "set_backend_req_fd" [vfd fds])
  else if String.eqb name "get_shared_object" then Some (cl "get_shared_object" [vbytes data])
  else if String.eqb name "get_inflight_fd" then Some (cl "get_inflight_fd" [VN (arg a 0); VN (arg a 1); VN (arg a 2); VN (arg a 3)])
  else if String.eqb name "set_inflight_fd" then
    Some (cl "set_inflight_fd" [VN (arg a 0); VN (arg a 1); VN (arg a 2); VN (arg a 3); vfd fds])
  else if String.eqb name "get_max_mem_slots" then Some (cl "get_max_mem_slots" [])
  else if String.eqb name "add_mem_region" then Some (cl "add_mem_region" [r4 a; vfd [arg a 4]])
  else if String.eqb name "remove_mem_region" then Some (cl "remove_mem_region" [r4 a])
  else if String.eqb name "get_shmem_config" then Some (cl "get_shmem_config" [])
  else if String.eqb name "set_device_state_fd" then Some (cl "set_device_state_fd" [VN (arg a 0); VN (arg a 1); vfd fds])
  else if String.eqb name "check_device_state" then Some (cl "check_device_state" [])
  else None.

(* conventions of the recording handler: its success values as a function of the arguments *)
Definition expected_values (feat pfeat : N) (name : string) (a data : list N) (o : N) : option (list val) :=
  if String.eqb name "get_features" then Some [VN feat]
  else if String.eqb name "get_protocol_features" then Some [VN (N.lor (N.land pfeat (2 ^ 22 - 1)) 8)]
  else if String.eqb name "get_queue_num" then Some [VN 4660]
  else if String.eqb name "get_vring_base" then Some [VN ((arg a 0 * 7 + 3) mod 2 ^ 32)]
  else if String.eqb name "get_config" then
    Some [VN (arg a 0); VN (arg a 1); VN (arg a 2);
          vbytes (map (fun i => (arg a 0 + N.of_nat i) mod 251) (seq 0 (N.to_nat (arg a 1))))]
  else if String.eqb name "get_shared_object" then Some [VL [VN 1000]]
  else if String.eqb name "get_inflight_fd" then
    Some [VN ((arg a 0 + 1) mod 2 ^ 64); VN (arg a 1); VN (arg a 2); VN (arg a 3); VL [VN 1001]]
  else if String.eqb name "get_max_mem_slots" then Some [VN 509]
  else if String.eqb name "get_shmem_config" then Some [VN 2; VL [VN 4096; VN 8192; VN 0; VN 0]]
  else if String.eqb name "set_device_state_fd" then Some [if o =? 2 then VL [VN 1002] else VL []]
  else Some [].

Fixpoint val_eqb_spec (a b : val) {struct a} : bool :=
  match a, b with
  | VN x, VN y => x =? y
  | VS x, VS y => String.eqb x y
  | VH x, VH y => String.eqb x y
  | VL x, VL y =>
      (fix go (l1 l2 : list val) : bool :=
         match l1, l2 with
         | [], [] => true
         | p :: r1, q :: r2 => val_eqb_spec p q && go r1 r2
         | _, _ => false
         end) x y
  | _, _ => false
  end.
Definition vals_eqb (a b : list val) : bool := val_eqb_spec (VL a) (VL b).

(* does the handler "succeed" under outcome o for this operation (harness convention) *)
Definition handler_ok (name : string) (o : N) : bool :=
  (o =? 0) || ((o =? 2) && String.eqb name "set_device_state_fd")
  || String.eqb name "set_backend_request_fd".   (* that handler method has no result *)

(* verdict: 0 ok, 2 = C02, 3 = C03 *)
Definition judge_sstep (feat pfeat : N) (s : fstate) (name : string) (a data fds : list N) (regions : list (list N))
           (o : N) (res : val) (calls : list val) : N * fstate :=
  if String.eqb name "set_hdr_flags" then
    (0, {| fs_offered := fs_offered s; fs_acked_virtio := fs_acked_virtio s; fs_acked_proto := fs_acked_proto s;
           fs_maxq := fs_maxq s; fs_need_reply := hasb (arg a 0) 8; fs_hflags := arg a 0 |})
  else if val_eqb_spec res (VS "blocked") then (3, s)
  else
  let log_shmfd := hasb (fs_acked_proto s) PF_LOG_SHMFD in
  match spec_op (fs_maxq s) log_shmfd name a data fds regions with
  | None => (0, s)
  | Some sp =>
      let locally_ok := fe_gate_open s name && match os_body sp with Some _ => true | None => false end in
      if negb locally_ok then
        (* refused by the frontend: the handler must not be reached *)
        ((match calls with [] => 0 | _ => 2 end), s)
      else
        let s1 :=
          if String.eqb name "set_features" then
            {| fs_offered := fs_offered s; fs_acked_virtio := N.land (arg a 0) (fs_offered s); fs_acked_proto := fs_acked_proto s;
               fs_maxq := fs_maxq s; fs_need_reply := fs_need_reply s; fs_hflags := fs_hflags s |}
          else if String.eqb name "set_protocol_features" then
            {| fs_offered := fs_offered s; fs_acked_virtio := fs_acked_virtio s; fs_acked_proto := N.land (arg a 0) (2 ^ 22 - 1);
               fs_maxq := fs_maxq s; fs_need_reply := fs_need_reply s; fs_hflags := fs_hflags s |}
          else s in
        match expected_call log_shmfd name a data fds regions with
        | None => (0, s1)     (* forms of the operation that have no handler on this backend server *)
        | Some ec =>
            if negb (valid_call_b ec) then
              (* arguments the protocol itself forbids (unaligned ring address, ...): the backend refuses them *)
              ((match calls with [] => 0 | _ => 2 end), s1)
            else
              (* C02: exactly one invocation, of this operation, with equal arguments and the same files *)
              match calls with
              | [c] =>
                  if negb (val_eqb_spec c ec) then (2, s1)
                  else
                    (* C03 *)
                    let awaited :=
                      match os_reply sp with
                      | RAck => hasb (fs_acked_proto s1) PF_REPLY_ACK && fs_need_reply s1
                      | RNone => false
                      | _ => true
                      end in
                    let usable := handler_ok name o
                                  && negb (String.eqb name "get_queue_num" && false) in
                    if usable then
                      match expected_values feat pfeat name a data o with
                      | Some vs =>
                          if is_ok res then
                            let s2 :=
                              if String.eqb name "get_features" then
                                {| fs_offered := feat; fs_acked_virtio := fs_acked_virtio s1; fs_acked_proto := fs_acked_proto s1;
                                   fs_maxq := fs_maxq s1; fs_need_reply := fs_need_reply s1; fs_hflags := fs_hflags s1 |}
                              else if String.eqb name "get_queue_num" then
                                {| fs_offered := fs_offered s1; fs_acked_virtio := fs_acked_virtio s1; fs_acked_proto := fs_acked_proto s1;
                                   fs_maxq := 4660; fs_need_reply := fs_need_reply s1; fs_hflags := fs_hflags s1 |}
                              else s1 in
                            ((if vals_eqb (ok_vals res) vs then 0 else 3), s2)
                          else (3, s1)
                      | None => (0, s1)
                      end
                    else
                      (* the handler failed or produced an unusable result: never success when an answer is awaited *)
                      ((if awaited && is_ok res then 3 else 0), s1)
              | _ => (2, s1)
              end
        end
  end.

Definition parse_sess_step (v : val) : option (string * list N * list N * list N * list (list N) * N) :=
  match v with
  | VL [VS name; nums; VH bytes; fds; VL regions; VN o] =>
      match val_NL nums, val_NL fds, all_some (map val_NL regions) with
      | Some a, Some f, Some r => Some (name, a, hex_bytes bytes, f, r, o)
      | _, _, _ => None
      end
  | _ => None
  end.
Fixpoint judge_sess (feat pfeat : N) (s : fstate) (steps obs : list val) : N :=
  match steps, obs with
  | _, [] => 0
  | [], _ => 2
  | st :: rs, VL [res; VL calls] :: ro =>
      match parse_sess_step st with
      | Some (name, a, data, fds, regions, o) =>
          let '(v, s') := judge_sstep feat pfeat s name a data fds regions o res calls in
          if v =? 0 then judge_sess feat pfeat s' rs ro else v
      | None => 0
      end
  | _, _ => 2
  end.
Definition sess_spec (args : list val) : val :=
  match args with
  | [VN maxq; VL [VN feat; VN pfeat]; VL steps; VL obs] =>
      let v := judge_sess feat pfeat {| fs_offered := 0; fs_acked_virtio := 0; fs_acked_proto := 0; fs_maxq := maxq;
                                        fs_need_reply := false; fs_hflags := 0 |} steps obs in
      if v =? 0 then VS "true" else if v =? 2 then VS "false:C02" else VS "false:C03"
  | [_; _; _; _] => VS "false:C03"
  | _ => verror "args"
  end.
