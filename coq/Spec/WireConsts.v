(* Constants and payload layouts of the vhost-user and vhost-user-gpu
   specifications, transcribed by hand (request numbers, header flag bits,
   feature bits, size limits, field offsets).  Independent of the crate. *)
From Coq Require Import NArith List String.
Import ListNotations.
Open Scope string_scope.
Open Scope N_scope.

Definition frontend_requests : list (string * N) :=
  [("GET_FEATURES", 1); ("SET_FEATURES", 2); ("SET_OWNER", 3); ("RESET_OWNER", 4); ("SET_MEM_TABLE", 5);
   ("SET_LOG_BASE", 6); ("SET_LOG_FD", 7); ("SET_VRING_NUM", 8); ("SET_VRING_ADDR", 9); ("SET_VRING_BASE", 10);
   ("GET_VRING_BASE", 11); ("SET_VRING_KICK", 12); ("SET_VRING_CALL", 13); ("SET_VRING_ERR", 14);
   ("GET_PROTOCOL_FEATURES", 15); ("SET_PROTOCOL_FEATURES", 16); ("GET_QUEUE_NUM", 17); ("SET_VRING_ENABLE", 18);
   ("SEND_RARP", 19); ("NET_SET_MTU", 20); ("SET_BACKEND_REQ_FD", 21); ("IOTLB_MSG", 22); ("SET_VRING_ENDIAN", 23);
   ("GET_CONFIG", 24); ("SET_CONFIG", 25); ("CREATE_CRYPTO_SESSION", 26); ("CLOSE_CRYPTO_SESSION", 27);
   ("POSTCOPY_ADVISE", 28); ("POSTCOPY_LISTEN", 29); ("POSTCOPY_END", 30); ("GET_INFLIGHT_FD", 31);
   ("SET_INFLIGHT_FD", 32); ("GPU_SET_SOCKET", 33); ("RESET_DEVICE", 34); ("VRING_KICK", 35);
   ("GET_MAX_MEM_SLOTS", 36); ("ADD_MEM_REG", 37); ("REM_MEM_REG", 38); ("SET_STATUS", 39); ("GET_STATUS", 40);
   ("GET_SHARED_OBJECT", 41); ("SET_DEVICE_STATE_FD", 42); ("CHECK_DEVICE_STATE", 43); ("GET_SHMEM_CONFIG", 44)].

Definition backend_requests : list (string * N) :=
  [("IOTLB_MSG", 1); ("CONFIG_CHANGE_MSG", 2); ("VRING_HOST_NOTIFIER_MSG", 3); ("VRING_CALL", 4); ("VRING_ERR", 5);
   ("SHARED_OBJECT_ADD", 6); ("SHARED_OBJECT_REMOVE", 7); ("SHARED_OBJECT_LOOKUP", 8); ("SHMEM_MAP", 9);
   ("SHMEM_UNMAP", 10)].

Definition gpu_requests : list (string * N) :=
  [("GET_PROTOCOL_FEATURES", 1); ("SET_PROTOCOL_FEATURES", 2); ("GET_DISPLAY_INFO", 3); ("CURSOR_POS", 4);
   ("CURSOR_POS_HIDE", 5); ("CURSOR_UPDATE", 6); ("SCANOUT", 7); ("UPDATE", 8); ("DMABUF_SCANOUT", 9);
   ("DMABUF_UPDATE", 10); ("GET_EDID", 11); ("DMABUF_SCANOUT2", 12)].

(* header flags: bits 0-1 version, bit 2 reply, bit 3 need_reply *)
Definition header_flags : list (string * N) :=
  [("VERSION", 3); ("REPLY", 4); ("NEED_REPLY", 8); ("ALL_FLAGS", 12); ("RESERVED_BITS", 4294967280)].
Definition gpu_header_flags : list (string * N) := [("REPLY", 4)].

Definition virtio_features : list (string * N) := [("LOG_ALL", 2 ^ 26); ("PROTOCOL_FEATURES", 2 ^ 30)].

Definition protocol_features : list (string * N) :=
  [("MQ", 2 ^ 0); ("LOG_SHMFD", 2 ^ 1); ("RARP", 2 ^ 2); ("REPLY_ACK", 2 ^ 3); ("MTU", 2 ^ 4); ("BACKEND_REQ", 2 ^ 5);
   ("CROSS_ENDIAN", 2 ^ 6); ("CRYPTO_SESSION", 2 ^ 7); ("PAGEFAULT", 2 ^ 8); ("CONFIG", 2 ^ 9);
   ("BACKEND_SEND_FD", 2 ^ 10); ("HOST_NOTIFIER", 2 ^ 11); ("INFLIGHT_SHMFD", 2 ^ 12); ("RESET_DEVICE", 2 ^ 13);
   ("INBAND_NOTIFICATIONS", 2 ^ 14); ("CONFIGURE_MEM_SLOTS", 2 ^ 15); ("STATUS", 2 ^ 16); ("XEN_MMAP", 2 ^ 17);
   ("SHARED_OBJECT", 2 ^ 18); ("DEVICE_STATE", 2 ^ 19); ("GET_VRING_BASE_INFLIGHT", 2 ^ 20); ("SHMEM", 2 ^ 21)].

Definition vring_addr_flags : list (string * N) := [("VHOST_VRING_F_LOG", 1)].
Definition config_flags : list (string * N) := [("WRITABLE", 1); ("LIVE_MIGRATION", 2)].
Definition mmap_flags : list (string * N) := [("WRITABLE", 1)].
Definition transfer_direction : list (string * N) := [("SAVE", 0); ("LOAD", 1)].
Definition transfer_phase : list (string * N) := [("STOPPED", 0)].

Definition max_msg_size : N := 4096.
Definition max_attached_fds : N := 32.
Definition config_space_size : N := 4096.
Definition max_vrings : N := 32768.

(* payload layouts: struct -> total size and (field, offset, width in bytes) *)
Open Scope nat_scope.
Definition layouts : list (string * (nat * list (string * nat * nat))) :=
  [("VhostUserMsgHeader", (12, [("request", 0, 4); ("flags", 4, 4); ("size", 8, 4)]));
   ("VhostUserGpuMsgHeader", (12, [("request", 0, 4); ("flags", 4, 4); ("size", 8, 4)]));
   ("VhostUserU64", (8, [("value", 0, 8)]));
   ("VhostUserMemory", (8, [("num_regions", 0, 4); ("padding1", 4, 4)]));
   ("VhostUserMemoryRegion", (32, [("guest_phys_addr", 0, 8); ("memory_size", 8, 8); ("user_addr", 16, 8); ("mmap_offset", 24, 8)]));
   ("VhostUserSingleMemoryRegion", (40, [("padding", 0, 8); ("region", 8, 32)]));
   ("VhostUserVringState", (8, [("index", 0, 4); ("num", 4, 4)]));
   ("VhostUserVringAddr", (40, [("index", 0, 4); ("flags", 4, 4); ("descriptor", 8, 8); ("used", 16, 8); ("available", 24, 8); ("log", 32, 8)]));
   ("VhostUserConfig", (12, [("offset", 0, 4); ("size", 4, 4); ("flags", 8, 4)]));
   ("VhostUserInflight", (24, [("mmap_size", 0, 8); ("mmap_offset", 8, 8); ("num_queues", 16, 2); ("queue_size", 18, 2)]));
   ("VhostUserLog", (16, [("mmap_size", 0, 8); ("mmap_offset", 8, 8)]));
   ("VhostUserSharedMsg", (16, [("uuid", 0, 16)]));
   ("VhostUserTransferDeviceState", (8, [("direction", 0, 4); ("phase", 4, 4)]));
   ("VhostUserMMap", (40, [("shmid", 0, 1); ("padding", 1, 7); ("fd_offset", 8, 8); ("shm_offset", 16, 8); ("len", 24, 8); ("flags", 32, 8)]));
   ("VhostUserShMemConfig", (2056, [("nregions", 0, 4); ("padding", 4, 4); ("memory_sizes", 8, 2048)]));
   ("VhostUserEmpty", (0, []))].
