(* Executable (boolean) form of Spec.Validity, proved equivalent to it, plus a
   byte-level entry point with the field offsets of the specification written
   out by hand.  Used to search for a concrete failing input when a C20 proof
   no longer goes through, and as a run-time cross-check of the theorems. *)
From VV Require Import Base.Bits Base.Val Spec.Validity.
From Coq Require Import ZArith ZifyBool ZifyN.
Open Scope N_scope.
Ltac Zify.zify_post_hook ::= Z.div_mod_to_equations.

Definition in_range_b (lo hi v : N) : bool := (lo <=? v) && (v <=? hi).
Definition header_valid_b (lo hi code flags size : N) : bool :=
  in_range_b lo hi code && (size <=? 4096) && (flags mod 4 =? 1) && (flags <? 16).
Definition gpu_header_valid_b (code flags : N) : bool :=
  in_range_b 1 12 code && ((flags =? 0) || (flags =? 4)).
Definition memory_valid_b (num padding : N) : bool :=
  (padding =? 0) && in_range_b 1 32 num.
Definition region_valid_b (gpa size ua off : N) : bool :=
  negb (size =? 0) && (gpa + size <? 2 ^ 64) && (ua + size <? 2 ^ 64) && (off + size <? 2 ^ 64).
Definition vring_addr_valid_b (flags desc used avail : N) : bool :=
  (flags <? 2) && (desc mod 16 =? 0) && (avail mod 2 =? 0) && (used mod 4 =? 0).
Definition config_valid_b (offset size flags : N) : bool :=
  (1 <=? size) && (offset + size <=? 4096) && (offset + size <? 2 ^ 32) && (flags <? 4).
Definition inflight_valid_b (nq qs : N) : bool := negb (nq =? 0) && negb (qs =? 0).
Definition log_valid_b (size off : N) : bool := negb (size =? 0) && (off + size <? 2 ^ 64).
Definition transfer_state_valid_b (d p : N) : bool := ((d =? 0) || (d =? 1)) && (p =? 0).
Definition uuid_valid_b (u : list N) : bool :=
  negb (forallb (fun b => b =? 0) u) && negb (forallb (fun b => b =? 255) u).
Definition mmap_valid_b (fd_off shm_off len flags : N) : bool :=
  negb (len =? 0) && (fd_off + len <? 2 ^ 64) && (shm_off + len <? 2 ^ 64) && (flags <? 2).

Lemma header_valid_b_iff lo hi code flags size :
  header_valid_b lo hi code flags size = true <-> header_valid (fun c => lo <= c <= hi) code flags size.
Proof. unfold header_valid_b, header_valid, in_range_b. lia. Qed.
Lemma gpu_header_valid_b_iff code flags :
  gpu_header_valid_b code flags = true <-> gpu_header_valid code flags.
Proof. unfold gpu_header_valid_b, gpu_header_valid, gpu_req_known, in_range_b. lia. Qed.
Lemma memory_valid_b_iff n p : memory_valid_b n p = true <-> memory_valid n p.
Proof. unfold memory_valid_b, memory_valid, in_range_b. lia. Qed.
Lemma region_valid_b_iff a b c d : region_valid_b a b c d = true <-> region_valid a b c d.
Proof. unfold region_valid_b, region_valid, u64_max. lia. Qed.
Lemma vring_addr_valid_b_iff a b c d : vring_addr_valid_b a b c d = true <-> vring_addr_valid a b c d.
Proof. unfold vring_addr_valid_b, vring_addr_valid. lia. Qed.
Lemma config_valid_b_iff a b c : config_valid_b a b c = true <-> config_valid a b c.
Proof. unfold config_valid_b, config_valid, u32_max. lia. Qed.
Lemma inflight_valid_b_iff a b : inflight_valid_b a b = true <-> inflight_valid a b.
Proof. unfold inflight_valid_b, inflight_valid. lia. Qed.
Lemma log_valid_b_iff a b : log_valid_b a b = true <-> log_valid a b.
Proof. unfold log_valid_b, log_valid, u64_max. lia. Qed.
Lemma transfer_state_valid_b_iff a b : transfer_state_valid_b a b = true <-> transfer_state_valid a b.
Proof. unfold transfer_state_valid_b, transfer_state_valid. lia. Qed.
Lemma mmap_valid_b_iff a b c d : mmap_valid_b a b c d = true <-> mmap_valid a b c d.
Proof. unfold mmap_valid_b, mmap_valid, u64_max. lia. Qed.

(* byte-level entry: offsets as the specification draws the structures *)
Definition u (bs : list N) (off sz : nat) : N := le_decode (firstn sz (skipn off bs)).
Definition len_is (bs : list N) (n : nat) : bool := Nat.eqb (List.length bs) n.

Open Scope string_scope.
Definition spec_valid_by_name (name : string) (bs : list N) : option bool :=
  let chk n (b : bool) := if len_is bs n then Some b else None in
  if String.eqb name "VhostUserMsgHeader<FrontendReq>" then
    chk 12%nat (header_valid_b 1 44 (u bs 0 4) (u bs 4 4) (u bs 8 4))
  else if String.eqb name "VhostUserMsgHeader<BackendReq>" then
    chk 12%nat (header_valid_b 1 10 (u bs 0 4) (u bs 4 4) (u bs 8 4))
  else if String.eqb name "VhostUserGpuMsgHeader<GpuBackendReq>" then
    chk 12%nat (gpu_header_valid_b (u bs 0 4) (u bs 4 4))
  else if String.eqb name "VhostUserMemory" then
    chk 8%nat (memory_valid_b (u bs 0 4) (u bs 4 4))
  else if String.eqb name "VhostUserMemoryRegion" then
    chk 32%nat (region_valid_b (u bs 0 8) (u bs 8 8) (u bs 16 8) (u bs 24 8))
  else if String.eqb name "VhostUserSingleMemoryRegion" then
    chk 40%nat (region_valid_b (u bs 8 8) (u bs 16 8) (u bs 24 8) (u bs 32 8))
  else if String.eqb name "VhostUserVringAddr" then
    chk 40%nat (vring_addr_valid_b (u bs 4 4) (u bs 8 8) (u bs 16 8) (u bs 24 8))
  else if String.eqb name "VhostUserConfig" then
    chk 12%nat (config_valid_b (u bs 0 4) (u bs 4 4) (u bs 8 4))
  else if String.eqb name "VhostUserInflight" then
    chk 24%nat (inflight_valid_b (u bs 16 2) (u bs 18 2))
  else if String.eqb name "VhostUserLog" then
    chk 16%nat (log_valid_b (u bs 0 8) (u bs 8 8))
  else if String.eqb name "VhostUserTransferDeviceState" then
    chk 8%nat (transfer_state_valid_b (u bs 0 4) (u bs 4 4))
  else if String.eqb name "VhostUserSharedMsg" then
    chk 16%nat (uuid_valid_b bs)
  else if String.eqb name "VhostUserMMap" then
    chk 40%nat (mmap_valid_b (u bs 8 8) (u bs 16 8) (u bs 24 8) (u bs 32 8))
  else if String.eqb name "VhostUserU64" then chk 8%nat true
  else if String.eqb name "VhostUserVringState" then chk 8%nat true
  else None.
