(* Specification of the backend-initiated channel (C18, C06 second half):
   request codes and payloads, validity of handler invocations, the
   acknowledgement rule, acceptance of acknowledgements by the proxy. *)
From VV Require Import Base.Bits Base.Val Spec.Validity Spec.ValidityDec Spec.BeSpec Spec.FeSpec.
Open Scope string_scope.
Open Scope list_scope.
Open Scope N_scope.

Definition breq_code (name : string) : N :=
  if String.eqb name "handle_config_change" then 2
  else if String.eqb name "shared_object_add" then 6
  else if String.eqb name "shared_object_remove" then 7
  else if String.eqb name "shared_object_lookup" then 8
  else if String.eqb name "shmem_map" then 9
  else if String.eqb name "shmem_unmap" then 10 else 0.
Definition breq_name (code : N) : string :=
  if code =? 2 then "handle_config_change" else if code =? 6 then "shared_object_add"
  else if code =? 7 then "shared_object_remove" else if code =? 8 then "shared_object_lookup"
  else if code =? 9 then "shmem_map" else if code =? 10 then "shmem_unmap" else "".
Definition breq_has_fd (code : N) : bool := (code =? 8) || (code =? 9).

(* validity of an invocation of the frontend application's handler *)
Definition valid_fcall_b (c : val) : bool :=
  match c with
  | VL [VS "handle_config_change"] => true
  | VL [VS n; VH u] =>
      (String.eqb n "shared_object_add" || String.eqb n "shared_object_remove")
      && uuid_valid_b (hex_bytes u) && Nat.eqb (List.length (hex_bytes u)) 16
  | VL [VS "shared_object_lookup"; VH u; VL [VN _]] =>
      uuid_valid_b (hex_bytes u) && Nat.eqb (List.length (hex_bytes u)) 16
  | VL [VS "shmem_map"; VN shmid; VN fo; VN so; VN len; VN fl; VL [VN _]] => mmap_valid_b fo so len fl
  | VL [VS "shmem_unmap"; VN shmid; VN fo; VN so; VN len; VN fl] => mmap_valid_b fo so len fl
  | _ => false
  end.

(* the value the protocol puts into the acknowledgement for a handler result *)
Definition ack_value_of (kind v : N) : N :=
  if kind =? 0 then v else if kind =? 1 then (2 ^ 64 - v) mod 2 ^ 64 else 2 ^ 64 - 22.

Definition is_ack_for (code : N) (sent : val) (v : N) : bool :=
  match sent with
  | VL [VH h; VL []] =>
      let b := hex_bytes h in
      Nat.eqb (List.length b) 20 && (u b 0 4 =? code) && (u b 4 4 =? 5) && (u b 8 4 =? 8) && (u b 12 8 =? v)
  | _ => false
  end.

(* fsrv clean message: header valid for the backend-request space, body length = size, descriptors as prescribed *)
Definition clean_bmsg (m : cmsg) : bool :=
  header_valid_b 1 10 (m_code m) (m_flags m) (m_size m)
  && (N.of_nat (List.length (m_body m)) =? m_size m).

Definition accepted_f (r : val) : bool :=
  match r with VL [VS "ok"; VN _] => true | VS "ReqHandlerError" => true | _ => false end.

(* walk a clean history of backend-initiated requests; hres script per iteration: VL [VN kind; VN v] *)
Fixpoint walk_f (reply_ack : bool) (msgs : list cmsg) (hs : list val) (results calls sent : list val) : N :=
  match msgs, results with
  | [], _ => match calls, sent with [], [] => 0 | _, _ => 18 end
  | _, [] => 18
  | m :: ms, r :: rs =>
      let need_reply := hasb (m_flags m) 8 in
      let h := hd (VL [VN 0; VN 0]) hs in
      let '(kind, v) := match h with VL [VN k; VN x] => (k, x) | _ => (0, 0) end in
      let nm := breq_name (m_code m) in
      if hasb (m_flags m) 4 then
        (* a message marked as a reply is not a request: never served *)
        (if accepted_f r then 6
         else
           let plain := walk_f reply_ack ms (tl hs) rs calls sent in
           if plain =? 0 then 0
           else match sent with
                | x :: xs =>
                    (* a failure acknowledgement for the refused message is tolerated *)
                    if reply_ack && need_reply && is_ack_for (m_code m) x (2 ^ 64 - 22)
                    then walk_f reply_ack ms (tl hs) rs calls xs else plain
                | [] => plain
                end)
      else if String.eqb nm "" then
        (* not implemented by this server: refused, acknowledged as failure when an ack is due *)
        if accepted_f r then 18
        else if reply_ack && need_reply then
          match sent with
          | x :: xs => if is_ack_for (m_code m) x (2 ^ 64 - 22) then walk_f reply_ack ms (tl hs) rs calls xs else 18
          | [] => 18
          end
        else walk_f reply_ack ms (tl hs) rs calls sent
      else if accepted_f r then
        match calls with
        | c :: cs =>
            if negb (String.eqb (call_name c) nm) then 18
            else if reply_ack && need_reply then
              match sent with
              | x :: xs => if is_ack_for (m_code m) x (ack_value_of kind v) then walk_f reply_ack ms (tl hs) rs cs xs else 18
              | [] => 18
              end
            else walk_f reply_ack ms (tl hs) rs cs sent   (* without REPLY_ACK nothing is written *)
        | [] => 18
        end
      else walk_f reply_ack ms (tl hs) rs calls sent
  end.

Definition fsrv_spec (args : list val) : val :=
  match args with
  | [VN ra; VL hs; VL msgs; VL [VL results; VL calls; VL sent; VN leaked]] =>
      (* C09: a descriptor lent to the handler is one that arrived with the messages, still open during the call *)
      let msg_fds := flat_map (fun m => match m with VL [_; fds] => match val_NL fds with Some l => l | None => [] end | _ => [] end) msgs in
      let lent := flat_map (fun c => match c with
                                     | VL (VS _ :: rest) => match last rest (VN 0) with
                                                            | VL ids => match val_NL (VL ids) with Some l => l | None => [9999] end
                                                            | _ => []
                                                            end
                                     | _ => [] end) calls in
      if negb (forallb valid_fcall_b calls) then VS "false:C06"
      else if negb (leaked =? 0) then VS "false:C09"
      else if negb (forallb (fun d => existsb (N.eqb d) msg_fds) lent) then VS "false:C09"
      else
        match all_some (map parse_case_msg msgs) with
        | Some ms =>
            if forallb clean_bmsg ms
               && forallb (fun m => if breq_has_fd (m_code m) then Nat.eqb (List.length (m_fds m)) 1
                                    else match m_fds m with [] => true | _ => false end) ms
            then (let w := walk_f (ra =? 1) ms hs results calls sent in
                  if w =? 0 then VS "true" else if w =? 6 then VS "false:C06" else VS "false:C18")
            else VS "true"
        | None => VS "true"
        end
  | [_; _; _; _] => VS "false:C06"
  | _ => verror "args"
  end.

(* psess: the real proxy against the real server.  args: [VL [VN ra; VN shared; VN shmem]; VL steps; obs]
   step = VL [VS op; nums; VH uuid; fds; VL [VN kind; VN v]] ; obs step = VL [result; VL calls] *)
Definition expected_fcall (name : string) (a uuid fds : list N) : val :=
  let ub := vbytes (firstn 16 (uuid ++ repeat 0 16)) in
  if String.eqb name "shared_object_add" || String.eqb name "shared_object_remove" then VL [VS name; ub]
  else if String.eqb name "shared_object_lookup" then VL [VS name; ub; VL (map VN fds)]
  else if String.eqb name "shmem_map" then
    VL [VS name; VN (arg a 0); VN (arg a 1); VN (arg a 2); VN (arg a 3); VN (arg a 4); VL (map VN fds)]
  else VL [VS name; VN (arg a 0); VN (arg a 1); VN (arg a 2); VN (arg a 3); VN (arg a 4)].

Fixpoint val_eq (a b : val) {struct a} : bool :=
  match a, b with
  | VN x, VN y => x =? y
  | VS x, VS y => String.eqb x y
  | VH x, VH y => String.eqb x y
  | VL x, VL y =>
      (fix go (l1 l2 : list val) : bool :=
         match l1, l2 with
         | [], [] => true
         | p :: r1, q :: r2 => val_eq p q && go r1 r2
         | _, _ => false
         end) x y
  | _, _ => false
  end.

Fixpoint judge_psess (ra shared shmem : bool) (steps obs : list val) : N :=
  match steps, obs with
  | _, [] => 0
  | [], _ => 18
  | VL [VS name; nums; VH uuid; fds; VL [VN kind; VN v]] :: rs, VL [res; VL calls] :: ro =>
      match val_NL nums, val_NL fds with
      | Some a, Some f =>
          let enabled := if String.eqb name "shmem_map" || String.eqb name "shmem_unmap" then shmem else shared in
          let ec := expected_fcall name a (hex_bytes uuid) f in
          if negb enabled then
            (* refused by the proxy: nothing may reach the handler *)
            (match calls with [] => if is_ok res then 18 else judge_psess ra shared shmem rs ro | _ => 18 end)
          else if negb (valid_fcall_b ec) then
            (* arguments the protocol forbids: the server refuses them; what the proxy call does then
               (error, or waiting for an acknowledgement that is not due) is outside the property *)
            (match calls with [] => judge_psess ra shared shmem rs ro | _ => 18 end)
          else if val_eq res (VS "blocked") then 18
          else
            match calls with
            | [c] =>
                if negb (val_eq c ec) then 18
                else
                  let want_ok := if ra then (kind =? 0) && (v =? 0) else true in
                  if Bool.eqb (is_ok res) want_ok then judge_psess ra shared shmem rs ro else 18
            | _ => 18
            end
      | _, _ => 0
      end
  | _, _ => 18
  end.
Definition psess_spec (args : list val) : val :=
  match args with
  | [VL [VN ra; VN sh; VN sm]; VL steps; VL obs] =>
      if judge_psess (ra =? 1) (sh =? 1) (sm =? 1) steps obs =? 0 then VS "true" else VS "false:C18"
  | [_; _; _] => VS "false:C18"
  | _ => verror "args"
  end.

(* proxy against a scripted peer (C06): success with REPLY_ACK only on a conformant zero acknowledgement *)
Fixpoint judge_proxy (ra shared shmem : bool) (steps obs : list val) : N :=
  match steps, obs with
  | _, [] => 0
  | [], _ => 6
  | VL [VS name; nums; VH uuid; fds; VL script] :: rs, VL [res; VL sent] :: ro =>
      let enabled := if String.eqb name "shmem_map" || String.eqb name "shmem_unmap" then shmem else shared in
      if negb enabled then
        (match sent with [] => if is_ok res then 7 else judge_proxy ra shared shmem rs ro | _ => 7 end)
      else
        let sb := script_bytes script in
        let sfds := match first_seg script with Some (_, f) => f | None => [] end in
        let good := reply_hdr_ok (breq_code name) sb (Some 8) && match sfds with [] => true | _ => false end in
        if negb ra then (if is_ok res then judge_proxy ra shared shmem rs ro else 18)
        else if is_ok res then
          (if good && (u sb 12 8 =? 0) then judge_proxy ra shared shmem rs ro
           (* accepted although the stream ended inside the acknowledgement: C08 as much as C06 *)
           else if (N.of_nat (List.length sb) <? 12) || (N.of_nat (List.length sb) <? 12 + u sb 8 4) then 68 else 6)
        else (if good && (u sb 12 8 =? 0) then 18 else judge_proxy ra shared shmem rs ro)
  | _, _ => 6
  end.
Definition proxy_spec (args : list val) : val :=
  match args with
  | [VL [VN ra; VN sh; VN sm]; VL steps; VL obs] =>
      let v := judge_proxy (ra =? 1) (sh =? 1) (sm =? 1) steps obs in
      if v =? 0 then VS "true" else if v =? 6 then VS "false:C06" else if v =? 68 then VS "false:C06,C08"
      else if v =? 7 then VS "false:C07" else VS "false:C18"
  | [_; _; _] => VS "false:C06"
  | _ => verror "args"
  end.
