(* The forwarding table regenerated from backend_req.rs / gpu_backend_req.rs against the specification table. *)
From VV Require Import Base.Bits Base.Rt Base.Val Gen.GenConsts Gen.GenArms Spec.FwdSpec.
Open Scope string_scope.
Open Scope list_scope.

Definition fwd_ops_ok : bool :=
  forallb fwd_row_ok fwd_ops
  && forallb (fun e => existsb (fun r => let '(ty, m, _, _, _, _, _) := r in String.eqb ty (fst (fst e)) && String.eqb m (snd (fst e))) fwd_ops)
             fwd_expected.
Lemma fwd_ops_ok_true : fwd_ops_ok = true.
Proof. vm_compute. reflexivity. Qed.
