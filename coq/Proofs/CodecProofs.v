(* Round-trip of the regenerated struct codecs: reading back what the generated
   writer wrote gives the same field values (for values that fit their fields).
   Generic lemmas about [put_at] / [rd_int], then one theorem per layout. *)
From VV Require Import Base.Bits Base.Rt Base.Val Gen.GenConsts Gen.GenLayout.
From Coq Require Import ZArith ZifyBool ZifyNat ZifyN.
Open Scope list_scope.

Lemma put_at_length : forall img off v, (off + List.length v <= List.length img)%nat -> List.length (put_at img off v) = List.length img.
Proof.
  induction img as [|b img IH]; intros off v H.
  - destruct off; cbn in *; [|lia]. destruct v; cbn in *; [reflexivity|lia].
  - destruct off as [|k]; cbn [put_at].
    + rewrite app_length, skipn_length. cbn [List.length] in *. lia.
    + cbn [List.length] in *. rewrite IH by lia. reflexivity.
Qed.

Lemma firstn_skipn_put_same : forall img off v,
  (off + List.length v <= List.length img)%nat -> firstn (List.length v) (skipn off (put_at img off v)) = v.
Proof.
  induction img as [|b img IH]; intros off v H.
  - destruct off; cbn in *; [|lia]. destruct v; cbn in *; [reflexivity|lia].
  - destruct off as [|k]; cbn [put_at skipn].
    + rewrite firstn_app, Nat.sub_diag, firstn_all. cbn. rewrite app_nil_r. reflexivity.
    + apply IH. cbn [List.length] in H. lia.
Qed.

Lemma rd_int_put_same img off v :
  (off + List.length v <= List.length img)%nat -> rd_int (put_at img off v) off (List.length v) = le_decode v.
Proof. intros H. unfold rd_int. rewrite firstn_skipn_put_same by exact H. reflexivity. Qed.

(* a field written elsewhere does not disturb this one *)
Lemma firstn_skipn_put_other : forall img off v off' n,
  (off + List.length v <= List.length img)%nat -> (off' + n <= off \/ off + List.length v <= off')%nat ->
  firstn n (skipn off' (put_at img off v)) = firstn n (skipn off' img).
Proof.
  induction img as [|b img IH]; intros off v off' n H Hd.
  - destruct off; cbn in *; [|lia]. destruct v; cbn in *; [reflexivity|lia].
  - destruct off as [|k]; cbn [put_at].
    + (* written at the front: the other field lies behind it *)
      destruct Hd as [Hd|Hd].
      * assert (n = 0%nat) by lia. subst. reflexivity.
      * assert (Hs : forall (l1 l2 : list N) m, (List.length l1 <= m)%nat -> skipn m (l1 ++ l2) = skipn (m - List.length l1) l2).
        { intros l1 l2 m Hm. rewrite skipn_app. rewrite (skipn_all2 l1) by lia. reflexivity. }
        rewrite Hs by lia.
        assert (Hss : forall (l : list N) a b, skipn a (skipn b l) = skipn (a + b) l).
        { intros l a b0. revert l. induction b0 as [|b0 IHb]; intros l; [rewrite Nat.add_0_r; reflexivity|].
          destruct l; [rewrite !skipn_nil; reflexivity|]. rewrite Nat.add_succ_r. cbn [skipn]. apply IHb. }
        rewrite Hss. f_equal. f_equal. cbn [List.length] in *. lia.
    + destruct off' as [|k']; cbn [skipn].
      * destruct n as [|n']; [reflexivity|]. cbn [firstn]. f_equal.
        specialize (IH k v 0%nat n'). cbn [skipn] in IH. apply IH; cbn [List.length] in *; lia.
      * apply IH; cbn [List.length] in *; lia.
Qed.

Lemma rd_int_put_other img off v off' n :
  (off + List.length v <= List.length img)%nat -> (off' + n <= off \/ off + List.length v <= off')%nat ->
  rd_int (put_at img off v) off' n = rd_int img off' n.
Proof. intros H Hd. unfold rd_int. rewrite firstn_skipn_put_other by assumption. reflexivity. Qed.

Lemma zeros_length n : List.length (zeros n) = n.
Proof. unfold zeros. apply repeat_length. Qed.

(* ---- per layout: read (write v) = v ---- *)
Ltac offs :=
  repeat match goal with
         | |- context [field_off ?a ?b] => let c := eval vm_compute in (field_off a b) in change (field_off a b) with c
         | |- context [fty_size ?a] => let c := eval vm_compute in (fty_size a) in change (fty_size a) with c
         end.

Lemma le_encode_len k v : List.length (le_encode k v) = k.
Proof. apply le_encode_length. Qed.

(* rewrite a read of width w as a read of the encoded field's length *)
Ltac rd_same :=
  match goal with
  | |- context [rd_int (put_at ?img ?off (le_encode ?k ?x)) ?off ?k] =>
      replace (rd_int (put_at img off (le_encode k x)) off k) with (le_decode (le_encode k x))
        by (symmetry; rewrite <- (le_encode_len k x) at 3; apply rd_int_put_same; rewrite ?put_at_length, ?le_encode_len, ?zeros_length; rewrite ?put_at_length, ?le_encode_len, ?zeros_length; lia)
  end.

Open Scope N_scope.
Lemma vring_state_roundtrip v :
  VhostUserVringState_index v < 2 ^ 32 -> VhostUserVringState_num v < 2 ^ 32 ->
  VhostUserVringState_read (VhostUserVringState_write v) 0 = v.
Proof.
  intros H1 H2. destruct v as [i n]. cbn [VhostUserVringState_index VhostUserVringState_num] in *.
  unfold VhostUserVringState_read, VhostUserVringState_write. cbn [VhostUserVringState_index VhostUserVringState_num]. offs.
  cbn [Nat.add].
  f_equal.
  - rewrite rd_int_put_other by (rewrite ?put_at_length, ?le_encode_len, ?zeros_length; rewrite ?le_encode_len, ?zeros_length; lia).
    rd_same. apply le_decode_encode. exact H1.
  - rd_same. apply le_decode_encode. exact H2.
Qed.

(* the general tactic: one goal per field; peel the fields written later, read the field's own bytes *)
Ltac len := repeat first [rewrite le_encode_len | rewrite zeros_length | rewrite put_at_length by len]; try lia.
Ltac rd_same' :=
  match goal with
  | |- context [rd_int (put_at ?img ?off (le_encode ?k ?x)) ?off ?k] =>
      replace (rd_int (put_at img off (le_encode k x)) off k) with (le_decode (le_encode k x))
        by (symmetry; rewrite <- (le_encode_len k x) at 3; apply rd_int_put_same; len)
  end.
Ltac field_rt := repeat (rewrite rd_int_put_other by len); rd_same'; apply le_decode_encode; assumption.

Lemma header_roundtrip v :
  VhostUserMsgHeader_request v < 2 ^ 32 -> VhostUserMsgHeader_flags v < 2 ^ 32 -> VhostUserMsgHeader_size v < 2 ^ 32 ->
  VhostUserMsgHeader_read (VhostUserMsgHeader_write v) 0 = v.
Proof.
  intros H1 H2 H3. destruct v as [a b c]. cbn [VhostUserMsgHeader_request VhostUserMsgHeader_flags VhostUserMsgHeader_size] in *.
  unfold VhostUserMsgHeader_read, VhostUserMsgHeader_write. cbn [VhostUserMsgHeader_request VhostUserMsgHeader_flags VhostUserMsgHeader_size].
  offs. cbn [Nat.add]. f_equal; field_rt.
Qed.

Lemma u64_body_roundtrip v : VhostUserU64_value v < 2 ^ 64 -> VhostUserU64_read (VhostUserU64_write v) 0 = v.
Proof.
  intros H1. destruct v as [a]. cbn [VhostUserU64_value] in *.
  unfold VhostUserU64_read, VhostUserU64_write. cbn [VhostUserU64_value]. offs. cbn [Nat.add]. f_equal; field_rt.
Qed.

Lemma vring_addr_roundtrip v :
  VhostUserVringAddr_index v < 2 ^ 32 -> VhostUserVringAddr_flags v < 2 ^ 32 -> VhostUserVringAddr_descriptor v < 2 ^ 64 ->
  VhostUserVringAddr_used v < 2 ^ 64 -> VhostUserVringAddr_available v < 2 ^ 64 -> VhostUserVringAddr_log v < 2 ^ 64 ->
  VhostUserVringAddr_read (VhostUserVringAddr_write v) 0 = v.
Proof.
  intros H1 H2 H3 H4 H5 H6. destruct v as [a b c d e f].
  cbn [VhostUserVringAddr_index VhostUserVringAddr_flags VhostUserVringAddr_descriptor VhostUserVringAddr_used VhostUserVringAddr_available VhostUserVringAddr_log] in *.
  unfold VhostUserVringAddr_read, VhostUserVringAddr_write.
  cbn [VhostUserVringAddr_index VhostUserVringAddr_flags VhostUserVringAddr_descriptor VhostUserVringAddr_used VhostUserVringAddr_available VhostUserVringAddr_log].
  offs. cbn [Nat.add]. f_equal; field_rt.
Qed.

Lemma config_roundtrip v :
  VhostUserConfig_offset v < 2 ^ 32 -> VhostUserConfig_size v < 2 ^ 32 -> VhostUserConfig_flags v < 2 ^ 32 ->
  VhostUserConfig_read (VhostUserConfig_write v) 0 = v.
Proof.
  intros H1 H2 H3. destruct v as [a b c]. cbn [VhostUserConfig_offset VhostUserConfig_size VhostUserConfig_flags] in *.
  unfold VhostUserConfig_read, VhostUserConfig_write. cbn [VhostUserConfig_offset VhostUserConfig_size VhostUserConfig_flags].
  offs. cbn [Nat.add]. f_equal; field_rt.
Qed.

Lemma memory_region_roundtrip v :
  VhostUserMemoryRegion_guest_phys_addr v < 2 ^ 64 -> VhostUserMemoryRegion_memory_size v < 2 ^ 64 ->
  VhostUserMemoryRegion_user_addr v < 2 ^ 64 -> VhostUserMemoryRegion_mmap_offset v < 2 ^ 64 ->
  VhostUserMemoryRegion_read (VhostUserMemoryRegion_write v) 0 = v.
Proof.
  intros H1 H2 H3 H4. destruct v as [a b c d].
  cbn [VhostUserMemoryRegion_guest_phys_addr VhostUserMemoryRegion_memory_size VhostUserMemoryRegion_user_addr VhostUserMemoryRegion_mmap_offset] in *.
  unfold VhostUserMemoryRegion_read, VhostUserMemoryRegion_write.
  cbn [VhostUserMemoryRegion_guest_phys_addr VhostUserMemoryRegion_memory_size VhostUserMemoryRegion_user_addr VhostUserMemoryRegion_mmap_offset].
  offs. cbn [Nat.add]. f_equal; field_rt.
Qed.

Lemma inflight_roundtrip v :
  VhostUserInflight_mmap_size v < 2 ^ 64 -> VhostUserInflight_mmap_offset v < 2 ^ 64 ->
  VhostUserInflight_num_queues v < 2 ^ 16 -> VhostUserInflight_queue_size v < 2 ^ 16 ->
  VhostUserInflight_read (VhostUserInflight_write v) 0 = v.
Proof.
  intros H1 H2 H3 H4. destruct v as [a b c d].
  cbn [VhostUserInflight_mmap_size VhostUserInflight_mmap_offset VhostUserInflight_num_queues VhostUserInflight_queue_size] in *.
  unfold VhostUserInflight_read, VhostUserInflight_write.
  cbn [VhostUserInflight_mmap_size VhostUserInflight_mmap_offset VhostUserInflight_num_queues VhostUserInflight_queue_size].
  offs. cbn [Nat.add]. f_equal; field_rt.
Qed.

Lemma log_roundtrip v :
  VhostUserLog_mmap_size v < 2 ^ 64 -> VhostUserLog_mmap_offset v < 2 ^ 64 -> VhostUserLog_read (VhostUserLog_write v) 0 = v.
Proof.
  intros H1 H2. destruct v as [a b]. cbn [VhostUserLog_mmap_size VhostUserLog_mmap_offset] in *.
  unfold VhostUserLog_read, VhostUserLog_write. cbn [VhostUserLog_mmap_size VhostUserLog_mmap_offset].
  offs. cbn [Nat.add]. f_equal; field_rt.
Qed.

Lemma transfer_state_roundtrip v :
  VhostUserTransferDeviceState_direction v < 2 ^ 32 -> VhostUserTransferDeviceState_phase v < 2 ^ 32 ->
  VhostUserTransferDeviceState_read (VhostUserTransferDeviceState_write v) 0 = v.
Proof.
  intros H1 H2. destruct v as [a b]. cbn [VhostUserTransferDeviceState_direction VhostUserTransferDeviceState_phase] in *.
  unfold VhostUserTransferDeviceState_read, VhostUserTransferDeviceState_write.
  cbn [VhostUserTransferDeviceState_direction VhostUserTransferDeviceState_phase].
  offs. cbn [Nat.add]. f_equal; field_rt.
Qed.
