(* The classification of the daemon thread's result in wait() and serve(), and the statements of the small life-cycle
   functions, REGENERATED from vhost-user-backend/src/lib.rs (Gen.GenLife), against what C16 says about them. *)
From VV Require Import Base.Bits Base.Val Gen.GenLife.
From Coq Require Import ZArith Lia ZifyBool ZifyN.
Open Scope string_scope.
Open Scope list_scope.
Open Scope N_scope.

(* wait(): a request error k (1..99) is success exactly when it is SocketBroken (4) or shutdown was requested; a thread
   that returned Ok is success; an error that is not a request error is an error *)
Lemma life_wait_ok_request_error k f : 1 <= k < 100 -> life_wait_ok k f = (k =? 4) || f.
Proof.
  intros H. unfold life_wait_ok.
  destruct (N.eqb_spec k 0) as [E0|E0]; [lia|].
  destruct (N.eqb_spec k 4) as [E4|E4]; [reflexivity|].
  destruct (N.leb_spec 1 k) as [L1|L1]; [|lia]. destruct (N.ltb_spec k 100) as [L2|L2]; [|lia].
  cbn [andb orb negb]. destruct f; reflexivity.
Qed.
Lemma life_wait_ok_other f : life_wait_ok 0 f = true /\ life_wait_ok 100 f = false.
Proof. split; reflexivity. Qed.
(* serve(): of wait's errors only the clean disconnect (1) and the partial message (2) are forgiven *)
Lemma life_serve_forgives_spec k : life_serve_forgives k = (k =? 1) || (k =? 2).
Proof. unfold life_serve_forgives. destruct (k =? 1); [reflexivity|]. destruct (k =? 2); reflexivity. Qed.

Fixpoint strs_eqb3 (a b : list string) : bool :=
  match a, b with
  | [], [] => true
  | x :: ra, y :: rb => String.eqb x y && strs_eqb3 ra rb
  | _, _ => false
  end.
(* the statements around the classifications: serve raises the exit events after wait() whatever it returned and before
   it classifies; a shutdown request stores the flag before it shuts the socket down; the daemon thread shuts the
   connection down when it leaves its loop; dropping the daemon shuts the connection down *)
Definition life_shape_ok : bool :=
  strs_eqb3 life_serve_shape
    ["let mut listener = Listener :: new (socket , true) . map_err (Error :: CreateVhostUserListener) ? ;";
     "self . start (& mut listener) ? ;"; "let result = self . wait () ;";
     "self . handler . lock () . unwrap () . send_exit_event () ;"; "match & result"]
  && strs_eqb3 life_wait_shape
    ["let Some (handle) = self . main_thread . take () else { self . reset_connection_state () ; return Ok (()) ; } ;";
     "let shutdown_requested = | | { self . conn_state . as_ref () . is_some_and (| s | s . shutdown_requested . load (Ordering :: Acquire)) } ;";
     "result = match handle . join () . map_err (Error :: WaitDaemon) ?"; "self . reset_connection_state () ;"; "result"]
  && strs_eqb3 life_shutdown_src
    ["self . state . shutdown_requested . store (true , Ordering :: Release) ;"; "let _ = self . state . conn . shutdown (Shutdown :: Both) ;"]
  && strs_eqb3 life_request_shutdown_src ["if let Some (handle) = self . shutdown_handle () { handle . shutdown () ; }"]
  && strs_eqb3 life_drop_src ["if let Some (state) = self . conn_state . take () { let _ = state . conn . shutdown (Shutdown :: Both) ; }"]
  && strs_eqb3 life_thread_src
    ["let result = loop { if let Err (e) = handler . handle_request () . map_err (Error :: HandleRequest) { break Err (e) ; } } ;";
     "let _ = thread_state . conn . shutdown (Shutdown :: Both) ;"; "result"].
Lemma life_shape_ok_true : life_shape_ok = true.
Proof. vm_compute. reflexivity. Qed.
