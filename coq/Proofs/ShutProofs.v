(* C16: the checked properties of the reachable set (Proofs/ShutBase.v) lifted to every reachable state. *)
From VV Require Import Base.Bits Base.Val Model.Shutdown Proofs.ShutBase.
From Coq Require Import ZArith Bool.
Open Scope list_scope.
Open Scope N_scope.

(* from here on the reachable set is a constant: only its checked properties are used *)
Global Opaque reachable_set.

Lemma reach_in_set s0 s : In s0 inits -> reach s0 s -> In s reachable_set.
Proof.
  intros H0 Hr. eapply closed_sound; [exact reachable_closed| |exact Hr].
  pose proof inits_in_reachable as Hi. rewrite forallb_forall in Hi. apply (proj1 (mem_in s0 reachable_set)). apply Hi. exact H0.
Qed.

(* a predicate checked on the whole reachable set holds of every reachable state *)
Lemma all_reachable (P : st -> bool) :
  forallb P reachable_set = true -> forall s0 s, In s0 inits -> reach s0 s -> P s = true.
Proof.
  intros H s0 s H0 Hr. rewrite forallb_forall in H. apply H. eapply reach_in_set; eauto.
Qed.

