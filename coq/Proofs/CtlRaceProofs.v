(* The race model's control programs (Model/Race.v: prog_disable, prog_enable, prog_stop, prog_restart, prog_reset) are
   the REGENERATED handlers of handler.rs (Gen/GenCtl.v) seen through the four facts the race model keeps about a ring:
   started, enabled, kick descriptor registered, kick descriptor present.  For every such ring state (with the invariant
   "registered implies a descriptor is present"): the state after the handler's state change equals the state after
   the program's first micro-operation (the point of hold point ctl:after_state), and the state after the whole handler
   equals the state after the program's micro-operations up to the reply. *)
From VV Require Import Base.Bits Base.Val Base.Explore Gen.GenCtl Model.CtlOps Model.Race Proofs.RaceBase Proofs.RaceProofs.
Open Scope list_scope.
Open Scope N_scope.

Record view := { v_st : bool; v_en : bool; v_rg : bool; v_hk : bool }.
Definition view_of (s : rs) : view := {| v_st := started s; v_en := enabled s; v_rg := registered s; v_hk := haskick s |}.

Record venv := { e_v : view; e_started : bool }.      (* the ring and the handler's local `started` *)
Definition vset (e : venv) (v : view) : venv := {| e_v := v; e_started := e_started e |}.

Section V.
  Variable param : bool.             (* the message's boolean argument *)
  Variable init : venv -> venv.      (* initialize_vring *)
  Fixpoint vop (o : cop) (e : venv) {struct o} : venv :=
    let v := e_v e in
    match o with
    | OSetEnabled b =>
        vset e {| v_st := v_st v; v_en := match b with BParam => param | BTrue => true | BFalse => false end; v_rg := v_rg v; v_hk := v_hk v |}
    | OSetReady b => vset e {| v_st := b; v_en := v_en v; v_rg := v_rg v; v_hk := v_hk v |}
    | OUpdateReg =>
        (* without a kick descriptor update_vring_registration does nothing *)
        vset e {| v_st := v_st v; v_en := v_en v; v_rg := if v_hk v then ctl_reg_wanted (v_st v) (v_en v) else v_rg v; v_hk := v_hk v |}
    | OUnregKick => vset e {| v_st := v_st v; v_en := v_en v; v_rg := if v_hk v then false else v_rg v; v_hk := v_hk v |}
    | OSetKick FNone => vset e {| v_st := v_st v; v_en := v_en v; v_rg := false; v_hk := false |}   (* closed: gone from epoll *)
    | OSetKick FParam => vset e {| v_st := v_st v; v_en := v_en v; v_rg := v_rg v; v_hk := true |}
    | OInitRing => init e
    | OLetStarted => {| e_v := v; e_started := v_st v |}
    | OIf c t f =>
        (fix vl (l : list cop) (e : venv) : venv := match l with [] => e | o :: l' => vl l' (vop o e) end)
          (if match c with CStarted => e_started e | CNeedsInit => ctl_needs_init (v_st v) (v_hk v) | CNoProtocolFeatures => true end then t else f) e
    | OForRings body =>
        (* the race model follows one ring *)
        (fix vl (l : list cop) (e : venv) : venv := match l with [] => e | o :: l' => vl l' (vop o e) end) body e
    | _ => e
    end.
  Fixpoint vlist (l : list cop) (e : venv) : venv := match l with [] => e | o :: l' => vlist l' (vop o e) end.
End V.

Definition vinit (param : bool) (e : venv) : venv := vlist param (fun e => e) ctl_initialize_vring e.
Definition vrun (param : bool) (prog : list cop) (v : view) : view :=
  e_v (vlist param (vinit param) prog {| e_v := v; e_started := false |}).

(* the handler up to and including its state change (what has happened at hold point ctl:after_state) *)
Definition is_state_op (o : cop) : bool := match o with OSetEnabled _ | OSetReady _ => true | _ => false end.
Fixpoint through_state (l : list cop) : list cop :=
  match l with [] => [] | o :: r => if is_state_op o then [o] else o :: through_state r end.

(* the micro-operations of a race program, without hold-point numbers, applied in order *)
Fixpoint micros (s : rs) (codes : list N) : rs :=
  match codes with [] => s | c :: r => micros (micro s c []) r end.
Definition codes_of (prog : list N) : list N := map (fun o => o / 4) prog.

Definition vinv (s : rs) : Prop := registered s = true -> haskick s = true.

Ltac all_views s H :=
  destruct s as [w0 st0 en0 rg0 hk0 pe0 kl0 cq0 md0 ms0 inf0 la0]; unfold vinv in H; cbn [registered haskick] in H;
  destruct st0, en0, rg0, hk0; try (specialize (H eq_refl); discriminate H); reflexivity.

(* the programs are the sequences the theorems below speak of *)
Lemma race_programs :
  codes_of prog_disable = [M_DIS_STATE; M_UNREG; M_REPLY_DIS] /\ codes_of prog_enable = [M_EN_STATE; M_REG_IF; M_REPLY]
  /\ codes_of prog_stop = [M_STOP_STATE; M_UNREG; M_DROP_KICK; M_REPLY_STOP]
  /\ codes_of prog_restart = [M_START_STATE; M_REG_IF; M_REPLY] /\ codes_of prog_reset = [M_DIS_STATE; M_UNREG; M_REPLY_DIS].
Proof. repeat split; reflexivity. Qed.

Lemma race_disable_is_source s : vinv s ->
  view_of (micros s [M_DIS_STATE]) = vrun false (through_state ctl_set_vring_enable) (view_of s)
  /\ view_of (micros s [M_DIS_STATE; M_UNREG]) = vrun false ctl_set_vring_enable (view_of s).
Proof. intros H. split; all_views s H. Qed.

Lemma race_enable_is_source s : vinv s ->
  view_of (micros s [M_EN_STATE]) = vrun true (through_state ctl_set_vring_enable) (view_of s)
  /\ view_of (micros s [M_EN_STATE; M_REG_IF]) = vrun true ctl_set_vring_enable (view_of s).
Proof. intros H. split; all_views s H. Qed.

Lemma race_stop_is_source s : vinv s ->
  view_of (micros s [M_STOP_STATE]) = vrun false (through_state ctl_get_vring_base) (view_of s)
  /\ view_of (micros s [M_STOP_STATE; M_UNREG; M_DROP_KICK]) = vrun false ctl_get_vring_base (view_of s).
Proof. intros H. split; all_views s H. Qed.

(* SET_VRING_KICK with a descriptor: on a stopped ring and on a started one (the replacement of the descriptor) *)
Lemma race_restart_is_source s : vinv s ->
  view_of (micros s [M_START_STATE; M_REG_IF]) = vrun false ctl_set_vring_kick (view_of s).
Proof. intros H. all_views s H. Qed.

Lemma race_reset_is_source s : vinv s ->
  view_of (micros s [M_DIS_STATE; M_UNREG]) = vrun false ctl_reset_device (view_of s).
Proof. intros H. all_views s H. Qed.

(* the invariant the equations need holds in every reachable state of the race system *)
Definition vinv_b (s : rs) : bool := negb (registered s) || haskick s.
Lemma vinv_b_all : forallb vinv_b race_set = true.
Proof. vm_compute. reflexivity. Qed.
Lemma vinv_reachable s0 s : In s0 rinits -> rreach s0 s -> vinv s.
Proof.
  intros H0 Hr Hreg. pose proof (race_lift vinv_b vinv_b_all s0 s H0 Hr) as H. unfold vinv_b in H. rewrite Hreg in H. exact H.
Qed.
