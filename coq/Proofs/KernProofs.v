(* C19: the request definitions, structure layouts and operation -> request assignment REGENERATED from
   vhost/src/vhost_kern (Gen/GenKern.v, rs2v) against the tables REGENERATED from the installed Linux UAPI
   headers by the C compiler (Gen/GenUapi.v) and my transcription of the assignment (Spec/KernSpec.v). *)
From VV Require Import Base.Bits Base.Val Base.CLayout Gen.GenKern Gen.GenUapi Spec.KernSpec.
Open Scope string_scope.
Open Scope list_scope.
Open Scope N_scope.

(* every ioctl_io*_nr! definition: _IOC(direction, type, nr, sizeof(argument)) computed from the Rust macro's arguments and
   the C layout of the Rust binding struct equals the number the C preprocessor computes from <linux/vhost.h> *)
Definition ioctl_row_ok (r : string * N * N * N * option cty) : bool :=
  let '(name, dir, ty, nr, arg) := r in
  match assoc uapi_ioctls name with
  | Some (Some n) => n =? ioc dir ty nr (match arg with Some t => N.of_nat (c_size t) | None => 0 end)
  | _ => false
  end.
Definition ioctl_numbers_ok : bool := forallb ioctl_row_ok kern_ioctls && Nat.leb 40 (List.length kern_ioctls).
Lemma ioctl_numbers_ok_true : ioctl_numbers_ok = true.
Proof. vm_compute. reflexivity. Qed.

(* every binding struct the header defines: same size, same offset for every field the header has *)
Definition struct_row_ok (u : string * nat * list (string * option nat)) : bool :=
  let '(name, size, fields) := u in
  match assoc kern_structs name with
  | Some t =>
      Nat.eqb (c_size t) size
      && forallb (fun f => match snd f with
                           | Some off => match c_field_off (c_fields t) (fst f) with Some o => Nat.eqb o off | None => false end
                           | None => true
                           end) fields
  | None => false
  end.
Definition struct_layouts_ok : bool := forallb struct_row_ok uapi_structs && Nat.leb 11 (List.length uapi_structs).
Lemma struct_layouts_ok_true : struct_layouts_ok = true.
Proof. vm_compute. reflexivity. Qed.

(* every operation issues exactly the requests of the assignment, in order; no operation is unaccounted for *)
Fixpoint strs_eqb (a b : list string) : bool :=
  match a, b with
  | [], [] => true
  | x :: ra, y :: rb => String.eqb x y && strs_eqb ra rb
  | _, _ => false
  end.
Definition op_row_ok (r : string * string * string * list string) : bool :=
  let '(_, target, op, reqs) := r in
  existsb (fun s => let '(t, o, expected) := s in String.eqb t target && String.eqb o op && strs_eqb expected reqs) op_requests.
Definition ops_ok : bool :=
  forallb op_row_ok kern_ops
  && forallb (fun s => let '(t, o, _) := s in existsb (fun r => let '(_, target, op, _) := r in String.eqb t target && String.eqb o op) kern_ops) op_requests.
Lemma ops_ok_true : ops_ok = true.
Proof. vm_compute. reflexivity. Qed.
