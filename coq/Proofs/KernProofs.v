(* C19: the request definitions, structure layouts and operation -> request assignment REGENERATED from
   vhost/src/vhost_kern (Gen/GenKern.v, rs2v) against the tables REGENERATED from the installed Linux UAPI
   headers by the C compiler (Gen/GenUapi.v) and my transcription of the assignment (Spec/KernSpec.v). *)
From VV Require Import Base.Bits Base.Val Base.CLayout Gen.GenKern Gen.GenUapi Spec.KernSpec.
Open Scope string_scope.
Open Scope list_scope.
Open Scope N_scope.

(* every ioctl_io*_nr! definition: _IOC(direction, type, nr, sizeof(argument)) computed from the Rust macro's arguments and
   the C layout of the Rust binding struct equals the number the C preprocessor computes from <linux/vhost.h> *)
Definition ioctl_row_ok (r : string * N * N * N * option cty) : bool :=
  let '(name, dir, ty, nr, arg) := r in
  match assoc uapi_ioctls name with
  | Some (Some n) => n =? ioc dir ty nr (match arg with Some t => N.of_nat (c_size t) | None => 0 end)
  | _ => false
  end.
Definition ioctl_numbers_ok : bool := forallb ioctl_row_ok kern_ioctls && Nat.leb 40 (List.length kern_ioctls).
Lemma ioctl_numbers_ok_true : ioctl_numbers_ok = true.
Proof. vm_compute. reflexivity. Qed.

(* every binding struct the header defines: same size, same offset for every field the header has *)
Definition struct_row_ok (u : string * nat * list (string * option nat)) : bool :=
  let '(name, size, fields) := u in
  match assoc kern_structs name with
  | Some t =>
      Nat.eqb (c_size t) size
      && forallb (fun f => match snd f with
                           | Some off => match c_field_off (c_fields t) (fst f) with Some o => Nat.eqb o off | None => false end
                           | None => true
                           end) fields
  | None => false
  end.
Definition struct_layouts_ok : bool := forallb struct_row_ok uapi_structs && Nat.leb 11 (List.length uapi_structs).
Lemma struct_layouts_ok_true : struct_layouts_ok = true.
Proof. vm_compute. reflexivity. Qed.

(* every operation issues exactly the requests of the assignment, in order; no operation is unaccounted for *)
Fixpoint strs_eqb (a b : list string) : bool :=
  match a, b with
  | [], [] => true
  | x :: ra, y :: rb => String.eqb x y && strs_eqb ra rb
  | _, _ => false
  end.
Definition op_row_ok (r : string * string * string * list string) : bool :=
  let '(_, target, op, reqs) := r in
  existsb (fun s => let '(t, o, expected) := s in String.eqb t target && String.eqb o op && strs_eqb expected reqs) op_requests.
Definition ops_ok : bool :=
  forallb op_row_ok kern_ops
  && forallb (fun s => let '(t, o, _) := s in existsb (fun r => let '(_, target, op, _) := r in String.eqb t target && String.eqb o op) kern_ops) op_requests.
Lemma ops_ok_true : ops_ok = true.
Proof. vm_compute. reflexivity. Qed.

(* ---- IOTLB messages: what the writer lays out parses back to the same five values, in either layout ---- *)
From VV Require Import Base.Rt Proofs.CodecProofs.
From Coq Require Import ZArith Lia ZifyBool ZifyNat ZifyN.

Lemma cput_is_put_at : forall img off v, cput img off v = put_at img off v.
Proof. reflexivity. Qed.

Definition iotlb_fields_fit (iova size uaddr perm ty : N) : Prop :=
  iova < 2 ^ 64 /\ size < 2 ^ 64 /\ uaddr < 2 ^ 64 /\ perm < 256 /\ ty < 256.

Lemma mod_small_pow a k : a < 2 ^ k -> a mod 2 ^ k = a.
Proof. intros H. apply N.mod_small. exact H. Qed.

Definition img6 (a b c d e f : N) : list N :=
  put_at (put_at (put_at (put_at (put_at (put_at (zeros 72) 0 (le_encode 4 a)) 8 (le_encode 8 b)) 16 (le_encode 8 c)) 24 (le_encode 8 d)) 32 (le_encode 1 e)) 33 (le_encode 1 f).

Lemma img6_reads a b c d e f :
  a < 2 ^ 32 -> b < 2 ^ 64 -> c < 2 ^ 64 -> d < 2 ^ 64 -> e < 2 ^ 8 -> f < 2 ^ 8 ->
  List.length (img6 a b c d e f) = 72%nat /\ rd_int (img6 a b c d e f) 0 4 = a /\ rd_int (img6 a b c d e f) 8 8 = b
  /\ rd_int (img6 a b c d e f) 16 8 = c /\ rd_int (img6 a b c d e f) 24 8 = d /\ rd_int (img6 a b c d e f) 32 1 = e
  /\ rd_int (img6 a b c d e f) 33 1 = f.
Proof.
  intros Ha Hb Hc Hd He Hf. unfold img6.
  change (2 ^ 32) with (2 ^ (8 * N.of_nat 4)) in Ha. change (2 ^ 64) with (2 ^ (8 * N.of_nat 8)) in Hb, Hc, Hd.
  change (2 ^ 8) with (2 ^ (8 * N.of_nat 1)) in He, Hf.
  repeat split; [len | try field_rt ..].
  repeat (rewrite rd_int_put_other by len). rd_same'. apply le_decode_encode. exact Ha.
Qed.

Lemma iotlb_roundtrip_ok : forall v2 iova size uaddr perm ty,
  iotlb_fields_fit iova size uaddr perm ty -> ty <> 0 ->
  iotlb_parse v2 (iotlb_img v2 iova size uaddr perm ty) = okv (VL [VN iova; VN size; VN uaddr; VN perm; VN ty]).
Proof.
  intros v2 iova size uaddr perm ty (Hi & Hs & Hu & Hp & Ht) Hz.
  unfold iotlb_parse, iotlb_img, image.
  destruct v2;
  repeat match goal with
         | |- context [uoff ?a ?b] => let c := eval vm_compute in (uoff a b) in change (uoff a b) with c
         | |- context [usize ?a] => let c := eval vm_compute in (usize a) in change (usize a) with c
         | |- context [uconst ?a] => let c := eval vm_compute in (uconst a) in change (uconst a) with c
         end;
  cbn [fold_left Nat.add]; change cput with put_at;
  change (8 * N.of_nat 8) with 64; change (8 * N.of_nat 4) with 32; change (8 * N.of_nat 1) with 8;
  rewrite (mod_small_pow iova 64 Hi), (mod_small_pow size 64 Hs), (mod_small_pow uaddr 64 Hu),
          (mod_small_pow perm 8 Hp), (mod_small_pow ty 8 Ht);
  fold (zeros 72);
  repeat match goal with
         | |- context [le_decode (firstn ?w (skipn ?o ?img))] => change (le_decode (firstn w (skipn o img))) with (rd_int img o w)
         end;
  match goal with
  | |- context [put_at (zeros 72) 0 (le_encode 4 ?k)] =>
      let kv := eval vm_compute in k in change k with kv;
      fold (img6 kv iova size uaddr perm ty);
      pose proof (img6_reads kv iova size uaddr perm ty eq_refl Hi Hs Hu Hp Ht) as (HL & R0 & R1 & R2 & R3 & R4 & R5)
  end;
  rewrite HL, R0, R1, R2, R3, R4, R5; cbn [Nat.eqb negb N.eqb Pos.eqb].
  all: destruct (N.eqb_spec ty 0) as [E|_]; [contradiction|reflexivity].
Qed.

(* a message whose inner type is 0 is refused, whatever else it carries *)
Lemma iotlb_empty_refused : forall v2 iova size uaddr perm,
  iotlb_fields_fit iova size uaddr perm 0 ->
  iotlb_parse v2 (iotlb_img v2 iova size uaddr perm 0) = VS "InvalidIotlbMsg".
Proof.
  intros v2 iova size uaddr perm (Hi & Hs & Hu & Hp & Ht).
  unfold iotlb_parse, iotlb_img, image.
  destruct v2;
  repeat match goal with
         | |- context [uoff ?a ?b] => let c := eval vm_compute in (uoff a b) in change (uoff a b) with c
         | |- context [usize ?a] => let c := eval vm_compute in (usize a) in change (usize a) with c
         | |- context [uconst ?a] => let c := eval vm_compute in (uconst a) in change (uconst a) with c
         end;
  cbn [fold_left Nat.add]; change cput with put_at;
  change (8 * N.of_nat 8) with 64; change (8 * N.of_nat 4) with 32; change (8 * N.of_nat 1) with 8;
  rewrite (mod_small_pow iova 64 Hi), (mod_small_pow size 64 Hs), (mod_small_pow uaddr 64 Hu),
          (mod_small_pow perm 8 Hp), (mod_small_pow 0 8 Ht);
  fold (zeros 72);
  repeat match goal with
         | |- context [le_decode (firstn ?w (skipn ?o ?img))] => change (le_decode (firstn w (skipn o img))) with (rd_int img o w)
         end;
  match goal with
  | |- context [put_at (zeros 72) 0 (le_encode 4 ?k)] =>
      let kv := eval vm_compute in k in change k with kv;
      fold (img6 kv iova size uaddr perm 0);
      pose proof (img6_reads kv iova size uaddr perm 0 eq_refl Hi Hs Hu Hp Ht) as (HL & R0 & R1 & R2 & R3 & R4 & R5)
  end;
  rewrite HL, R0, R5; reflexivity.
Qed.

(* the v1 / v2 images differ in the outer type word only: a parser of the other layout refuses them *)
Lemma iotlb_layouts_distinct : uconst "VHOST_IOTLB_MSG" <> uconst "VHOST_IOTLB_MSG_V2".
Proof. vm_compute. discriminate. Qed.

(* ---- ring-configuration validity: the expressions of is_valid / is_log_addr_valid / get_log_addr regenerated from
   vhost_kern/mod.rs, vhost_kern/vdpa.rs and backend.rs (Gen.GenKValid) against the specification's ---- *)
From VV Require Import Gen.GenKValid.
Lemma kv_size_bad_spec q mx : kv_size_bad q mx = (mx <? q) || (q =? 0) || negb (pow2 q).
Proof.
  unfold kv_size_bad, pow2. destruct (mx <? q), (N.eqb_spec q 0) as [->|Hq]; cbn [orb negb andb]; try reflexivity.
Qed.
Lemma kvd_size_bad_same q mx : kvd_size_bad q mx = kv_size_bad q mx.
Proof. reflexivity. Qed.
Lemma kv_ring_sizes q : kv_desc_table_size q = 16 * q /\ kv_avail_ring_size q = 6 + 2 * q /\ kv_used_ring_size q = 6 + 8 * q.
Proof. repeat split; reflexivity. Qed.
Lemma kv_log_rules fl has v :
  kv_log_invalid fl has = negb (N.land fl 1 =? 0) && negb has
  /\ kv_log_addr fl has v = (if negb (N.land fl 1 =? 0) && has then v else 0).
Proof. split; reflexivity. Qed.
Fixpoint strs_eqb2 (a b : list string) : bool :=
  match a, b with
  | [], [] => true
  | x :: ra, y :: rb => String.eqb x y && strs_eqb2 ra rb
  | _, _ => false
  end.
(* around the expressions: the three ring ends are checked against guest memory (not for vDPA), the log rule decides last *)
Definition kv_shape_ok : bool :=
  strs_eqb2 kv_shape
    ["let m = self . mem () . memory ()";
     "if GuestAddress (config_data . desc_table_addr) . checked_add (desc_table_size) . is_none_or (| v | ! m . address_in_range (v)) return false";
     "if GuestAddress (config_data . avail_ring_addr) . checked_add (avail_ring_size) . is_none_or (| v | ! m . address_in_range (v)) return false";
     "if GuestAddress (config_data . used_ring_addr) . checked_add (used_ring_size) . is_none_or (| v | ! m . address_in_range (v)) return false";
     "result config_data . is_log_addr_valid ()"]
  && strs_eqb2 kvd_shape ["result config_data . is_log_addr_valid ()"].
Lemma kv_shape_ok_true : kv_shape_ok = true.
Proof. vm_compute. reflexivity. Qed.
