(* Lemmas about the dirty-page log of the daemon model (Model.Daemon): C15. *)
From VV Require Import Base.Bits Base.Rt Base.Val Gen.GenConsts Gen.GenBitmap Model.Daemon Proofs.MemProofs.
From Coq Require Import ZArith ZifyBool ZifyNat ZifyN Permutation.
Open Scope list_scope.
Open Scope N_scope.
Ltac Zify.zify_post_hook ::= Z.div_mod_to_equations.

(* ---- which bit a written guest byte sets ---- *)
Lemma page_of_aligned g x : g mod 4096 = 0 -> g <= x -> g / 4096 + (x - g) / 4096 = x / 4096.
Proof. intros Hg Hx. lia. Qed.

Lemma rel_page_in_range g size x : size mod 4096 = 0 -> g <= x < g + size -> (x - g) / 4096 < size / 4096.
Proof. intros Hs Hx. lia. Qed.

(* AtomicBitmapMmap::new as regenerated from bitmap.rs: what an accepted region satisfies and what the bitmap keeps *)
Lemma bm_new_spec g sz len b n :
  bm_new g sz len = Some (b, n) ->
  sz <> 0 /\ g mod 4096 = 0 /\ sz mod 4096 = 0 /\ g + (sz - 1) < 2 ^ 64 /\ ((g + sz - 1) / 4096) / 8 < len
  /\ b = g / 4096 /\ n = sz / 4096.
Proof.
  unfold bm_new, bm_chk_add, bm_page_word, bm_page_number, bm_LOG_PAGE_SIZE, bm_LOG_WORD_SIZE.
  destruct (N.eqb_spec sz 0) as [E0|E0]; [discriminate|].
  destruct (N.eqb_spec (g mod 4096) 0) as [Eg|Eg]; cbn [negb orb]; [|discriminate].
  destruct (N.eqb_spec (sz mod 4096) 0) as [Es|Es]; cbn [negb orb]; [|discriminate].
  destruct (N.ltb_spec (g + (sz - 1)) (2 ^ 64)) as [Ho|Ho]; [|discriminate].
  destruct (N.leb_spec len ((g + (sz - 1)) / 4096 / 8)) as [El|El]; [discriminate|].
  intros H. injection H as <- <-.
  replace (g + sz - 1) with (g + (sz - 1)) by lia.
  repeat split; assumption.
Qed.
Lemma bm_new_complete g sz len :
  sz <> 0 -> g mod 4096 = 0 -> sz mod 4096 = 0 -> g + (sz - 1) < 2 ^ 64 -> ((g + sz - 1) / 4096) / 8 < len ->
  bm_new g sz len = Some (g / 4096, sz / 4096).
Proof.
  intros H0 Hg Hs Ho Hl.
  unfold bm_new, bm_chk_add, bm_page_word, bm_page_number, bm_LOG_PAGE_SIZE, bm_LOG_WORD_SIZE.
  destruct (N.eqb_spec sz 0) as [E0|E0]; [contradiction|].
  rewrite Hg, Hs. cbn [N.eqb negb orb].
  destruct (N.ltb_spec (g + (sz - 1)) (2 ^ 64)) as [Ho'|Ho']; [|lia].
  replace (g + sz - 1) with (g + (sz - 1)) in Hl by lia.
  destruct (N.leb_spec len ((g + (sz - 1)) / 4096 / 8)) as [El|El]; [lia|]. reflexivity.
Qed.
Lemma log_fits_spec len r : log_fits len r = true ->
  rg_gpa r mod 4096 = 0 /\ rg_size r mod 4096 = 0 /\ ((rg_gpa r + rg_size r - 1) / 4096) / 8 < len.
Proof.
  unfold log_fits. destruct (bm_new (rg_gpa r) (rg_size r) len) as [[b n]|] eqn:E; [|discriminate].
  intros _. apply bm_new_spec in E. tauto.
Qed.

(* for a region accepted by SET_LOG_BASE (page-aligned, covered by the log), a written byte at guest address x
   sets exactly bit (x / 4096) mod 8 of log byte (x / 4096) / 8 of the window, and that byte lies inside the window *)
Lemma mark_loc_exact r x f off len :
  rg_log r = Some (f, off, len) -> log_fits len r = true -> rg_gpa r <= x < rg_gpa r + rg_size r ->
  mark_loc r x = Some (f, off + (x / 4096) / 8, 2 ^ ((x / 4096) mod 8)) /\ (x / 4096) / 8 < len.
Proof.
  intros Hl Hf Hx. unfold log_fits in Hf.
  destruct (bm_new (rg_gpa r) (rg_size r) len) as [[b n]|] eqn:E; [|discriminate].
  pose proof (bm_new_spec _ _ _ _ _ E) as (H0 & Hg & Hs & Ho & Hw & -> & ->).
  unfold mark_loc. rewrite Hl, E.
  unfold bm_md_first_page, bm_md_stop, bm_md_abs, bm_md_word, bm_md_mask, bm_page_number, bm_page_word, bm_page_bit,
    bm_LOG_PAGE_SIZE, bm_LOG_WORD_SIZE.
  pose proof (rel_page_in_range (rg_gpa r) (rg_size r) x Hs Hx) as Hp.
  destruct (N.leb_spec (rg_size r / 4096) ((x - rg_gpa r) / 4096)) as [E2|E2]; [lia|].
  rewrite (page_of_aligned (rg_gpa r) x Hg) by lia. rewrite N.shiftl_1_l. split; [reflexivity|].
  assert (x / 4096 <= (rg_gpa r + rg_size r - 1) / 4096) by (apply N.div_le_mono; lia).
  assert ((x / 4096) / 8 <= ((rg_gpa r + rg_size r - 1) / 4096) / 8) by (apply N.div_le_mono; lia).
  lia.
Qed.

(* no logging without a log *)
Lemma mark_loc_none r x : rg_log r = None -> mark_loc r x = None.
Proof. intros H. unfold mark_loc. rewrite H. reflexivity. Qed.

(* ---- marking only ever ORs the bits of the written bytes' pages into the log ---- *)
Lemma store_get_cons_same f o v st : store_get ((f, o, v) :: st) f o = v.
Proof. unfold store_get. cbn [find fst snd]. rewrite !N.eqb_refl. reflexivity. Qed.
Lemma store_get_cons_other f o v st f' o' : (f, o) <> (f', o') -> store_get ((f, o, v) :: st) f' o' = store_get st f' o'.
Proof.
  intros H. unfold store_get. cbn [find fst snd].
  destruct ((f =? f') && (o =? o')) eqn:E; [|reflexivity].
  apply Bool.andb_true_iff in E. destruct E as [E1 E2]. apply N.eqb_eq in E1. apply N.eqb_eq in E2. subst. congruence.
Qed.

(* the set of (location, bit) marks of the guest bytes [a, a+n) *)
Fixpoint marks_of (regs : list region) (a : N) (n : nat) : list (N * N * N) :=
  match n with
  | O => []
  | S k => match region_of regs a with
           | Some r => match mark_loc r a with Some m => [m] | None => [] end
           | None => []
           end ++ marks_of regs (a + 1) k
  end.

Definition bits_at (ms : list (N * N * N)) (f o : N) : list N :=
  map snd (filter (fun t => (fst (fst t) =? f) && (snd (fst t) =? o)) ms).

(* after marking, every log location holds its old value ORed with exactly the bits of the marks that address it *)
Lemma apply_marks_spec regs : forall n a st f o,
  store_get (apply_marks regs a n st) f o = fold_left N.lor (bits_at (marks_of regs a n) f o) (store_get st f o).
Proof.
  induction n as [|n IH]; intros a st f o; [reflexivity|].
  cbn [apply_marks marks_of].
  destruct (region_of regs a) as [r|]; [|cbn [app]; apply IH].
  destruct (mark_loc r a) as [[[f0 o0] bit]|]; [|cbn [app]; apply IH].
  rewrite IH. unfold bits_at. cbn [app filter fst snd].
  destruct ((f0 =? f) && (o0 =? o)) eqn:E.
  - apply Bool.andb_true_iff in E. destruct E as [E1 E2]. apply N.eqb_eq in E1. apply N.eqb_eq in E2. subst.
    cbn [map fold_left snd]. rewrite store_get_cons_same. reflexivity.
  - rewrite store_get_cons_other; [reflexivity|].
    intros Heq. inversion Heq; subst. rewrite !N.eqb_refl in E. discriminate.
Qed.

(* consequently a location no mark addresses is untouched ("changes no other bit"), ... *)
Lemma apply_marks_untouched regs n a st f o :
  bits_at (marks_of regs a n) f o = [] -> store_get (apply_marks regs a n st) f o = store_get st f o.
Proof. intros H. rewrite apply_marks_spec, H. reflexivity. Qed.

Lemma fold_lor_testbit l : forall b i, N.testbit (fold_left N.lor l b) i = N.testbit b i || existsb (fun x => N.testbit x i) l.
Proof.
  induction l as [|x l IH]; intros b i; cbn [fold_left existsb]; [rewrite Bool.orb_false_r; reflexivity|].
  rewrite IH, N.lor_spec. rewrite Bool.orb_assoc. reflexivity.
Qed.

(* ... no bit is ever cleared, and the bit of every mark is set *)
Lemma apply_marks_monotone regs n a st f o i :
  N.testbit (store_get st f o) i = true -> N.testbit (store_get (apply_marks regs a n st) f o) i = true.
Proof. intros H. rewrite apply_marks_spec, fold_lor_testbit, H. reflexivity. Qed.

Lemma apply_marks_sets regs n a st f o bit :
  In (f, o, bit) (marks_of regs a n) -> forall i, N.testbit bit i = true ->
  N.testbit (store_get (apply_marks regs a n st) f o) i = true.
Proof.
  intros Hin i Hb. rewrite apply_marks_spec, fold_lor_testbit.
  apply Bool.orb_true_iff. right. apply existsb_exists. exists bit. split; [|exact Hb].
  unfold bits_at. apply in_map_iff. exists (f, o, bit). split; [reflexivity|].
  apply filter_In. split; [exact Hin|]. cbn [fst snd]. rewrite !N.eqb_refl. reflexivity.
Qed.

(* ---- concurrent writers: atomic fetch_or's commute, so no interleaving loses a bit ---- *)
Lemma fold_lor_perm l l' : Permutation l l' -> forall b, fold_left N.lor l b = fold_left N.lor l' b.
Proof.
  induction 1 as [|x l l' _ IH|x y l|l l' l'' _ IH1 _ IH2]; intros b; cbn [fold_left].
  - reflexivity.
  - apply IH.
  - f_equal. rewrite <- !N.lor_assoc. f_equal. apply N.lor_comm.
  - rewrite IH1. apply IH2.
Qed.

Lemma fold_lor_keeps_all l b x i : In x l -> N.testbit x i = true -> N.testbit (fold_left N.lor l b) i = true.
Proof.
  intros Hin Hx. rewrite fold_lor_testbit. apply Bool.orb_true_iff. right. apply existsb_exists. eauto.
Qed.

(* ---- SET_LOG_BASE acceptance, and logging in force for all guest memory across table changes ---- *)
Lemma set_log_base_spec s size off file :
  match h_set_log_base s size off file with
  | (s', DOk _) => size <> 0 /\ off mod 4096 = 0 /\ off < 2 ^ 63 /\ size < 2 ^ 63
                   /\ forallb (log_fits size) (m_regs (d_mem s)) = true
                   /\ m_log (d_mem s') = Some (file, off, size)
                   /\ (forall r, In r (m_regs (d_mem s')) -> rg_log r = Some (file, off, size))
                   /\ table_of_regs (m_regs (d_mem s')) = table_of_regs (m_regs (d_mem s))
  | (s', DErr) => s' = s
  end.
Proof.
  unfold h_set_log_base.
  destruct ((2 ^ 63 <=? off) || (2 ^ 63 <=? size)) eqn:E1; [reflexivity|].
  destruct ((size =? 0) || negb (off mod PAGE =? 0) || negb (size <? 2 ^ 47) || negb (off + size <? 2 ^ 63)) eqn:E2; [reflexivity|].
  destruct (forallb (log_fits size) (m_regs (d_mem s))) eqn:E3; cbn [negb]; [|reflexivity].
  unfold PAGE in E2.
  repeat split; try lia.
  - intros r Hin. cbn [d_mem set_mem with_logs m_regs] in Hin. apply in_map_iff in Hin. destruct Hin as [r0 [<- _]]. reflexivity.
  - cbn [d_mem set_mem with_logs m_regs]. unfold table_of_regs. rewrite map_map. reflexivity.
Qed.

Definition LogInv (m : dmem) : Prop := forall r, In r (m_regs m) -> rg_log r = m_log m.

Lemma loginv_mop s o : LogInv (d_mem s) -> LogInv (d_mem (fst (mop_apply s o))).
Proof.
  intros H. destruct o as [rl|a|a]; cbn [mop_apply]; unfold h_set_mem_table, h_add_mem, h_rem_mem.
  - destruct (negb (forallb _ rl)); [exact H|].
    destruct (negb (Nat.ltb 0 _) || negb (regs_sorted _)); [exact H|].
    intros r Hin. cbn [fst d_mem set_mem with_table m_regs m_log] in *. apply in_map_iff in Hin. destruct Hin as [x [<- _]]. reflexivity.
  - destruct (negb (new_region_ok _ _)); [exact H|].
    destruct (negb (regs_sorted _)); [exact H|].
    intros r Hin. cbn [fst d_mem set_mem with_table m_regs m_log] in *. apply in_insert_reg in Hin.
    destruct Hin as [->|Hin]; [reflexivity|apply H; exact Hin].
  - destruct (existsb _ _); [|exact H].
    intros r Hin. cbn [fst d_mem set_mem with_table m_regs m_log] in *. apply filter_In in Hin. apply H. tauto.
Qed.

Lemma loginv_set_log s size off file : LogInv (d_mem (fst (h_set_log_base s size off file))) \/ fst (h_set_log_base s size off file) = s.
Proof.
  pose proof (set_log_base_spec s size off file) as H. destruct (h_set_log_base s size off file) as [s' [v|]]; cbn [fst].
  - left. destruct H as (_ & _ & _ & _ & _ & Hl & Hr & _). intros r Hin. rewrite Hl. apply Hr. exact Hin.
  - right. exact H.
Qed.

(* every region the log is attached to can be covered by it: marks never fall outside the mapped window *)
Definition LogFits (m : dmem) : Prop :=
  forall r f off len, In r (m_regs m) -> rg_log r = Some (f, off, len) -> log_fits len r = true.

Lemma logfits_mop s o : LogInv (d_mem s) -> LogFits (d_mem s) -> LogFits (d_mem (fst (mop_apply s o))).
Proof.
  intros HI H. destruct o as [rl|a|a]; cbn [mop_apply]; unfold h_set_mem_table, h_add_mem, h_rem_mem.
  - destruct (forallb (new_region_ok (d_mem s)) rl) eqn:E; cbn [negb]; [|exact H].
    destruct (negb (Nat.ltb 0 _) || negb (regs_sorted _)); [exact H|].
    intros r f off len Hin Hl. cbn [fst d_mem set_mem with_table m_regs] in Hin. apply in_map_iff in Hin.
    destruct Hin as [x [<- Hx]]. cbn [rg_log mk_region] in Hl.
    rewrite forallb_forall in E. specialize (E x Hx). unfold new_region_ok in E. rewrite Hl in E.
    apply Bool.andb_true_iff in E. destruct E as [_ E]. exact E.
  - destruct (new_region_ok (d_mem s) a) eqn:E; cbn [negb]; [|exact H].
    destruct (negb (regs_sorted _)); [exact H|].
    intros r f off len Hin Hl. cbn [fst d_mem set_mem with_table m_regs] in Hin. apply in_insert_reg in Hin.
    destruct Hin as [->|Hin]; [|eapply H; eauto].
    cbn [rg_log mk_region] in Hl. unfold new_region_ok in E. rewrite Hl in E.
    apply Bool.andb_true_iff in E. destruct E as [_ E]. exact E.
  - destruct (existsb _ _); [|exact H].
    intros r f off len Hin Hl. cbn [fst d_mem set_mem with_table m_regs] in Hin. apply filter_In in Hin. eapply H; [tauto|eauto].
Qed.

Lemma logfits_set_log s size off file : LogFits (d_mem s) -> LogFits (d_mem (fst (h_set_log_base s size off file))).
Proof.
  intros H. pose proof (set_log_base_spec s size off file) as Hs.
  destruct (h_set_log_base s size off file) as [s' [v|]] eqn:E; cbn [fst]; [|subst; exact H].
  destruct Hs as (_ & _ & _ & _ & Hall & _ & Hr & _).
  unfold h_set_log_base in E.
  destruct ((2 ^ 63 <=? off) || (2 ^ 63 <=? size)); [discriminate|].
  destruct ((size =? 0) || negb (off mod PAGE =? 0) || negb (size <? 2 ^ 47) || negb (off + size <? 2 ^ 63)); [discriminate|].
  destruct (negb (forallb (log_fits size) (m_regs (d_mem s)))); [discriminate|].
  inversion E; subst. intros r f off' len Hin Hl. cbn [d_mem set_mem with_logs m_regs] in Hin.
  apply in_map_iff in Hin. destruct Hin as [r0 [<- Hin0]]. cbn [rg_log] in Hl. inversion Hl; subst.
  rewrite forallb_forall in Hall. specialize (Hall r0 Hin0). unfold log_fits in *. cbn [rg_gpa rg_size]. exact Hall.
Qed.

(* histories mixing SET_LOG_BASE with memory-table changes *)
Inductive lop := LMem (o : mop) | LLog (size off file : N).
Definition lop_apply (s : dstate) (o : lop) : dstate :=
  match o with LMem m => fst (mop_apply s m) | LLog size off file => fst (h_set_log_base s size off file) end.
Definition log_run (s : dstate) (ops : list lop) : dstate := fold_left lop_apply ops s.

Lemma log_run_inv ops : forall s, LogInv (d_mem s) /\ LogFits (d_mem s) -> LogInv (d_mem (log_run s ops)) /\ LogFits (d_mem (log_run s ops)).
Proof.
  induction ops as [|o ops IH]; intros s H; [exact H|]. cbn [log_run fold_left]. apply IH.
  destruct H as [HI HF]. destruct o as [m|size off file]; cbn [lop_apply].
  - split; [apply loginv_mop; exact HI|apply logfits_mop; assumption].
  - split; [|apply logfits_set_log; exact HF].
    destruct (loginv_set_log s size off file) as [Hl|He]; [exact Hl|rewrite He; exact HI].
Qed.

(* once a log is in force it stays in force: no memory operation and no failed SET_LOG_BASE removes it *)
Lemma log_stays s o : m_log (d_mem s) <> None -> m_log (d_mem (lop_apply s o)) <> None.
Proof.
  intros H. destruct o as [m|size off file]; cbn [lop_apply].
  - destruct m as [rl|a|a]; cbn [mop_apply]; unfold h_set_mem_table, h_add_mem, h_rem_mem;
      repeat match goal with |- context [if ?c then _ else _] => destruct c end; cbn; exact H.
  - pose proof (set_log_base_spec s size off file) as Hs.
    destruct (h_set_log_base s size off file) as [s' [v|]]; cbn [fst].
    + destruct Hs as (_ & _ & _ & _ & _ & Hl & _). rewrite Hl. discriminate.
    + subst. exact H.
Qed.

(* ---- the regenerated arithmetic of bitmap.rs ---- *)
(* the pages AtomicBitmapMmap::mark_dirty walks for a write of len > 0 bytes at offset are exactly the pages of the
   written bytes: this is what lets the model mark byte by byte *)
Lemma md_pages_are_byte_pages offset len p :
  0 < len -> offset + (len - 1) < 2 ^ 64 ->
  (bm_md_first_page offset len <= p <= bm_md_last_page offset len <-> exists i, i < len /\ p = (offset + i) / 4096).
Proof.
  intros Hl Ho. unfold bm_md_first_page, bm_md_last_page, bm_sat_add, bm_page_number, bm_LOG_PAGE_SIZE.
  rewrite N.min_l by lia. split.
  - intros [H1 H2]. destruct (N.eq_dec p (offset / 4096)) as [->|Hne].
    + exists 0. split; [lia|]. rewrite N.add_0_r. reflexivity.
    + exists (p * 4096 - offset). split; lia.
  - intros (i & Hi & ->). split; apply N.div_le_mono; lia.
Qed.
(* a zero-length write marks nothing *)
Lemma md_skip_zero offset : bm_md_skip offset 0 = true.
Proof. reflexivity. Qed.
(* the word and mask of an absolute page: log byte page / 8, bit page mod 8 (LSB first) *)
Lemma md_word_mask page : bm_md_word page = page / 8 /\ bm_md_mask page = 2 ^ (page mod 8).
Proof. unfold bm_md_word, bm_md_mask, bm_page_word, bm_page_bit, bm_LOG_WORD_SIZE. rewrite N.shiftl_1_l. split; reflexivity. Qed.
(* the code around the expressions: one loop over first..=last, out-of-bounds pages end it, an atomic OR per page *)
Fixpoint strs_eqb (a b : list string) : bool :=
  match a, b with
  | [], [] => true
  | x :: ra, y :: rb => String.eqb x y && strs_eqb ra rb
  | _, _ => false
  end.
Definition bm_shape_ok : bool :=
  strs_eqb bm_md_shape ["for page in first_page ..= last_page"; "if .. { break ; }"; "let page";
                        "self . logmem [page_word (page)] . fetch_or"]%string
  && String.eqb bm_region_mark_dirty_src
       "{ let inner = self . inner . read () . unwrap () ; if let Some (bitmap) = inner . as_ref () { if let Some (absolute_offset) = self . base_address . checked_add (offset) { bitmap . mark_dirty (absolute_offset , len) ; } } }"
  && String.eqb bm_region_slice_at_src
       "{ Self { inner : Arc :: clone (& self . inner) , base_address : self . base_address . saturating_add (offset) , } }".
Lemma bm_shape_ok_true : bm_shape_ok = true.
Proof. vm_compute. reflexivity. Qed.
