(* C10: the lock discipline of the regenerated method table, and the complete exploration of three interleaved calls. *)
From VV Require Import Base.Bits Base.Rt Base.Val Base.Explore Gen.GenArms Model.Conc.
From Coq Require Import ZArith Bool.
Open Scope string_scope.
Open Scope list_scope.
Open Scope N_scope.

(* ---- every method of Frontend, Backend (proxy) and GpuBackend regenerated from the source: the endpoint's lock is
   taken exactly once, before any socket traffic, and is not released before the method returns ---- *)
Definition is_io (e : ev) : bool :=
  match e with
  | EvSendReq _ _ | EvRecv _ | EvSend _ | EvSock _ => true
  | EvHelper n => existsb (String.eqb n) ["send_header"; "send_message"; "send_message_with_payload"; "recv_reply"; "wait_for_ack"]
  | _ => false
  end.
Fixpoint lock_discipline (evs : list ev) (locked : bool) : bool :=
  match evs with
  | [] => true
  | EvLock _ :: r => negb locked && lock_discipline r true       (* a second acquisition would deadlock or split the transaction *)
  | EvUnlock :: _ => false                                       (* released before the method returns *)
  | e :: r => (negb (is_io e) || locked) && lock_discipline r locked
  end.
Definition lock_ops_ok : bool :=
  forallb (fun r => let '(_, _, _, evs) := r in lock_discipline evs false) lock_ops
  && Nat.leb 40 (List.length lock_ops).
Lemma lock_ops_ok_true : lock_ops_ok = true.
Proof. vm_compute. reflexivity. Qed.

(* ---- all interleavings of two or three such calls ---- *)
Fixpoint nl_eqb (a b : list N) : bool :=
  match a, b with
  | [], [] => true
  | x :: ra, y :: rb => (x =? y) && nl_eqb ra rb
  | _, _ => false
  end.
Lemma nl_eqb_eq a : forall b, nl_eqb a b = true <-> a = b.
Proof.
  induction a as [|x a IH]; intros [|y b]; cbn [nl_eqb]; split; intros H; try reflexivity; try discriminate.
  - apply andb_true_iff in H. destruct H as [H1 H2]. apply N.eqb_eq in H1. apply IH in H2. subst. reflexivity.
  - inversion H; subst. rewrite N.eqb_refl. cbn. apply IH. reflexivity.
Qed.
Definition cs_eqb (a b : cs) : bool :=
  (holder a =? holder b) && (p1 a =? p1 b) && (p2 a =? p2 b) && (p3 a =? p3 b) && Bool.eqb (k1 a) (k1 b) && Bool.eqb (k2 a) (k2 b)
  && Bool.eqb (k3 a) (k3 b) && nl_eqb (wire a) (wire b) && Bool.eqb (bad a) (bad b).
Lemma cs_eqb_eq a b : cs_eqb a b = true <-> a = b.
Proof.
  split.
  - destruct a as [a1 a2 a3 a4 a5 a6 a7 a8 a9], b as [b1 b2 b3 b4 b5 b6 b7 b8 b9].
    unfold cs_eqb. cbn [holder p1 p2 p3 k1 k2 k3 wire bad]. intros H.
    repeat match type of H with _ && _ = true => apply andb_true_iff in H; let H2 := fresh "E" in destruct H as [H H2] end.
    repeat match goal with
           | E : (_ =? _) = true |- _ => apply N.eqb_eq in E
           | E : Bool.eqb _ _ = true |- _ => apply eqb_prop in E
           | E : nl_eqb _ _ = true |- _ => apply nl_eqb_eq in E
           end.
    subst. reflexivity.
  - intros ->. unfold cs_eqb. rewrite !N.eqb_refl, !eqb_reflx. rewrite (proj2 (nl_eqb_eq (wire b) (wire b)) eq_refl). reflexivity.
Qed.

Definition conc_set : list cs := bfs cs cs_eqb csteps 40 cinits cinits.
Lemma conc_closed : closed_b cs cs_eqb csteps conc_set = true.
Proof. vm_compute. reflexivity. Qed.
Lemma conc_inits : forallb (fun s => mem cs cs_eqb s conc_set) cinits = true.
Proof. vm_compute. reflexivity. Qed.

(* no request is ever written between another caller's request and the reading of its reply; the wire is a sequence
   of whole transactions, so every reply read belongs to the reader's own request *)
Definition atomic_b (s : cs) : bool := negb (bad s) && whole (wire s).
Lemma atomic_all : forallb atomic_b conc_set = true.
Proof. vm_compute. reflexivity. Qed.
(* no self-deadlock: a state in which nothing can move is one in which every caller is done *)
Definition done_pc (p : N) : bool := (p =? 4) || (p =? 9).
Definition complete_b (s : cs) : bool :=
  negb (Nat.eqb (List.length (csteps s)) 0) || (done_pc (p1 s) && done_pc (p2 s) && done_pc (p3 s) && (holder s =? 0)).
Lemma complete_all : forallb complete_b conc_set = true.
Proof. vm_compute. reflexivity. Qed.

Global Opaque conc_set.
Definition creach := reach cs csteps.
Lemma conc_lift (P : cs -> bool) : forallb P conc_set = true -> forall s0 s, In s0 cinits -> creach s0 s -> P s = true.
Proof. intros H. exact (lift cs cs_eqb cs_eqb_eq csteps cinits conc_set P conc_closed conc_inits H). Qed.
