(* Lemmas about the daemon model's memory table, address translation and ring
   configuration (Model.Daemon): C13, C14. *)
From VV Require Import Base.Bits Base.Rt Base.Val Gen.GenConsts Gen.GenRoute Model.Daemon Proofs.DaemonProofs.
From Coq Require Import ZArith ZifyBool ZifyNat ZifyN.
Open Scope list_scope.
Open Scope N_scope.
Ltac Zify.zify_post_hook ::= Z.div_mod_to_equations.

(* ------------------------------------------------------------------ the table *)
Inductive mop := MSet (rl : list (list N)) | MAdd (a : list N) | MRem (a : list N).
Definition mop_apply (s : dstate) (o : mop) : dstate * dres :=
  match o with
  | MSet rl => h_set_mem_table s rl
  | MAdd a => h_add_mem s a
  | MRem a => h_rem_mem s a
  end.
Definition d_ok (r : dres) : bool := match r with DOk _ => true | DErr => false end.

(* the table the property describes: the regions of the successful operations *)
Definition abs_step (log : option (N * N * N)) (t : list region) (o : mop) (ok : bool) : list region :=
  if ok then
    match o with
    | MSet rl => map (mk_region log) rl
    | MAdd a => mk_region log a :: t
    | MRem a => filter (fun r => negb (rg_gpa r =? nth 0 a 0)) t
    end
  else t.

Lemma in_insert_reg x y l : In y (insert_reg x l) <-> y = x \/ In y l.
Proof.
  induction l as [|z l IH]; cbn [insert_reg].
  - cbn. intuition.
  - destruct (rg_gpa x <? rg_gpa z); cbn [In]; [intuition|]. rewrite IH. intuition.
Qed.

(* a failed update leaves the whole state intact *)
Lemma mop_failed_intact s o s' : mop_apply s o = (s', DErr) -> s' = s.
Proof.
  destruct o as [rl|a|a]; cbn [mop_apply]; unfold h_set_mem_table, h_add_mem, h_rem_mem; intros H;
    repeat match type of H with
           | (if ?c then _ else _) = _ => destruct c
           end; inversion H; reflexivity.
Qed.

(* a successful update installs exactly the property's table, and notifies the backend once *)
Lemma mop_step_table s o s' r :
  mop_apply s o = (s', r) ->
  (forall x, In x (m_regs (d_mem s')) <-> In x (abs_step (m_log (d_mem s)) (m_regs (d_mem s)) o (d_ok r)))
  /\ m_upd (d_mem s') = m_upd (d_mem s) + (if d_ok r then 1 else 0).
Proof.
  destruct o as [rl|a|a]; cbn [mop_apply]; unfold h_set_mem_table, h_add_mem, h_rem_mem; intros H;
    repeat match type of H with
           | (if ?c then _ else _) = _ => destruct c
           end; inversion H; subst; cbn [d_ok abs_step d_mem set_mem with_table m_regs m_upd]; split; try tauto; try lia.
  - intros x. rewrite in_insert_reg. cbn [In]. intuition.
Qed.

(* every other part of the daemon state is untouched by memory operations *)
Lemma mop_keeps_rings s o : d_rings (fst (mop_apply s o)) = d_rings s /\ d_regs (fst (mop_apply s o)) = d_regs s
                            /\ m_fbytes (d_mem (fst (mop_apply s o))) = m_fbytes (d_mem s).
Proof.
  destruct o as [rl|a|a]; cbn [mop_apply]; unfold h_set_mem_table, h_add_mem, h_rem_mem;
    repeat match goal with |- context [if ?c then _ else _] => destruct c end; cbn; auto.
Qed.

(* ---- the invariant: sorted, pairwise disjoint regions; the translation table lists the same regions ---- *)
Definition prec (a b : region) : Prop := rg_gpa a <= rg_gpa b /\ rg_gpa a + rg_size a - 1 < rg_gpa b.

Lemma regs_sorted_cons a l : regs_sorted (a :: l) = true <-> (match l with [] => True | b :: _ => prec a b end) /\ regs_sorted l = true.
Proof.
  destruct l as [|b l]; cbn [regs_sorted]; [intuition|].
  unfold prec. rewrite !Bool.andb_true_iff, N.leb_le, N.ltb_lt. intuition.
Qed.

Lemma prec_trans a b c : prec a b -> prec b c -> prec a c.
Proof. unfold prec. lia. Qed.

Lemma sorted_head_all a l : regs_sorted (a :: l) = true -> Forall (prec a) l.
Proof.
  revert a. induction l as [|b l IH]; intros a H; [constructor|].
  apply regs_sorted_cons in H. destruct H as [Hab Hl].
  constructor; [exact Hab|].
  specialize (IH b Hl). eapply Forall_impl; [|exact IH]. intros c Hc. eapply prec_trans; eauto.
Qed.

Lemma sorted_from_all a l : Forall (prec a) l -> regs_sorted l = true -> regs_sorted (a :: l) = true.
Proof.
  intros Hall Hl. apply regs_sorted_cons. split; [|exact Hl].
  destruct l as [|b l]; [exact I|]. inversion Hall; assumption.
Qed.

Lemma regs_sorted_tail a l : regs_sorted (a :: l) = true -> regs_sorted l = true.
Proof. intros H. apply regs_sorted_cons in H. tauto. Qed.

Lemma regs_sorted_filter f l : regs_sorted l = true -> regs_sorted (filter f l) = true.
Proof.
  induction l as [|a l IH]; intros H; [reflexivity|].
  cbn [filter]. pose proof (sorted_head_all _ _ H) as Hall. pose proof (regs_sorted_tail _ _ H) as Ht.
  destruct (f a); [|auto].
  apply sorted_from_all; [|auto].
  apply Forall_forall. intros x Hx. apply filter_In in Hx. destruct Hx as [Hx _].
  rewrite Forall_forall in Hall. auto.
Qed.

Definition table_of_maps (l : list mapping) : list (N * N) := map (fun mp => (m_gpa mp, m_size mp)) l.
Definition table_of_regs (l : list region) : list (N * N) := map (fun r => (rg_gpa r, rg_size r)) l.

Definition MemInv (m : dmem) : Prop :=
  regs_sorted (m_regs m) = true
  /\ (forall p, In p (table_of_maps (m_maps m)) <-> In p (table_of_regs (m_regs m))).

Lemma maps_regs_of_args log rl : table_of_maps (map mk_mapping rl) = table_of_regs (map (mk_region log) rl).
Proof. unfold table_of_maps, table_of_regs. rewrite !map_map. reflexivity. Qed.

Lemma in_table_filter_maps g l p :
  In p (table_of_maps (filter (fun mp => negb (m_gpa mp =? g)) l)) <-> In p (table_of_maps l) /\ fst p <> g.
Proof.
  unfold table_of_maps. rewrite !in_map_iff. split.
  - intros [mp [<- Hin]]. apply filter_In in Hin. destruct Hin as [Hin Hne]. cbn [fst]. split; [eauto|]. lia.
  - intros [[mp [<- Hin]] Hne]. exists mp. split; [reflexivity|]. apply filter_In. cbn [fst] in Hne. split; [assumption|lia].
Qed.
Lemma in_table_filter_regs g l p :
  In p (table_of_regs (filter (fun r => negb (rg_gpa r =? g)) l)) <-> In p (table_of_regs l) /\ fst p <> g.
Proof.
  unfold table_of_regs. rewrite !in_map_iff. split.
  - intros [mp [<- Hin]]. apply filter_In in Hin. destruct Hin as [Hin Hne]. cbn [fst]. split; [eauto|]. lia.
  - intros [[mp [<- Hin]] Hne]. exists mp. split; [reflexivity|]. apply filter_In. cbn [fst] in Hne. split; [assumption|lia].
Qed.

Lemma mop_keeps_inv s o : MemInv (d_mem s) -> MemInv (d_mem (fst (mop_apply s o))).
Proof.
  intros [Hs Ht]. unfold MemInv.
  destruct o as [rl|a|a]; cbn [mop_apply]; unfold h_set_mem_table, h_add_mem, h_rem_mem.
  - destruct (negb (forallb _ rl)); [split; assumption|].
    destruct (negb (Nat.ltb 0 (List.length (map (mk_region (m_log (d_mem s))) rl))) || negb (regs_sorted (map (mk_region (m_log (d_mem s))) rl))) eqn:E; [split; assumption|].
    cbn [fst d_mem set_mem with_table m_regs m_maps]. split.
    + apply Bool.orb_false_iff in E. destruct E as [_ E]. apply Bool.negb_false_iff in E. exact E.
    + intros p. rewrite (maps_regs_of_args (m_log (d_mem s))). tauto.
  - destruct (negb (new_region_ok _ _)); [split; assumption|].
    destruct (negb (regs_sorted (insert_reg (mk_region (m_log (d_mem s)) a) (m_regs (d_mem s))))) eqn:E; [split; assumption|].
    cbn [fst d_mem set_mem with_table m_regs m_maps]. split.
    + apply Bool.negb_false_iff in E. exact E.
    + intros p. unfold table_of_maps, table_of_regs in *. rewrite map_app, in_app_iff. cbn [map In].
      rewrite (Ht p). rewrite !in_map_iff. split.
      * intros [[r [<- Hin]]|[<-|[]]].
        -- exists r. split; [reflexivity|]. apply in_insert_reg. auto.
        -- exists (mk_region (m_log (d_mem s)) a). split; [reflexivity|]. apply in_insert_reg. auto.
      * intros [r [<- Hin]]. apply in_insert_reg in Hin. destruct Hin as [->|Hin]; [right; left; reflexivity|left; eauto].
  - destruct (existsb _ (m_regs (d_mem s))); [|split; assumption].
    cbn [fst d_mem set_mem with_table m_regs m_maps]. split.
    + apply regs_sorted_filter. exact Hs.
    + intros p. rewrite in_table_filter_maps, in_table_filter_regs, (Ht p). tauto.
Qed.

Definition mem_run (s : dstate) (ops : list mop) : dstate := fold_left (fun s o => fst (mop_apply s o)) ops s.

Lemma mem_run_inv ops : forall s, MemInv (d_mem s) -> MemInv (d_mem (mem_run s ops)).
Proof.
  induction ops as [|o ops IH]; intros s H; [exact H|]. cbn [mem_run fold_left]. apply IH. apply mop_keeps_inv. exact H.
Qed.

Lemma meminv_init nq maxq f pf masks : MemInv (d_mem (dinit nq maxq f pf masks)).
Proof. split; [reflexivity|]. intros p. cbn. tauto. Qed.

(* distinct regions of a sorted table do not share a guest byte *)
Lemma sorted_disjoint l : regs_sorted l = true ->
  forall a b x, In a l -> In b l -> rg_gpa a <= x < rg_gpa a + rg_size a -> rg_gpa b <= x < rg_gpa b + rg_size b -> a = b.
Proof.
  induction l as [|c l IH]; intros Hs a b x Ha Hb Hxa Hxb; [destruct Ha|].
  pose proof (sorted_head_all _ _ Hs) as Hall. rewrite Forall_forall in Hall.
  pose proof (regs_sorted_tail _ _ Hs) as Ht.
  destruct Ha as [<-|Ha], Hb as [<-|Hb]; [reflexivity| | |eauto].
  - specialize (Hall b Hb). unfold prec in Hall. lia.
  - specialize (Hall a Ha). unfold prec in Hall. lia.
Qed.

(* ------------------------------------------------------------------ translation *)
Lemma va_to_gpa_sound maps va g :
  va_to_gpa maps va = Some g ->
  exists mp, In mp maps /\ m_vmm mp <= va < m_vmm mp + m_size mp /\ g = m_gpa mp + (va - m_vmm mp).
Proof.
  unfold va_to_gpa. destruct (find _ maps) as [mp|] eqn:E; [|discriminate].
  intros H. inversion H; subst. apply find_some in E. destruct E as [Hin Hc]. unfold va_hit in Hc. unfold va_gpa.
  exists mp. split; [assumption|]. split; lia.
Qed.

Lemma va_to_gpa_none maps va :
  va_to_gpa maps va = None <-> (forall mp, In mp maps -> ~ (m_vmm mp <= va < m_vmm mp + m_size mp)).
Proof.
  unfold va_to_gpa. destruct (find _ maps) as [mp|] eqn:E.
  - split; [discriminate|]. intros H. apply find_some in E. destruct E as [Hin Hc]. unfold va_hit in Hc. exfalso. apply (H mp Hin). lia.
  - split; [|reflexivity]. intros _ mp Hin Hc. pose proof (find_none _ _ E mp Hin) as Hn. cbn beta in Hn. unfold va_hit in Hn. lia.
Qed.

(* ------------------------------------------------------------------ bytes: one byte written on one side is read on the other *)
Lemma fbyte_put_head m sizes f o b acc :
  fbyte_of (with_files m sizes ((f, o, b) :: acc)) f o = b.
Proof. unfold fbyte_of. cbn [m_fbytes with_files find fst snd]. rewrite !N.eqb_refl. reflexivity. Qed.

Lemma backend_write_visible m a b m' r :
  region_of (m_regs m) a = Some r -> rg_log r = None ->
  mem_write m a [b] = (m', true) ->
  fbyte_of m' (rg_file r) (rg_off r + (a - rg_gpa r)) = b /\ mem_read m' a 1 = Some [b].
Proof.
  intros Hr Hl. unfold mem_write. cbn [List.length mem_locs]. rewrite Hr. cbn [put_locs List.length Nat.eqb apply_marks].
  rewrite Hr. unfold mark_loc. rewrite Hl.
  intros H. inversion H; subst. split; [apply fbyte_put_head|].
  unfold mem_read. cbn [mem_locs with_files m_regs]. rewrite Hr. cbn [List.length Nat.eqb map fst snd].
  rewrite fbyte_put_head. reflexivity.
Qed.

Lemma guest_write_visible m f o b a r :
  region_of (m_regs m) a = Some r -> rg_file r = f -> rg_off r + (a - rg_gpa r) = o ->
  mem_read (file_write m f o [b]) a 1 = Some [b].
Proof.
  intros Hr Hf Ho. unfold mem_read, file_write. cbn [mem_locs with_files m_regs]. rewrite Hr.
  cbn [List.length Nat.eqb map fst snd put_bytes]. rewrite Hf, Ho, fbyte_put_head. reflexivity.
Qed.

(* ------------------------------------------------------------------ ring configuration (C14) *)
Lemma get_put_ring_same s q r r0 : get_ring s q = Some r0 -> get_ring (put_ring s q r) q = Some r.
Proof.
  unfold get_ring, put_ring. cbn [d_rings set_rings]. generalize (N.to_nat q) as i. generalize (d_rings s) as l.
  induction l as [|x l IH]; intros i H; destruct i; cbn in *; try discriminate; auto.
Qed.
Lemma get_put_ring_other s q q' r : N.to_nat q <> N.to_nat q' -> get_ring (put_ring s q r) q' = get_ring s q'.
Proof.
  unfold get_ring, put_ring. cbn [d_rings set_rings]. generalize (N.to_nat q) as i. generalize (N.to_nat q') as j.
  generalize (d_rings s) as l.
  induction l as [|x l IH]; intros j i H; destruct i, j; cbn; try reflexivity; try congruence. apply IH. congruence.
Qed.

(* SET_VRING_NUM: accepted exactly for a power of two within the maximum on an existing ring; the ring then has that size *)
Lemma set_vring_num_spec s q n :
  match h_set_vring_num s q n with
  | (s', DOk _) => (exists r0, get_ring s q = Some r0) /\ n <> 0 /\ n <= d_maxq s /\ is_pow2 n = true
                   /\ (forall r', get_ring s' q = Some r' -> r_size r' = n)
                   /\ (forall q', N.to_nat q <> N.to_nat q' -> get_ring s' q' = get_ring s q')
  | (s', DErr) => s' = s /\ (get_ring s q = None \/ n = 0 \/ d_maxq s < n \/ is_pow2 n = false)
  end.
Proof.
  unfold h_set_vring_num. destruct (get_ring s q) as [r|] eqn:Hr; [|split; auto].
  unfold num_bad. destruct ((n =? 0) || (d_maxq s <? n) || negb (is_pow2 n)) eqn:E.
  - split; [reflexivity|]. right. destruct (is_pow2 n); cbn in E; [lia|auto].
  - destruct (is_pow2 n) eqn:Hp; [|cbn in E; lia].
    split; [eauto|]. split; [lia|]. split; [lia|]. split; [reflexivity|]. split.
    + intros r' H'. erewrite get_put_ring_same in H' by eassumption. inversion H'. reflexivity.
    + intros q' Hne. apply get_put_ring_other. exact Hne.
Qed.

(* SET_VRING_BASE: next-available becomes the base; GET_VRING_BASE returns it *)
Lemma set_vring_base_spec s q b r0 :
  get_ring s q = Some r0 ->
  exists s', h_set_vring_base s q b = (s', DOk [])
             /\ (forall r', get_ring s' q = Some r' -> r_next_avail r' = b mod 2 ^ 16 /\ r_size r' = r_size r0 /\ r_next_used r' = r_next_used r0).
Proof.
  intros Hr. unfold h_set_vring_base. rewrite Hr. eexists. split; [reflexivity|].
  intros r' H'. erewrite get_put_ring_same in H' by eassumption. inversion H'. cbn. unfold cast. auto.
Qed.

(* out-of-range ring index: every per-ring handler refuses and changes nothing *)
Lemma per_ring_index_checked s q :
  get_ring s q = None ->
  (forall n, h_set_vring_num s q n = (s, DErr)) /\ (forall b, h_set_vring_base s q b = (s, DErr))
  /\ h_get_vring_base s q = (s, DErr) /\ (forall f, h_set_vring_kick s q f = (s, DErr))
  /\ (forall f, h_set_vring_call s q f = (s, DErr))
  /\ (forall a, nth 0 a 0 = q -> h_set_vring_addr s a = (s, DErr)).
Proof.
  intros H. unfold h_set_vring_num, h_set_vring_base, h_get_vring_base, h_set_vring_kick, h_set_vring_call, h_set_vring_addr.
  rewrite H. repeat split; auto. intros a Ha. rewrite Ha, H. reflexivity.
Qed.

(* SET_VRING_ADDR: on success the three addresses are the translations and next-used is the used index in guest memory *)
Lemma set_vring_addr_spec s a s' :
  h_set_vring_addr s a = (s', DOk []) ->
  exists r0 d av u idx,
    get_ring s (nth 0 a 0) = Some r0
    /\ va_to_gpa (m_maps (d_mem s)) (nth 2 a 0) = Some d
    /\ va_to_gpa (m_maps (d_mem s)) (nth 4 a 0) = Some av
    /\ va_to_gpa (m_maps (d_mem s)) (nth 3 a 0) = Some u
    /\ mem_load16 (d_mem s) (u + 2) = Some idx
    /\ (forall r', get_ring s' (nth 0 a 0) = Some r' ->
          r_desc r' = d /\ r_avail r' = av /\ r_used r' = u /\ r_next_used r' = idx
          /\ r_size r' = r_size r0 /\ r_next_avail r' = r_next_avail r0).
Proof.
  unfold h_set_vring_addr. destruct (get_ring s (nth 0 a 0)) as [r0|] eqn:Hr; [|discriminate].
  destruct (m_maps (d_mem s)) as [|mp0 mps] eqn:Hm; [discriminate|]. rewrite <- Hm.
  destruct (va_to_gpa _ (nth 2 a 0)) as [d|]; [|discriminate].
  destruct (va_to_gpa _ (nth 4 a 0)) as [av|]; [|discriminate].
  destruct (va_to_gpa _ (nth 3 a 0)) as [u|]; [|discriminate].
  destruct (negb (d mod 16 =? 0)); [discriminate|].
  destruct (negb (av mod 2 =? 0)); [discriminate|].
  destruct (negb (u mod 4 =? 0)); [discriminate|].
  destruct (mem_load16 (d_mem s) ((u + 2) mod 2 ^ 64)) as [idx|] eqn:Hl; [|discriminate].
  destruct (u + 2 <? 2 ^ 64) eqn:Hu; [|discriminate].
  intros H. inversion H; subst. exists r0, d, av, u, idx.
  rewrite N.mod_small in Hl by lia.
  repeat split; auto; erewrite get_put_ring_same in H0 by eassumption; inversion H0; reflexivity.
Qed.

(* SET_FEATURES: accepted exactly for a subset of the offer; then every ring carries the EVENT_IDX setting and the
   backend is told the bits and the setting *)
Lemma set_features_spec s v :
  match h_set_features s v with
  | (s', DOk _) => N.land v (lnot 64 (d_features s)) = 0
                   /\ d_acked s' = v
                   /\ (forall r, In r (d_rings s') -> r_event_idx r = hasd v (2 ^ 29))
                   /\ m_ackf (d_mem s') = m_ackf (d_mem s) ++ [v]
                   /\ m_evlog (d_mem s') = m_evlog (d_mem s) ++ [if hasd v (2 ^ 29) then 1 else 0]
  | (s', DErr) => s' = s /\ N.land v (lnot 64 (d_features s)) <> 0
  end.
Proof.
  unfold h_set_features. destruct (N.land v (lnot 64 (d_features s)) =? 0) eqn:E; cbn [negb].
  - split; [lia|]. cbn [d_acked set_mem set_rings d_rings d_mem m_ackf m_evlog].
    assert (Hacked : forall s0 n e, d_acked (enable_all s0 n 0 e) = d_acked s0 /\ d_mem (enable_all s0 n 0 e) = d_mem s0).
    { intros s0 n. generalize 0 at 1 2. revert s0. induction n as [|n IH]; intros s0 q0 e; cbn [enable_all]; [auto|].
      destruct (get_ring s0 q0) as [r|]; [|auto].
      destruct (IH (update_reg (put_ring s0 q0 (with_ring r (r_ready r) e (r_kick r) (r_call r)))
                               (with_ring r (r_ready r) e (r_kick r) (r_call r)) q0) (q0 + 1) e) as [H1 H2].
      rewrite H1, H2. unfold update_reg, put_ring.
      destruct (r_kick _); [|auto]. destruct (owner_of _ _ _) as [[t i]|]; [|auto].
      destruct (GenCtl.ctl_reg_wanted _ _); [destruct (existsb _ _)|]; auto. }
    split.
    + destruct (hasd v PFB); cbn [d_acked set_misc]; [reflexivity|]. destruct (Hacked (set_misc s (d_owned s) v (d_acked_proto s) (d_rq_acked s) (d_rq_acked_proto s) (d_fe_avf s) (d_fe_apf s) (d_fe_maxq s)) (d_nq s) true) as [H1 _].
      cbn [d_nq set_misc]. rewrite H1. reflexivity.
    + split.
      * intros r Hin. apply in_map_iff in Hin. destruct Hin as [r0 [<- _]]. reflexivity.
      * destruct (hasd v PFB); cbn [d_mem set_misc]; [auto|].
        destruct (Hacked (set_misc s (d_owned s) v (d_acked_proto s) (d_rq_acked s) (d_rq_acked_proto s) (d_fe_avf s) (d_fe_apf s) (d_fe_maxq s)) (d_nq s) true) as [_ H2].
        cbn [d_nq set_misc]. rewrite H2. cbn [d_mem set_misc]. auto.
  - split; [reflexivity|lia].
Qed.

(* used-buffer notification goes to the call descriptor currently installed, and nowhere when none is *)
Definition signal_of (s : dstate) (q : N) : dstate :=
  match get_ring s q with
  | Some r => match r_call r with
              | Some f => set_files s (set_pending (d_pending s) f (pending_of s f + 1)) (d_fe_holds s) (d_next_inst s)
              | None => s
              end
  | None => s
  end.
Lemma get_ring_update_reg s r q q' : get_ring (update_reg s r q) q' = get_ring s q'.
Proof. unfold get_ring. rewrite update_reg_rings. reflexivity. Qed.

Lemma set_call_then_signal s q f r0 s' :
  get_ring s q = Some r0 -> h_set_vring_call s q f = (s', DOk []) ->
  exists r', get_ring s' q = Some r' /\ r_call r' = Some f.
Proof.
  intros Hr. unfold h_set_vring_call, GenCtl.ctl_needs_init. rewrite Hr.
  destruct (negb (r_ready _) && o_is_some (r_kick _)) eqn:E; intros H; inversion H; subst.
  - eexists. split.
    + rewrite get_ring_update_reg. eapply get_put_ring_same. eapply get_put_ring_same. exact Hr.
    + reflexivity.
  - eexists. split; [eapply get_put_ring_same; exact Hr|reflexivity].
Qed.

(* ---- the expressions of vmm_va_to_gpa regenerated from handler.rs ---- *)
Lemma va_hit_spec va a sz g : va_hit va a sz g = true <-> a <= va < a + sz.
Proof. unfold va_hit. lia. Qed.
Lemma va_gpa_spec va a sz g : a <= va -> va_gpa va a sz g = g + (va - a).
Proof. unfold va_gpa. lia. Qed.
Definition va_shape_ok : bool :=
  match va_shape with
  | [a; b; c] => String.eqb a "for mapping in self . mappings . iter ()" && String.eqb b "return Ok" && String.eqb c "otherwise Err"
  | _ => false
  end.
Lemma va_shape_ok_true : va_shape_ok = true.
Proof. vm_compute. reflexivity. Qed.

(* the size test of set_vring_num regenerated from handler.rs: refused exactly for 0, sizes above the maximum, and sizes
   that are not a power of two *)
Lemma num_bad_spec n mx : num_bad n mx = false <-> (n <> 0 /\ n <= mx /\ popcount n = 1).
Proof. unfold num_bad, is_pow2. lia. Qed.
