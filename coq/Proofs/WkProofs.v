(* The worker's decisions on a kick, REGENERATED from vring.rs / event_loop.rs (Gen/GenWk.v) and called by the race system
   (Model/Race.v worker_step) and the daemon model (Model/Daemon.v poll): read_kick returns without touching the kick
   descriptor exactly for a ring that is not enabled; handle_event stops on the exit event, treats ids below the number
   of its rings as kicks, and returns without a dispatch exactly when read_kick reported "not enabled". *)
From VV Require Import Gen.GenWk.
From Coq Require Import List String NArith Bool.
Import ListNotations.
Open Scope string_scope.
Open Scope N_scope.

Lemma wk_rk_d1_spec e : wk_rk_d1 e = negb e.
Proof. reflexivity. Qed.
Lemma wk_he_spec x dev nq nr e :
  wk_he_d1 x dev nq nr e = x && (dev =? nq) /\ wk_he_d2 x dev nq nr e = (dev <? nr) /\ wk_he_d3 x dev nq nr e = negb e.
Proof. repeat split; reflexivity. Qed.

Definition wk_shapes_expected : list (list string) :=
  [ ["decision 1 -> Ok(false)"; "ifletSome(kick)=&self.kick{kick.consume()?;}"; "Ok(true)"];
    ["set_enabled: self.enabled=enabled;"; "set_queue_ready: self.queue.set_ready(ready);";
     "set_kick: self.kick=file.map(|f|unsafe{EventConsumer::from_raw_fd(f.into_raw_fd())});"];
    ["decision 1 -> Ok(true)"; "guard 2 {"; "  letvring=&self.vrings[device_eventasusize];";
     "  letenabled=vring.read_kick().map_err(VringEpollError::HandleEventReadKick)?;"; "  decision 3 -> Ok(false)"; "}";
     "self.backend.handle_event(device_event,evset,&self.vrings,self.thread_id).map_err(VringEpollError::HandleEventBackendHandling)?;";
     "Ok(false)"] ].
Lemma wk_shapes_ok : [wk_rk_shape; wk_setters_shape; wk_he_shape] = wk_shapes_expected.
Proof. vm_compute. reflexivity. Qed.
