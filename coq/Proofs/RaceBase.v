(* C12 (computation part): the worker / control / guest transition system of Model.Race explored completely. *)
From VV Require Import Base.Bits Base.Val Base.Explore Model.Race.
From Coq Require Import ZArith Bool.
Open Scope list_scope.
Open Scope N_scope.

Fixpoint nl_eqb (a b : list N) : bool :=
  match a, b with
  | [], [] => true
  | x :: ra, y :: rb => (x =? y) && nl_eqb ra rb
  | _, _ => false
  end.
Lemma nl_eqb_eq a : forall b, nl_eqb a b = true <-> a = b.
Proof.
  induction a as [|x a IH]; intros [|y b]; cbn [nl_eqb]; split; intros H; try reflexivity; try discriminate.
  - apply andb_true_iff in H. destruct H as [H1 H2]. apply N.eqb_eq in H1. apply IH in H2. subst. reflexivity.
  - inversion H; subst. rewrite N.eqb_refl. cbn. apply IH. reflexivity.
Qed.

Definition rs_eqb (a b : rs) : bool :=
  (w a =? w b) && Bool.eqb (started a) (started b) && Bool.eqb (enabled a) (enabled b) && Bool.eqb (registered a) (registered b)
  && Bool.eqb (haskick a) (haskick b) && (pending a =? pending b) && (kicks_left a =? kicks_left b) && nl_eqb (cq a) (cq b)
  && Bool.eqb (mon_dis a) (mon_dis b) && Bool.eqb (mon_stop a) (mon_stop b) && Bool.eqb (inflight a) (inflight b)
  && Bool.eqb (late a) (late b).

Lemma rs_eqb_eq a b : rs_eqb a b = true <-> a = b.
Proof.
  split.
  - destruct a as [a1 a2 a3 a4 a5 a6 a7 a8 a9 a10 a11 a12], b as [b1 b2 b3 b4 b5 b6 b7 b8 b9 b10 b11 b12].
    unfold rs_eqb. cbn [w started enabled registered haskick pending kicks_left cq mon_dis mon_stop inflight late].
    intros H.
    repeat match type of H with _ && _ = true => apply andb_true_iff in H; let H2 := fresh "E" in destruct H as [H H2] end.
    repeat match goal with
           | E : (_ =? _) = true |- _ => apply N.eqb_eq in E
           | E : Bool.eqb _ _ = true |- _ => apply eqb_prop in E
           | E : nl_eqb _ _ = true |- _ => apply nl_eqb_eq in E
           end.
    subst. reflexivity.
  - intros ->. unfold rs_eqb. rewrite !N.eqb_refl, !eqb_reflx. rewrite (proj2 (nl_eqb_eq (cq b) (cq b)) eq_refl). reflexivity.
Qed.

Definition race_set : list rs := bfs rs rs_eqb rsteps 60 rinits rinits.
Lemma race_closed : closed_b rs rs_eqb rsteps race_set = true.
Proof. vm_compute. reflexivity. Qed.
Lemma race_inits : forallb (fun s => mem rs rs_eqb s race_set) rinits = true.
Proof. vm_compute. reflexivity. Qed.

(* ---- the properties ---- *)
(* no wake-up is consumed without being processed: the kick counter is reset only on the way to a dispatch (by
   construction of worker_step: the only step that resets it leads to w = 2, from which the only step is the dispatch);
   and a kick can never be stranded: in a state where nothing can move any more, a started and enabled ring has no
   kick pending *)
Definition quiescent (s : rs) : bool := Nat.eqb (List.length (rsteps s)) 0.
Definition not_stranded_b (s : rs) : bool :=
  negb (quiescent s) || negb ((0 <? pending s) && started s && enabled s && haskick s).
Lemma not_stranded_all : forallb not_stranded_b race_set = true.
Proof. vm_compute. reflexivity. Qed.

(* the registration follows the ring state whenever the control thread is between messages *)
Definition registered_when_active_b (s : rs) : bool :=
  negb (Nat.eqb (List.length (cq s)) 0) || Bool.eqb (registered s) (started s && enabled s && haskick s).
Lemma registered_when_active_all : forallb registered_when_active_b race_set = true.
Proof. vm_compute. reflexivity. Qed.

(* a dispatch after the reply to a disabling / stopping message happens only as the completion of an event the worker
   had already taken out of epoll_wait when the reply was written *)
Definition late_only_inflight_b (s : rs) : bool := negb (late s) || inflight s.
Lemma late_only_inflight_all : forallb late_only_inflight_b race_set = true.
Proof. vm_compute. reflexivity. Qed.

(* ... and such a late dispatch IS reachable: the full statement of the first clause is false of the faithful model *)
Definition late_witness_b : bool := existsb late race_set.
Lemma late_witness : late_witness_b = true.
Proof. vm_compute. reflexivity. Qed.
