(* End to end over the two hand models and the regenerated codecs: the body the
   frontend side writes for a call, fed to the request server's dispatch, makes the
   handler see exactly the caller's values - for all values that fit the fields. *)
From VV Require Import Base.Bits Base.Rt Base.Val Gen.GenConsts Gen.GenLayout Gen.GenFns Gen.GenVrfd Model.Transport Model.BeServer Proofs.CodecProofs.
From Coq Require Import ZArith ZifyBool ZifyNat ZifyN.
Open Scope string_scope.
Open Scope list_scope.
Open Scope N_scope.

Lemma vring_state_write_length v : List.length (VhostUserVringState_write v) = 8%nat.
Proof. unfold VhostUserVringState_write. offs. len. Qed.
Lemma u64_write_length v : List.length (VhostUserU64_write v) = 8%nat.
Proof. unfold VhostUserU64_write. offs. len. Qed.

Definition req_flags_ok (fl : N) : Prop := fl = 0 \/ fl = VhostUserHeaderFlag_NEED_REPLY.

Lemma extract_vring_state code fl v :
  req_flags_ok fl -> VhostUserVringState_index v < 2 ^ 32 -> VhostUserVringState_num v < 2 ^ 32 ->
  extract (VhostUserMsgHeader_new R code fl 8) 8 (VhostUserVringState_write v) VhostUserVringState_layout
          VhostUserVringState_decode VhostUserVringState_is_valid = ROk v.
Proof.
  intros Hfl Hi Hn. unfold extract.
  assert (Hc : check_size (VhostUserMsgHeader_new R code fl 8) 8 (sizeof VhostUserVringState_layout) = ROk tt)
    by (destruct Hfl as [-> | ->]; vm_compute; reflexivity).
  rewrite Hc. unfold VhostUserVringState_decode. rewrite vring_state_write_length.
  change (Nat.eqb 8 (fty_size VhostUserVringState_layout)) with true. cbv iota.
  rewrite vring_state_roundtrip by assumption. reflexivity.
Qed.

Lemma extract_u64 code fl v :
  req_flags_ok fl -> VhostUserU64_value v < 2 ^ 64 ->
  extract (VhostUserMsgHeader_new R code fl 8) 8 (VhostUserU64_write v) VhostUserU64_layout VhostUserU64_decode VhostUserU64_is_valid = ROk v.
Proof.
  intros Hfl Hv. unfold extract.
  assert (Hc : check_size (VhostUserMsgHeader_new R code fl 8) 8 (sizeof VhostUserU64_layout) = ROk tt)
    by (destruct Hfl as [-> | ->]; vm_compute; reflexivity).
  rewrite Hc. unfold VhostUserU64_decode. rewrite u64_write_length.
  change (Nat.eqb 8 (fty_size VhostUserU64_layout)) with true. cbv iota.
  rewrite u64_body_roundtrip by assumption. reflexivity.
Qed.

Theorem set_vring_num_end_to_end cfg s o idx num fl :
  idx < 2 ^ 32 -> num < 2 ^ 32 -> req_flags_ok fl ->
  o_calls (snd (dispatch cfg s o (VhostUserMsgHeader_new R FrontendReq_SET_VRING_NUM fl 8) None 8
                         (VhostUserVringState_write {| VhostUserVringState_index := idx; VhostUserVringState_num := num |})))
  = [call "set_vring_num" [VN idx; VN num]].
Proof.
  intros Hi Hn Hfl. unfold dispatch.
  change (VhostUserMsgHeader_request (VhostUserMsgHeader_new R FrontendReq_SET_VRING_NUM fl 8)) with FrontendReq_SET_VRING_NUM.
  vm_compute (FrontendReq_SET_VRING_NUM =? _). cbn match.
  rewrite extract_vring_state by assumption. reflexivity.
Qed.

Theorem set_vring_base_end_to_end cfg s o idx num fl :
  idx < 2 ^ 32 -> num < 2 ^ 32 -> req_flags_ok fl ->
  o_calls (snd (dispatch cfg s o (VhostUserMsgHeader_new R FrontendReq_SET_VRING_BASE fl 8) None 8
                         (VhostUserVringState_write {| VhostUserVringState_index := idx; VhostUserVringState_num := num |})))
  = [call "set_vring_base" [VN idx; VN num]].
Proof.
  intros Hi Hn Hfl. unfold dispatch.
  change (VhostUserMsgHeader_request (VhostUserMsgHeader_new R FrontendReq_SET_VRING_BASE fl 8)) with FrontendReq_SET_VRING_BASE.
  vm_compute (FrontendReq_SET_VRING_BASE =? _). cbn match.
  rewrite extract_vring_state by assumption. reflexivity.
Qed.

Theorem set_features_end_to_end cfg s o v fl :
  v < 2 ^ 64 -> req_flags_ok fl ->
  o_calls (snd (dispatch cfg s o (VhostUserMsgHeader_new R FrontendReq_SET_FEATURES fl 8) None 8
                         (VhostUserU64_write {| VhostUserU64_value := v |})))
  = [call "set_features" [VN v]].
Proof.
  intros Hv Hfl. unfold dispatch.
  change (VhostUserMsgHeader_request (VhostUserMsgHeader_new R FrontendReq_SET_FEATURES fl 8)) with FrontendReq_SET_FEATURES.
  vm_compute (FrontendReq_SET_FEATURES =? _). cbn match.
  rewrite extract_u64 by assumption. reflexivity.
Qed.

Theorem set_protocol_features_end_to_end cfg s o v fl :
  v < 2 ^ 64 -> req_flags_ok fl ->
  o_calls (snd (dispatch cfg s o (VhostUserMsgHeader_new R FrontendReq_SET_PROTOCOL_FEATURES fl 8) None 8
                         (VhostUserU64_write {| VhostUserU64_value := v |})))
  = [call "set_protocol_features" [VN v]].
Proof.
  intros Hv Hfl. unfold dispatch.
  change (VhostUserMsgHeader_request (VhostUserMsgHeader_new R FrontendReq_SET_PROTOCOL_FEATURES fl 8)) with FrontendReq_SET_PROTOCOL_FEATURES.
  vm_compute (FrontendReq_SET_PROTOCOL_FEATURES =? _). cbn match.
  rewrite extract_u64 by assumption. reflexivity.
Qed.

(* ---- further operations ---- *)
Lemma vring_addr_write_length v : List.length (VhostUserVringAddr_write v) = 40%nat.
Proof. unfold VhostUserVringAddr_write. offs. len. Qed.

Lemma extract_vring_addr code fl v :
  req_flags_ok fl ->
  VhostUserVringAddr_index v < 2 ^ 32 -> VhostUserVringAddr_flags v < 2 ^ 32 -> VhostUserVringAddr_descriptor v < 2 ^ 64 ->
  VhostUserVringAddr_used v < 2 ^ 64 -> VhostUserVringAddr_available v < 2 ^ 64 -> VhostUserVringAddr_log v < 2 ^ 64 ->
  VhostUserVringAddr_is_valid v = true ->
  extract (VhostUserMsgHeader_new R code fl 40) 40 (VhostUserVringAddr_write v) VhostUserVringAddr_layout
          VhostUserVringAddr_decode VhostUserVringAddr_is_valid = ROk v.
Proof.
  intros Hfl H1 H2 H3 H4 H5 H6 Hv. unfold extract.
  assert (Hc : check_size (VhostUserMsgHeader_new R code fl 40) 40 (sizeof VhostUserVringAddr_layout) = ROk tt)
    by (destruct Hfl as [-> | ->]; vm_compute; reflexivity).
  rewrite Hc. unfold VhostUserVringAddr_decode. rewrite vring_addr_write_length.
  change (Nat.eqb 40 (fty_size VhostUserVringAddr_layout)) with true. cbv iota.
  rewrite vring_addr_roundtrip by assumption. rewrite Hv. reflexivity.
Qed.

(* SET_VRING_ADDR: the six values the caller gave, for every valid address set (flags 0 or LOG) *)
Theorem set_vring_addr_end_to_end cfg s o idx flags d u av lg fl :
  idx < 2 ^ 32 -> flags < 2 -> d < 2 ^ 64 -> u < 2 ^ 64 -> av < 2 ^ 64 -> lg < 2 ^ 64 -> req_flags_ok fl ->
  let v := {| VhostUserVringAddr_index := idx; VhostUserVringAddr_flags := flags; VhostUserVringAddr_descriptor := d;
              VhostUserVringAddr_used := u; VhostUserVringAddr_available := av; VhostUserVringAddr_log := lg |} in
  VhostUserVringAddr_is_valid v = true ->
  o_calls (snd (dispatch cfg s o (VhostUserMsgHeader_new R FrontendReq_SET_VRING_ADDR fl 40) None 40 (VhostUserVringAddr_write v)))
  = [call "set_vring_addr" [VN idx; VN flags; VN d; VN u; VN av; VN lg]].
Proof.
  intros Hi Hf Hd Hu Ha Hl Hfl v Hv. unfold dispatch.
  change (VhostUserMsgHeader_request (VhostUserMsgHeader_new R FrontendReq_SET_VRING_ADDR fl 40)) with FrontendReq_SET_VRING_ADDR.
  vm_compute (FrontendReq_SET_VRING_ADDR =? _). cbn match.
  rewrite extract_vring_addr; try assumption; try (subst v; cbn [VhostUserVringAddr_index VhostUserVringAddr_flags VhostUserVringAddr_descriptor VhostUserVringAddr_used VhostUserVringAddr_available VhostUserVringAddr_log]; try assumption; lia).
  subst v. cbn [VhostUserVringAddr_index VhostUserVringAddr_flags VhostUserVringAddr_descriptor VhostUserVringAddr_used VhostUserVringAddr_available VhostUserVringAddr_log].
  assert (Hfb : flags_from_bits 32 VhostUserVringAddrFlags_all flags = Some flags).
  { assert (flags = 0 \/ flags = 1) as [-> | ->] by lia; reflexivity. }
  rewrite Hfb. reflexivity.
Qed.

(* GET_VRING_BASE: the handler is asked for the caller's ring *)
Theorem get_vring_base_end_to_end cfg s o idx fl :
  idx < 2 ^ 32 -> req_flags_ok fl ->
  o_calls (snd (dispatch cfg s o (VhostUserMsgHeader_new R FrontendReq_GET_VRING_BASE fl 8) None 8
                         (VhostUserVringState_write {| VhostUserVringState_index := idx; VhostUserVringState_num := 0 |})))
  = [call "get_vring_base" [VN idx]].
Proof.
  intros Hi Hfl. unfold dispatch.
  change (VhostUserMsgHeader_request (VhostUserMsgHeader_new R FrontendReq_GET_VRING_BASE fl 8)) with FrontendReq_GET_VRING_BASE.
  vm_compute (FrontendReq_GET_VRING_BASE =? _). cbn match.
  rewrite extract_vring_state by (try assumption; cbn; lia).
  cbn [VhostUserVringState_index]. destruct (o =? OUT_OK); reflexivity.
Qed.

(* SET_VRING_ENABLE once the driver acknowledged PROTOCOL_FEATURES *)
Theorem set_vring_enable_end_to_end cfg s o idx en fl :
  idx < 2 ^ 32 -> en < 2 -> req_flags_ok fl ->
  check_virtio s VhostUserVirtioFeatures_PROTOCOL_FEATURES = ROk tt ->
  o_calls (snd (dispatch cfg s o (VhostUserMsgHeader_new R FrontendReq_SET_VRING_ENABLE fl 8) None 8
                         (VhostUserVringState_write {| VhostUserVringState_index := idx; VhostUserVringState_num := en |})))
  = [call "set_vring_enable" [VN idx; VN en]].
Proof.
  intros Hi He Hfl Hg. unfold dispatch.
  change (VhostUserMsgHeader_request (VhostUserMsgHeader_new R FrontendReq_SET_VRING_ENABLE fl 8)) with FrontendReq_SET_VRING_ENABLE.
  vm_compute (FrontendReq_SET_VRING_ENABLE =? _). cbn match.
  rewrite extract_vring_state by (try assumption; cbn; lia).
  rewrite Hg. cbn [VhostUserVringState_index VhostUserVringState_num].
  assert (en = 0 \/ en = 1) as [-> | ->] by lia; reflexivity.
Qed.

(* SET_VRING_CALL / KICK / ERR with a descriptor: ring index and that very descriptor *)
Theorem set_vring_fd_end_to_end cfg s o code name idx f fl :
  (code = FrontendReq_SET_VRING_CALL /\ name = "set_vring_call") \/ (code = FrontendReq_SET_VRING_KICK /\ name = "set_vring_kick")
  \/ (code = FrontendReq_SET_VRING_ERR /\ name = "set_vring_err") ->
  idx < 256 -> req_flags_ok fl ->
  o_calls (snd (dispatch cfg s o (VhostUserMsgHeader_new R code fl 8) (Some [f]) 8 (VhostUserU64_write {| VhostUserU64_value := idx |})))
  = [call name [VN idx; vfds [f]]].
Proof.
  intros Hc Hi Hfl.
  assert (Hv : vring_fd_request (VhostUserU64_write {| VhostUserU64_value := idx |}) (Some [f]) = ROk (idx, Some f)).
  { unfold vring_fd_request, vrf_has_fd, vrf_reject, vrf_index. rewrite u64_body_roundtrip by (cbn; lia). cbn [VhostUserU64_value take_single].
    assert (Hl : N.land idx 256 = 0).
    { apply N.bits_inj_0. intros n. rewrite N.land_spec.
      destruct (N.eq_dec n 8) as [->|Hn].
      - assert (Hb : N.testbit idx 8 = false) by (apply N.bits_above_log2; destruct (N.eq_dec idx 0) as [->|Hz]; [reflexivity|]; apply N.log2_lt_pow2; lia).
        rewrite Hb. reflexivity.
      - change 256 with (2 ^ 8). rewrite N.pow2_bits_false by congruence. apply Bool.andb_false_r. }
    rewrite Hl. cbn [N.eqb andb orb negb o_is_none o_is_some]. change (2 ^ 8) with 256. rewrite N.mod_small by lia. reflexivity. }
  unfold dispatch.
  destruct Hc as [[-> ->] | [[-> ->] | [-> ->]]];
  match goal with |- context [VhostUserMsgHeader_request (VhostUserMsgHeader_new R ?c fl 8)] =>
    change (VhostUserMsgHeader_request (VhostUserMsgHeader_new R c fl 8)) with c end;
  repeat match goal with |- context [?a =? ?b] => let v := eval vm_compute in (a =? b) in change (a =? b) with v end;
  cbn match; cbn [orb];
  (assert (Hs : forall c, check_size (VhostUserMsgHeader_new R c fl 8) 8 (sizeof VhostUserU64_layout) = ROk tt)
     by (intros c; destruct Hfl as [-> | ->]; reflexivity));
  rewrite Hs, Hv; reflexivity.
Qed.
