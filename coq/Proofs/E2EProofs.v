(* End to end over the two hand models and the regenerated codecs: the body the
   frontend side writes for a call, fed to the request server's dispatch, makes the
   handler see exactly the caller's values - for all values that fit the fields. *)
From VV Require Import Base.Bits Base.Rt Base.Val Gen.GenConsts Gen.GenLayout Gen.GenFns Model.Transport Model.BeServer Proofs.CodecProofs.
From Coq Require Import ZArith ZifyBool ZifyNat ZifyN.
Open Scope string_scope.
Open Scope list_scope.
Open Scope N_scope.

Lemma vring_state_write_length v : List.length (VhostUserVringState_write v) = 8%nat.
Proof. unfold VhostUserVringState_write. offs. len. Qed.
Lemma u64_write_length v : List.length (VhostUserU64_write v) = 8%nat.
Proof. unfold VhostUserU64_write. offs. len. Qed.

Definition req_flags_ok (fl : N) : Prop := fl = 0 \/ fl = VhostUserHeaderFlag_NEED_REPLY.

Lemma extract_vring_state code fl v :
  req_flags_ok fl -> VhostUserVringState_index v < 2 ^ 32 -> VhostUserVringState_num v < 2 ^ 32 ->
  extract (VhostUserMsgHeader_new R code fl 8) 8 (VhostUserVringState_write v) VhostUserVringState_layout
          VhostUserVringState_decode VhostUserVringState_is_valid = ROk v.
Proof.
  intros Hfl Hi Hn. unfold extract.
  assert (Hc : check_size (VhostUserMsgHeader_new R code fl 8) 8 (sizeof VhostUserVringState_layout) = ROk tt)
    by (destruct Hfl as [-> | ->]; vm_compute; reflexivity).
  rewrite Hc. unfold VhostUserVringState_decode. rewrite vring_state_write_length.
  change (Nat.eqb 8 (fty_size VhostUserVringState_layout)) with true. cbv iota.
  rewrite vring_state_roundtrip by assumption. reflexivity.
Qed.

Lemma extract_u64 code fl v :
  req_flags_ok fl -> VhostUserU64_value v < 2 ^ 64 ->
  extract (VhostUserMsgHeader_new R code fl 8) 8 (VhostUserU64_write v) VhostUserU64_layout VhostUserU64_decode VhostUserU64_is_valid = ROk v.
Proof.
  intros Hfl Hv. unfold extract.
  assert (Hc : check_size (VhostUserMsgHeader_new R code fl 8) 8 (sizeof VhostUserU64_layout) = ROk tt)
    by (destruct Hfl as [-> | ->]; vm_compute; reflexivity).
  rewrite Hc. unfold VhostUserU64_decode. rewrite u64_write_length.
  change (Nat.eqb 8 (fty_size VhostUserU64_layout)) with true. cbv iota.
  rewrite u64_body_roundtrip by assumption. reflexivity.
Qed.

Theorem set_vring_num_end_to_end cfg s o idx num fl :
  idx < 2 ^ 32 -> num < 2 ^ 32 -> req_flags_ok fl ->
  o_calls (snd (dispatch cfg s o (VhostUserMsgHeader_new R FrontendReq_SET_VRING_NUM fl 8) None 8
                         (VhostUserVringState_write {| VhostUserVringState_index := idx; VhostUserVringState_num := num |})))
  = [call "set_vring_num" [VN idx; VN num]].
Proof.
  intros Hi Hn Hfl. unfold dispatch.
  change (VhostUserMsgHeader_request (VhostUserMsgHeader_new R FrontendReq_SET_VRING_NUM fl 8)) with FrontendReq_SET_VRING_NUM.
  vm_compute (FrontendReq_SET_VRING_NUM =? _). cbn match.
  rewrite extract_vring_state by assumption. reflexivity.
Qed.

Theorem set_vring_base_end_to_end cfg s o idx num fl :
  idx < 2 ^ 32 -> num < 2 ^ 32 -> req_flags_ok fl ->
  o_calls (snd (dispatch cfg s o (VhostUserMsgHeader_new R FrontendReq_SET_VRING_BASE fl 8) None 8
                         (VhostUserVringState_write {| VhostUserVringState_index := idx; VhostUserVringState_num := num |})))
  = [call "set_vring_base" [VN idx; VN num]].
Proof.
  intros Hi Hn Hfl. unfold dispatch.
  change (VhostUserMsgHeader_request (VhostUserMsgHeader_new R FrontendReq_SET_VRING_BASE fl 8)) with FrontendReq_SET_VRING_BASE.
  vm_compute (FrontendReq_SET_VRING_BASE =? _). cbn match.
  rewrite extract_vring_state by assumption. reflexivity.
Qed.

Theorem set_features_end_to_end cfg s o v fl :
  v < 2 ^ 64 -> req_flags_ok fl ->
  o_calls (snd (dispatch cfg s o (VhostUserMsgHeader_new R FrontendReq_SET_FEATURES fl 8) None 8
                         (VhostUserU64_write {| VhostUserU64_value := v |})))
  = [call "set_features" [VN v]].
Proof.
  intros Hv Hfl. unfold dispatch.
  change (VhostUserMsgHeader_request (VhostUserMsgHeader_new R FrontendReq_SET_FEATURES fl 8)) with FrontendReq_SET_FEATURES.
  vm_compute (FrontendReq_SET_FEATURES =? _). cbn match.
  rewrite extract_u64 by assumption. reflexivity.
Qed.

Theorem set_protocol_features_end_to_end cfg s o v fl :
  v < 2 ^ 64 -> req_flags_ok fl ->
  o_calls (snd (dispatch cfg s o (VhostUserMsgHeader_new R FrontendReq_SET_PROTOCOL_FEATURES fl 8) None 8
                         (VhostUserU64_write {| VhostUserU64_value := v |})))
  = [call "set_protocol_features" [VN v]].
Proof.
  intros Hv Hfl. unfold dispatch.
  change (VhostUserMsgHeader_request (VhostUserMsgHeader_new R FrontendReq_SET_PROTOCOL_FEATURES fl 8)) with FrontendReq_SET_PROTOCOL_FEATURES.
  vm_compute (FrontendReq_SET_PROTOCOL_FEATURES =? _). cbn match.
  rewrite extract_u64 by assumption. reflexivity.
Qed.
