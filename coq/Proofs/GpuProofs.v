(* C06 for the GPU channel: the GPU proxy model accepts bytes as the answer only if they are a header-valid REPLY to
   its own request, of exactly the expected length, without descriptors; what it returns is the body it read. *)
From VV Require Import Base.Bits Base.Rt Base.Val Gen.GenConsts Gen.GenLayout Gen.GenFns Model.Transport Model.Gpu.
From Coq Require Import Bool.
Open Scope list_scope.

Lemma gpu_wait_sound req bsize q body :
  gpu_wait req bsize q = inr body ->
  exists bytes cl q',
    recv_all (fuel_for q (12 + bsize)) (12 + bsize) [] None [] q = RxAll bytes None cl q'
    /\ List.length bytes = (12 + bsize)%nat
    /\ VhostUserGpuMsgHeader_is_valid RG (VhostUserGpuMsgHeader_read bytes 0) = true
    /\ VhostUserGpuMsgHeader_is_reply_for RG (VhostUserGpuMsgHeader_read bytes 0) req = true
    /\ body = skipn 12 bytes.
Proof.
  unfold gpu_wait.
  destruct (recv_all _ _ _ _ _ _) as [bytes files cl q'|] eqn:E; [|discriminate].
  destruct (negb (Nat.eqb _ _)) eqn:El; [discriminate|].
  destruct (negb (VhostUserGpuMsgHeader_is_valid RG _)) eqn:Ev; [discriminate|].
  destruct (negb (VhostUserGpuMsgHeader_is_reply_for RG _ req) || o_is_some files) eqn:Er; [discriminate|].
  intros H. inversion H; subst.
  apply negb_false_iff, Nat.eqb_eq in El. apply negb_false_iff in Ev.
  apply orb_false_iff in Er as [Er1 Er2]. apply negb_false_iff in Er1.
  destruct files; [discriminate|].
  exists bytes, cl, q'. repeat split; auto.
Qed.

(* operations that read no answer never look at the stream; every operation writes exactly one message *)
Lemma gpu_one_message name a data fds q :
  (List.length (go_sent (gpu_op name a data fds q)) <= 1)%nat.
Proof.
  unfold gpu_op.
  repeat match goal with |- context [if ?c then _ else _] => destruct c end; cbn; auto.
Qed.
