(* The decisions of the frontend's reply readers and of the two receive primitives under them, REGENERATED from
   frontend.rs / connection.rs (Gen/GenFeRecv.v) and called by Model/Frontend.v, are the ones the properties state:
   a reply is accepted only if it answers that very request, carries descriptors exactly where the reply has them and
   has a valid body (C06); a short read is an error, a clean end of stream only at a message boundary (C08); an
   acknowledgement is awaited exactly when REPLY_ACK is negotiated and the request asks for it, and is a success exactly
   for the value 0 (C03).  The results the decisions return and the statements between them are compared as text. *)
From VV Require Import Base.Bits Gen.GenConsts Gen.GenFeRecv.
From Coq Require Import List String NArith Bool Lia.
Import ListNotations.
Open Scope string_scope.
Open Scope N_scope.

Lemma frr_d1_spec tsz mx r : frr_d1 tsz mx r = (mx <? tsz) || r.
Proof. reflexivity. Qed.
Lemma frr_d2_spec irf hf bv : frr_d2 irf hf bv = false <-> irf = true /\ hf = false /\ bv = true.
Proof. unfold frr_d2. destruct irf, hf, bv; cbn; intuition congruence. Qed.
Lemma fro_d2_spec irf hf bv : fro_d2 irf hf bv = false <-> irf = true /\ bv = true.
Proof. unfold fro_d2. destruct irf, hf, bv; cbn; intuition congruence. Qed.
Lemma frf_d1_spec hf : frf_d1 hf = false <-> hf = true.
Proof. unfold frf_d1. destruct hf; cbn; intuition congruence. Qed.

Lemma fra_d1_spec apf nr : fra_d1 apf nr = false <-> N.land apf VhostUserProtocolFeatures_REPLY_ACK <> 0 /\ nr = true.
Proof.
  unfold fra_d1. destruct (N.eqb_spec (N.land apf VhostUserProtocolFeatures_REPLY_ACK) 0) as [E|E]; destruct nr; cbn; intuition congruence.
Qed.
Lemma fra_d2_spec irf hf bv : fra_d2 irf hf bv = false <-> irf = true /\ hf = false /\ bv = true.
Proof. unfold fra_d2. destruct irf, hf, bv; cbn; intuition congruence. Qed.
Lemma fra_d3_spec v : fra_d3 v = false <-> v = 0.
Proof. unfold fra_d3. destruct (N.eqb_spec v 0); cbn; intuition congruence. Qed.

Lemma frp_d1_spec tsz hs mx r : frp_d1 tsz hs mx r = false <-> tsz <= mx /\ tsz < hs /\ hs <= mx /\ r = false.
Proof. unfold frp_d1. rewrite !orb_false_iff, !N.ltb_ge, N.leb_gt. intuition. Qed.
Lemma frp_d2_spec irf hf size tsz hs :
  frp_d2 irf hf size tsz hs = false <-> irf = true /\ hf = false /\ tsz <= size /\ size <= hs.
Proof. unfold frp_d2. rewrite !orb_false_iff, !N.ltb_ge, negb_false_iff. intuition. Qed.
Lemma frp_d3_spec b s : frp_d3 b s = false <-> b = s.
Proof. unfold frp_d3. destruct (N.eqb_spec b s); cbn; intuition congruence. Qed.
Lemma frp_d4_spec bv bl hs tsz : frp_d4 bv bl hs tsz = false <-> bv = true /\ bl = hs - tsz.
Proof. unfold frp_d4. destruct bv, (N.eqb_spec bl (hs - tsz)); cbn; intuition congruence. Qed.

Lemma frh_spec b hsz hv :
  (frh_d1 b hsz hv = true <-> b = 0) /\ (frh_d2 b hsz hv = false <-> b = hsz) /\ (frh_d3 b hsz hv = false <-> hv = true).
Proof.
  unfold frh_d1, frh_d2, frh_d3. destruct (N.eqb_spec b 0), (N.eqb_spec b hsz), hv; cbn; intuition congruence.
Qed.
Lemma frb_spec b t hv bv :
  (frb_d1 b t hv bv = false <-> b = t) /\ (frb_d2 b t hv bv = false <-> hv = true /\ bv = true).
Proof. unfold frb_d1, frb_d2. destruct (N.eqb_spec b t), hv, bv; cbn; intuition congruence. Qed.

(* what each decision returns, and the statements around them *)
Definition fe_recv_shapes_expected : list (list string) :=
  [ ["decision 1 -> Err(VhostUserError::InvalidParam)"; "self.check_state()?;";
     "let(reply,body,rfds)=self.main_sock.recv_body::<T>()?;"; "decision 2 -> Err(VhostUserError::InvalidMessage)"; "Ok(body)"];
    ["decision 1 -> Err(VhostUserError::InvalidParam)"; "self.check_state()?;";
     "let(reply,body,files)=self.main_sock.recv_body::<T>()?;"; "decision 2 -> Err(VhostUserError::InvalidMessage)"; "Ok((body,files))"];
    ["let(body,files)=self.recv_reply_with_optional_files(hdr)?;"; "decision 1 -> Err(VhostUserError::InvalidMessage)"; "Ok((body,files))"];
    ["decision 1 -> Err(VhostUserError::InvalidParam)"; "self.check_state()?;"; "let(reply,files)=self.main_sock.recv_header()?;";
     "letsize=reply.get_size()asusize;"; "decision 2 -> Err(VhostUserError::InvalidMessage)";
     "let(bytes,rbuf)=self.main_sock.recv_data(size)?;"; "decision 3 -> Err(VhostUserError::PartialMessage)";
     "letmutbody=T::default();"; "body.as_mut_slice().copy_from_slice(&rbuf[..mem::size_of::<T>()]);";
     "letbuf=rbuf[mem::size_of::<T>()..].to_vec();"; "decision 4 -> Err(VhostUserError::InvalidMessage)"; "Ok((body,buf,files))"];
    ["decision 1 -> Ok(())"; "self.check_state()?;"; "let(reply,body,rfds)=self.main_sock.recv_body::<VhostUserU64>()?;";
     "decision 2 -> Err(VhostUserError::InvalidMessage)"; "decision 3 -> Err(VhostUserError::BackendInternalError)"; "Ok(())"];
    ["letmuthdr=H::default();";
     "letmutiovs=[iovec{iov_base:(&muthdras*mutH)as*mutc_void,iov_len:mem::size_of::<H>(),}];";
     "let(bytes,files)=unsafe{self.recv_into_iovec_all(&mutiovs[..])?};";
     "decision 1 -> Err(Error::Disconnected)"; "else"; "decision 2 -> Err(Error::PartialMessage)"; "else";
     "decision 3 -> Err(Error::InvalidMessage)"; "Ok((hdr,files))"];
    ["letmuthdr=H::default();"; "letmutbody:T=Default::default();";
     "letmutiovs=[iovec{iov_base:(&muthdras*mutH)as*mutc_void,iov_len:mem::size_of::<H>(),},iovec{iov_base:(&mutbodyas*mutT)as*mutc_void,iov_len:mem::size_of::<T>(),},];";
     "let(bytes,files)=unsafe{self.recv_into_iovec_all(&mutiovs[..])?};";
     "lettotal=mem::size_of::<H>()+mem::size_of::<T>();";
     "decision 1 -> Err(Error::PartialMessage)"; "else"; "decision 2 -> Err(Error::InvalidMessage)"; "Ok((hdr,body,files))"] ].
Lemma fe_recv_shapes_ok : [frr_shape; fro_shape; frf_shape; frp_shape; fra_shape; frh_shape; frb_shape] = fe_recv_shapes_expected.
Proof. vm_compute. reflexivity. Qed.
