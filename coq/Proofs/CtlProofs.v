(* The regenerated control handlers (Gen/GenCtl.v, run by Model/CtlRun.v) compute exactly the hand model's handlers
   (Model/Daemon.v), for every state and every argument.  A change of handler.rs that reorders, drops or adds one of
   the recognised operations changes a ctl_* program and breaks the corresponding equation. *)
From VV Require Import Base.Bits Base.Rt Base.Val Gen.GenConsts Gen.GenRoute Gen.GenCtl Model.CtlOps Model.Daemon Model.CtlRun.
From Coq Require Import Lia.
Open Scope list_scope.
Open Scope N_scope.

Ltac run_unfold := unfold run_handler, run_handler_num;
                   cbn [run_list run_op c_res c_s c_q c_r c_enable c_file c_started c_next_avail c_num c_evidx
                        with_s with_res with_locals with_evidx at_ring bval_of fval_of cond_of].

Lemma ctl_set_vring_enable_eq s q e f : run_handler ctl_set_vring_enable s q e f = h_set_vring_enable s q e.
Proof.
  unfold ctl_set_vring_enable, h_set_vring_enable. run_unfold. unfold PFB.
  destruct (hasd (d_acked s) VhostUserVirtioFeatures_PROTOCOL_FEATURES); cbn [negb]; run_unfold; [|reflexivity].
  destruct (get_ring s q) as [r|]; run_unfold; reflexivity.
Qed.

Lemma ctl_set_vring_err_eq s q e f :
  run_handler ctl_set_vring_err s q e f = match get_ring s q with Some _ => (s, DOk []) | None => (s, DErr) end.
Proof.
  unfold ctl_set_vring_err. run_unfold. destruct (get_ring s q) as [r|]; run_unfold; reflexivity.
Qed.

Lemma ctl_set_vring_call_eq s q e file : run_handler ctl_set_vring_call s q e (Some file) = h_set_vring_call s q file.
Proof.
  unfold ctl_set_vring_call, h_set_vring_call. run_unfold.
  destruct (get_ring s q) as [r|]; run_unfold; [|reflexivity].
  cbn [with_ring r_ready r_kick r_enabled r_call].
  destruct (ctl_needs_init (r_ready r) (o_is_some (r_kick r))); run_unfold; [|reflexivity].
  unfold run_init, ctl_initialize_vring. run_unfold. reflexivity.
Qed.

Lemma ctl_set_vring_kick_eq s q e file : run_handler ctl_set_vring_kick s q e (Some file) = h_set_vring_kick s q file.
Proof.
  unfold ctl_set_vring_kick, h_set_vring_kick. run_unfold.
  destruct (get_ring s q) as [r|]; run_unfold; [|reflexivity].
  destruct (r_ready r) eqn:Er; run_unfold.
  - (* started: the old descriptor is taken out, the new one put in its place *)
    destruct (r_kick r) as [ko|] eqn:Ek; cbn [d_masks set_files].
    + destruct (owner_of (d_masks s) q 0) as [[t i]|] eqn:Eo; run_unfold; unfold do_set_kick; run_unfold;
        cbn [with_ring r_ready r_kick r_enabled r_call o_is_some ctl_needs_init negb andb d_next_inst set_regs set_files d_pending d_fe_holds d_regs];
        rewrite ?Er, ?Ek; cbn [negb andb]; run_unfold; reflexivity.
    + unfold do_set_kick; run_unfold;
        cbn [with_ring r_ready r_kick r_enabled r_call o_is_some ctl_needs_init negb andb d_next_inst set_regs set_files d_pending d_fe_holds d_regs];
        rewrite ?Er, ?Ek; cbn [negb andb]; run_unfold; reflexivity.
  - unfold do_set_kick; run_unfold;
      cbn [with_ring r_ready r_kick r_enabled r_call o_is_some ctl_needs_init negb andb d_next_inst set_regs set_files d_pending d_fe_holds d_regs];
      rewrite ?Er; cbn [negb andb]; run_unfold.
    unfold run_init, ctl_initialize_vring. run_unfold. reflexivity.
Qed.

Lemma update_reg_nokick s r q : r_kick r = None -> update_reg s r q = s.
Proof. intros H. unfold update_reg. rewrite H. reflexivity. Qed.

Lemma ctl_set_vring_kick_none_eq s q e : run_handler ctl_set_vring_kick s q e None = h_set_vring_kick_none s q.
Proof.
  unfold ctl_set_vring_kick, h_set_vring_kick_none. run_unfold.
  destruct (get_ring s q) as [r|]; run_unfold; [|reflexivity].
  destruct (r_ready r) eqn:Er; run_unfold.
  - destruct (r_kick r) as [ko|] eqn:Ek.
    + destruct (owner_of (d_masks s) q 0) as [[t i]|] eqn:Eo; run_unfold; unfold do_set_kick; run_unfold;
        cbn [with_ring r_ready r_kick r_enabled r_call o_is_some];
        rewrite ?Er, ?Ek; unfold ctl_needs_init; cbn [negb andb]; run_unfold; rewrite update_reg_nokick by reflexivity; reflexivity.
    + unfold do_set_kick; run_unfold;
        cbn [with_ring r_ready r_kick r_enabled r_call o_is_some];
        rewrite ?Er, ?Ek; unfold ctl_needs_init; cbn [negb andb]; run_unfold; rewrite update_reg_nokick by reflexivity; reflexivity.
  - unfold do_set_kick; run_unfold;
      cbn [with_ring r_ready r_kick r_enabled r_call o_is_some];
      rewrite ?Er; unfold ctl_needs_init; cbn [negb andb]; run_unfold. reflexivity.
Qed.

Lemma upd_upd {A} (l : list A) : forall i a b, upd (upd l i a) i b = upd l i b.
Proof. induction l as [|y l IH]; intros [|i] a b; cbn [upd]; try reflexivity. rewrite IH. reflexivity. Qed.

Lemma existsb_upd_same {A} (P : A -> bool) (l : list A) :
  forall i a b, P a = P b -> existsb P (upd l i a) = existsb P (upd l i b).
Proof.
  induction l as [|y l IH]; intros [|i] a b H; cbn [upd existsb]; try reflexivity.
  - rewrite H. reflexivity.
  - rewrite (IH i a b H). reflexivity.
Qed.

(* which registrations survive a close depends on the rings' kick descriptors only *)
Lemma gc_regs_put_same_kick s q a b l : r_kick a = r_kick b -> gc_regs (put_ring s q a) l = gc_regs (put_ring s q b) l.
Proof.
  intros H. unfold gc_regs. apply filter_ext. intros g. unfold file_refs, put_ring, set_rings. cbn [d_fe_holds d_rings].
  f_equal. apply existsb_upd_same. rewrite H. reflexivity.
Qed.

Lemma ctl_get_vring_base_eq s q e f : run_handler ctl_get_vring_base s q e f = h_get_vring_base s q.
Proof.
  unfold ctl_get_vring_base, h_get_vring_base. run_unfold.
  destruct (get_ring s q) as [r|]; run_unfold; [|reflexivity].
  unfold do_set_kick. run_unfold. cbn [with_ring r_ready r_kick r_enabled r_call r_next_avail].
  f_equal.
  set (r1 := with_ring r false (r_enabled r) (r_kick r) (r_call r)).
  set (s1 := update_reg (put_ring s q r1) r1 q).
  unfold close_kick.
  rewrite (gc_regs_put_same_kick s1 q _ (with_ring r1 false (r_enabled r1) None None)) by reflexivity.
  unfold put_ring at 1. unfold set_rings at 1. cbn [d_rings set_regs put_ring set_rings].
  rewrite upd_upd. reflexivity.
Qed.

Lemma for_rings_flag (b : bool) (B : cenv -> cenv) :
  (forall e q r, c_res e = None ->
     c_res (B (at_ring e q r)) = None
     /\ c_s (B (at_ring e q r)) = update_reg (put_ring (c_s e) q (with_ring r (r_ready r) b (r_kick r) (r_call r)))
                                             (with_ring r (r_ready r) b (r_kick r) (r_call r)) q) ->
  forall n q e, c_res e = None ->
    c_s (for_rings B n q e) = enable_all (c_s e) n q b /\ c_res (for_rings B n q e) = None.
Proof.
  intros HB. induction n as [|n IH]; intros q e He; cbn [for_rings enable_all]; [split; [reflexivity|exact He]|].
  destruct (get_ring (c_s e) q) as [r|]; [|split; [reflexivity|exact He]].
  destruct (HB e q r He) as [H1 H2]. destruct (IH (q + 1) (B (at_ring e q r)) H1) as [H3 H4].
  rewrite H3, H4, H2. split; reflexivity.
Qed.
Definition for_rings_disable := for_rings_flag false.

Lemma flag_body_ok (v : bval) (b : bool) e q r :
  (forall e', bval_of e' v = b) ->
  c_res e = None ->
  c_res (run_list run_init [OSetEnabled v; OUpdateReg] (at_ring e q r)) = None
  /\ c_s (run_list run_init [OSetEnabled v; OUpdateReg] (at_ring e q r))
     = update_reg (put_ring (c_s e) q (with_ring r (r_ready r) b (r_kick r) (r_call r)))
                  (with_ring r (r_ready r) b (r_kick r) (r_call r)) q.
Proof.
  intros Hv He. repeat (progress (cbn [run_list run_op with_s at_ring c_res c_s c_q c_r]; rewrite ?He, ?Hv)). split; reflexivity.
Qed.
Lemma disable_body_ok e q r :
  c_res e = None ->
  c_res (run_list run_init [OSetEnabled BFalse; OUpdateReg] (at_ring e q r)) = None
  /\ c_s (run_list run_init [OSetEnabled BFalse; OUpdateReg] (at_ring e q r))
     = update_reg (put_ring (c_s e) q (with_ring r (r_ready r) false (r_kick r) (r_call r)))
                  (with_ring r (r_ready r) false (r_kick r) (r_call r)) q.
Proof. apply flag_body_ok. reflexivity. Qed.

Lemma ctl_reset_device_eq s q e f : run_handler ctl_reset_device s q e f = h_reset_device s.
Proof.
  assert (ctl_reset_device
          = [OForRings [OSetEnabled BFalse; OUpdateReg]; OForgetFeatures; OClearAckedFeatures; OBackendReset; ORetOk]) as _ by reflexivity.
  unfold ctl_reset_device, h_reset_device, run_handler, run_handler_num. cbn [run_list].
  cbn [run_op c_res c_s].
  match goal with |- context [for_rings ?B ?n 0 ?E] =>
    change B with (fun e' => run_list run_init [OSetEnabled BFalse; OUpdateReg] e');
    destruct (for_rings_disable (fun e' => run_list run_init [OSetEnabled BFalse; OUpdateReg] e') disable_body_ok n 0 E eq_refl) as [Hs Hr];
    set (E' := for_rings _ n 0 E) in *
  end.
  cbn [c_s] in Hs. repeat (progress (cbn [run_list run_op c_res with_s with_res c_s c_r c_num c_evidx]; rewrite ?Hr)).
  rewrite Hs. reflexivity.
Qed.

(* the two regenerated conditions are the ones the property speaks of *)
Lemma ctl_reg_wanted_spec ready enabled : ctl_reg_wanted ready enabled = ready && enabled.
Proof. reflexivity. Qed.
Lemma ctl_needs_init_spec ready has_kick : ctl_needs_init ready has_kick = negb ready && has_kick.
Proof. reflexivity. Qed.

(* a non-trivial instance: on a daemon with two rings the regenerated SET_VRING_KICK starts ring 1 *)
Example ctl_run_example :
  let s := dinit 2 256 0 0 [3] in
  match run_handler ctl_set_vring_kick s 1 false (Some 7) with
  | (s', DOk []) => match get_ring s' 1 with Some r => r_ready r && o_is_some (r_kick r) | None => false end
  | _ => false
  end = true.
Proof. vm_compute. reflexivity. Qed.

(* enable_all touches neither the acknowledged features nor the memory side *)
Lemma enable_all_keeps n : forall s q b, d_acked (enable_all s n q b) = d_acked s /\ d_mem (enable_all s n q b) = d_mem s.
Proof.
  induction n as [|n IH]; intros s q b; cbn [enable_all]; [auto|].
  destruct (get_ring s q) as [r|]; [|auto].
  destruct (IH (update_reg (put_ring s q (with_ring r (r_ready r) b (r_kick r) (r_call r)))
                           (with_ring r (r_ready r) b (r_kick r) (r_call r)) q) (q + 1) b) as [H1 H2].
  rewrite H1, H2. unfold update_reg, put_ring.
  destruct (r_kick _); [|auto]. destruct (owner_of _ _ _) as [[t i]|]; [|auto].
  destruct (ctl_reg_wanted _ _); [destruct (existsb _ _)|]; auto.
Qed.

Lemma enable_body_ok e q r :
  c_res e = None ->
  c_res (run_list run_init [OSetEnabled BTrue; OUpdateReg] (at_ring e q r)) = None
  /\ c_s (run_list run_init [OSetEnabled BTrue; OUpdateReg] (at_ring e q r))
     = update_reg (put_ring (c_s e) q (with_ring r (r_ready r) true (r_kick r) (r_call r)))
                  (with_ring r (r_ready r) true (r_kick r) (r_call r)) q.
Proof. apply flag_body_ok. reflexivity. Qed.

Lemma run_list_cons i o l e : run_list i (o :: l) e = run_list i l (run_op i o e).
Proof. reflexivity. Qed.
Ltac step1 := rewrite run_list_cons;
              cbn [run_op c_res with_s with_res with_evidx c_s c_q c_r c_num c_evidx cond_of].

Lemma ctl_set_features_eq s q e f v : run_handler_num ctl_set_features s q e f v = h_set_features s v.
Proof.
  (* fail at once, not after a long symbolic evaluation, when the regenerated program is a different one *)
  assert (ctl_set_features
          = [OCheckOffered; OSetAckedFeatures; OMarkFeaturesAcked;
             OIf CNoProtocolFeatures [OForRings [OSetEnabled BTrue; OUpdateReg]] [];
             OLetEventIdx; OSetEventIdxAll; OBackendEventIdx; OBackendAckedFeatures; ORetOk]) as _ by reflexivity.
  unfold ctl_set_features, h_set_features, run_handler_num.
  step1.
  destruct (N.land v (lnot 64 (d_features s)) =? 0) eqn:E; cbn [negb].
  2:{ cbn [run_list run_op c_res with_res c_s]. reflexivity. }
  step1. step1. step1. cbn [d_acked set_misc].
  destruct (hasd v PFB) eqn:Ep; cbn [negb].
  - (* the rings are left alone *)
    step1. step1. step1. step1. step1.
    cbn [run_list c_s c_res d_acked d_mem d_rings set_misc set_rings set_mem]. reflexivity.
  - cbn [run_op c_res c_s with_s].
    match goal with |- context [for_rings ?B ?n 0 ?E] =>
      change B with (fun e' => run_list run_init [OSetEnabled BTrue; OUpdateReg] e');
      destruct (for_rings_flag true (fun e' => run_list run_init [OSetEnabled BTrue; OUpdateReg] e') enable_body_ok n 0 E eq_refl) as [Hs Hr];
      set (E' := for_rings _ n 0 E) in *
    end.
    cbn [c_s with_s] in Hs.
    set (s1 := set_misc s (d_owned s) v (d_acked_proto s) (d_rq_acked s) (d_rq_acked_proto s) (d_fe_avf s) (d_fe_apf s) (d_fe_maxq s)) in *.
    destruct (enable_all_keeps (d_nq s1) s1 0 true) as [Hk1 Hk2].
    assert (Ha1 : d_acked s1 = v) by reflexivity.
    rewrite run_list_cons. cbn [run_op]. rewrite Hr. cbn [with_evidx c_s]. rewrite Hs, Hk1, Ha1.
    do 4 (rewrite run_list_cons; cbn [run_op c_res with_s with_evidx with_res]; rewrite ?Hr;
          cbn [with_s with_evidx with_res c_s c_r c_evidx c_res]; rewrite ?Hs).
    cbn [run_list c_s c_res].
    cbn [d_acked d_mem d_rings set_rings set_mem]. rewrite Hk1, Hk2, Ha1. reflexivity.
Qed.
