(* C08 for the backend request server: a well-formed request is dispatched
   identically under every segmentation of its bytes. *)
From VV Require Import Base.Bits Base.Rt Base.Val Gen.GenConsts Gen.GenLayout Gen.GenFns
  Model.Transport Model.BeServer Proofs.TransportProofs.
From Coq Require Import ZArith ZifyBool ZifyNat ZifyN.
Open Scope list_scope.
Open Scope N_scope.

Lemma hdr_sz_12 : hdr_sz = 12%nat.
Proof. reflexivity. Qed.

Lemma stream_len_app a b : stream_len (a ++ b) = (stream_len a + stream_len b)%nat.
Proof. unfold stream_len. induction a as [|x xs IH]; cbn; [reflexivity|]. rewrite IH. lia. Qed.

Definition add_closed (cl : list N) (out : be_out) : be_out :=
  {| o_result := o_result out; o_calls := o_calls out; o_sent := o_sent out;
     o_closed := cl ++ o_closed out; o_delivered := o_delivered out |}.

(* what handle_request does with one complete well-formed message, however it is cut *)
Lemma handle_request_msg cfg s o b0 fds ps rest :
  b0 <> [] -> (List.length fds <= max_fds)%nat -> plain ps ->
  let bytes := b0 ++ bytes_of ps in
  let h := VhostUserMsgHeader_read (firstn 12 bytes) 0 in
  (12 <= List.length bytes)%nat ->
  VhostUserMsgHeader_is_valid R h = true ->
  check_attached (VhostUserMsgHeader_request h) (fds_opt fds) = true ->
  List.length bytes = (12 + N.to_nat (VhostUserMsgHeader_get_size R h))%nat ->
  handle_request cfg s o ({| seg_bytes := b0; seg_fds := fds |} :: ps ++ rest)
  = (fst (dispatch cfg s o h (fds_opt fds) (VhostUserMsgHeader_get_size R h) (skipn 12 bytes)),
     add_closed [] (snd (dispatch cfg s o h (fds_opt fds) (VhostUserMsgHeader_get_size R h) (skipn 12 bytes))),
     rest).
Proof.
  intros Hb0 Hfds Hpl bytes h H12 Hvalid Hatt Hlen.
  unfold handle_request. rewrite hdr_sz_12.
  destruct (recv_all_msg b0 fds ps (fuel_for ({| seg_bytes := b0; seg_fds := fds |} :: ps ++ rest) 12) 12 rest
                         Hb0 Hfds Hpl ltac:(lia)) as (ps' & Hr & Hpl' & Hb').
  { fold bytes in H12. unfold bytes in H12. rewrite app_length in H12. exact H12. }
  { unfold fuel_for. cbn [List.length]. rewrite app_length. lia. }
  fold bytes in Hr, Hb'. rewrite Hr. clear Hr.
  assert (Hl12 : List.length (firstn 12 bytes) = 12%nat) by (apply firstn_length_le; exact H12).
  rewrite Hl12. cbn [Nat.eqb negb].
  fold h. rewrite Hvalid, Hatt. cbn [negb].
  set (len := VhostUserMsgHeader_get_size R h) in *.
  assert (Hsk : List.length (skipn 12 bytes) = N.to_nat len) by (rewrite skipn_length; lia).
  destruct (N.eqb_spec len 0) as [E0|E0].
  - (* no body *)
    rewrite E0 in Hsk. change (N.to_nat 0) with 0%nat in Hsk. apply length_zero_iff_nil in Hsk.
    rewrite Hsk in Hb'. apply (plain_nil_bytes ps' Hpl') in Hb'. subst ps'. cbn [app].
    rewrite Hsk. rewrite E0. destruct (dispatch cfg s o h (fds_opt fds) 0 []) as [s' out]. reflexivity.
  - unfold recv_data.
    destruct (recv_data_loop_plain ps' (fuel_for (ps' ++ rest) (N.to_nat len)) (N.to_nat len) [] [] rest Hpl')
      as (ps'' & Hr & Hpl'' & Hb''); try (cbn [List.length]; lia).
    { rewrite Hb'. cbn [List.length]. lia. }
    { unfold fuel_for. rewrite app_length. lia. }
    rewrite Hr. clear Hr. cbn [app] in *.
    assert (Hfull : firstn (N.to_nat len) (bytes_of ps') = skipn 12 bytes).
    { rewrite Hb', <- Hsk. apply firstn_all. }
    assert (Hnil : bytes_of ps'' = []).
    { rewrite Hb'', Hb', <- Hsk. apply skipn_all. }
    apply (plain_nil_bytes ps'' Hpl'') in Hnil. subst ps''. cbn [app].
    rewrite Hfull, Hsk, Nat.eqb_refl. cbn [negb].
    destruct (dispatch cfg s o h (fds_opt fds) len (skipn 12 bytes)) as [s' out]. reflexivity.
Qed.

(* C08, request independence: any cut of a well-formed request (first piece carrying the
   descriptors, then any number of non-empty pieces, byte-by-byte included) gives exactly the
   result of the uncut request - same state, same handler calls, same replies, same stream rest *)
Theorem handle_request_indep cfg s o b0 fds ps rest :
  b0 <> [] -> (List.length fds <= max_fds)%nat -> plain ps ->
  let bytes := b0 ++ bytes_of ps in
  let h := VhostUserMsgHeader_read (firstn 12 bytes) 0 in
  (12 <= List.length bytes)%nat ->
  VhostUserMsgHeader_is_valid R h = true ->
  check_attached (VhostUserMsgHeader_request h) (fds_opt fds) = true ->
  List.length bytes = (12 + N.to_nat (VhostUserMsgHeader_get_size R h))%nat ->
  handle_request cfg s o ({| seg_bytes := b0; seg_fds := fds |} :: ps ++ rest)
  = handle_request cfg s o ({| seg_bytes := bytes; seg_fds := fds |} :: rest).
Proof.
  intros Hb0 Hfds Hpl bytes h H12 Hvalid Hatt Hlen.
  rewrite (handle_request_msg cfg s o b0 fds ps rest Hb0 Hfds Hpl H12 Hvalid Hatt Hlen).
  assert (Hbn : bytes <> []) by (intros E; rewrite E in H12; cbn in H12; lia).
  pose proof (handle_request_msg cfg s o bytes fds [] rest Hbn Hfds (Forall_nil _)) as Hw.
  cbn [bytes_of flat_map app] in Hw. rewrite app_nil_r in Hw.
  rewrite (Hw H12 Hvalid Hatt Hlen). reflexivity.
Qed.

(* ---- truncation: the stream ends inside (or before) a message ---- *)

(* at a message boundary: a clean "disconnected", nothing dispatched *)
Theorem truncated_at_boundary cfg s o :
  handle_request cfg s o [] = (s, fail EDisconnected [], []).
Proof. reflexivity. Qed.

(* inside the header (1..11 bytes arrived, in any pieces): PartialMessage, nothing dispatched *)
Theorem truncated_in_header cfg s o ps :
  plain ps -> (0 < List.length (bytes_of ps) < 12)%nat ->
  let r := handle_request cfg s o ps in
  o_result (snd (fst r)) = RErr EPartialMessage /\ o_calls (snd (fst r)) = [] /\ o_sent (snd (fst r)) = []
  /\ fst (fst r) = s.
Proof.
  intros Hpl Hlen. cbv zeta. unfold handle_request. rewrite hdr_sz_12.
  rewrite (recv_all_plain_short ps (fuel_for ps 12) 12 [] None [] Hpl (fun _ => eq_refl)).
  2:{ cbn [List.length]. lia. }
  2:{ unfold fuel_for. lia. }
  cbn [app files_list].
  destruct (Nat.eqb (List.length (bytes_of ps)) 0) eqn:E0; [apply Nat.eqb_eq in E0; lia|].
  destruct (Nat.eqb (List.length (bytes_of ps)) 12) eqn:E12; [apply Nat.eqb_eq in E12; lia|].
  cbn [negb fst snd fail o_result o_calls o_sent]. repeat split.
Qed.

(* inside the body (valid header, fewer body bytes than declared, then end of stream):
   an error other than "disconnected", the request is not dispatched *)
Theorem truncated_in_body cfg s o b0 fds ps :
  b0 <> [] -> (List.length fds <= max_fds)%nat -> plain ps ->
  let bytes := b0 ++ bytes_of ps in
  let h := VhostUserMsgHeader_read (firstn 12 bytes) 0 in
  (12 <= List.length bytes)%nat ->
  VhostUserMsgHeader_is_valid R h = true ->
  check_attached (VhostUserMsgHeader_request h) (fds_opt fds) = true ->
  (List.length bytes < 12 + N.to_nat (VhostUserMsgHeader_get_size R h))%nat ->
  let r := handle_request cfg s o ({| seg_bytes := b0; seg_fds := fds |} :: ps) in
  o_result (snd (fst r)) = RErr EInvalidMessage /\ o_calls (snd (fst r)) = [] /\ o_sent (snd (fst r)) = []
  /\ fst (fst r) = s.
Proof.
  intros Hb0 Hfds Hpl bytes h H12 Hvalid Hatt Hshort. cbv zeta.
  unfold handle_request. rewrite hdr_sz_12.
  destruct (recv_all_msg b0 fds ps (fuel_for ({| seg_bytes := b0; seg_fds := fds |} :: ps ++ []) 12) 12 []
                         Hb0 Hfds Hpl ltac:(lia)) as (ps' & Hr & Hpl' & Hb').
  { fold bytes in H12. unfold bytes in H12. rewrite app_length in H12. exact H12. }
  { unfold fuel_for. cbn [List.length]. rewrite app_length. lia. }
  rewrite !app_nil_r in Hr. fold bytes in Hr, Hb'. rewrite Hr. clear Hr.
  assert (Hl12 : List.length (firstn 12 bytes) = 12%nat) by (apply firstn_length_le; exact H12).
  rewrite Hl12. cbn [Nat.eqb negb]. fold h. rewrite Hvalid, Hatt. cbn [negb].
  set (len := VhostUserMsgHeader_get_size R h) in *.
  assert (Hsk : (List.length (skipn 12 bytes) < N.to_nat len)%nat) by (rewrite skipn_length; lia).
  destruct (N.eqb_spec len 0) as [E0|E0]; [rewrite E0 in Hsk; cbn in Hsk; lia|].
  unfold recv_data.
  rewrite (recv_data_loop_plain_short ps' (fuel_for ps' (N.to_nat len)) (N.to_nat len) [] [] Hpl').
  2:{ rewrite Hb'. cbn [List.length]. lia. }
  2:{ unfold fuel_for. lia. }
  cbn [app]. rewrite Hb'.
  destruct (Nat.eqb (List.length (skipn 12 bytes)) (N.to_nat len)) eqn:E; [apply Nat.eqb_eq in E; lia|].
  cbn [negb fst snd fail o_result o_calls o_sent]. repeat split.
Qed.
