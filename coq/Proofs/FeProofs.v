(* Lemmas about the hand model of the frontend endpoint (Model.Frontend). *)
From VV Require Import Base.Bits Base.Rt Base.Val Gen.GenConsts Gen.GenLayout Gen.GenFns Model.Transport Model.Frontend.
From Coq Require Import ZArith ZifyBool ZifyN.
Open Scope string_scope.
Open Scope list_scope.
Open Scope N_scope.

(* what "h is a reply for req" means, from the regenerated definition *)
Lemma is_reply_for_spec h req :
  VhostUserMsgHeader_is_reply_for RF h req = true ->
  VhostUserMsgHeader_is_reply RF h = true
  /\ VhostUserMsgHeader_is_reply RF req = false
  /\ VhostUserMsgHeader_request h = VhostUserMsgHeader_request req
  /\ enum_mem RF (VhostUserMsgHeader_request h) = true.
Proof.
  unfold VhostUserMsgHeader_is_reply_for, VhostUserMsgHeader_get_code, map_err_const, ok_or, enum_try_from.
  destruct (enum_mem RF (VhostUserMsgHeader_request h)) eqn:E1; [|discriminate].
  destruct (enum_mem RF (VhostUserMsgHeader_request req)) eqn:E2; [|discriminate].
  rewrite !andb_true_iff, negb_true_iff, N.eqb_eq. intros [[H1 H2] H3]. auto.
Qed.

(* C06: the frontend's receive paths accept only a reply to that very request *)
Lemma recv_body_sound {T} lay (read : list N -> nat -> T) valid q h b files :
  recv_body lay read valid q = ROk (h, b, files) ->
  exists bytes cl q',
    recv_all (fuel_for q (12 + sz lay)) (12 + sz lay) [] None [] q = RxAll bytes files cl q'
    /\ List.length bytes = (12 + sz lay)%nat
    /\ h = VhostUserMsgHeader_read bytes 0 /\ b = read bytes 12%nat
    /\ VhostUserMsgHeader_is_valid RF h = true /\ valid b = true.
Proof.
  unfold recv_body. destruct (recv_all _ _ _ _ _ _) as [bytes fl cl q'|] eqn:E; [|discriminate].
  destruct (GenFeRecv.frb_d1 _ _ _ _) eqn:El; [discriminate|].
  destruct (GenFeRecv.frb_d2 _ _ _ _) eqn:Ev; [discriminate|].
  intros H. injection H as <- <- <-.
  unfold GenFeRecv.frb_d1 in El. unfold GenFeRecv.frb_d2 in Ev.
  apply negb_false_iff, N.eqb_eq, Nat2N.inj in El. apply orb_false_iff in Ev as [Ev1 Ev2].
  apply negb_false_iff in Ev1, Ev2. exists bytes, cl, q'. repeat split; auto.
Qed.

Lemma recv_reply_sound {T} req lay (read : list N -> nat -> T) valid q b :
  recv_reply req lay read valid q = ROk b ->
  exists bytes cl q',
    recv_all (fuel_for q (12 + sz lay)) (12 + sz lay) [] None [] q = RxAll bytes None cl q'
    /\ List.length bytes = (12 + sz lay)%nat
    /\ b = read bytes 12%nat /\ valid b = true
    /\ let h := VhostUserMsgHeader_read bytes 0 in
       VhostUserMsgHeader_is_valid RF h = true
       /\ VhostUserMsgHeader_is_reply RF h = true
       /\ VhostUserMsgHeader_request h = VhostUserMsgHeader_request req.
Proof.
  unfold recv_reply. destruct (GenFeRecv.frr_d1 _ _ _); [discriminate|].
  destruct (recv_body lay read valid q) as [[[h b'] files]|] eqn:E; [|discriminate].
  unfold GenFeRecv.frr_d2.
  destruct (negb (VhostUserMsgHeader_is_reply_for RF h req) || o_is_some files || negb (valid b')) eqn:Ec; [discriminate|].
  intros H. injection H as <-.
  apply orb_false_iff in Ec as [Ec Ec3]. apply orb_false_iff in Ec as [Ec1 Ec2].
  apply negb_false_iff in Ec1, Ec3.
  apply recv_body_sound in E as (bytes & cl & q' & Hr & Hl & -> & -> & Hv & Hb).
  destruct files; [discriminate|].
  apply is_reply_for_spec in Ec1 as (H1 & _ & H3 & _).
  exists bytes, cl, q'. repeat split; auto.
Qed.

Lemma wait_for_ack_sound s req q :
  hasf (fe_apf s) VhostUserProtocolFeatures_REPLY_ACK = true ->
  VhostUserMsgHeader_is_need_reply RF req = true ->
  wait_for_ack s req q = ROk tt ->
  exists bytes cl q',
    recv_all (fuel_for q (12 + 8)) (12 + 8) [] None [] q = RxAll bytes None cl q'
    /\ List.length bytes = 20%nat
    /\ let h := VhostUserMsgHeader_read bytes 0 in
       VhostUserMsgHeader_is_valid RF h = true
       /\ VhostUserMsgHeader_is_reply RF h = true
       /\ VhostUserMsgHeader_request h = VhostUserMsgHeader_request req
       /\ VhostUserU64_value (VhostUserU64_read bytes 12) = 0.
Proof.
  intros Ha Hn. unfold wait_for_ack, GenFeRecv.fra_d1, GenFeRecv.fra_d2, GenFeRecv.fra_d3.
  unfold hasf in Ha. apply negb_true_iff in Ha. rewrite Ha, Hn. cbn [negb orb].
  destruct (recv_body _ _ _ q) as [[[h b] files]|] eqn:E; [|discriminate].
  destruct (negb (VhostUserMsgHeader_is_reply_for RF h req) || o_is_some files || negb (VhostUserU64_is_valid b)) eqn:Ec; [discriminate|].
  destruct (negb (VhostUserU64_value b =? 0)) eqn:Ez; [discriminate|]. intros _.
  apply orb_false_iff in Ec as [Ec _]. apply orb_false_iff in Ec as [Ec1 Ec2]. apply negb_false_iff in Ec1.
  apply negb_false_iff, N.eqb_eq in Ez.
  apply recv_body_sound in E as (bytes & cl & q' & Hr & Hl & -> & -> & Hv & Hb).
  destruct files; [discriminate|].
  apply is_reply_for_spec in Ec1 as (H1 & _ & H3 & _).
  exists bytes, cl, q'. repeat split; auto.
Qed.

(* C02: a locally rejected call writes nothing and leaves the negotiation state alone *)
Lemma local_err_silent s e : f_sent (local_err s e) = [] /\ f_state (local_err s e) = s.
Proof. split; reflexivity. Qed.

(* C07 (frontend): the operations gated by a protocol feature send nothing without it *)
Lemma fe_gated_silent s name a bytes fds regions q bit :
  In (name, bit)
     [("get_queue_num", VhostUserProtocolFeatures_MQ); ("reset_device", VhostUserProtocolFeatures_RESET_DEVICE);
      ("set_backend_request_fd", VhostUserProtocolFeatures_BACKEND_REQ);
      ("get_max_mem_slots", VhostUserProtocolFeatures_CONFIGURE_MEM_SLOTS);
      ("get_shmem_config", VhostUserProtocolFeatures_SHMEM);
      ("check_device_state", VhostUserProtocolFeatures_DEVICE_STATE)] ->
  hasf (fe_apf s) bit = false ->
  f_sent (fe_op s name a bytes fds regions q) = [] /\ f_state (fe_op s name a bytes fds regions q) = s.
Proof.
  intros Hin Hb. cbn [In] in Hin.
  repeat (destruct Hin as [Hin|Hin]; [injection Hin as <- <-; unfold fe_op, check_proto_f; cbn [String.eqb Ascii.eqb Bool.eqb andb orb]; rewrite Hb; split; reflexivity|]).
  contradiction.
Qed.

Lemma fe_protocol_exchange_gated s name a bytes fds regions q :
  name = "get_protocol_features" \/ name = "set_protocol_features" ->
  hasf (fe_vf s) VhostUserVirtioFeatures_PROTOCOL_FEATURES = false ->
  f_sent (fe_op s name a bytes fds regions q) = [] /\ f_state (fe_op s name a bytes fds regions q) = s.
Proof.
  intros [-> | ->] Hb; unfold fe_op; cbn [String.eqb Ascii.eqb Bool.eqb andb orb]; rewrite Hb; split; reflexivity.
Qed.

Lemma fe_ring_enable_gated s a bytes fds regions q :
  hasf (fe_avf s) VhostUserVirtioFeatures_PROTOCOL_FEATURES = false ->
  f_sent (fe_op s "set_vring_enable" a bytes fds regions q) = []
  /\ f_state (fe_op s "set_vring_enable" a bytes fds regions q) = s.
Proof. intros Hb. unfold fe_op. cbn [String.eqb Ascii.eqb Bool.eqb andb orb]. rewrite Hb. split; reflexivity. Qed.
