(* Lemmas about the hand model of the backend request server (Model.BeServer). *)
From VV Require Import Base.Bits Base.Rt Base.Val Gen.GenConsts Gen.GenLayout Gen.GenFns Gen.GenVrfd Gen.GenBeAck Model.Transport Model.BeServer.
From Coq Require Import ZArith ZifyBool ZifyN Permutation.
Open Scope string_scope.
Open Scope list_scope.
Open Scope N_scope.

(* break every if/match on the way to the leaves of [dispatch] *)
Ltac split_all :=
  repeat match goal with
         | |- context [match ?x with _ => _ end] =>
             lazymatch x with
             | context [match _ with _ => _ end] => fail
             | _ => destruct x eqn:?
             end
         end.

(* ---------- C04: the reply-ack flag is a function of the negotiation state ---------- *)
Definition flag_inv (s : be_state) : Prop :=
  be_reply_ack s = has (be_virtio_features s) VhostUserVirtioFeatures_PROTOCOL_FEATURES
                   && has (be_acked_proto s) VhostUserProtocolFeatures_REPLY_ACK.

Lemma flag_inv_init : flag_inv be_init.
Proof. reflexivity. Qed.
Lemma flag_inv_update s : flag_inv (update_reply_ack s).
Proof. reflexivity. Qed.
(* the flag rule REGENERATED from update_reply_ack_flag is the specification's: PROTOCOL_FEATURES offered by the device and
   REPLY_ACK acknowledged *)
Lemma ra_enabled_spec vf apf :
  ra_enabled vf apf = has vf VhostUserVirtioFeatures_PROTOCOL_FEATURES && has apf VhostUserProtocolFeatures_REPLY_ACK.
Proof. reflexivity. Qed.
Lemma ack_written_spec ra nr : ack_written ra nr = ra && nr.
Proof. reflexivity. Qed.
Lemma ack_value_spec ok : (ack_value ok =? 0) = ok.
Proof. destruct ok; reflexivity. Qed.

Lemma dispatch_flag_inv cfg s o h files size buf :
  flag_inv s -> flag_inv (fst (dispatch cfg s o h files size buf)).
Proof.
  intros Hs. unfold dispatch.
  split_all; cbn [fst]; try assumption; try apply flag_inv_update.
Qed.

Lemma handle_request_flag_inv cfg s o q :
  flag_inv s -> flag_inv (fst (fst (handle_request cfg s o q))).
Proof.
  intros Hs. unfold handle_request.
  destruct (recv_all _ _ _ _ _ _) as [bytes files cl q1|]; [|exact Hs].
  repeat match goal with
         | |- context [if ?c then _ else _] => destruct c; try exact Hs
         end.
  - destruct (dispatch cfg s o _ files 0 []) as [s' out] eqn:E. cbn [fst].
    change s' with (fst (s', out)). rewrite <- E. apply dispatch_flag_inv, Hs.
  - destruct (recv_data _ q1) as [buf c2 q2|c2 q2]; [|exact Hs].
    destruct (negb _); [exact Hs|].
    destruct (dispatch cfg s o _ files _ buf) as [s' out] eqn:E. cbn [fst].
    change s' with (fst (s', out)). rewrite <- E. apply dispatch_flag_inv, Hs.
Qed.

(* any number of requests, any outcomes, any stream *)
Fixpoint run_requests (cfg : be_cfg) (s : be_state) (outs : list N) (q : stream) : be_state * stream :=
  match outs with
  | [] => (s, q)
  | o :: r => let '(s', _, q') := handle_request cfg s o q in run_requests cfg s' r q'
  end.
Lemma run_requests_flag_inv cfg outs : forall s q, flag_inv s -> flag_inv (fst (run_requests cfg s outs q)).
Proof.
  induction outs as [|o r IH]; intros s q Hs; [exact Hs|].
  cbn [run_requests]. pose proof (handle_request_flag_inv cfg s o q Hs) as H.
  destruct (handle_request cfg s o q) as [[s' out] q']. cbn [fst] in H. apply IH, H.
Qed.

(* ---------- C04: at most one message per request, and it is a reply to that request ---------- *)
Definition is_reply_to (h : VhostUserMsgHeader) (t : tx) : Prop :=
  exists body,
    fst t = VhostUserMsgHeader_write
              (VhostUserMsgHeader_new R (VhostUserMsgHeader_request h) VhostUserHeaderFlag_REPLY
                                      (N.of_nat (List.length body))) ++ body.
Definition sent_ok (h : VhostUserMsgHeader) (out : be_out) : Prop :=
  (List.length (o_sent out) <= 1)%nat /\ Forall (is_reply_to h) (o_sent out).

Lemma reply_hdr_shape h t p rh :
  reply_hdr h t p = ROk rh ->
  rh = VhostUserMsgHeader_new R (VhostUserMsgHeader_request h) VhostUserHeaderFlag_REPLY (t + p).
Proof.
  unfold reply_hdr. destruct (_ || _); [discriminate|].
  unfold VhostUserMsgHeader_get_code, map_err_const, ok_or, enum_try_from.
  destruct (enum_mem R _); [|discriminate]. intros H. injection H as <-. reflexivity.
Qed.

Lemma sent_ok_nil h out : o_sent out = [] -> sent_ok h out.
Proof. intros E. unfold sent_ok. rewrite E. split; [simpl; lia|constructor]. Qed.

Lemma msg_of_reply h t p rh body fds :
  reply_hdr h t p = ROk rh -> t + p = N.of_nat (List.length body) -> is_reply_to h (msg_of rh body fds).
Proof.
  intros Hh Hl. apply reply_hdr_shape in Hh. subst rh. exists body. cbn [msg_of fst]. rewrite Hl. reflexivity.
Qed.

Lemma u64_body_len v : List.length (u64_body v) = 8%nat.
Proof. reflexivity. Qed.

Lemma ack_sent_ok s h res c d dr : sent_ok h (ack s h res c d dr).
Proof.
  unfold ack, sent_ok, ack_written. cbn [o_sent].
  destruct (be_reply_ack s && VhostUserMsgHeader_is_need_reply R h); [|split; [simpl; lia|constructor]].
  destruct (reply_hdr h (sizeof VhostUserU64_layout) 0) eqn:E; [|split; [simpl; lia|constructor]].
  split; [simpl; lia|]. constructor; [|constructor].
  eapply msg_of_reply; [exact E|]. reflexivity.
Qed.
Lemma fail_sent_ok h e dr : sent_ok h (fail e dr).
Proof. apply sent_ok_nil. reflexivity. Qed.
Lemma handler_failed_sent_ok h c d dr : sent_ok h (handler_failed c d dr).
Proof. apply sent_ok_nil. reflexivity. Qed.
Lemma reply_sent_ok h body fds c d dr : sent_ok h (reply h body fds c d dr).
Proof.
  unfold reply. destruct (reply_hdr h (N.of_nat (List.length body)) 0) eqn:E; [|apply sent_ok_nil; reflexivity].
  unfold sent_ok. cbn [o_sent]. split; [simpl; lia|]. constructor; [|constructor].
  eapply msg_of_reply; [exact E|]. lia.
Qed.

Lemma sent_ok_ext h out out' : o_sent out = o_sent out' -> sent_ok h out' -> sent_ok h out.
Proof. unfold sent_ok. intros ->. auto. Qed.

Lemma config_payload_len off sz : List.length (config_payload off sz) = N.to_nat sz.
Proof. unfold config_payload. rewrite map_length, seq_length. reflexivity. Qed.

Lemma put_at_length (v : list N) : forall (img : list N) off,
  (off + List.length v <= List.length img)%nat -> List.length (put_at img off v) = List.length img.
Proof.
  induction img as [|b r IH]; intros off H.
  - assert (off = 0%nat /\ List.length v = 0%nat) as [-> Hv] by (cbn [List.length] in H; lia).
    destruct v; [reflexivity|discriminate].
  - destruct off as [|k].
    + cbn [put_at]. rewrite app_length, skipn_length. cbn [List.length] in *. lia.
    + cbn [put_at List.length]. rewrite IH; [reflexivity|]. cbn [List.length] in H. lia.
Qed.

Lemma config_write_len c : List.length (VhostUserConfig_write c) = 12%nat.
Proof.
  unfold VhostUserConfig_write.
  repeat (rewrite put_at_length; [|rewrite ?put_at_length, ?le_encode_length; vm_compute; try lia;
                                    repeat (rewrite put_at_length; [|vm_compute; lia]); vm_compute; lia]).
  reflexivity.
Qed.

Ltac sent_leaf :=
  cbn [snd];
  first
    [ apply ack_sent_ok | apply fail_sent_ok | apply reply_sent_ok | apply handler_failed_sent_ok
    | (eapply sent_ok_ext; [cbn [o_sent]; reflexivity | apply ack_sent_ok])
    | (apply sent_ok_nil; reflexivity) ].

Lemma dispatch_sent_ok cfg s o h files size buf :
  sent_ok h (snd (dispatch cfg s o h files size buf)).
Proof.
  unfold dispatch.
  split_all; try sent_leaf.
  all: unfold sent_ok; cbn [snd o_sent]; (split; [simpl; lia|]); repeat constructor;
    match goal with
    | H : reply_hdr _ _ _ = ROk _ |- _ => eapply msg_of_reply; [exact H|]
    end.
  all: try reflexivity.
  all: rewrite ?app_length, ?config_payload_len, ?config_write_len; try (cbn; lia).
Qed.

(* ---------- C09: every descriptor that came with the header is delivered or closed, once ---------- *)
Lemma take_single_some files f : take_single files = Some f -> files = Some [f].
Proof. destruct files as [[|x [|y l]]|]; cbn; intros H; try discriminate. injection H as ->. reflexivity. Qed.

Lemma vring_fd_request_file buf files idx file :
  vring_fd_request buf files = ROk (idx, file) -> file = take_single files.
Proof.
  unfold vring_fd_request. destruct (_ || _); [discriminate|].
  destruct (vrf_reject _ _ _); [discriminate|]. intros H. injection H as _ <-. reflexivity.
Qed.

Definition fds_ok (files : option (list N)) (out : be_out) : Prop :=
  Permutation (files_list files) (o_delivered out ++ o_closed out).

Lemma fds_ok_ack s h res c d dr files :
  Permutation (files_list files) (d ++ dr) -> fds_ok files (ack s h res c d dr).
Proof. auto. Qed.

Ltac fds_prep :=
  repeat match goal with
         | H : vring_fd_request _ _ = ROk (_, _) |- _ => apply vring_fd_request_file in H; symmetry in H
         | H : take_single ?f = Some _ |- _ => apply take_single_some in H; try subst f
         | H : Some _ = Some _ |- _ => injection H as H; try subst
         end.

Lemma dispatch_fds_ok cfg s o h files size buf :
  fds_ok files (snd (dispatch cfg s o h files size buf)).
Proof.
  unfold dispatch.
  split_all; fds_prep; unfold fds_ok, ack, reply, fail, handler_failed; cbn [snd o_delivered o_closed files_list];
    try (destruct (reply_hdr _ _ _); cbn [o_delivered o_closed]);
    rewrite ?app_nil_r; try apply Permutation_refl; try reflexivity.
Qed.

Definition stream_fds (q : stream) : list N := flat_map seg_fds q.
Definition ev_fds (e : rx_event) : list N := match e with RxData _ f => f | _ => [] end.

(* multiset equality of descriptor lists, in a form lia can close *)
Definition same_fds (l1 l2 : list N) : Prop := forall x, count_occ N.eq_dec l1 x = count_occ N.eq_dec l2 x.
Lemma same_fds_perm l1 l2 : same_fds l1 l2 <-> Permutation l1 l2.
Proof. unfold same_fds. symmetry. apply (Permutation_count_occ N.eq_dec). Qed.
Ltac fds_lia := intro; cbn [stream_fds flat_map ev_fds files_list]; repeat rewrite count_occ_app; cbn [count_occ]; lia.

Lemma recvmsg_fds n ctrl q e c q' :
  recvmsg n ctrl q = (e, c, q') -> same_fds (stream_fds q) (ev_fds e ++ c ++ stream_fds q').
Proof.
  unfold recvmsg. destruct q as [|s rest].
  - intros H. injection H as <- <- <-. fds_lia.
  - cbn [stream_fds flat_map]. fold (stream_fds rest).
    set (q2 := match skipn _ _ with [] => rest | _ => _ end).
    assert (Hq2 : stream_fds q2 = stream_fds rest).
    { unfold q2. destruct (skipn _ _); reflexivity. }
    destruct (seg_fds s) as [|f fs] eqn:Ef.
    + intros H. injection H as <- <- <-. cbn [ev_fds]. rewrite Hq2. fds_lia.
    + destruct (ctrl && _); intros H; injection H as <- <- <-; cbn [ev_fds]; rewrite Hq2; fds_lia.
Qed.

Lemma recv_all_fds fuel : forall need acc rfds cl q bytes files cl' q',
  (acc = [] -> rfds = None) ->
  recv_all fuel need acc rfds cl q = RxAll bytes files cl' q' ->
  same_fds (files_list rfds ++ cl ++ stream_fds q) (files_list files ++ cl' ++ stream_fds q').
Proof.
  induction fuel as [|f IH]; intros need acc rfds cl q bytes files cl' q' Hinv H; [discriminate|].
  cbn [recv_all] in H. destruct (Nat.leb need (List.length acc)).
  { injection H as _ <- <- <-. fds_lia. }
  destruct (recvmsg _ true q) as [[e c] q1] eqn:Er. apply recvmsg_fds in Er.
  destruct e as [bs fds| |lost]; cbn [ev_fds] in Er.
  - destruct bs as [|b bs'].
    + injection H as _ <- <- <-. intro x. specialize (Er x). revert Er. repeat rewrite count_occ_app. lia.
    + apply IH in H.
      2:{ intros Habs. destruct acc; discriminate. }
      intro x. specialize (H x). specialize (Er x). revert H Er.
      destruct acc as [|a acc'].
      * rewrite (Hinv eq_refl). destruct fds as [|y ys]; cbn [files_list]; repeat rewrite count_occ_app; cbn [count_occ]; lia.
      * repeat rewrite count_occ_app. lia.
  - injection H as _ <- <- <-. intro x. specialize (Er x). revert Er. repeat rewrite count_occ_app. cbn [count_occ]. lia.
  - apply IH in H; [|exact Hinv]. intro x. specialize (H x). specialize (Er x). revert H Er.
    repeat rewrite count_occ_app. cbn [count_occ]. lia.
Qed.

Lemma recvmsg_noctrl_fds n q e c q' : recvmsg n false q = (e, c, q') -> ev_fds e = [].
Proof.
  unfold recvmsg. destruct q as [|s r]; [intros H; injection H as <- _ _; reflexivity|].
  destruct (seg_fds s); [intros H; injection H as <- _ _; reflexivity|].
  cbn [andb]. intros H. injection H as <- _ _. reflexivity.
Qed.

Lemma recv_data_loop_fds fuel : forall len acc cl q,
  match recv_data_loop fuel len acc cl q with
  | RxD _ c q' => same_fds (cl ++ stream_fds q) (c ++ stream_fds q')
  | RxDRetry c q' => same_fds (cl ++ stream_fds q) (c ++ stream_fds q')
  end.
Proof.
  induction fuel as [|f IH]; intros len acc cl q; cbn [recv_data_loop]; [fds_lia|].
  destruct (Nat.leb len (List.length acc)); [fds_lia|].
  destruct (recvmsg _ false q) as [[e c] q'] eqn:E.
  pose proof (recvmsg_fds _ _ _ _ _ _ E) as H. rewrite (recvmsg_noctrl_fds _ _ _ _ _ E) in H. cbn [app] in H.
  destruct e as [bs fds| |lost].
  - destruct bs as [|b bs'].
    + intro x. specialize (H x). revert H. repeat rewrite count_occ_app. lia.
    + specialize (IH len (acc ++ b :: bs') (cl ++ c) q').
      destruct (recv_data_loop f len (acc ++ b :: bs') (cl ++ c) q');
        intro x; specialize (H x); specialize (IH x); revert H IH; repeat rewrite count_occ_app; lia.
  - intro x. specialize (H x). revert H. repeat rewrite count_occ_app. lia.
  - intro x. specialize (H x). revert H. repeat rewrite count_occ_app. lia.
Qed.

Lemma recv_data_fds len q :
  match recv_data len q with
  | RxD _ c q' => same_fds (stream_fds q) (c ++ stream_fds q')
  | RxDRetry c q' => same_fds (stream_fds q) (c ++ stream_fds q')
  end.
Proof. unfold recv_data. exact (recv_data_loop_fds _ len [] [] q). Qed.

Lemma dispatch_fds_same cfg s o h files size buf :
  let out := snd (dispatch cfg s o h files size buf) in
  same_fds (files_list files) (o_delivered out ++ o_closed out).
Proof. cbv zeta. apply same_fds_perm. apply dispatch_fds_ok. Qed.

(* C09, one request: the descriptors of the consumed part of the stream are exactly the
   ones delivered to the handler plus the ones closed *)
Lemma handle_request_fds cfg s o q :
  let r := handle_request cfg s o q in
  same_fds (stream_fds q) (o_delivered (snd (fst r)) ++ o_closed (snd (fst r)) ++ stream_fds (snd r)).
Proof.
  cbv zeta. unfold handle_request.
  destruct (recv_all _ _ _ _ _ _) as [bytes files cl q1|] eqn:Ea.
  2:{ cbn [fst snd fail o_delivered o_closed]. fds_lia. }
  apply recv_all_fds in Ea; [|reflexivity]. cbn [files_list app] in Ea.
  repeat match goal with
         | |- context [if ?c then _ else _] => destruct c
         end; cbn [fst snd fail o_delivered o_closed].
  1-4: intro x; specialize (Ea x); revert Ea; repeat rewrite count_occ_app; cbn [count_occ]; lia.
  - pose proof (dispatch_fds_same cfg s o (VhostUserMsgHeader_read bytes 0) files 0 []) as Hd. cbv zeta in Hd.
    destruct (dispatch cfg s o _ files 0 []) as [s' out]. cbn [snd] in Hd. cbn [fst snd o_delivered o_closed].
    intro x; specialize (Ea x); specialize (Hd x); revert Ea Hd; repeat rewrite count_occ_app; lia.
  - pose proof (recv_data_fds (N.to_nat (VhostUserMsgHeader_get_size R (VhostUserMsgHeader_read bytes 0))) q1) as Hr.
    destruct (recv_data _ q1) as [buf c2 q2|c2 q2]; cbn [fst snd fail o_delivered o_closed].
    + destruct (negb _); cbn [fst snd fail o_delivered o_closed].
      * intro x; specialize (Ea x); specialize (Hr x); revert Ea Hr; repeat rewrite count_occ_app; cbn [count_occ]; lia.
      * pose proof (dispatch_fds_same cfg s o (VhostUserMsgHeader_read bytes 0) files
                                      (VhostUserMsgHeader_get_size R (VhostUserMsgHeader_read bytes 0)) buf) as Hd.
        cbv zeta in Hd. destruct (dispatch cfg s o _ files _ buf) as [s' out]. cbn [snd] in Hd. cbn [fst snd o_delivered o_closed].
        intro x; specialize (Ea x); specialize (Hr x); specialize (Hd x); revert Ea Hr Hd; repeat rewrite count_occ_app; lia.
    + intro x; specialize (Ea x); specialize (Hr x); revert Ea Hr; repeat rewrite count_occ_app; cbn [count_occ]; lia.
Qed.

(* any history: requests served one after the other, whatever each one's result *)
Fixpoint serve (cfg : be_cfg) (s : be_state) (outs : list N) (q : stream) : list be_out * stream :=
  match outs with
  | [] => ([], q)
  | o :: r =>
      let res := handle_request cfg s o q in
      let rec := serve cfg (fst (fst res)) r (snd res) in
      (snd (fst res) :: fst rec, snd rec)
  end.

Lemma serve_fds cfg outs : forall s q,
  same_fds (stream_fds q)
           (flat_map o_delivered (fst (serve cfg s outs q)) ++ flat_map o_closed (fst (serve cfg s outs q))
            ++ stream_fds (snd (serve cfg s outs q))).
Proof.
  induction outs as [|o r IH]; intros s q.
  - cbn [serve fst snd flat_map]. fds_lia.
  - cbn [serve fst snd flat_map].
    pose proof (handle_request_fds cfg s o q) as H1. cbv zeta in H1.
    specialize (IH (fst (fst (handle_request cfg s o q))) (snd (handle_request cfg s o q))).
    intro x. specialize (H1 x). specialize (IH x). revert H1 IH. repeat rewrite count_occ_app. lia.
Qed.

Lemma nodup_app_split {A} (a b : list A) :
  NoDup (a ++ b) -> NoDup a /\ NoDup b /\ (forall x, In x a -> ~ In x b).
Proof.
  induction a as [|y ys IH]; cbn [app]; intros H.
  - repeat split; [constructor|exact H|intros x []].
  - inversion H as [|? ? Hni Hnd]; subst. destruct (IH Hnd) as (Ha & Hb & Hd).
    repeat split; auto.
    + constructor; auto. intros Hin. apply Hni. apply in_or_app. left. exact Hin.
    + intros x [->|Hin] Hb'; [apply Hni; apply in_or_app; right; exact Hb'|]. exact (Hd x Hin Hb').
Qed.

Lemma serve_once cfg outs s q :
  NoDup (stream_fds q) ->
  NoDup (flat_map o_delivered (fst (serve cfg s outs q)))
  /\ (forall x, In x (flat_map o_delivered (fst (serve cfg s outs q))) ->
                ~ In x (flat_map o_closed (fst (serve cfg s outs q))))
  /\ (forall x, In x (flat_map o_delivered (fst (serve cfg s outs q))) -> In x (stream_fds q)).
Proof.
  intros Hnd. pose proof (serve_fds cfg outs s q) as H. apply same_fds_perm in H.
  pose proof (Permutation_NoDup H Hnd) as Hnd'.
  rewrite app_assoc in Hnd'. apply nodup_app_split in Hnd' as (Hdc & _ & _).
  apply nodup_app_split in Hdc as (Hd & _ & Hdisj).
  repeat split; auto.
  intros x Hin. eapply Permutation_in; [apply Permutation_sym; exact H|]. apply in_or_app. left. exact Hin.
Qed.

(* ---------- C07: gated requests never reach the handler unless the feature was acknowledged ---------- *)
From VV Require Import Gen.GenArms.

Fixpoint arm_proto_gate (evs : list ev) : option N :=
  match evs with
  | [] => None
  | EvGateProto b :: _ => Some b
  | _ :: r => arm_proto_gate r
  end.
Fixpoint arm_virtio_gate (evs : list ev) : option N :=
  match evs with
  | [] => None
  | EvGateVirtio b :: _ => Some b
  | _ :: r => arm_virtio_gate r
  end.
Fixpoint lookup_arm (t : list (N * list ev)) (c : N) : option (list ev) :=
  match t with [] => None | (k, e) :: r => if k =? c then Some e else lookup_arm r c end.

(* the gate the regenerated arm table demands for a request code *)
Definition gen_gate_open (s : be_state) (code : N) : Prop :=
  match lookup_arm be_arms code with
  | None => True
  | Some evs =>
      match arm_proto_gate evs with Some b => has (be_acked_proto s) b = true | None => True end
      /\ match arm_virtio_gate evs with Some b => has (be_acked_virtio s) b = true | None => True end
  end.

Lemma check_proto_ok s b u : check_proto s b = ROk u -> has (be_acked_proto s) b = true.
Proof. unfold check_proto. destruct (has _ _); [reflexivity|discriminate]. Qed.
Lemma check_virtio_ok s b u : check_virtio s b = ROk u -> has (be_acked_virtio s) b = true.
Proof. unfold check_virtio. destruct (has _ _); [reflexivity|discriminate]. Qed.

Ltac eval_gate :=
  unfold gen_gate_open;
  match goal with
  | |- context [lookup_arm be_arms ?c] =>
      let r := eval vm_compute in (lookup_arm be_arms c) in change (lookup_arm be_arms c) with r
  end;
  cbn [arm_proto_gate arm_virtio_gate].

Lemma dispatch_calls_gated cfg s o h files size buf :
  o_calls (snd (dispatch cfg s o h files size buf)) <> [] ->
  gen_gate_open s (VhostUserMsgHeader_request h).
Proof.
  unfold dispatch. remember (VhostUserMsgHeader_request h) as code eqn:Hcode.
  split_all; cbn [snd o_calls fail ack reply handler_failed]; intros Hne; try congruence;
    try (destruct (reply_hdr _ _ _); cbn [o_calls] in Hne; try congruence);
    repeat match goal with
           | H : false = true |- _ => discriminate H
           | H : (_ || _) = true |- _ => apply orb_true_iff in H; destruct H as [H|H]
           | H : (code =? _) = true |- _ => apply N.eqb_eq in H
           | H : check_proto _ _ = ROk _ |- _ => apply check_proto_ok in H
           | H : check_virtio _ _ = ROk _ |- _ => apply check_virtio_ok in H
           | H : match check_proto ?s ?b with _ => _ end = ROk _ |- _ =>
               let E := fresh in destruct (check_proto s b) eqn:E; [apply check_proto_ok in E|discriminate]
           end;
    try (match goal with H : code = _ |- _ => rewrite H end; eval_gate; auto; fail).
Qed.

(* acknowledged protocol features change only through SET_PROTOCOL_FEATURES *)
Lemma dispatch_acked_proto cfg s o h files size buf :
  be_acked_proto (fst (dispatch cfg s o h files size buf)) = be_acked_proto s
  \/ VhostUserMsgHeader_request h = FrontendReq_SET_PROTOCOL_FEATURES.
Proof.
  unfold dispatch. remember (VhostUserMsgHeader_request h) as code.
  split_all; cbn [fst]; try (left; reflexivity);
    repeat match goal with H : (code =? _) = true |- _ => apply N.eqb_eq in H end;
    try (right; assumption).
Qed.
Lemma dispatch_acked_virtio cfg s o h files size buf :
  be_acked_virtio (fst (dispatch cfg s o h files size buf)) = be_acked_virtio s
  \/ VhostUserMsgHeader_request h = FrontendReq_SET_FEATURES.
Proof.
  unfold dispatch. remember (VhostUserMsgHeader_request h) as code.
  split_all; cbn [fst]; try (left; reflexivity);
    repeat match goal with H : (code =? _) = true |- _ => apply N.eqb_eq in H end;
    try (right; assumption).
Qed.

(* REPLY_ACK is always offered: whatever the device answers, the reply to GET_PROTOCOL_FEATURES has the bit *)
Lemma lor_has x b : b <> 0 -> has (N.lor x b) b = true.
Proof.
  intros Hb. unfold has. rewrite N.land_lor_distr_l, N.land_diag.
  apply negb_true_iff, N.eqb_neq. intros H. apply N.lor_eq_0_iff in H. tauto.
Qed.

(* the acknowledgement helper: written iff negotiated and requested; zero iff success *)
Lemma ack_rule s h res c d dr :
  VhostUserMsgHeader_is_valid R h = true ->
  (o_sent (ack s h res c d dr) <> [] <-> be_reply_ack s && VhostUserMsgHeader_is_need_reply R h = true)
  /\ (forall t, In t (o_sent (ack s h res c d dr)) ->
        exists rh, fst t = VhostUserMsgHeader_write rh ++ u64_body (match res with ROk _ => 0 | RErr _ => 1 end)).
Proof.
  intros Hv. unfold ack, ack_written, ack_value. cbn [o_sent].
  assert (Hrh : exists rh, reply_hdr h (sizeof VhostUserU64_layout) 0 = ROk rh).
  { unfold reply_hdr. change (sizeof VhostUserU64_layout) with 8. change MAX_MSG_SIZE with 4096.
    cbn [orb N.ltb]. unfold VhostUserMsgHeader_is_valid in Hv.
    destruct (r_is_err (VhostUserMsgHeader_get_code R h)) eqn:E; [discriminate|].
    unfold r_is_err, r_is_ok in E. destruct (VhostUserMsgHeader_get_code R h); [|discriminate].
    replace ((4096 <? 8) || (4096 <? 0) || (4096 <? 8 + 0)) with false by reflexivity.
    eexists. reflexivity. }
  destruct Hrh as [rh Hrh]. rewrite Hrh.
  destruct (be_reply_ack s && VhostUserMsgHeader_is_need_reply R h).
  - split; [split; [reflexivity|discriminate]|]. intros t [<-|[]]. exists rh. destruct res; reflexivity.
  - split; [split; [intros H; contradiction|discriminate]|]. intros t [].
Qed.
Definition ack_shape_ok : bool :=
  match ack_shape with
  | [a; b; c; d] =>
      String.eqb a "let hdr = self . new_reply_header :: < VhostUserU64 > (req , 0) ? ;"
      && String.eqb b "let msg = VhostUserU64 :: new (val) ;"
      && String.eqb c "self . main_sock . send_message (& hdr , & msg , None) ? ;"
      && String.eqb d "after: res"
  | _ => false
  end.
Lemma ack_shape_ok_true : ack_shape_ok = true.
Proof. vm_compute. reflexivity. Qed.

(* ---- the status values of the two device-state replies, REGENERATED (Gen.GenBeStat) and used by the model ---- *)
From VV Require Import Gen.GenBeStat.
(* SET_DEVICE_STATE_FD: bit 8 ("no descriptor comes with this reply") is set exactly when none is attached, and bits 0..7 are
   zero exactly when the handler succeeded (outcome 0 = Ok(None), 2 = Ok(Some(file))) *)
Lemma ds_reply_spec o :
  N.testbit (ds_reply_value o) 8 = negb (ds_reply_has_fd o)
  /\ (N.land (ds_reply_value o) 255 =? 0) = ((o =? 0) || (o =? 2))
  /\ ds_reply_has_fd o = (o =? 2).
Proof.
  unfold ds_reply_value, ds_reply_has_fd. destruct (o =? 0) eqn:E0; [apply N.eqb_eq in E0; subst; repeat split; reflexivity|].
  destruct (o =? 2); repeat split; reflexivity.
Qed.
(* CHECK_DEVICE_STATE: 0 exactly for success *)
Lemma cds_reply_spec ok : (cds_reply_value ok =? 0) = ok.
Proof. destruct ok; reflexivity. Qed.
