(* Framing lemmas (C08): the receive loops recover the same bytes from every
   segmentation of a message; truncation; the send loop. *)
From VV Require Import Base.Bits Base.Rt Model.Transport.
From Coq Require Import ZArith ZifyBool ZifyNat ZifyN.
Open Scope list_scope.
Open Scope N_scope.

Definition bytes_of (q : stream) : list N := flat_map seg_bytes q.
(* pieces of one message after its first byte: non-empty, no descriptors *)
Definition plain_piece (s : seg) : Prop := seg_bytes s <> [] /\ seg_fds s = [].
Definition plain (ps : stream) : Prop := Forall plain_piece ps.

Definition rest_of (k : nat) (p : seg) (q : stream) : stream :=
  match skipn k (seg_bytes p) with
  | [] => q
  | _ => {| seg_bytes := skipn k (seg_bytes p); seg_fds := [] |} :: q
  end.

Lemma recvmsg_plain n ctrl p q :
  plain_piece p -> (0 < n)%nat ->
  let k := Nat.min n (List.length (seg_bytes p)) in
  recvmsg n ctrl (p :: q) = (RxData (firstn k (seg_bytes p)) [], [], rest_of k p q).
Proof. intros [Hne Hf] Hn. unfold recvmsg, rest_of. rewrite Hf. reflexivity. Qed.

Lemma firstn_nonempty {A} k (l : list A) : (0 < k)%nat -> l <> [] -> firstn k l <> [].
Proof. destruct k; [lia|]. destruct l; [contradiction|]. discriminate. Qed.

Lemma recv_all_step_plain f need acc rfds cl p q :
  plain_piece p -> (List.length acc < need)%nat -> (acc = [] -> rfds = None) ->
  let k := Nat.min (need - List.length acc) (List.length (seg_bytes p)) in
  recv_all (S f) need acc rfds cl (p :: q) = recv_all f need (acc ++ firstn k (seg_bytes p)) rfds cl (rest_of k p q).
Proof.
  intros Hp Hlt Hinv k. cbn [recv_all].
  assert (El : Nat.leb need (List.length acc) = false) by (apply Nat.leb_gt; lia). rewrite El.
  rewrite (recvmsg_plain _ true p q Hp) by lia. fold k.
  destruct Hp as [Hne Hnf].
  assert (Hk : (0 < k)%nat). { unfold k. destruct (seg_bytes p); [contradiction|]. cbn [List.length]. lia. }
  pose proof (firstn_nonempty k (seg_bytes p) Hk Hne) as Hfn.
  destruct (firstn k (seg_bytes p)) as [|b bs] eqn:Ef; [contradiction|].
  destruct acc as [|a acc'].
  - rewrite (Hinv eq_refl). cbn [app]. rewrite !app_nil_r. reflexivity.
  - rewrite !app_nil_r. reflexivity.
Qed.

Lemma firstn_app_exact {A} (l1 l2 : list A) : firstn (List.length l1) (l1 ++ l2) = l1.
Proof. rewrite firstn_app, Nat.sub_diag, firstn_all. cbn. apply app_nil_r. Qed.
Lemma skipn_app_exact {A} (l1 l2 : list A) : skipn (List.length l1) (l1 ++ l2) = l2.
Proof. rewrite skipn_app, Nat.sub_diag, skipn_all. reflexivity. Qed.

(* recv_into_iovec_all over plain pieces reads exactly the first [need] bytes of what has been
   accumulated followed by the concatenation of the pieces, whatever the piece boundaries *)
Lemma recv_all_plain : forall ps fuel need acc rfds cl rest,
  plain ps -> (acc = [] -> rfds = None) ->
  (List.length acc <= need)%nat ->
  (need <= List.length acc + List.length (bytes_of ps))%nat ->
  (List.length ps + 2 <= fuel)%nat ->
  exists ps',
    recv_all fuel need acc rfds cl (ps ++ rest) = RxAll (firstn need (acc ++ bytes_of ps)) rfds cl (ps' ++ rest)
    /\ plain ps' /\ bytes_of ps' = skipn need (acc ++ bytes_of ps).
Proof.
  induction ps as [|p ps IH]; intros fuel need acc rfds cl rest Hpl Hinv Hlo Hhi Hfuel.
  - cbn [bytes_of flat_map List.length] in *. assert (need = List.length acc) by lia. subst need.
    destruct fuel as [|f]; [cbn in Hfuel; lia|]. cbn [recv_all]. rewrite Nat.leb_refl.
    exists []. rewrite app_nil_r, firstn_all, skipn_all. repeat split; constructor.
  - destruct fuel as [|f]; [cbn in Hfuel; lia|].
    destruct (Nat.eq_dec need (List.length acc)) as [->|Hneq].
    + cbn [recv_all]. rewrite Nat.leb_refl.
      exists (p :: ps). rewrite firstn_app_exact, skipn_app_exact. repeat split; auto.
    + inversion Hpl as [|? ? Hp Hps]; subst. cbn [app].
      rewrite recv_all_step_plain; [|exact Hp|lia|exact Hinv].
      set (n := (need - List.length acc)%nat) in *.
      set (k := Nat.min n (List.length (seg_bytes p))).
      cbn [bytes_of flat_map] in *. fold (bytes_of ps) in *. rewrite app_length in Hhi.
      destruct Hp as [Hne Hnf].
      assert (Hlen_fn : List.length (firstn k (seg_bytes p)) = k) by (apply firstn_length_le; unfold k; lia).
      assert (Hk : (0 < k)%nat). { unfold k. destruct (seg_bytes p); [contradiction|]. cbn [List.length]. lia. }
      assert (Hinv' : acc ++ firstn k (seg_bytes p) = [] -> rfds = None).
      { intros Habs. apply app_eq_nil in Habs as [_ Habs]. apply (f_equal (@List.length N)) in Habs.
        rewrite Hlen_fn in Habs. cbn in Habs. lia. }
      destruct (Nat.le_gt_cases (List.length (seg_bytes p)) n) as [Hle|Hgt].
      * (* the whole piece is consumed *)
        assert (Ek : k = List.length (seg_bytes p)) by (unfold k; lia).
        unfold rest_of. rewrite Ek, firstn_all, skipn_all.
        rewrite Ek, firstn_all in Hinv'.
        destruct (IH f need (acc ++ seg_bytes p) rfds cl rest Hps Hinv') as (ps' & Hr & Hpl' & Hb);
          try (rewrite app_length; lia); try (cbn [List.length] in Hfuel; lia).
        exists ps'. rewrite <- app_assoc in Hr, Hb. auto.
      * (* the piece is longer than what is still needed: the loop ends after this read *)
        assert (Ek : k = n) by (unfold k; lia).
        unfold rest_of. rewrite Ek.
        assert (Hsk : skipn n (seg_bytes p) <> []).
        { intros Habs. apply (f_equal (@List.length N)) in Habs. rewrite skipn_length in Habs. cbn in Habs. lia. }
        remember (skipn n (seg_bytes p)) as sk eqn:Es. symmetry in Es.
        destruct sk as [|x xs]; [contradiction|].
        destruct f as [|f']; [cbn [List.length] in Hfuel; lia|]. cbn [recv_all].
        assert (Hfull : Nat.leb need (List.length (acc ++ firstn n (seg_bytes p))) = true).
        { apply Nat.leb_le. rewrite app_length, firstn_length_le by lia. unfold n. lia. }
        rewrite Hfull.
        exists ({| seg_bytes := x :: xs; seg_fds := [] |} :: ps). cbn [app].
        assert (Hneed : need = List.length (acc ++ firstn n (seg_bytes p))).
        { rewrite app_length, firstn_length_le by lia. unfold n. lia. }
        assert (Hsplit : seg_bytes p = firstn n (seg_bytes p) ++ x :: xs).
        { rewrite <- Es. symmetry. apply firstn_skipn. }
        set (fp := firstn n (seg_bytes p)) in *.
        repeat split.
        -- f_equal. rewrite Hsplit, <- app_assoc, app_assoc, Hneed. symmetry. apply firstn_app_exact.
        -- constructor; [split; [discriminate|reflexivity]|exact Hps].
        -- cbn [bytes_of flat_map seg_bytes]. fold (bytes_of ps).
           rewrite Hsplit, <- app_assoc, app_assoc, Hneed. rewrite skipn_app_exact. reflexivity.
Qed.

Lemma recv_data_step_plain f len acc cl p q :
  plain_piece p -> (List.length acc < len)%nat ->
  let k := Nat.min (len - List.length acc) (List.length (seg_bytes p)) in
  recv_data_loop (S f) len acc cl (p :: q) = recv_data_loop f len (acc ++ firstn k (seg_bytes p)) cl (rest_of k p q).
Proof.
  intros Hp Hlt k. cbn [recv_data_loop].
  assert (El : Nat.leb len (List.length acc) = false) by (apply Nat.leb_gt; lia). rewrite El.
  rewrite (recvmsg_plain _ false p q Hp) by lia. fold k.
  destruct Hp as [Hne Hnf].
  assert (Hk : (0 < k)%nat). { unfold k. destruct (seg_bytes p); [contradiction|]. cbn [List.length]. lia. }
  pose proof (firstn_nonempty k (seg_bytes p) Hk Hne) as Hfn.
  destruct (firstn k (seg_bytes p)) as [|b bs] eqn:Ef; [contradiction|].
  rewrite app_nil_r. reflexivity.
Qed.

Lemma recv_data_loop_plain : forall ps fuel len acc cl rest,
  plain ps ->
  (List.length acc <= len)%nat ->
  (len <= List.length acc + List.length (bytes_of ps))%nat ->
  (List.length ps + 2 <= fuel)%nat ->
  exists ps',
    recv_data_loop fuel len acc cl (ps ++ rest) = RxD (firstn len (acc ++ bytes_of ps)) cl (ps' ++ rest)
    /\ plain ps' /\ bytes_of ps' = skipn len (acc ++ bytes_of ps).
Proof.
  induction ps as [|p ps IH]; intros fuel len acc cl rest Hpl Hlo Hhi Hfuel.
  - cbn [bytes_of flat_map List.length] in *. assert (len = List.length acc) by lia. subst len.
    destruct fuel as [|f]; [cbn in Hfuel; lia|]. cbn [recv_data_loop]. rewrite Nat.leb_refl.
    exists []. rewrite app_nil_r, firstn_all, skipn_all. repeat split; constructor.
  - destruct fuel as [|f]; [cbn in Hfuel; lia|].
    destruct (Nat.eq_dec len (List.length acc)) as [->|Hneq].
    + cbn [recv_data_loop]. rewrite Nat.leb_refl.
      exists (p :: ps). rewrite firstn_app_exact, skipn_app_exact. repeat split; auto.
    + inversion Hpl as [|? ? Hp Hps]; subst. cbn [app].
      rewrite recv_data_step_plain; [|exact Hp|lia].
      set (n := (len - List.length acc)%nat) in *.
      set (k := Nat.min n (List.length (seg_bytes p))).
      cbn [bytes_of flat_map] in *. fold (bytes_of ps) in *. rewrite app_length in Hhi.
      destruct Hp as [Hne Hnf].
      destruct (Nat.le_gt_cases (List.length (seg_bytes p)) n) as [Hle|Hgt].
      * assert (Ek : k = List.length (seg_bytes p)) by (unfold k; lia).
        unfold rest_of. rewrite Ek, firstn_all, skipn_all.
        destruct (IH f len (acc ++ seg_bytes p) cl rest Hps) as (ps' & Hr & Hpl' & Hb);
          try (rewrite app_length; lia); try (cbn [List.length] in Hfuel; lia).
        exists ps'. rewrite <- app_assoc in Hr, Hb. auto.
      * assert (Ek : k = n) by (unfold k; lia).
        unfold rest_of. rewrite Ek.
        assert (Hsk : skipn n (seg_bytes p) <> []).
        { intros Habs. apply (f_equal (@List.length N)) in Habs. rewrite skipn_length in Habs. cbn in Habs. lia. }
        remember (skipn n (seg_bytes p)) as sk eqn:Es. symmetry in Es.
        destruct sk as [|x xs]; [contradiction|].
        destruct f as [|f']; [cbn [List.length] in Hfuel; lia|]. cbn [recv_data_loop].
        assert (Hfull : Nat.leb len (List.length (acc ++ firstn n (seg_bytes p))) = true).
        { apply Nat.leb_le. rewrite app_length, firstn_length_le by lia. unfold n. lia. }
        rewrite Hfull.
        exists ({| seg_bytes := x :: xs; seg_fds := [] |} :: ps). cbn [app].
        assert (Hneed : len = List.length (acc ++ firstn n (seg_bytes p))).
        { rewrite app_length, firstn_length_le by lia. unfold n. lia. }
        assert (Hsplit : seg_bytes p = firstn n (seg_bytes p) ++ x :: xs).
        { rewrite <- Es. symmetry. apply firstn_skipn. }
        set (fp := firstn n (seg_bytes p)) in *.
        repeat split.
        -- f_equal. rewrite Hsplit, <- app_assoc, app_assoc, Hneed. symmetry. apply firstn_app_exact.
        -- constructor; [split; [discriminate|reflexivity]|exact Hps].
        -- cbn [bytes_of flat_map seg_bytes]. fold (bytes_of ps).
           rewrite Hsplit, <- app_assoc, app_assoc, Hneed. rewrite skipn_app_exact. reflexivity.
Qed.

(* ---- the iovec offset computation of the send/receive loops ---- *)
Fixpoint sub_iovs_offset (lens : list nat) (skip : nat) (nr : nat) : nat * nat :=
  match lens with
  | [] => (nr, skip)
  | l :: r => if Nat.leb l skip then sub_iovs_offset r (skip - l) (S nr) else (nr, skip)
  end.
Lemma sub_iovs_offset_spec : forall lens skip nr,
  (skip < fold_right Nat.add 0 lens)%nat ->
  let '(i, off) := sub_iovs_offset lens skip nr in
  exists j, i = (nr + j)%nat /\ (fold_right Nat.add 0 (firstn j lens) + off = skip)%nat
            /\ (off < nth j lens 0)%nat.
Proof.
  induction lens as [|l r IH]; intros skip nr H; cbn [fold_right] in H; [lia|].
  cbn [sub_iovs_offset]. destruct (Nat.leb l skip) eqn:E.
  - apply Nat.leb_le in E. specialize (IH (skip - l)%nat (S nr) ltac:(lia)).
    destruct (sub_iovs_offset r (skip - l) (S nr)) as [i off].
    destruct IH as (j & -> & Hs & Ho). exists (S j). cbn [firstn fold_right nth]. repeat split; lia.
  - apply Nat.leb_gt in E. exists 0%nat. cbn. repeat split; lia.
Qed.

(* a message: a first piece that may carry descriptors, followed by plain pieces *)
Definition fds_opt (fds : list N) : option (list N) := match fds with [] => None | _ => Some fds end.

Lemma plain_nil_bytes ps : plain ps -> bytes_of ps = [] -> ps = [].
Proof.
  destruct ps as [|p ps]; [reflexivity|]. intros Hp Hb. inversion Hp as [|? ? [Hne _] _]; subst.
  cbn [bytes_of flat_map] in Hb. apply app_eq_nil in Hb as [Hb _]. contradiction.
Qed.

Lemma recvmsg_msg n b0 fds q :
  (List.length fds <= max_fds)%nat ->
  let p := {| seg_bytes := b0; seg_fds := fds |} in
  let k := Nat.min n (List.length b0) in
  recvmsg n true (p :: q) = (RxData (firstn k b0) fds, [], rest_of k p q).
Proof.
  intros Hfds p k. unfold recvmsg, rest_of. cbn [seg_bytes seg_fds p]. fold k.
  destruct fds as [|f fs]; [reflexivity|]. cbn [andb]. apply Nat.leb_le in Hfds. rewrite Hfds. reflexivity.
Qed.

Lemma recv_all_msg b0 fds ps fuel need rest :
  b0 <> [] -> (List.length fds <= max_fds)%nat -> plain ps ->
  (0 < need)%nat -> (need <= List.length b0 + List.length (bytes_of ps))%nat ->
  (List.length ps + 4 <= fuel)%nat ->
  exists ps',
    recv_all fuel need [] None [] ({| seg_bytes := b0; seg_fds := fds |} :: ps ++ rest)
    = RxAll (firstn need (b0 ++ bytes_of ps)) (fds_opt fds) [] (ps' ++ rest)
    /\ plain ps' /\ bytes_of ps' = skipn need (b0 ++ bytes_of ps).
Proof.
  intros Hb0 Hfds Hpl Hneed Hhi Hfuel.
  destruct fuel as [|f]; [lia|]. cbn [recv_all List.length].
  assert (El : Nat.leb need 0 = false) by (apply Nat.leb_gt; lia). rewrite El. rewrite Nat.sub_0_r.
  rewrite recvmsg_msg by exact Hfds. unfold rest_of. cbn [seg_bytes].
  set (k := Nat.min need (List.length b0)).
  assert (Hk : (0 < k)%nat). { unfold k. destruct b0; [contradiction|]. cbn [List.length]. lia. }
  pose proof (firstn_nonempty k b0 Hk Hb0) as Hfn.
  assert (Hlenk : List.length (firstn k b0) = k) by (apply firstn_length_le; unfold k; lia).
  remember (firstn k b0) as fk eqn:Ef. destruct fk as [|x xs]; [contradiction|]. rewrite Ef in *. clear Ef x xs.
  cbn [app].
  change (match fds with [] => None | _ :: _ => Some fds end) with (fds_opt fds).
  (* continue over the plain remainder *)
  assert (Hk0 : List.length b0 = (k + List.length (skipn k b0))%nat) by (rewrite skipn_length; unfold k; lia).
  destruct (skipn k b0) as [|y ys] eqn:Es.
  - destruct (recv_all_plain ps f need (firstn k b0) (fds_opt fds) [] rest Hpl) as (ps' & Hr & Hpl' & Hb').
    + intros Habs. rewrite Habs in Hfn. contradiction.
    + rewrite Hlenk. unfold k. lia.
    + rewrite Hlenk. cbn [List.length] in Hk0. lia.
    + lia.
    + exists ps'.
      assert (Hfk : firstn k b0 = b0).
      { rewrite <- (firstn_skipn k b0) at 2. rewrite Es, app_nil_r. reflexivity. }
      rewrite Hfk in Hr, Hb' |- *. auto.
  - set (p1 := {| seg_bytes := y :: ys; seg_fds := [] |}).
    change (p1 :: ps ++ rest) with ((p1 :: ps) ++ rest).
    assert (Hpl1 : plain (p1 :: ps)) by (constructor; [split; [discriminate|reflexivity]|exact Hpl]).
    destruct (recv_all_plain (p1 :: ps) f need (firstn k b0) (fds_opt fds) [] rest Hpl1) as (ps' & Hr & Hpl' & Hb').
    + intros Habs. rewrite Habs in Hfn. contradiction.
    + rewrite Hlenk. unfold k. lia.
    + rewrite Hlenk. cbn [bytes_of flat_map seg_bytes p1]. fold (bytes_of ps). rewrite app_length. lia.
    + cbn [List.length]. lia.
    + exists ps'. cbn [bytes_of flat_map seg_bytes p1] in Hr, Hb'. fold (bytes_of ps) in Hr, Hb'.
      rewrite <- Es in Hr, Hb'. rewrite app_assoc, firstn_skipn in Hr, Hb'. auto.
Qed.

(* the stream ends before [need] bytes have arrived: the loop returns what there was *)
Lemma recv_all_plain_short : forall ps fuel need acc rfds cl,
  plain ps -> (acc = [] -> rfds = None) ->
  (List.length acc + List.length (bytes_of ps) < need)%nat ->
  (List.length ps + 2 <= fuel)%nat ->
  recv_all fuel need acc rfds cl ps = RxAll (acc ++ bytes_of ps) rfds cl [].
Proof.
  induction ps as [|p ps IH]; intros fuel need acc rfds cl Hpl Hinv Hlt Hfuel.
  - destruct fuel as [|f]; [cbn in Hfuel; lia|]. cbn [recv_all bytes_of flat_map List.length] in *.
    assert (El : Nat.leb need (List.length acc) = false) by (apply Nat.leb_gt; lia). rewrite El.
    cbn [recvmsg]. rewrite !app_nil_r. reflexivity.
  - destruct fuel as [|f]; [cbn in Hfuel; lia|].
    inversion Hpl as [|? ? Hp Hps]; subst.
    cbn [bytes_of flat_map] in *. fold (bytes_of ps) in *. rewrite app_length in Hlt.
    rewrite recv_all_step_plain; [|exact Hp|lia|exact Hinv].
    assert (Ek : Nat.min (need - List.length acc) (List.length (seg_bytes p)) = List.length (seg_bytes p)) by lia.
    rewrite Ek. unfold rest_of. rewrite firstn_all, skipn_all.
    destruct Hp as [Hne Hnf].
    rewrite IH; [rewrite <- app_assoc; reflexivity|exact Hps| |rewrite app_length; lia|cbn [List.length] in Hfuel; lia].
    intros Habs. apply app_eq_nil in Habs as [_ Habs]. contradiction.
Qed.

Lemma recv_data_loop_plain_short : forall ps fuel len acc cl,
  plain ps ->
  (List.length acc + List.length (bytes_of ps) < len)%nat ->
  (List.length ps + 2 <= fuel)%nat ->
  recv_data_loop fuel len acc cl ps = RxD (acc ++ bytes_of ps) cl [].
Proof.
  induction ps as [|p ps IH]; intros fuel len acc cl Hpl Hlt Hfuel.
  - destruct fuel as [|f]; [cbn in Hfuel; lia|]. cbn [recv_data_loop bytes_of flat_map List.length] in *.
    assert (El : Nat.leb len (List.length acc) = false) by (apply Nat.leb_gt; lia). rewrite El.
    cbn [recvmsg]. rewrite !app_nil_r. reflexivity.
  - destruct fuel as [|f]; [cbn in Hfuel; lia|].
    inversion Hpl as [|? ? Hp Hps]; subst.
    cbn [bytes_of flat_map] in *. fold (bytes_of ps) in *. rewrite app_length in Hlt.
    rewrite recv_data_step_plain; [|exact Hp|lia].
    assert (Ek : Nat.min (len - List.length acc) (List.length (seg_bytes p)) = List.length (seg_bytes p)) by lia.
    rewrite Ek. unfold rest_of. rewrite firstn_all, skipn_all.
    rewrite IH; [rewrite <- app_assoc; reflexivity|exact Hps|rewrite app_length; lia|cbn [List.length] in Hfuel; lia].
Qed.

(* ---- the send loop: every byte once and in order; descriptors with the first byte only ---- *)
Definition tx_bytes (t : list tx_event) : list N := flat_map fst t.
Definition fds_first_only (fds : list N) (t : list tx_event) : Prop :=
  match t with
  | [] => True
  | e :: r => snd e = fds /\ Forall (fun x => snd x = []) r
  end.

Lemma tx_bytes_app a b : tx_bytes (a ++ b) = tx_bytes a ++ tx_bytes b.
Proof. unfold tx_bytes. apply flat_map_app. Qed.

Lemma firstn_plus {A} (l : list A) a b : firstn a l ++ firstn b (skipn a l) = firstn (a + b) l.
Proof.
  revert l; induction a as [|a IH]; intros l; [reflexivity|].
  destruct l as [|x xs].
  - cbn [skipn firstn Nat.add app]. rewrite !firstn_nil. reflexivity.
  - cbn [skipn firstn Nat.add app]. f_equal. apply IH.
Qed.

Lemma send_all_spec : forall oracle data fds sent trace,
  (sent <= List.length data)%nat ->
  tx_bytes trace = firstn sent data ->
  (sent = 0%nat <-> trace = []) ->
  fds_first_only fds trace ->
  exists n,
    tx_bytes (snd (send_all data fds oracle sent trace)) = firstn n data
    /\ (sent <= n <= List.length data)%nat
    /\ (forall m, fst (send_all data fds oracle sent trace) = TxOk m -> m = n)
    /\ fds_first_only fds (snd (send_all data fds oracle sent trace)).
Proof.
  induction oracle as [|c rest IH]; intros data fds sent trace Hle Hb Hz Hf.
  - cbn [send_all]. destruct (Nat.leb (List.length data) sent) eqn:E; cbn [fst snd];
      exists sent; repeat split; auto; try lia; intros m Hm; try discriminate; injection Hm; auto.
  - cbn [send_all]. destruct (Nat.leb (List.length data) sent) eqn:E.
    { cbn [fst snd]. exists sent. repeat split; auto; try lia. intros m Hm. injection Hm; auto. }
    apply Nat.leb_gt in E.
    destruct c as [k| |].
    + set (n := Nat.min k (List.length data - sent)).
      destruct n as [|n'] eqn:En.
      { cbn [fst snd]. exists sent. repeat split; auto; try lia. intros m Hm. injection Hm; auto. }
      rewrite <- En.
      assert (Hn : (0 < n <= List.length data - sent)%nat) by (unfold n in *; lia).
      destruct (IH data fds (sent + n)%nat (trace ++ [(firstn n (skipn sent data), match sent with O => fds | _ => [] end)]))
        as (n0 & H1 & H2 & H3 & H4).
      * lia.
      * rewrite tx_bytes_app, Hb. cbn [tx_bytes flat_map fst]. rewrite app_nil_r. apply firstn_plus.
      * split; [lia|]. intros Habs. apply app_eq_nil in Habs as [_ Habs]. discriminate.
      * destruct trace as [|e r].
        -- assert (sent = 0%nat) by (apply Hz; reflexivity). subst sent. cbn [app fds_first_only snd]. split; [reflexivity|constructor].
        -- cbn [app fds_first_only] in *. destruct Hf as [Hf1 Hf2]. split; [exact Hf1|].
           apply Forall_app. split; [exact Hf2|]. constructor; [|constructor].
           destruct sent as [|s']; [exfalso; assert (e :: r = []) by (apply Hz; reflexivity); discriminate|reflexivity].
      * exists n0. repeat split; auto; lia.
    + apply IH; auto.
    + cbn [fst snd]. exists sent. repeat split; auto; try lia. intros m Hm. discriminate.
Qed.

(* started from nothing sent: a prefix of the data, each byte once and in order, descriptors passed
   with the first accepted write only; all of it when the socket eventually accepts everything *)
Theorem send_all_from_start oracle data fds :
  exists n,
    tx_bytes (snd (send_all data fds oracle 0 [])) = firstn n data
    /\ (n <= List.length data)%nat
    /\ (forall m, fst (send_all data fds oracle 0 []) = TxOk m -> m = n)
    /\ fds_first_only fds (snd (send_all data fds oracle 0 [])).
Proof.
  destruct (send_all_spec oracle data fds 0 [] ltac:(lia) eq_refl ltac:(tauto) I) as (n & H1 & H2 & H3 & H4).
  exists n. repeat split; auto; lia.
Qed.
