(* Lemmas behind Props/C20.v: each translated validator (Gen.GenFns) agrees
   with the specification predicate (Spec.Validity) on every bit pattern. *)
From VV Require Import Base.Bits Base.Rt Gen.GenConsts Gen.GenLayout Gen.GenFns Spec.Validity.
From Coq Require Import ZArith ZifyBool ZifyN.
Open Scope N_scope.

Ltac Zify.zify_post_hook ::= Z.div_mod_to_equations.

(* --- mask facts at the constants the code uses --- *)
Lemma land_15 x : N.land x 15 = x mod 16.
Proof. change 15 with (N.ones 4). rewrite N.land_ones. reflexivity. Qed.
Lemma land_3 x : N.land x 3 = x mod 4.
Proof. change 3 with (N.ones 2). rewrite N.land_ones. reflexivity. Qed.
Lemma land_1 x : N.land x 1 = x mod 2.
Proof. change 1 with (N.ones 1) at 1. rewrite N.land_ones. reflexivity. Qed.

Lemma high_mask32 x k :
  k <= 32 -> x < 2 ^ 32 ->
  (N.land x (N.shiftl (N.ones (32 - k)) k) = 0 <-> x < 2 ^ k).
Proof.
  intros Hk Hx. apply land_high_mask_zero. replace (k + (32 - k)) with 32 by lia. exact Hx.
Qed.
Lemma high_mask64 x k :
  k <= 64 -> x < 2 ^ 64 ->
  (N.land x (N.shiftl (N.ones (64 - k)) k) = 0 <-> x < 2 ^ k).
Proof.
  intros Hk Hx. apply land_high_mask_zero. replace (k + (64 - k)) with 64 by lia. exact Hx.
Qed.

Lemma checked_add_some w a b : o_is_some (checked_add w a b) = true <-> a + b < 2 ^ w.
Proof. unfold checked_add. destruct (N.ltb_spec (a + b) (2 ^ w)); simpl; split; intros; try lia; auto; discriminate. Qed.
Lemma checked_add_none w a b : o_is_none (checked_add w a b) = true <-> ~ a + b < 2 ^ w.
Proof. unfold o_is_none. rewrite negb_true_iff, <- not_true_iff_false, checked_add_some. tauto. Qed.

(* --- request-code tables: membership is the specified range --- *)
Lemma range_mem (t : enum_tbl) (lo hi : N) :
  (forall v, v <= hi + 1 -> enum_mem t v = (lo <=? v) && (v <=? hi)) ->
  (forall p, In p t -> snd p <= hi) ->
  forall v, enum_mem t v = true <-> lo <= v <= hi.
Proof.
  intros Hsmall Hbound v. destruct (N.leb_spec v (hi + 1)) as [Hle|Hgt].
  - rewrite Hsmall by auto. rewrite andb_true_iff, !N.leb_le. tauto.
  - split; [|lia]. unfold enum_mem. rewrite existsb_exists. intros [p [Hin Heq]].
    apply N.eqb_eq in Heq. specialize (Hbound p Hin). lia.
Qed.

Definition small_ok (t : enum_tbl) (lo hi : N) : bool :=
  forallb (fun v => Bool.eqb (enum_mem t v) ((lo <=? v) && (v <=? hi)))
          (map N.of_nat (seq 0 (N.to_nat (hi + 2)))).
Definition bound_ok (t : enum_tbl) (hi : N) : bool := forallb (fun p => snd p <=? hi) t.

Lemma range_mem_by_compute (t : enum_tbl) lo hi :
  small_ok t lo hi = true -> bound_ok t hi = true ->
  forall v, enum_mem t v = true <-> lo <= v <= hi.
Proof.
  intros Hs Hb. apply range_mem.
  - intros v Hv. unfold small_ok in Hs. rewrite forallb_forall in Hs.
    specialize (Hs v). apply Bool.eqb_prop. apply Hs.
    apply in_map_iff. exists (N.to_nat v). split; [lia|]. apply in_seq. lia.
  - intros p Hin. unfold bound_ok in Hb. rewrite forallb_forall in Hb. apply N.leb_le. auto.
Qed.

Lemma frontend_req_mem v : enum_mem FrontendReq_table v = true <-> frontend_req_known v.
Proof. apply (range_mem_by_compute FrontendReq_table 1 44); vm_compute; reflexivity. Qed.
Lemma backend_req_mem v : enum_mem BackendReq_table v = true <-> backend_req_known v.
Proof. apply (range_mem_by_compute BackendReq_table 1 10); vm_compute; reflexivity. Qed.
Lemma gpu_req_mem v : enum_mem GpuBackendReq_table v = true <-> gpu_req_known v.
Proof. apply (range_mem_by_compute GpuBackendReq_table 1 12); vm_compute; reflexivity. Qed.

Lemma get_code_err R h : r_is_err (VhostUserMsgHeader_get_code R h) = negb (enum_mem R (VhostUserMsgHeader_request h)).
Proof.
  unfold VhostUserMsgHeader_get_code, map_err_const, ok_or, enum_try_from, r_is_err, r_is_ok.
  destruct (enum_mem R _); reflexivity.
Qed.

(* --- header --- *)
Definition hdr_wf (h : VhostUserMsgHeader) : Prop :=
  VhostUserMsgHeader_request h < 2 ^ 32 /\ VhostUserMsgHeader_flags h < 2 ^ 32 /\ VhostUserMsgHeader_size h < 2 ^ 32.

Lemma header_ok_gen (R : enum_tbl) (known : N -> Prop) :
  (forall v, enum_mem R v = true <-> known v) ->
  forall h, hdr_wf h ->
  (VhostUserMsgHeader_is_valid R h = true <->
   header_valid known (VhostUserMsgHeader_request h) (VhostUserMsgHeader_flags h) (VhostUserMsgHeader_size h)).
Proof.
  intros Hmem h (Hr & Hf & Hs). unfold VhostUserMsgHeader_is_valid, header_valid.
  rewrite get_code_err. specialize (Hmem (VhostUserMsgHeader_request h)).
  unfold VhostUserMsgHeader_get_version.
  change MAX_MSG_SIZE with 4096. rewrite land_3.
  change VhostUserHeaderFlag_RESERVED_BITS with (N.shiftl (N.ones (32 - 4)) 4).
  pose proof (high_mask32 (VhostUserMsgHeader_flags h) 4 ltac:(lia) Hf) as Hm.
  change (2 ^ 4) with 16 in Hm.
  destruct (enum_mem R (VhostUserMsgHeader_request h)) eqn:E; cbn [negb].
  2:{ split; [discriminate|]. intros [Hk _]. apply Hmem in Hk. discriminate. }
  assert (Hk : known (VhostUserMsgHeader_request h)) by (apply Hmem; reflexivity).
  destruct (N.ltb_spec 4096 (VhostUserMsgHeader_size h)).
  { split; [discriminate|]. intros (_ & ? & _). lia. }
  destruct (N.eqb_spec (VhostUserMsgHeader_flags h mod 4) 1) as [E1|E1]; cbn [negb].
  2:{ split; [discriminate|]. intros (_ & _ & ? & _). lia. }
  destruct (N.eqb_spec (N.land (VhostUserMsgHeader_flags h) (N.shiftl (N.ones (32 - 4)) 4)) 0) as [E2|E2]; cbn [negb].
  - split; auto. intros _. repeat split; auto; try lia; try (apply Hm; auto).
  - split; [discriminate|]. intros (_ & _ & _ & ?). exfalso. apply E2. apply Hm. auto.
Qed.

Lemma header_frontend_ok h : hdr_wf h ->
  (VhostUserMsgHeader_is_valid FrontendReq_table h = true <->
   header_valid frontend_req_known (VhostUserMsgHeader_request h) (VhostUserMsgHeader_flags h) (VhostUserMsgHeader_size h)).
Proof. apply header_ok_gen. exact frontend_req_mem. Qed.
Lemma header_backend_ok h : hdr_wf h ->
  (VhostUserMsgHeader_is_valid BackendReq_table h = true <->
   header_valid backend_req_known (VhostUserMsgHeader_request h) (VhostUserMsgHeader_flags h) (VhostUserMsgHeader_size h)).
Proof. apply header_ok_gen. exact backend_req_mem. Qed.

(* --- GPU header --- *)
Lemma gpu_header_ok h :
  VhostUserGpuMsgHeader_flags h < 2 ^ 32 ->
  (VhostUserGpuMsgHeader_is_valid GpuBackendReq_table h = true <->
   gpu_header_valid (VhostUserGpuMsgHeader_request h) (VhostUserGpuMsgHeader_flags h)).
Proof.
  intros Hf. unfold VhostUserGpuMsgHeader_is_valid, gpu_header_valid, VhostUserGpuMsgHeader_get_code,
    map_err_const, ok_or, enum_try_from, flags_from_bits.
  pose proof (gpu_req_mem (VhostUserGpuMsgHeader_request h)) as Hmem.
  (* flags land !4 = 0  <->  flags in {0,4} *)
  assert (Hfl : N.land (VhostUserGpuMsgHeader_flags h) (lnot 32 VhostUserGpuHeaderFlag_all) = 0 <->
                (VhostUserGpuMsgHeader_flags h = 0 \/ VhostUserGpuMsgHeader_flags h = 4)).
  { set (f := VhostUserGpuMsgHeader_flags h) in *.
    change (lnot 32 VhostUserGpuHeaderFlag_all) with (N.lor (N.shiftl (N.ones (32 - 3)) 3) 3).
    rewrite N.land_lor_distr_r, N.lor_eq_0_iff, land_3.
    pose proof (high_mask32 f 3 ltac:(lia) Hf) as Hm. change (2 ^ 3) with 8 in Hm.
    rewrite Hm. split; [intros [? ?]|intros [->| ->]]; try lia; split; reflexivity || lia. }
  destruct (enum_mem GpuBackendReq_table _) eqn:E; cbn [r_is_ok andb].
  2:{ split; [discriminate|]. intros [Hk _]. apply Hmem in Hk. discriminate. }
  destruct (N.eqb_spec (N.land (VhostUserGpuMsgHeader_flags h) (lnot 32 VhostUserGpuHeaderFlag_all)) 0) as [E2|E2]; cbn [o_is_some].
  - split; auto. intros _. split; [apply Hmem; reflexivity | apply Hfl; auto].
  - split; [discriminate|]. intros [_ H]. apply Hfl in H. contradiction.
Qed.

(* --- memory table head --- *)
Lemma memory_ok m :
  VhostUserMemory_is_valid m = true <->
  memory_valid (VhostUserMemory_num_regions m) (VhostUserMemory_padding1 m).
Proof.
  unfold VhostUserMemory_is_valid, memory_valid.
  change (cast 32 MAX_ATTACHED_FD_ENTRIES) with 32.
  destruct (N.eqb_spec (VhostUserMemory_padding1 m) 0); cbn [negb].
  2:{ split; [discriminate|]. tauto. }
  destruct (N.eqb_spec (VhostUserMemory_num_regions m) 0); cbn [orb].
  { split; [discriminate|]. lia. }
  destruct (N.ltb_spec 32 (VhostUserMemory_num_regions m)).
  - split; [discriminate|]. lia.
  - split; auto. intros _. lia.
Qed.

(* --- region --- *)
Lemma region_ok r :
  VhostUserMemoryRegion_is_valid r = true <->
  region_valid (VhostUserMemoryRegion_guest_phys_addr r) (VhostUserMemoryRegion_memory_size r)
               (VhostUserMemoryRegion_user_addr r) (VhostUserMemoryRegion_mmap_offset r).
Proof.
  unfold VhostUserMemoryRegion_is_valid, VhostUserMemoryRegion_is_valid_inh,
    VhostUserMemoryRegion_is_valid_common, region_valid.
  rewrite !andb_true_iff, !checked_add_some, negb_true_iff, N.eqb_neq.
  change u64_max with (2 ^ 64). tauto.
Qed.

(* --- vring addr --- *)
Lemma vring_addr_ok a :
  VhostUserVringAddr_flags a < 2 ^ 32 ->
  (VhostUserVringAddr_is_valid a = true <->
   vring_addr_valid (VhostUserVringAddr_flags a) (VhostUserVringAddr_descriptor a)
                    (VhostUserVringAddr_used a) (VhostUserVringAddr_available a)).
Proof.
  intros Hf. unfold VhostUserVringAddr_is_valid, vring_addr_valid.
  rewrite land_15, land_1, land_3.
  change (lnot 32 VhostUserVringAddrFlags_all) with (N.shiftl (N.ones (32 - 1)) 1).
  pose proof (high_mask32 (VhostUserVringAddr_flags a) 1 ltac:(lia) Hf) as Hm. change (2 ^ 1) with 2 in Hm.
  destruct (N.eqb_spec (N.land (VhostUserVringAddr_flags a) (N.shiftl (N.ones (32 - 1)) 1)) 0) as [E|E]; cbn [negb].
  2:{ split; [discriminate|]. intros (? & _). exfalso. apply E, Hm; auto. }
  apply Hm in E.
  destruct (N.eqb_spec (VhostUserVringAddr_descriptor a mod 16) 0); cbn [negb]; [|split; [discriminate|tauto]].
  destruct (N.eqb_spec (VhostUserVringAddr_available a mod 2) 0); cbn [negb]; [|split; [discriminate|tauto]].
  destruct (N.eqb_spec (VhostUserVringAddr_used a mod 4) 0); cbn [negb]; [|split; [discriminate|tauto]].
  tauto.
Qed.

(* --- config --- *)
Lemma config_ok c :
  VhostUserConfig_flags c < 2 ^ 32 ->
  (VhostUserConfig_is_valid c = true <->
   config_valid (VhostUserConfig_offset c) (VhostUserConfig_size c) (VhostUserConfig_flags c)).
Proof.
  intros Hf. unfold VhostUserConfig_is_valid, config_valid, checked_add.
  change VHOST_USER_CONFIG_SIZE with 4096. change u32_max with (2 ^ 32).
  change (lnot 32 VhostUserConfigFlags_all) with (N.shiftl (N.ones (32 - 2)) 2).
  pose proof (high_mask32 (VhostUserConfig_flags c) 2 ltac:(lia) Hf) as Hm. change (2 ^ 2) with 4 in Hm.
  destruct (N.ltb_spec (VhostUserConfig_size c + VhostUserConfig_offset c) (2 ^ 32)) as [Hs|Hs].
  2:{ split; [discriminate|]. lia. }
  destruct (N.eqb_spec (N.land (VhostUserConfig_flags c) (N.shiftl (N.ones (32 - 2)) 2)) 0) as [E|E]; cbn [negb].
  2:{ split; [discriminate|]. intros (_ & _ & _ & ?). exfalso. apply E, Hm; auto. }
  apply Hm in E.
  destruct (N.eqb_spec (VhostUserConfig_size c) 0); cbn [orb].
  { split; [discriminate|]. lia. }
  destruct (N.ltb_spec 4096 (VhostUserConfig_size c + VhostUserConfig_offset c)).
  - split; [discriminate|]. lia.
  - split; auto. intros _. lia.
Qed.

(* --- inflight --- *)
Lemma inflight_ok i :
  VhostUserInflight_is_valid i = true <->
  inflight_valid (VhostUserInflight_num_queues i) (VhostUserInflight_queue_size i).
Proof.
  unfold VhostUserInflight_is_valid, inflight_valid.
  destruct (N.eqb_spec (VhostUserInflight_num_queues i) 0), (N.eqb_spec (VhostUserInflight_queue_size i) 0);
    cbn [orb]; split; try discriminate; try tauto.
Qed.

(* --- log --- *)
Lemma log_ok l :
  VhostUserLog_is_valid l = true <-> log_valid (VhostUserLog_mmap_size l) (VhostUserLog_mmap_offset l).
Proof.
  unfold VhostUserLog_is_valid, log_valid. change u64_max with (2 ^ 64).
  destruct (N.eqb_spec (VhostUserLog_mmap_size l) 0); cbn [orb].
  { split; [discriminate|]. tauto. }
  destruct (o_is_none _) eqn:E.
  - apply checked_add_none in E. split; [discriminate|]. tauto.
  - split; auto. intros _. split; auto.
    destruct (N.lt_ge_cases (VhostUserLog_mmap_offset l + VhostUserLog_mmap_size l) (2 ^ 64)); auto.
    assert (o_is_none (checked_add 64 (VhostUserLog_mmap_offset l) (VhostUserLog_mmap_size l)) = true)
      by (apply checked_add_none; lia). congruence.
Qed.

(* --- transfer state --- *)
Lemma transfer_ok t :
  VhostUserTransferDeviceState_is_valid t = true <->
  transfer_state_valid (VhostUserTransferDeviceState_direction t) (VhostUserTransferDeviceState_phase t).
Proof.
  unfold VhostUserTransferDeviceState_is_valid, transfer_state_valid, enum_try_from.
  assert (Hd : forall v, enum_mem VhostTransferStateDirection_table v = true <-> (v = 0 \/ v = 1)).
  { intros v. unfold enum_mem. cbn [VhostTransferStateDirection_table existsb snd].
    change VhostTransferStateDirection_SAVE with 0. change VhostTransferStateDirection_LOAD with 1.
    rewrite !orb_true_iff, !N.eqb_eq. intuition (try discriminate; lia). }
  assert (Hp : forall v, enum_mem VhostTransferStatePhase_table v = true <-> v = 0).
  { intros v. unfold enum_mem. cbn [VhostTransferStatePhase_table existsb snd].
    change VhostTransferStatePhase_STOPPED with 0.
    rewrite !orb_true_iff, !N.eqb_eq. intuition (try discriminate; lia). }
  specialize (Hd (VhostUserTransferDeviceState_direction t)). specialize (Hp (VhostUserTransferDeviceState_phase t)).
  destruct (enum_mem VhostTransferStateDirection_table _), (enum_mem VhostTransferStatePhase_table _);
    cbn [o_is_some andb]; split; try discriminate; intros; try tauto;
    match goal with
    | H : _ /\ _ |- _ => destruct H as [H1 H2];
        first [ apply Hp in H2; discriminate | apply Hd in H1; discriminate ]
    end.
Qed.

(* --- shared object uuid: over all 2^128 values --- *)
Lemma forallb_eq_repeat (l : list N) c n :
  List.length l = n -> (forallb (fun b => b =? c) l = true <-> l = repeat c n).
Proof.
  revert n; induction l as [|x xs IH]; intros n Hn; simpl in *.
  - subst n. simpl. tauto.
  - destruct n as [|n]; [discriminate|]. injection Hn as Hn. cbn [repeat].
    rewrite andb_true_iff, N.eqb_eq, (IH n Hn). split.
    + intros [-> ->]. reflexivity.
    + intros H. injection H as -> ->. auto.
Qed.

Lemma shared_ok s :
  List.length (VhostUserSharedMsg_uuid s) = 16%nat ->
  (VhostUserSharedMsg_is_valid s = true <-> uuid_valid (VhostUserSharedMsg_uuid s)).
Proof.
  intros Hl. unfold VhostUserSharedMsg_is_valid, uuid_valid, uuid_is_nil, uuid_is_max.
  rewrite negb_true_iff, orb_false_iff, <- !not_true_iff_false.
  rewrite (forallb_eq_repeat _ 0 16 Hl), (forallb_eq_repeat _ 255 16 Hl). tauto.
Qed.

(* --- mmap --- *)
Lemma mmap_ok m :
  VhostUserMMap_flags m < 2 ^ 64 ->
  (VhostUserMMap_is_valid m = true <->
   mmap_valid (VhostUserMMap_fd_offset m) (VhostUserMMap_shm_offset m) (VhostUserMMap_len m) (VhostUserMMap_flags m)).
Proof.
  intros Hf. unfold VhostUserMMap_is_valid, mmap_valid, flags_from_bits. change u64_max with (2 ^ 64).
  rewrite !andb_true_iff, !checked_add_some, negb_true_iff, N.eqb_neq.
  change (lnot 64 VhostUserMMapFlags_all) with (N.shiftl (N.ones (64 - 1)) 1).
  pose proof (high_mask64 (VhostUserMMap_flags m) 1 ltac:(lia) Hf) as Hm. change (2 ^ 1) with 2 in Hm.
  destruct (N.eqb_spec (N.land (VhostUserMMap_flags m) (N.shiftl (N.ones (64 - 1)) 1)) 0) as [E|E]; cbn [o_is_some].
  - apply Hm in E. tauto.
  - split; [intros (_ & ?); discriminate|]. intros (_ & _ & _ & ?). exfalso. apply E, Hm; auto.
Qed.

(* --- the single-region message is held to the region rules --- *)
Lemma single_region_ok s :
  VhostUserSingleMemoryRegion_is_valid s = true <->
  let r := VhostUserSingleMemoryRegion_region s in
  region_valid (VhostUserMemoryRegion_guest_phys_addr r) (VhostUserMemoryRegion_memory_size r)
               (VhostUserMemoryRegion_user_addr r) (VhostUserMemoryRegion_mmap_offset r).
Proof.
  cbv zeta. rewrite <- region_ok. reflexivity.
Qed.

(* --- validators with no protocol rule are constantly true --- *)
Lemma trivial_validators :
  (forall x, VhostUserEmpty_is_valid x = true) /\
  (forall x, VhostUserU64_is_valid x = true) /\
  (forall x, VhostUserVringState_is_valid x = true) /\
  (forall x, VhostUserShMemConfig_is_valid x = true).
Proof. repeat split. Qed.
