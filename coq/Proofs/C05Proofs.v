(* C05: every handler invocation of the backend request server model carries
   arguments that satisfy the protocol's validity rules (Spec.BeSpec.valid_call_b),
   for every header, descriptor set and body. *)
From VV Require Import Base.Bits Base.Rt Base.Val Gen.GenConsts Gen.GenLayout Gen.GenFns Gen.GenVrfd Gen.GenArms
  Spec.Validity Spec.ValidityDec Spec.BeSpec Model.Transport Model.BeServer Proofs.C20Proofs Proofs.BeProofs.
From Coq Require Import ZArith ZifyBool ZifyNat ZifyN.
Open Scope string_scope.
Open Scope list_scope.
Open Scope N_scope.

Lemma extract_valid {T} h size buf lay (dec : list N -> option T) valid m :
  extract h size buf lay dec valid = ROk m -> valid m = true.
Proof.
  unfold extract. destruct (check_size h size (sizeof lay)); [|discriminate].
  destruct (dec buf) as [x|]; [|discriminate]. destruct (valid x) eqn:E; [|discriminate].
  intros H. inversion H; subst. exact E.
Qed.


(* what the validity predicate demands of each handler's arguments (by computation on the handler names) *)
Lemma vc_plain name args :
  existsb (String.eqb name)
          ["set_owner"; "reset_owner"; "reset_device"; "get_features"; "set_features"; "set_vring_num"; "set_vring_base";
           "get_vring_base"; "get_protocol_features"; "set_protocol_features"; "get_queue_num"; "get_max_mem_slots";
           "check_device_state"; "get_shmem_config"] = true ->
  valid_call_b (call name args) = true.
Proof.
  intros H. cbn [existsb] in H.
  repeat (apply Bool.orb_true_iff in H; destruct H as [H|H]; [apply String.eqb_eq in H; subst; reflexivity|]).
  discriminate.
Qed.

Lemma vfds_is_fdlist l n : is_fdlist (vfds l) n = Nat.eqb (List.length l) n.
Proof.
  unfold is_fdlist, vfds, val_NL. rewrite map_map. cbn [val_N].
  assert (H : all_some (map (fun x => Some x) l) = Some l).
  { induction l as [|x l IH]; [reflexivity|]. cbn [map all_some]. rewrite IH. reflexivity. }
  rewrite H. reflexivity.
Qed.

Lemma region_val_ok r : VhostUserMemoryRegion_is_valid r = true -> Spec.BeSpec.region_ok (region_val r) = true.
Proof.
  intros H. apply Proofs.C20Proofs.region_ok in H. apply region_valid_b_iff in H. exact H.
Qed.

Lemma forallb_region_vals regs :
  forallb VhostUserMemoryRegion_is_valid regs = true -> forallb Spec.BeSpec.region_ok (map region_val regs) = true.
Proof.
  induction regs as [|r regs IH]; [reflexivity|]. cbn [forallb map]. intros H.
  apply Bool.andb_true_iff in H. destruct H as [H1 H2]. rewrite (region_val_ok r H1), (IH H2). reflexivity.
Qed.

Lemma read_regions_length n buf off : List.length (read_regions n buf off) = n.
Proof. revert off. induction n as [|n IH]; intros off; cbn [read_regions List.length]; [reflexivity|]. rewrite IH. reflexivity. Qed.

(* ---- bytes are bytes: decoded fields fit their width; the hexadecimal rendering of byte strings round-trips ---- *)
Lemma bytes_ok_firstn n l : bytes_ok l = true -> bytes_ok (firstn n l) = true.
Proof.
  revert l. induction n as [|n IH]; intros [|x l] H; try reflexivity.
  cbn [firstn bytes_ok forallb] in *. apply Bool.andb_true_iff in H. destruct H as [H1 H2].
  rewrite H1. cbn [andb]. apply IH. exact H2.
Qed.
Lemma bytes_ok_skipn n l : bytes_ok l = true -> bytes_ok (skipn n l) = true.
Proof.
  revert l. induction n as [|n IH]; intros [|x l] H; try reflexivity; try exact H.
  cbn [skipn]. apply IH. cbn [bytes_ok forallb] in H. apply Bool.andb_true_iff in H. tauto.
Qed.
Lemma rd_int_bound bs off sz : bytes_ok bs = true -> rd_int bs off sz < 2 ^ (8 * N.of_nat sz).
Proof.
  intros H. unfold rd_int.
  pose proof (le_decode_bound (firstn sz (skipn off bs)) (bytes_ok_firstn _ _ (bytes_ok_skipn _ _ H))) as Hb.
  eapply N.lt_le_trans; [exact Hb|]. apply N.pow_le_mono_r; [lia|].
  pose proof (firstn_le_length sz (skipn off bs)). lia.
Qed.

Lemma nibble_hexdigit n : n < 16 -> nibble (hexdigit n) = n.
Proof.
  intros H.
  assert (Hall : forallb (fun k => nibble (hexdigit k) =? k) (map N.of_nat (seq 0 16)) = true) by (vm_compute; reflexivity).
  rewrite forallb_forall in Hall. apply N.eqb_eq. apply Hall.
  apply in_map_iff. exists (N.to_nat n). split; [lia|]. apply in_seq. lia.
Qed.
Lemma hex_roundtrip l : bytes_ok l = true -> hex_bytes (bytes_hex l) = l.
Proof.
  induction l as [|b l IH]; intros H; [reflexivity|].
  cbn [bytes_ok forallb] in H. apply Bool.andb_true_iff in H. destruct H as [Hb Hl].
  unfold is_byte in Hb. apply N.ltb_lt in Hb.
  cbn [bytes_hex hex_bytes]. rewrite !nibble_hexdigit by (try apply N.div_lt_upper_bound; try apply N.mod_lt; lia).
  rewrite (IH Hl). f_equal. pose proof (N.div_mod b 16). lia.
Qed.

(* ---- what the validity predicate demands, handler by handler (by computation on the names) ---- *)
Lemma vc_set_mem_table regs fds :
  valid_call_b (call "set_mem_table" [VL regs; VL fds])
  = (Nat.leb 1 (List.length regs)) && (Nat.leb (List.length regs) 32) && forallb Spec.BeSpec.region_ok regs
    && Nat.eqb (List.length fds) (List.length regs).
Proof. reflexivity. Qed.
Lemma vc_add_mem r f : valid_call_b (call "add_mem_region" [r; f]) = Spec.BeSpec.region_ok r && is_fdlist f 1.
Proof. reflexivity. Qed.
Lemma vc_rem_mem r : valid_call_b (call "remove_mem_region" [r]) = Spec.BeSpec.region_ok r.
Proof. reflexivity. Qed.
Lemma vc_vring_addr i f d u a l :
  valid_call_b (call "set_vring_addr" [VN i; VN f; VN d; VN u; VN a; VN l]) = vring_addr_valid_b f d u a.
Proof. reflexivity. Qed.
Lemma vc_get_config off sz f : valid_call_b (call "get_config" [VN off; VN sz; VN f]) = config_valid_b off sz f.
Proof. reflexivity. Qed.
Lemma vc_set_config off p f :
  valid_call_b (call "set_config" [VN off; VH p; VN f]) = config_valid_b off (N.of_nat (List.length (hex_bytes p))) f.
Proof. reflexivity. Qed.
Lemma vc_enable i e : valid_call_b (call "set_vring_enable" [VN i; VN e]) = (e =? 0) || (e =? 1).
Proof. reflexivity. Qed.
Lemma vc_vring_fd name i f :
  existsb (String.eqb name) ["set_vring_kick"; "set_vring_call"; "set_vring_err"] = true ->
  valid_call_b (call name [VN i; f]) = (i <? 256) && (is_fdlist f 0 || is_fdlist f 1).
Proof.
  intros H. cbn [existsb] in H.
  repeat (apply Bool.orb_true_iff in H; destruct H as [H|H]; [apply String.eqb_eq in H; subst; reflexivity|]).
  discriminate.
Qed.
Lemma vc_fd1 name f :
  existsb (String.eqb name) ["set_backend_req_fd"; "set_gpu_socket"] = true ->
  valid_call_b (call name [f]) = is_fdlist f 1.
Proof.
  intros H. cbn [existsb] in H.
  repeat (apply Bool.orb_true_iff in H; destruct H as [H|H]; [apply String.eqb_eq in H; subst; reflexivity|]).
  discriminate.
Qed.
Lemma vc_set_inflight ms mo nq qs f :
  valid_call_b (call "set_inflight_fd" [VN ms; VN mo; VN nq; VN qs; f]) = inflight_valid_b nq qs && is_fdlist f 1.
Proof. reflexivity. Qed.
Lemma vc_get_inflight ms mo nq qs :
  valid_call_b (call "get_inflight_fd" [VN ms; VN mo; VN nq; VN qs]) = inflight_valid_b nq qs.
Proof. reflexivity. Qed.
Lemma vc_log sz off f : valid_call_b (call "set_log_base" [VN sz; VN off; f]) = log_valid_b sz off && is_fdlist f 1.
Proof. reflexivity. Qed.
Lemma vc_state d p f : valid_call_b (call "set_device_state_fd" [VN d; VN p; f]) = transfer_state_valid_b d p && is_fdlist f 1.
Proof. reflexivity. Qed.
Lemma vc_shared u :
  valid_call_b (call "get_shared_object" [VH u]) = uuid_valid_b (hex_bytes u) && Nat.eqb (List.length (hex_bytes u)) 16.
Proof. reflexivity. Qed.

Lemma vring_fd_request_idx buf files i f : vring_fd_request buf files = ROk (i, f) -> i < 256 /\ f = take_single files.
Proof.
  unfold vring_fd_request. destruct (_ || _); [discriminate|]. destruct (vrf_reject _ _ _); [discriminate|].
  intros H. inversion H; subst. split; [|reflexivity]. unfold vrf_index. change (2 ^ 8) with 256. apply N.mod_lt. lia.
Qed.

Lemma flags_from_bits_some w all v f : flags_from_bits w all v = Some f -> f = v.
Proof. unfold flags_from_bits. destruct (_ =? 0); [|discriminate]. intros H. inversion H. reflexivity. Qed.

Lemma config_read_valid buf n :
  bytes_ok buf = true ->
  VhostUserConfig_is_valid (VhostUserConfig_read buf 0) = true ->
  flags_from_bits 32 VhostUserConfigFlags_all (VhostUserConfig_flags (VhostUserConfig_read buf 0)) = Some n ->
  config_valid_b (VhostUserConfig_offset (VhostUserConfig_read buf 0)) (VhostUserConfig_size (VhostUserConfig_read buf 0)) n = true.
Proof.
  intros Hb Hv Hf. apply flags_from_bits_some in Hf. subst n.
  apply config_valid_b_iff. apply config_ok; [|exact Hv].
  cbn [VhostUserConfig_flags VhostUserConfig_read]. apply (rd_int_bound buf _ 4 Hb).
Qed.

Theorem dispatch_calls_valid cfg s o h files size buf :
  bytes_ok buf = true -> List.length buf = N.to_nat size ->
  forall c, In c (o_calls (snd (dispatch cfg s o h files size buf))) -> valid_call_b c = true.
Proof.
  intros Hbytes Hlen. unfold dispatch. remember (VhostUserMsgHeader_request h) as code eqn:Hcode.
  split_all; cbn [snd o_calls fail ack handler_failed In]; intros c Hin;
    try (unfold reply in Hin;
         match type of Hin with context [reply_hdr ?a ?b ?d] => destruct (reply_hdr a b d) end);
    cbn [o_calls In] in Hin;
    try (destruct Hin as [<-|[]]); try contradiction.
  all: try (apply vc_plain; reflexivity).
  all: repeat match goal with
              | H : extract _ _ _ _ ?dec _ = ROk _ |- _ =>
                  let Hd := fresh "Hdec" in
                  assert (Hd := H); unfold extract in Hd;
                  destruct (check_size _ _ _) in Hd; [|discriminate Hd];
                  apply extract_valid in H
              | H : negb _ = false |- _ => apply Bool.negb_false_iff in H
              end.
  all: try (rewrite vc_fd1 by reflexivity; reflexivity).
  all: try (rewrite vc_vring_fd by reflexivity;
            match goal with H : vring_fd_request _ _ = ROk _ |- _ => apply vring_fd_request_idx in H; destruct H as [Hi _] end;
            apply Bool.andb_true_iff; split; [apply N.ltb_lt; exact Hi|reflexivity]).
  all: try (rewrite vc_enable; match goal with H : (_ =? 1) || (_ =? 0) = true |- _ => rewrite Bool.orb_comm; exact H end).
  all: try (rewrite vc_get_config; apply config_read_valid; assumption).
  all: try (rewrite vc_get_inflight; apply inflight_valid_b_iff, inflight_ok; assumption).
  all: try (rewrite vc_set_inflight; apply Bool.andb_true_iff; split; [apply inflight_valid_b_iff, inflight_ok; assumption|reflexivity]).
  all: try (rewrite vc_log; apply Bool.andb_true_iff; split; [apply log_valid_b_iff, log_ok; assumption|reflexivity]).
  all: try (rewrite vc_state; apply Bool.andb_true_iff; split; [apply transfer_state_valid_b_iff, transfer_ok; assumption|reflexivity]).
  all: try (rewrite vc_add_mem; apply Bool.andb_true_iff; split; [apply region_val_ok; assumption|reflexivity]).
  all: try (rewrite vc_rem_mem; apply region_val_ok; assumption).
  - (* set_mem_table *)
    unfold vfds. rewrite vc_set_mem_table. rewrite !map_length, read_regions_length.
    repeat match goal with H : (_ =? _) = true |- _ => apply N.eqb_eq in H end.
    match goal with H : VhostUserMemory_is_valid _ = true |- _ => apply memory_ok in H; unfold memory_valid in H end.
    rewrite forallb_region_vals by assumption.
    repeat (apply Bool.andb_true_iff; split); try reflexivity.
    + apply Nat.leb_le. lia.
    + apply Nat.leb_le. lia.
    + apply Nat.eqb_eq. lia.
  - (* set_vring_addr *)
    rewrite vc_vring_addr.
    match goal with H : flags_from_bits _ _ _ = Some _ |- _ => apply flags_from_bits_some in H; subst end.
    apply vring_addr_valid_b_iff. apply vring_addr_ok; [|assumption].
    unfold VhostUserVringAddr_decode in Hdec. destruct (Nat.eqb _ _) in Hdec; [|discriminate Hdec].
    destruct (VhostUserVringAddr_is_valid _) in Hdec; [|discriminate Hdec]. inversion Hdec; subst.
    cbn [VhostUserVringAddr_flags VhostUserVringAddr_read]. apply (rd_int_bound buf _ 4 Hbytes).
  - (* set_config *)
    unfold vbytes. rewrite vc_set_config. rewrite hex_roundtrip by (apply bytes_ok_skipn; exact Hbytes).
    rewrite skipn_length.
    change (fty_size VhostUserConfig_layout) with 12%nat in *. change MAX_MSG_SIZE with 4096 in *.
    repeat match goal with H : (_ =? _) = true |- _ => apply N.eqb_eq in H end.
    match goal with H : (_ <? _) || (_ <? _) = false |- _ => apply Bool.orb_false_iff in H; destruct H as [_ Hlo] end.
    match goal with H : size - _ = VhostUserConfig_size _ |- _ =>
      assert (Hsz : N.of_nat (List.length buf - 12) = VhostUserConfig_size (VhostUserConfig_read buf 0))
        by (rewrite <- H, Hlen; clear - Hlo; apply N.ltb_ge in Hlo; lia)
    end.
    rewrite Hsz.
    apply config_read_valid; assumption.
  - (* get_shared_object *)
    unfold VhostUserSharedMsg_decode in Hdec. destruct (Nat.eqb _ _) eqn:El in Hdec; [|discriminate Hdec].
    destruct (VhostUserSharedMsg_is_valid _) in Hdec; [|discriminate Hdec]. inversion Hdec; subst.
    unfold vbytes. rewrite vc_shared.
    cbn [VhostUserSharedMsg_uuid VhostUserSharedMsg_read] in *.
    rewrite hex_roundtrip by (unfold rd_bytes; apply bytes_ok_firstn, bytes_ok_skipn; exact Hbytes).
    apply Bool.andb_true_iff. split.
    + unfold uuid_valid_b. unfold VhostUserSharedMsg_is_valid, uuid_is_nil, uuid_is_max in *. cbn [VhostUserSharedMsg_uuid] in *.
      rewrite <- Bool.negb_orb. assumption.
    + apply Nat.eqb_eq in El. unfold rd_bytes. rewrite firstn_length, skipn_length. apply Nat.eqb_eq.
      change (fty_size VhostUserSharedMsg_layout) with 16%nat in El.
      change (0 + field_off (field_offsets VhostUserSharedMsg_layout) "uuid")%nat with 0%nat. rewrite El. reflexivity.
  - (* get_shared_object, handler failed *)
    unfold VhostUserSharedMsg_decode in Hdec. destruct (Nat.eqb _ _) eqn:El in Hdec; [|discriminate Hdec].
    destruct (VhostUserSharedMsg_is_valid _) in Hdec; [|discriminate Hdec]. inversion Hdec; subst.
    unfold vbytes. rewrite vc_shared.
    cbn [VhostUserSharedMsg_uuid VhostUserSharedMsg_read] in *.
    rewrite hex_roundtrip by (unfold rd_bytes; apply bytes_ok_firstn, bytes_ok_skipn; exact Hbytes).
    apply Bool.andb_true_iff. split.
    + unfold uuid_valid_b. unfold VhostUserSharedMsg_is_valid, uuid_is_nil, uuid_is_max in *. cbn [VhostUserSharedMsg_uuid] in *.
      rewrite <- Bool.negb_orb. assumption.
    + apply Nat.eqb_eq in El. unfold rd_bytes. rewrite firstn_length, skipn_length. apply Nat.eqb_eq.
      change (fty_size VhostUserSharedMsg_layout) with 16%nat in El.
      change (0 + field_off (field_offsets VhostUserSharedMsg_layout) "uuid")%nat with 0%nat. rewrite El. reflexivity.
Qed.

(* ---- validation precedes the handler in the REGENERATED arm table ----
   per request code: the validation the protocol prescribes for its body / descriptors (my transcription), and the
   check that, in the arm regenerated from backend_req_handler.rs, it occurs before the handler is invoked *)
Inductive vkind := VExtract (ty : string) | VHelper (name : string) | VSingleFile.
Definition validation_table : list (N * list vkind) :=
  [(FrontendReq_SET_FEATURES, [VExtract "VhostUserU64"]);
   (FrontendReq_SET_MEM_TABLE, [VHelper "set_mem_table"]);
   (FrontendReq_SET_VRING_NUM, [VExtract "VhostUserVringState"]);
   (FrontendReq_SET_VRING_ADDR, [VExtract "VhostUserVringAddr"]);
   (FrontendReq_SET_VRING_BASE, [VExtract "VhostUserVringState"]);
   (FrontendReq_GET_VRING_BASE, [VExtract "VhostUserVringState"]);
   (FrontendReq_SET_VRING_CALL, [VHelper "handle_vring_fd_request"]);
   (FrontendReq_SET_VRING_KICK, [VHelper "handle_vring_fd_request"]);
   (FrontendReq_SET_VRING_ERR, [VHelper "handle_vring_fd_request"]);
   (FrontendReq_SET_PROTOCOL_FEATURES, [VExtract "VhostUserU64"]);
   (FrontendReq_SET_VRING_ENABLE, [VExtract "VhostUserVringState"]);
   (FrontendReq_GET_CONFIG, [VHelper "get_config"]);
   (FrontendReq_SET_CONFIG, [VHelper "set_config"]);
   (FrontendReq_SET_BACKEND_REQ_FD, [VSingleFile]);
   (FrontendReq_GET_SHARED_OBJECT, [VExtract "VhostUserSharedMsg"]);
   (FrontendReq_GET_INFLIGHT_FD, [VExtract "VhostUserInflight"]);
   (FrontendReq_SET_INFLIGHT_FD, [VSingleFile; VExtract "VhostUserInflight"]);
   (FrontendReq_GPU_SET_SOCKET, [VSingleFile]);
   (FrontendReq_ADD_MEM_REG, [VExtract "VhostUserSingleMemoryRegion"]);
   (FrontendReq_REM_MEM_REG, [VExtract "VhostUserSingleMemoryRegion"]);
   (FrontendReq_SET_DEVICE_STATE_FD, [VSingleFile; VExtract "VhostUserTransferDeviceState"]);
   (FrontendReq_SET_LOG_BASE, [VSingleFile; VExtract "VhostUserLog"])].

Fixpoint before_handler (evs : list ev) : list ev :=
  match evs with
  | [] => []
  | EvHandler _ :: _ => []
  | e :: r => e :: before_handler r
  end.
Definition has_validation (evs : list ev) (k : vkind) : bool :=
  existsb (fun e => match k, e with
                    | VExtract ty, EvExtract ty' => String.eqb ty ty'
                    | VHelper n, EvHelper n' => String.eqb n n'
                    | VSingleFile, EvTakeSingle => true
                    | _, _ => false
                    end) (before_handler evs).
Fixpoint arm_of (t : list (N * list ev)) (c : N) : option (list ev) :=
  match t with [] => None | (k, e) :: r => if k =? c then Some e else arm_of r c end.
Definition be_validation_ok : bool :=
  forallb (fun r => match arm_of be_arms (fst r) with
                    | Some evs => forallb (has_validation evs) (snd r)
                    | None => false
                    end) validation_table.
Lemma be_validation_ok_true : be_validation_ok = true.
Proof. vm_compute. reflexivity. Qed.

(* ---- the vring-descriptor request, over the expressions REGENERATED from handle_vring_fd_request ---- *)
Lemma vrf_reject_spec has_fd some nofiles :
  vrf_reject has_fd some nofiles = false <-> (has_fd = true /\ some = true) \/ (has_fd = false /\ nofiles = true).
Proof. unfold vrf_reject. destruct has_fd, some, nofiles; cbn; intuition congruence. Qed.
Lemma vrf_index_small v : vrf_index v < 256.
Proof. unfold vrf_index. change (2 ^ 8) with 256. apply N.mod_lt. discriminate. Qed.
Lemma vrf_has_fd_bit v : vrf_has_fd v = negb (N.testbit v 8).
Proof.
  unfold vrf_has_fd. change 256 with (2 ^ 8).
  destruct (N.testbit v 8) eqn:E; cbn [negb].
  - apply N.eqb_neq. intros H. assert (Hb : N.testbit (N.land v (2 ^ 8)) 8 = true) by (rewrite N.land_spec, E, N.pow2_bits_true; reflexivity).
    rewrite H in Hb. discriminate.
  - apply N.eqb_eq. apply N.bits_inj_0. intros n. rewrite N.land_spec.
    destruct (N.eq_dec n 8) as [->|Hn]; [rewrite E; reflexivity|]. rewrite N.pow2_bits_false by congruence. apply Bool.andb_false_r.
Qed.
