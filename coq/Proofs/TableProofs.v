(* Finite checks over the descriptor tables regenerated from the source
   (Gen.GenArms) against the specification tables.  Each check is a boolean
   function evaluated on the WHOLE table by vm_compute: an exhaustive proof
   over a finite object, not a sample. *)
From VV Require Import Base.Bits Base.Rt Gen.GenConsts Gen.GenArms Spec.BeSpec Spec.Gates.
Open Scope string_scope.
Open Scope list_scope.
Open Scope N_scope.

Definition ev_is_effect (e : ev) : bool :=
  match e with
  | EvHandler _ | EvAck | EvReply | EvReplyPayload | EvSock _ | EvSendReq _ _ | EvRecv _ | EvSend _ => true
  | _ => false
  end.
Fixpoint gates_first (evs : list ev) (seen : bool) : bool :=
  match evs with
  | [] => true
  | (EvGateProto _ | EvGateVirtio _) :: r => negb seen && gates_first r seen
  | e :: r => gates_first r (seen || ev_is_effect e)
  end.
Definition proto_gates (evs : list ev) : list N :=
  flat_map (fun e => match e with EvGateProto b => [b] | _ => [] end) evs.
Definition virtio_gates (evs : list ev) : list N :=
  flat_map (fun e => match e with EvGateVirtio b => [b] | _ => [] end) evs.
Definition handlers (evs : list ev) : list string :=
  flat_map (fun e => match e with EvHandler n => [n] | _ => [] end) evs.
Definition has_ack (evs : list ev) : bool := existsb (fun e => match e with EvAck => true | _ => false end) evs.
Definition has_reply (evs : list ev) : bool :=
  existsb (fun e => match e with EvReply | EvReplyPayload | EvSock _ => true | _ => false end) evs.

Definition gate_matches (g : gate) (evs : list ev) : bool :=
  match g with
  | GNone => match proto_gates evs, virtio_gates evs with [], [] => true | _, _ => false end
  | GProto b => match proto_gates evs, virtio_gates evs with [b'], [] => b' =? b | _, _ => false end
  | GVirtioPF => match proto_gates evs, virtio_gates evs with [], [b'] => b' =? VF_PROTOCOL_FEATURES | _, _ => false end
  end.

Fixpoint lookup_arm (t : list (N * list ev)) (c : N) : option (list ev) :=
  match t with [] => None | (k, e) :: r => if k =? c then Some e else lookup_arm r c end.

(* backend server: arm table vs Spec.BeSpec.req_table *)
Definition be_arm_ok (a : N * list ev) : bool :=
  match lookup_req req_table (fst a) with
  | None => false
  | Some info =>
      gate_matches (ri_gate info) (snd a)
      && gates_first (snd a) false
      && (match handlers (snd a) with [n] => String.eqb n (ri_name info) | _ => false end)
      && Bool.eqb (ri_reply info) (has_reply (snd a))
      && Bool.eqb (negb (ri_reply info)) (has_ack (snd a))
  end.
Definition be_tables_ok : bool :=
  forallb be_arm_ok be_arms
  && forallb (fun r => match lookup_arm be_arms (fst r) with Some _ => true | None => false end) req_table
  && Nat.eqb (List.length be_arms) (List.length req_table).

Lemma be_tables_ok_true : be_tables_ok = true.
Proof. vm_compute. reflexivity. Qed.

(* the reply-ack flag is recomputed after every assignment to a negotiation field,
   before the acknowledgement is written (C04) *)
Definition is_feature_field (f : string) : bool :=
  String.eqb f "virtio_features" || String.eqb f "acked_virtio_features" || String.eqb f "acked_protocol_features".
Fixpoint flag_discipline (evs : list ev) (dirty : bool) : bool :=
  match evs with
  | [] => negb dirty
  | EvAssign f :: r => flag_discipline r (dirty || is_feature_field f)
  | EvUpdateFlag :: r => flag_discipline r false
  | EvAck :: r => negb dirty && flag_discipline r dirty
  | _ :: r => flag_discipline r dirty
  end.
Definition be_flag_discipline_ok : bool := forallb (fun a => flag_discipline (snd a) false) be_arms.
Lemma be_flag_discipline_true : be_flag_discipline_ok = true.
Proof. vm_compute. reflexivity. Qed.

(* descriptors are accepted exactly on the requests the protocol attaches them to *)
Definition be_files_allowed_ok : bool :=
  forallb (fun c => fds_allowed c) be_files_allowed
  && forallb (fun c => existsb (N.eqb c) be_files_allowed) [5; 12; 13; 14; 6; 7; 21; 32; 37; 42; 33]
  && Nat.eqb (List.length be_files_allowed) 11.
Lemma be_files_allowed_true : be_files_allowed_ok = true.
Proof. vm_compute. reflexivity. Qed.

(* frontend: gate check precedes the send, and is the specified one *)
Fixpoint lookup_op (t : list (string * list ev)) (n : string) : option (list ev) :=
  match t with [] => None | (k, e) :: r => if String.eqb k n then Some e else lookup_op r n end.
Definition sent_codes (evs : list ev) : list N :=
  flat_map (fun e => match e with EvSendReq _ c => [c] | _ => [] end) evs.
Definition fe_op_ok (r : string * (N * gate)) : bool :=
  match lookup_op fe_ops (fst r) with
  | None => false
  | Some evs =>
      gate_matches (snd (snd r)) evs && gates_first evs false
      && (match sent_codes evs with [c] => c =? fst (snd r) | _ => false end)
  end.
Definition fe_tables_ok : bool :=
  forallb fe_op_ok fe_gate_table
  && forallb (fun o => existsb (fun r => String.eqb (fst r) (fst o)) fe_gate_table
                       || existsb (String.eqb (fst o)) fe_inline_gated) fe_ops.
Lemma fe_tables_ok_true : fe_tables_ok = true.
Proof. vm_compute. reflexivity. Qed.
