(* C01: the regenerated constant tables and struct layouts equal the
   specification's, and the header constructor produces the specified bytes. *)
From VV Require Import Base.Bits Base.Rt Gen.GenConsts Gen.GenLayout Gen.GenFns Spec.WireConsts.
From Coq Require Import ZArith ZifyBool ZifyN.
Open Scope string_scope.
Open Scope list_scope.
Open Scope N_scope.

Fixpoint tbl_eqb (a b : list (string * N)) : bool :=
  match a, b with
  | [], [] => true
  | (k, v) :: r, (k', v') :: r' => String.eqb k k' && (v =? v') && tbl_eqb r r'
  | _, _ => false
  end.

Definition consts_ok : bool :=
  tbl_eqb FrontendReq_table frontend_requests
  && tbl_eqb BackendReq_table backend_requests
  && tbl_eqb GpuBackendReq_table gpu_requests
  && tbl_eqb VhostUserHeaderFlag_table header_flags
  && tbl_eqb VhostUserGpuHeaderFlag_table gpu_header_flags
  && tbl_eqb VhostUserVirtioFeatures_table virtio_features
  && tbl_eqb VhostUserProtocolFeatures_table protocol_features
  && tbl_eqb VhostUserVringAddrFlags_table vring_addr_flags
  && tbl_eqb VhostUserConfigFlags_table config_flags
  && tbl_eqb VhostUserMMapFlags_table mmap_flags
  && tbl_eqb VhostTransferStateDirection_table transfer_direction
  && tbl_eqb VhostTransferStatePhase_table transfer_phase
  && (MAX_MSG_SIZE =? max_msg_size) && (MAX_ATTACHED_FD_ENTRIES =? max_attached_fds)
  && (VHOST_USER_CONFIG_SIZE =? config_space_size) && (VHOST_USER_MAX_VRINGS =? max_vrings).
Lemma consts_ok_true : consts_ok = true.
Proof. vm_compute. reflexivity. Qed.

(* layouts: total size and the offset/width of every field, computed from the regenerated
   layout descriptors by the C / packed layout rules *)
Fixpoint lookup_layout (t : list (string * fty)) (n : string) : option fty :=
  match t with [] => None | (k, l) :: r => if String.eqb k n then Some l else lookup_layout r n end.
Fixpoint offs_eqb (a b : list (string * nat * nat)) : bool :=
  match a, b with
  | [], [] => true
  | (k, o, w) :: r, (k', o', w') :: r' => String.eqb k k' && Nat.eqb o o' && Nat.eqb w w' && offs_eqb r r'
  | _, _ => false
  end.
Definition layout_ok (e : string * (nat * list (string * nat * nat))) : bool :=
  match lookup_layout all_layouts (fst e) with
  | None => false
  | Some l => Nat.eqb (fty_size l) (fst (snd e)) && offs_eqb (field_offsets l) (snd (snd e))
  end.
Definition layouts_ok : bool := forallb layout_ok layouts.
Lemma layouts_ok_true : layouts_ok = true.
Proof. vm_compute. reflexivity. Qed.

(* header bytes: for all u32 code, flags, size *)
Lemma header_bytes (R : enum_tbl) code flags size :
  VhostUserMsgHeader_write (VhostUserMsgHeader_new R code flags size)
  = le_encode 4 code ++ le_encode 4 (N.lor (N.land flags 12) 1) ++ le_encode 4 size.
Proof. reflexivity. Qed.
Lemma gpu_header_bytes (R : enum_tbl) code flags size :
  VhostUserGpuMsgHeader_write (VhostUserGpuMsgHeader_new R code flags size)
  = le_encode 4 code ++ le_encode 4 flags ++ le_encode 4 size.
Proof. reflexivity. Qed.

(* the flags of any header built by the constructor: version 1, only REPLY/NEED_REPLY besides *)
Lemma header_flags_shape flags :
  let f := N.lor (N.land flags 12) 1 in f mod 4 = 1 /\ f < 16.
Proof.
  cbv zeta. split.
  - change 4 with (2 ^ 2). rewrite <- N.land_ones. rewrite N.land_lor_distr_l.
    rewrite <- N.land_assoc. change (N.land 12 (N.ones 2)) with 0. rewrite N.land_0_r. reflexivity.
  - assert (H : N.lor (N.land flags 12) 1 = N.land (N.lor (N.land flags 12) 1) (N.ones 4)).
    { rewrite N.land_lor_distr_l, <- N.land_assoc. reflexivity. }
    rewrite H, N.land_ones. apply N.mod_lt. discriminate.
Qed.

(* decoding what the specification encodes: little-endian fields round-trip *)
Lemma u32_roundtrip v : v < 2 ^ 32 -> le_decode (le_encode 4 v) = v.
Proof. intros H. apply le_decode_encode. exact H. Qed.
Lemma u64_roundtrip v : v < 2 ^ 64 -> le_decode (le_encode 8 v) = v.
Proof. intros H. apply le_decode_encode. exact H. Qed.
