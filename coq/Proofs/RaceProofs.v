(* C12: the checked properties of the explored set lifted to every reachable state of the race system. *)
From VV Require Import Base.Bits Base.Val Base.Explore Model.Race Proofs.RaceBase.
Open Scope list_scope.
Open Scope N_scope.
Global Opaque race_set.

Definition rreach := reach rs rsteps.
Lemma race_lift (P : rs -> bool) :
  forallb P race_set = true -> forall s0 s, In s0 rinits -> rreach s0 s -> P s = true.
Proof.
  intros H. exact (lift rs rs_eqb rs_eqb_eq rsteps rinits race_set P race_closed race_inits H).
Qed.
