(* C16 (computation part): every interleaving of the daemon thread, up to three shutdown callers,
   the peer closing at any moment and a blocking handler - explored completely
   (the transition system of Model.Shutdown is finite), then lifted to all
   reachable states by a closure argument. *)
From VV Require Import Base.Bits Base.Val Model.Shutdown.
From Coq Require Import ZArith ZifyBool ZifyNat ZifyN Bool.
Open Scope list_scope.
Open Scope N_scope.

Definition st_eqb (a b : st) : bool :=
  (pc a =? pc b) && (res a =? res b) && Bool.eqb (shut a) (shut b) && Bool.eqb (pclosed a) (pclosed b)
  && (inbox a =? inbox b) && Bool.eqb (flag a) (flag b) && (c1 a =? c1 b) && (c2 a =? c2 b) && (c3 a =? c3 b)
  && Bool.eqb (gate a) (gate b) && Bool.eqb (pwill a) (pwill b).

Lemma st_eqb_eq a b : st_eqb a b = true <-> a = b.
Proof.
  split.
  - destruct a as [a1 a2 a3 a4 a5 a6 a7 a8 a9 a10 a11], b as [b1 b2 b3 b4 b5 b6 b7 b8 b9 b10 b11].
    unfold st_eqb. cbn [pc res shut pclosed inbox flag c1 c2 c3 gate pwill].
    intros H.
    repeat match type of H with _ && _ = true => apply andb_true_iff in H; let H2 := fresh "E" in destruct H as [H H2] end.
    repeat match goal with
           | E : (_ =? _) = true |- _ => apply N.eqb_eq in E
           | E : Bool.eqb _ _ = true |- _ => apply eqb_prop in E
           end.
    subst. reflexivity.
  - intros ->. unfold st_eqb. rewrite !N.eqb_refl, !eqb_reflx. reflexivity.
Qed.

Definition mem (s : st) (l : list st) : bool := existsb (st_eqb s) l.
Lemma mem_in s l : mem s l = true <-> In s l.
Proof.
  unfold mem. rewrite existsb_exists. split.
  - intros [x [Hin He]]. apply st_eqb_eq in He. subst. exact Hin.
  - intros H. exists s. split; [exact H|]. apply st_eqb_eq. reflexivity.
Qed.

(* breadth-first closure with fuel: only the states found in the previous round are expanded *)
Fixpoint add_new (cand seen fresh : list st) : list st * list st :=
  match cand with
  | [] => (seen, fresh)
  | x :: r => if mem x seen then add_new r seen fresh else add_new r (x :: seen) (x :: fresh)
  end.
Fixpoint bfs (fuel : nat) (frontier seen : list st) : list st :=
  match fuel with
  | O => seen
  | S f =>
      match frontier with
      | [] => seen
      | _ => let '(seen', fresh) := add_new (flat_map steps frontier) seen [] in bfs f fresh seen'
      end
  end.
Definition reachable_set : list st := bfs 40 inits inits.
Definition closed_b (S : list st) : bool := forallb (fun s => forallb (fun s' => mem s' S) (steps s)) S.

Inductive reach : st -> st -> Prop :=
| reach_refl s : reach s s
| reach_step s s' s'' : reach s s' -> In s'' (steps s') -> reach s s''.

Lemma closed_sound S : closed_b S = true -> forall s0 s, In s0 S -> reach s0 s -> In s S.
Proof.
  intros Hc s0 s H0 Hr. induction Hr as [|s s' s'' _ IH Hin]; [exact H0|].
  specialize (IH H0). unfold closed_b in Hc. rewrite forallb_forall in Hc. specialize (Hc s' IH).
  rewrite forallb_forall in Hc. apply (proj1 (mem_in s'' S)). apply Hc. exact Hin.
Qed.

Lemma reachable_closed : closed_b reachable_set = true.
Proof. vm_compute. reflexivity. Qed.
Lemma inits_in_reachable : forallb (fun s => mem s reachable_set) inits = true.
Proof. vm_compute. reflexivity. Qed.

(* ---- the properties ---- *)
(* once a shutdown request has returned: the thread is done, or it can move, or it sits in a handler that the
   backend has not returned from (nothing the daemon can do about that) - it is never blocked on the socket *)
Definition progress_b (s : st) : bool :=
  negb (shutdown_returned s) || (pc s =? P_DONE) || negb (Nat.eqb (List.length (thread_step s)) 0)
  || ((pc s =? P_HANDLER) && gate s).
Lemma progress_all : forallb progress_b reachable_set = true.
Proof. vm_compute. reflexivity. Qed.

(* once the thread is done after a shutdown request was started, wait() succeeds; and the socket is shut down, so
   the peer observes end-of-stream - whenever the thread is done, for whatever reason *)
Definition wait_after_shutdown_b (s : st) : bool := negb ((pc s =? P_DONE) && flag s) || wait_ok s.
Lemma wait_after_shutdown_all : forallb wait_after_shutdown_b reachable_set = true.
Proof. vm_compute. reflexivity. Qed.
Definition flag_before_return_b (s : st) : bool := negb (shutdown_returned s) || (flag s && shut s).
Lemma flag_before_return_all : forallb flag_before_return_b reachable_set = true.
Proof. vm_compute. reflexivity. Qed.
Definition eos_when_done_b (s : st) : bool := negb (pc s =? P_DONE) || shut s.
Lemma eos_when_done_all : forallb eos_when_done_b reachable_set = true.
Proof. vm_compute. reflexivity. Qed.

(* without any shutdown request the thread ends only with an error, and wait() reports it - except for the error
   class SocketBroken (the reply could not be written because the peer had gone), which wait() maps to success *)
Definition reported_b (s : st) : bool :=
  negb (no_callers s && (pc s =? P_DONE)) || (res s =? R_BROKEN) || negb (wait_ok s).
Lemma reported_all : forallb reported_b reachable_set = true.
Proof. vm_compute. reflexivity. Qed.
Definition never_ok_result_b (s : st) : bool := negb (pc s =? P_DONE) || negb (res s =? R_NONE).
Lemma never_ok_result_all : forallb never_ok_result_b reachable_set = true.
Proof. vm_compute. reflexivity. Qed.

(* the full-strength statement is false of the faithful model: a run without shutdown in which the peer disconnects
   and wait() nevertheless succeeds *)
Definition broken_witness : st :=
  {| pc := P_DONE; res := R_BROKEN; shut := true; pclosed := true; inbox := I_NONE; flag := false;
     c1 := 0; c2 := 0; c3 := 0; gate := false; pwill := false |}.
Lemma broken_witness_reachable : mem broken_witness reachable_set = true /\ no_callers broken_witness = true
                                 /\ wait_ok broken_witness = true.
Proof. vm_compute. repeat split. Qed.

(* the loop cannot run forever: every thread step either consumes what the peer queued or moves towards DONE *)
Definition measure (s : st) : N := 8 * inbox s + (if pc s =? P_READ then 6 else if pc s =? P_BODY then 5 else if pc s =? P_HANDLER then 4
                                                   else if pc s =? P_REPLY then 3 else if pc s =? P_FINAL then 1 else 0)
                                   + (if (pc s =? P_REPLY) || (pc s =? P_HANDLER) then 8 else 0).
Definition decreases_b (s : st) : bool := forallb (fun s' => measure s' <? measure s) (thread_step s).
Lemma thread_terminates_all : forallb decreases_b reachable_set = true.
Proof. vm_compute. reflexivity. Qed.

