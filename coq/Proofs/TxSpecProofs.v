(* The frontend model transmits the specification's encoding (C01, C02): for every operation and ALL argument values,
   whatever the hand model of frontend.rs (Model/Frontend.v, over the regenerated codecs and constants) puts on the
   socket is byte for byte the independent specification encoding of Spec/FeSpec.v (header: code, version 1 plus the
   NEED_REPLY bit only, payload size; payload at the specified offsets; the specified descriptors) - or nothing at all;
   and arguments the specification rejects are rejected locally, silently. *)
From VV Require Import Base.Bits Base.Rt Base.Val Gen.GenConsts Gen.GenLayout Gen.GenFns Gen.GenVrfd Model.Transport Model.Frontend
     Spec.Validity Spec.ValidityDec Spec.BeSpec Spec.Gates Spec.FeSpec Proofs.C20Proofs Proofs.WireProofs.
From Coq Require Import ZArith Lia ZifyBool ZifyNat ZifyN.
Open Scope string_scope.
Open Scope list_scope.
Open Scope N_scope.

Definition spec_wire (s : fe_state) (sp : op_spec) (body : list N) : tx :=
  (le32 (os_code sp) ++ le32 (N.lor (N.land (fe_hdr_flags s) 8) 1) ++ le32 (N.of_nat (List.length body)) ++ body, os_fds sp).

Definition sends_spec (s : fe_state) (name : string) (a data fds : list N) (regions : list (list N)) (q : stream) : Prop :=
  match spec_op (fe_maxq s) (hasf (fe_apf s) VhostUserProtocolFeatures_LOG_SHMFD) name a data fds regions with
  | Some sp =>
      match os_body sp with
      | Some body => f_sent (fe_op s name a data fds regions q) = [] \/ f_sent (fe_op s name a data fds regions q) = [spec_wire s sp body]
      | None => f_sent (fe_op s name a data fds regions q) = []
      end
  | None => True
  end.

(* ---- the request header ---- *)
Lemma land8_cases x : N.land x 8 = 0 \/ N.land x 8 = 8.
Proof.
  assert (E : N.land x 8 = N.land (x mod 16) 8).
  { rewrite <- land_15, <- N.land_assoc. reflexivity. }
  rewrite E. assert (H : x mod 16 < 16) by (apply N.mod_lt; discriminate).
  destruct (x mod 16) as [|p]; [left; reflexivity|].
  do 5 (destruct p as [p|p|]; try (exfalso; lia); try (left; reflexivity); try (right; reflexivity)).
Qed.
Lemma req_flags s : N.lor (N.land (N.lor (N.land (fe_hdr_flags s) VhostUserHeaderFlag_NEED_REPLY) 1) 12) 1 = N.lor (N.land (fe_hdr_flags s) 8) 1.
Proof. change VhostUserHeaderFlag_NEED_REPLY with 8. destruct (land8_cases (fe_hdr_flags s)) as [E|E]; rewrite E; reflexivity. Qed.

Lemma req_msg s code body fds :
  mk_msg (req_hdr s code (N.of_nat (List.length body))) body fds
  = (le32 code ++ le32 (N.lor (N.land (fe_hdr_flags s) 8) 1) ++ le32 (N.of_nat (List.length body)) ++ body, fds).
Proof.
  unfold mk_msg, req_hdr. rewrite (header_bytes RF). rewrite req_flags. unfold le32. rewrite <- !app_assoc. reflexivity.
Qed.

(* a request with a body of fixed, known size *)
Lemma req_msg_n s code n body fds : N.of_nat (List.length body) = n ->
  mk_msg (req_hdr s code n) body fds
  = (le32 code ++ le32 (N.lor (N.land (fe_hdr_flags s) 8) 1) ++ le32 (N.of_nat (List.length body)) ++ body, fds).
Proof. intros <-. apply req_msg. Qed.

(* what every exit of an operation looks like *)
Lemma ack_out_sent s h m q : f_sent (ack_out s h m q) = [m].
Proof. unfold ack_out. destruct (wait_for_ack s h q); reflexivity. Qed.
Lemma simple_ack_sent s code body fds q :
  f_sent (simple_ack s code body fds q)
  = [(le32 code ++ le32 (N.lor (N.land (fe_hdr_flags s) 8) 1) ++ le32 (N.of_nat (List.length body)) ++ body, fds)].
Proof. unfold simple_ack. rewrite ack_out_sent, req_msg. reflexivity. Qed.
Lemma get_u64_sent s code q k :
  (forall s' v m, f_sent (k s' v m) = [m]) ->
  f_sent (get_u64 s code q k) = [(le32 code ++ le32 (N.lor (N.land (fe_hdr_flags s) 8) 1) ++ le32 0 ++ [], [])].
Proof.
  intros Hk. unfold get_u64.
  rewrite (req_msg_n s code 0 [] []) by reflexivity.
  destruct (recv_reply _ _ _ _ q); [rewrite Hk|]; reflexivity.
Qed.

Ltac name_tests := cbn [String.eqb Ascii.eqb Bool.eqb orb andb negb].

Lemma tx_set_features s a data fds regions q : sends_spec s "set_features" a data fds regions q.
Proof.
  unfold sends_spec, spec_op, fe_op. name_tests. cbn [os_body os_code os_fds]. right.
  rewrite ack_out_sent. rewrite (req_msg_n s _ 8 _ []) by reflexivity. reflexivity.
Qed.

(* ---- bodies: the regenerated writers lay the fields out as the specification concatenates them ---- *)
Ltac Zify.zify_post_hook ::= Z.div_mod_to_equations.
Lemma le_encode_mod k x : le_encode k (x mod 2 ^ (8 * N.of_nat k)) = le_encode k x.
Proof.
  revert x; induction k as [|k IH]; intros x; [reflexivity|].
  cbn [le_encode].
  assert (E : 2 ^ (8 * N.of_nat (S k)) = 256 * 2 ^ (8 * N.of_nat k)).
  { replace (8 * N.of_nat (S k)) with (8 + 8 * N.of_nat k) by lia. rewrite N.pow_add_r. reflexivity. }
  rewrite E, N.mod_mul_r by (try discriminate; apply N.pow_nonzero; discriminate).
  set (z := (x / 256) mod 2 ^ (8 * N.of_nat k)).
  assert (H1 : (x mod 256 + 256 * z) mod 256 = x mod 256).
  { rewrite (N.mul_comm 256 z), N.mod_add by discriminate. apply N.mod_mod. discriminate. }
  assert (H2 : (x mod 256 + 256 * z) / 256 = z).
  { rewrite (N.mul_comm 256 z), N.div_add by discriminate. rewrite N.div_small; [reflexivity|]. apply N.mod_lt. discriminate. }
  rewrite H1, H2. unfold z. rewrite IH. reflexivity.
Qed.
Lemma le32_cast x : le_encode 4 (cast 32 x) = le_encode 4 x.
Proof. unfold cast. apply (le_encode_mod 4 x). Qed.
Lemma vstate_bytes i n : vstate (cast 32 i) n = le32 i ++ le32 n.
Proof. unfold vstate, le32. rewrite <- (le32_cast i). reflexivity. Qed.
Lemma u64b_bytes v : u64b v = le64 v.
Proof. reflexivity. Qed.

Lemma tx_set_owner s a data fds regions q : sends_spec s "set_owner" a data fds regions q.
Proof. unfold sends_spec, spec_op, fe_op. name_tests. cbn [os_body os_code os_fds]. right. rewrite simple_ack_sent. reflexivity. Qed.
Lemma tx_reset_owner s a data fds regions q : sends_spec s "reset_owner" a data fds regions q.
Proof. unfold sends_spec, spec_op, fe_op. name_tests. cbn [os_body os_code os_fds]. right. rewrite simple_ack_sent. reflexivity. Qed.
Lemma tx_set_log_fd s a data fds regions q : sends_spec s "set_log_fd" a data fds regions q.
Proof. unfold sends_spec, spec_op, fe_op. name_tests. cbn [os_body os_code os_fds]. right. rewrite simple_ack_sent. reflexivity. Qed.
Lemma tx_get_features s a data fds regions q : sends_spec s "get_features" a data fds regions q.
Proof. unfold sends_spec, spec_op, fe_op. name_tests. cbn [os_body os_code os_fds]. right. rewrite get_u64_sent by reflexivity. reflexivity. Qed.

Ltac qidx s a :=
  unfold q_ok, FeSpec.arg; rewrite (N.ltb_antisym (fe_maxq s) (nth 0 a 0));
  destruct (fe_maxq s <=? nth 0 a 0) eqn:Eq; cbn [negb andb orb].

Lemma tx_set_vring_num s a data fds regions q : sends_spec s "set_vring_num" a data fds regions q.
Proof.
  unfold sends_spec, spec_op, fe_op. name_tests. cbn [os_body os_code os_fds]. qidx s a; [reflexivity|].
  right. rewrite simple_ack_sent, vstate_bytes. reflexivity.
Qed.
Lemma tx_set_vring_base s a data fds regions q : sends_spec s "set_vring_base" a data fds regions q.
Proof.
  unfold sends_spec, spec_op, fe_op. name_tests. cbn [os_body os_code os_fds]. qidx s a; [reflexivity|].
  right. rewrite simple_ack_sent, vstate_bytes. reflexivity.
Qed.
Lemma tx_get_vring_base s a data fds regions q : sends_spec s "get_vring_base" a data fds regions q.
Proof.
  unfold sends_spec, spec_op, fe_op. name_tests. cbn [os_body os_code os_fds]. qidx s a; [reflexivity|].
  right. rewrite vstate_bytes.
  rewrite (req_msg_n s _ 8 _ []) by reflexivity.
  destruct (recv_reply _ _ _ _ q); reflexivity.
Qed.
Lemma tx_set_vring_enable s a data fds regions q : sends_spec s "set_vring_enable" a data fds regions q.
Proof.
  unfold sends_spec, spec_op, fe_op. name_tests. cbn [os_body os_code os_fds].
  destruct (hasf (fe_avf s) VhostUserVirtioFeatures_PROTOCOL_FEATURES); cbn [negb].
  - qidx s a; [reflexivity|]. right. rewrite simple_ack_sent, vstate_bytes. reflexivity.
  - unfold q_ok. destruct (FeSpec.arg a 0 <? fe_maxq s); [left|]; reflexivity.
Qed.

Ltac start := unfold sends_spec, spec_op, fe_op; name_tests; cbn [os_body os_code os_fds].

Lemma tx_set_vring_fd s name a data fds regions q :
  name = "set_vring_call" \/ name = "set_vring_kick" \/ name = "set_vring_err" -> sends_spec s name a data fds regions q.
Proof.
  intros [-> | [-> | ->]]; start; unfold q_ok, FeSpec.arg, sfv_bad, sfv_payload; rewrite (N.ltb_antisym (fe_maxq s) (nth 0 a 0));
  destruct (fe_maxq s <=? nth 0 a 0) eqn:Eq; cbn [negb andb orb]; try reflexivity;
  destruct (N.ltb_spec (nth 0 a 0) 256) as [H1|H1], (N.ltb_spec 255 (nth 0 a 0)) as [H2|H2]; try lia;
  cbn [negb andb orb]; try reflexivity;
  right; rewrite simple_ack_sent; reflexivity.
Qed.

Lemma tx_get_protocol_features s a data fds regions q : sends_spec s "get_protocol_features" a data fds regions q.
Proof.
  start. destruct (hasf (fe_vf s) VhostUserVirtioFeatures_PROTOCOL_FEATURES); cbn [negb]; [|left; reflexivity].
  right. rewrite get_u64_sent by reflexivity. reflexivity.
Qed.
Lemma tx_set_protocol_features s a data fds regions q : sends_spec s "set_protocol_features" a data fds regions q.
Proof.
  start. destruct (hasf (fe_vf s) VhostUserVirtioFeatures_PROTOCOL_FEATURES); cbn [negb]; [|left; reflexivity].
  right. rewrite ack_out_sent. rewrite (req_msg_n s _ 8 _ []) by reflexivity. reflexivity.
Qed.
Lemma tx_get_queue_num s a data fds regions q : sends_spec s "get_queue_num" a data fds regions q.
Proof.
  start. destruct (check_proto_f s VhostUserProtocolFeatures_MQ); cbn [negb]; [|left; reflexivity].
  right. rewrite get_u64_sent; [reflexivity|]. intros s' v m. destruct (VHOST_USER_MAX_VRINGS <? v); reflexivity.
Qed.
Lemma tx_reset_device s a data fds regions q : sends_spec s "reset_device" a data fds regions q.
Proof.
  start. destruct (check_proto_f s VhostUserProtocolFeatures_RESET_DEVICE); cbn [negb]; [|left; reflexivity].
  right. rewrite simple_ack_sent. reflexivity.
Qed.
Lemma tx_set_backend_request_fd s a data fds regions q : sends_spec s "set_backend_request_fd" a data fds regions q.
Proof.
  start. destruct (check_proto_f s VhostUserProtocolFeatures_BACKEND_REQ); cbn [negb]; [|left; reflexivity].
  right. rewrite simple_ack_sent. reflexivity.
Qed.
Lemma tx_get_max_mem_slots s a data fds regions q : sends_spec s "get_max_mem_slots" a data fds regions q.
Proof.
  start. destruct (check_proto_f s VhostUserProtocolFeatures_CONFIGURE_MEM_SLOTS); cbn [negb]; [|left; reflexivity].
  right. rewrite get_u64_sent by reflexivity. reflexivity.
Qed.
Lemma tx_check_device_state s a data fds regions q : sends_spec s "check_device_state" a data fds regions q.
Proof.
  start. destruct (check_proto_f s VhostUserProtocolFeatures_DEVICE_STATE); cbn [negb]; [|left; reflexivity].
  right. rewrite get_u64_sent; [reflexivity|]. intros s' v m. destruct (v =? 0); reflexivity.
Qed.
Lemma tx_get_shmem_config s a data fds regions q : sends_spec s "get_shmem_config" a data fds regions q.
Proof.
  start. destruct (check_proto_f s VhostUserProtocolFeatures_SHMEM); cbn [negb]; [|left; reflexivity].
  right. rewrite (req_msg_n s _ 0 [] []) by reflexivity. destruct (recv_reply _ _ _ _ q); reflexivity.
Qed.

Lemma vring_addr_bytes i fl d u av lg :
  VhostUserVringAddr_write {| VhostUserVringAddr_index := cast 32 i; VhostUserVringAddr_flags := fl; VhostUserVringAddr_descriptor := d;
                              VhostUserVringAddr_used := u; VhostUserVringAddr_available := av; VhostUserVringAddr_log := lg |}
  = le32 i ++ le32 fl ++ le64 d ++ le64 u ++ le64 av ++ le64 lg.
Proof. unfold le32. rewrite <- (le32_cast i). reflexivity. Qed.

Lemma tx_set_vring_addr s a data fds regions q : nth 1 a 0 < 2 ^ 32 -> sends_spec s "set_vring_addr" a data fds regions q.
Proof.
  intros Hf. start. qidx s a; [reflexivity|].
  unfold FeSpec.arg.
  change (lnot 32 VhostUserVringAddrFlags_all) with (N.shiftl (N.ones (32 - 1)) 1).
  pose proof (high_mask32 (nth 1 a 0) 1 ltac:(lia) Hf) as Hm. change (2 ^ 1) with 2 in Hm.
  destruct (N.eqb_spec (N.land (nth 1 a 0) (N.shiftl (N.ones (32 - 1)) 1)) 0) as [E|E], (N.ltb_spec (nth 1 a 0) 2) as [L|L];
    cbn [negb]; try reflexivity.
  - right. rewrite simple_ack_sent, vring_addr_bytes. reflexivity.
  - exfalso. apply Hm in E. lia.
  - exfalso. apply E, Hm, L.
Qed.

Lemma inflight_bytes ms mo nq qs :
  VhostUserInflight_write {| VhostUserInflight_mmap_size := ms; VhostUserInflight_mmap_offset := mo;
                             VhostUserInflight_num_queues := nq; VhostUserInflight_queue_size := qs |}
  = le64 ms ++ le64 mo ++ le16 nq ++ le16 qs ++ le32 0.
Proof. reflexivity. Qed.

Lemma tx_get_inflight_fd s a data fds regions q : sends_spec s "get_inflight_fd" a data fds regions q.
Proof.
  start. destruct (check_proto_f s VhostUserProtocolFeatures_INFLIGHT_SHMFD); cbn [negb]; [|left; reflexivity].
  right. rewrite inflight_bytes. unfold FeSpec.arg.
  rewrite (req_msg_n s _ (N.of_nat (sz VhostUserInflight_layout)) _ []) by reflexivity.
  destruct (recv_reply_files _ _ _ _ q) as [[r files]|e]; [|reflexivity].
  destruct files as [[|f [|f2 l]]|]; reflexivity.
Qed.
Lemma tx_set_inflight_fd s a data fds regions q : sends_spec s "set_inflight_fd" a data fds regions q.
Proof.
  start. unfold FeSpec.arg.
  destruct (check_proto_f s VhostUserProtocolFeatures_INFLIGHT_SHMFD); cbn [negb].
  2:{ destruct (_ && _ && _ && _); [left|]; reflexivity. }
  destruct (nth 0 a 0 =? 0), (nth 2 a 0 =? 0), (nth 3 a 0 =? 0), (nth 0 fds 0 =? 0); cbn [negb andb orb]; try reflexivity.
  right. rewrite simple_ack_sent, inflight_bytes. reflexivity.
Qed.

Lemma tx_set_device_state_fd s a data fds regions q : sends_spec s "set_device_state_fd" a data fds regions q.
Proof.
  start. destruct (check_proto_f s VhostUserProtocolFeatures_DEVICE_STATE); cbn [negb]; [|left; reflexivity].
  destruct (VhostUserTransferDeviceState_is_valid _); cbn [negb]; [|left; reflexivity].
  right. rewrite (req_msg_n s _ 8 _ fds) by reflexivity.
  destruct (recv_reply_opt_files _ _ _ _ q) as [[b files]|e]; [|reflexivity].
  destruct ((VhostUserU64_value b =? 256) && o_is_none files); [reflexivity|].
  destruct ((VhostUserU64_value b =? 0) && o_is_some files); [|reflexivity].
  destruct files as [[|f [|f2 l]]|]; reflexivity.
Qed.

Lemma tx_set_log_base s a data fds regions q : sends_spec s "set_log_base" a data fds regions q.
Proof.
  start. unfold FeSpec.arg.
  destruct (hasf (fe_apf s) VhostUserProtocolFeatures_LOG_SHMFD && (nth 1 a 0 =? 1)); cbn [os_body os_code os_fds]; right.
  - rewrite (req_msg_n s _ 16 _ fds) by reflexivity.
    destruct (recv_reply _ _ _ _ q); reflexivity.
  - cbn [f_sent out_ok]. rewrite (req_msg_n s _ 8 _ []) by reflexivity. reflexivity.
Qed.

Lemma single_region_bytes4 g sz0 ua off : single_region_bytes [g; sz0; ua; off] = le64 0 ++ le64 g ++ le64 sz0 ++ le64 ua ++ le64 off.
Proof. reflexivity. Qed.

Lemma tx_add_mem_region s a data fds regions q : (4 <= List.length a)%nat -> sends_spec s "add_mem_region" a data fds regions q.
Proof.
  intros Hl. destruct a as [|g [|sz0 [|ua [|off rest]]]]; cbn [List.length] in Hl; try lia.
  start. unfold FeSpec.arg, region_enc, FeSpec.arg. cbn [nth firstn].
  destruct (check_proto_f s VhostUserProtocolFeatures_CONFIGURE_MEM_SLOTS); cbn [negb].
  2:{ destruct (_ && _); [left|]; reflexivity. }
  destruct (sz0 =? 0), (nth 0 rest 0 =? 0); cbn [negb andb orb]; try reflexivity.
  right. rewrite simple_ack_sent, single_region_bytes4. reflexivity.
Qed.
Lemma tx_remove_mem_region s a data fds regions q : (4 <= List.length a)%nat -> sends_spec s "remove_mem_region" a data fds regions q.
Proof.
  intros Hl. destruct a as [|g [|sz0 [|ua [|off rest]]]]; cbn [List.length] in Hl; try lia.
  start. unfold FeSpec.arg, region_enc, FeSpec.arg. cbn [nth firstn].
  destruct (check_proto_f s VhostUserProtocolFeatures_CONFIGURE_MEM_SLOTS); cbn [negb].
  2:{ destruct (negb _); [left|]; reflexivity. }
  destruct (sz0 =? 0); cbn [negb andb orb]; try reflexivity.
  right. rewrite simple_ack_sent, single_region_bytes4. reflexivity.
Qed.

Lemma tx_get_shared_object s a data fds regions q : List.length data = 16%nat -> sends_spec s "get_shared_object" a data fds regions q.
Proof.
  intros Hl. start. rewrite Hl. cbn [Nat.eqb andb].
  assert (Ev : VhostUserSharedMsg_is_valid {| VhostUserSharedMsg_uuid := data |} = uuid_valid_b data).
  { unfold VhostUserSharedMsg_is_valid, uuid_valid_b, uuid_is_nil, uuid_is_max. cbn [VhostUserSharedMsg_uuid].
    rewrite negb_orb. reflexivity. }
  rewrite Ev. rewrite Bool.andb_true_r.
  destruct (check_proto_f s VhostUserProtocolFeatures_SHARED_OBJECT); cbn [negb].
  2:{ destruct (uuid_valid_b data); [left|]; reflexivity. }
  destruct (uuid_valid_b data); cbn [negb]; [|reflexivity].
  right.
  assert (Ef : firstn 16 (data ++ zeros 16) = data).
  { rewrite <- Hl. rewrite firstn_app, Nat.sub_diag. cbn [firstn]. rewrite app_nil_r. apply firstn_all. }
  rewrite Ef.
  rewrite (req_msg_n s _ 16 data []) by (rewrite Hl; reflexivity).
  destruct (recv_reply_files _ _ _ _ q) as [[r files]|e]; [|reflexivity].
  destruct files as [[|f [|f2 l]]|]; reflexivity.
Qed.

(* ---- variable-size payloads ---- *)
Lemma config_bytes o z f :
  VhostUserConfig_write {| VhostUserConfig_offset := o; VhostUserConfig_size := z; VhostUserConfig_flags := f |} = le32 o ++ le32 z ++ le32 f.
Proof. reflexivity. Qed.
Lemma config_valid_agree o z f : f < 2 ^ 32 ->
  VhostUserConfig_is_valid {| VhostUserConfig_offset := o; VhostUserConfig_size := z; VhostUserConfig_flags := f |} = config_valid_b o z f.
Proof.
  intros Hf.
  pose proof (config_ok {| VhostUserConfig_offset := o; VhostUserConfig_size := z; VhostUserConfig_flags := f |} Hf) as H1.
  cbn [VhostUserConfig_offset VhostUserConfig_size VhostUserConfig_flags] in H1.
  pose proof (config_valid_b_iff o z f) as H2.
  destruct (VhostUserConfig_is_valid _), (config_valid_b o z f); try reflexivity.
  - exfalso. assert (false = true) by (apply H2, H1; reflexivity). discriminate.
  - exfalso. assert (false = true) by (apply H1, H2; reflexivity). discriminate.
Qed.

Lemma tx_set_config s a data fds regions q : nth 1 a 0 < 2 ^ 32 -> sends_spec s "set_config" a data fds regions q.
Proof.
  intros Hf. start. unfold FeSpec.arg. rewrite (config_valid_agree _ _ _ Hf).
  change (N.to_nat MAX_MSG_SIZE) with 4096%nat. change (sz VhostUserConfig_layout) with 12%nat.
  set (len := List.length data).
  set (ok := config_valid_b (nth 0 a 0) (N.of_nat len) (nth 1 a 0)).
  destruct (4096 <? len)%nat eqn:E1.
  { destruct (ok && _); [left|]; reflexivity. }
  destruct ok eqn:Eok; cbn [negb andb].
  2:{ reflexivity. }
  destruct (check_proto_f s VhostUserProtocolFeatures_CONFIG); cbn [negb].
  2:{ destruct (12 + N.of_nat len <=? 4096); [left|]; reflexivity. }
  destruct (4096 <? 12 + len)%nat eqn:E2.
  { destruct (12 + N.of_nat len <=? 4096); [left|]; reflexivity. }
  assert (E3 : (12 + N.of_nat len <=? 4096) = true) by lia. rewrite E3.
  right. rewrite simple_ack_sent, config_bytes. rewrite <- !app_assoc. reflexivity.
Qed.

Lemma tx_get_config s a data fds regions q : nth 2 a 0 < 2 ^ 32 -> sends_spec s "get_config" a data fds regions q.
Proof.
  intros Hf. start. unfold FeSpec.arg. rewrite (config_valid_agree _ _ _ Hf).
  change (N.to_nat MAX_MSG_SIZE) with 4096%nat. change (sz VhostUserConfig_layout) with 12%nat.
  set (len := List.length data).
  set (ok := config_valid_b (nth 0 a 0) (nth 1 a 0) (nth 2 a 0)).
  destruct ok eqn:Eok; cbn [negb andb orb].
  2:{ reflexivity. }
  destruct (N.eqb_spec (N.of_nat len) (nth 1 a 0)) as [El|El]; cbn [negb andb].
  2:{ reflexivity. }
  destruct (check_proto_f s VhostUserProtocolFeatures_CONFIG); cbn [negb].
  2:{ destruct (12 + nth 1 a 0 <=? 4096); [left|]; reflexivity. }
  destruct (4096 <? 12 + len)%nat eqn:E2.
  { destruct (12 + nth 1 a 0 <=? 4096); [left|]; reflexivity. }
  assert (E3 : (12 + nth 1 a 0 <=? 4096) = true) by lia. rewrite E3.
  right. rewrite config_bytes.
  assert (Eh : N.of_nat (12 + len) = N.of_nat (List.length ((le32 (nth 0 a 0) ++ le32 (nth 1 a 0) ++ le32 (nth 2 a 0)) ++ data))).
  { rewrite !app_length. unfold le32. rewrite !le_encode_length. fold len. lia. }
  rewrite Eh, req_msg. rewrite <- !app_assoc.
  destruct (recv_reply_payload _ q) as [[[rb payload] files]|e]; [|reflexivity].
  destruct (o_is_some files); [reflexivity|].
  destruct (VhostUserConfig_size rb =? 0); [reflexivity|].
  destruct (_ || _ || _); reflexivity.
Qed.

Lemma region_bytes_enc r : (4 <= List.length r)%nat -> region_bytes (firstn 4 r) = region_enc r.
Proof.
  intros Hl. destruct r as [|g [|z [|ua [|off rest]]]]; cbn [List.length] in Hl; try lia. reflexivity.
Qed.
Lemma regions_bytes_enc l : Forall (fun r => (4 <= List.length r)%nat) l ->
  flat_map (fun r => region_bytes (firstn 4 r)) l = flat_map region_enc l.
Proof.
  induction 1 as [|r l Hr _ IH]; [reflexivity|]. cbn [flat_map]. rewrite IH, region_bytes_enc by exact Hr. reflexivity.
Qed.
Lemma regions_reject_agree l :
  existsb (fun r => (nth 1 r 0 =? 0) || (nth 4 r 0 =? 0)) l
  = negb (forallb (fun r => negb (FeSpec.arg r 1 =? 0) && negb (FeSpec.arg r 4 =? 0)) l).
Proof.
  induction l as [|r l IH]; [reflexivity|]. cbn [existsb forallb]. rewrite IH. unfold FeSpec.arg.
  destruct (nth 1 r 0 =? 0), (nth 4 r 0 =? 0); reflexivity.
Qed.

Lemma tx_set_mem_table s a data fds regions q :
  Forall (fun r => (4 <= List.length r)%nat) regions -> sends_spec s "set_mem_table" a data fds regions q.
Proof.
  intros Hr. start. rewrite regions_reject_agree.
  set (n := List.length regions).
  set (allok := forallb _ regions).
  destruct (Nat.eqb n 0) eqn:E0.
  { apply Nat.eqb_eq in E0. rewrite E0. reflexivity. }
  destruct (32 <? n)%nat eqn:E32; cbn [orb].
  { assert (En : Nat.leb n 32 = false) by lia. rewrite En, Bool.andb_false_r. reflexivity. }
  assert (E1 : Nat.leb 1 n = true) by lia. assert (E2 : Nat.leb n 32 = true) by lia. rewrite E1, E2. cbn [andb].
  destruct allok; cbn [negb]; [|reflexivity].
  match goal with |- context [(?x <? ?y)%nat] => destruct (x <? y)%nat end; [left; reflexivity|].
  right. rewrite ack_out_sent. rewrite <- app_length.
  rewrite req_msg. rewrite regions_bytes_enc by exact Hr.
  reflexivity.
Qed.

(* ---- every operation of the frontend endpoint ---- *)
Definition fe_op_names : list string :=
  ["get_features"; "set_features"; "set_owner"; "reset_owner"; "set_mem_table"; "set_log_base"; "set_log_fd"; "set_vring_num";
   "set_vring_addr"; "set_vring_base"; "get_vring_base"; "set_vring_kick"; "set_vring_call"; "set_vring_err";
   "get_protocol_features"; "set_protocol_features"; "get_queue_num"; "set_vring_enable"; "set_backend_request_fd";
   "get_config"; "set_config"; "get_inflight_fd"; "set_inflight_fd"; "reset_device"; "get_max_mem_slots"; "add_mem_region";
   "remove_mem_region"; "get_shared_object"; "set_device_state_fd"; "check_device_state"; "get_shmem_config"].

(* the shape the public API gives the arguments: u32 flag words, regions with their four numbers, a 16-byte UUID *)
Definition args_wf (name : string) (a data : list N) (regions : list (list N)) : Prop :=
  (name = "set_vring_addr" -> nth 1 a 0 < 2 ^ 32) /\ (name = "set_config" -> nth 1 a 0 < 2 ^ 32) /\ (name = "get_config" -> nth 2 a 0 < 2 ^ 32)
  /\ (name = "add_mem_region" \/ name = "remove_mem_region" -> (4 <= List.length a)%nat)
  /\ (name = "set_mem_table" -> Forall (fun r => (4 <= List.length r)%nat) regions)
  /\ (name = "get_shared_object" -> List.length data = 16%nat).

Theorem frontend_transmits_spec : forall name, In name fe_op_names ->
  forall s a data fds regions q, args_wf name a data regions -> sends_spec s name a data fds regions q.
Proof.
  intros name Hin s a data fds regions q (W1 & W2 & W3 & W4 & W5 & W6).
  cbn [fe_op_names In] in Hin.
  destruct Hin as [<- | Hin]; [apply tx_get_features|].
  destruct Hin as [<- | Hin]; [apply tx_set_features|].
  destruct Hin as [<- | Hin]; [apply tx_set_owner|].
  destruct Hin as [<- | Hin]; [apply tx_reset_owner|].
  destruct Hin as [<- | Hin]; [apply tx_set_mem_table; apply W5; reflexivity|].
  destruct Hin as [<- | Hin]; [apply tx_set_log_base|].
  destruct Hin as [<- | Hin]; [apply tx_set_log_fd|].
  destruct Hin as [<- | Hin]; [apply tx_set_vring_num|].
  destruct Hin as [<- | Hin]; [apply tx_set_vring_addr; apply W1; reflexivity|].
  destruct Hin as [<- | Hin]; [apply tx_set_vring_base|].
  destruct Hin as [<- | Hin]; [apply tx_get_vring_base|].
  destruct Hin as [<- | Hin]; [apply tx_set_vring_fd; tauto|].
  destruct Hin as [<- | Hin]; [apply tx_set_vring_fd; tauto|].
  destruct Hin as [<- | Hin]; [apply tx_set_vring_fd; tauto|].
  destruct Hin as [<- | Hin]; [apply tx_get_protocol_features|].
  destruct Hin as [<- | Hin]; [apply tx_set_protocol_features|].
  destruct Hin as [<- | Hin]; [apply tx_get_queue_num|].
  destruct Hin as [<- | Hin]; [apply tx_set_vring_enable|].
  destruct Hin as [<- | Hin]; [apply tx_set_backend_request_fd|].
  destruct Hin as [<- | Hin]; [apply tx_get_config; apply W3; reflexivity|].
  destruct Hin as [<- | Hin]; [apply tx_set_config; apply W2; reflexivity|].
  destruct Hin as [<- | Hin]; [apply tx_get_inflight_fd|].
  destruct Hin as [<- | Hin]; [apply tx_set_inflight_fd|].
  destruct Hin as [<- | Hin]; [apply tx_reset_device|].
  destruct Hin as [<- | Hin]; [apply tx_get_max_mem_slots|].
  destruct Hin as [<- | Hin]; [apply tx_add_mem_region; apply W4; left; reflexivity|].
  destruct Hin as [<- | Hin]; [apply tx_remove_mem_region; apply W4; right; reflexivity|].
  destruct Hin as [<- | Hin]; [apply tx_get_shared_object; apply W6; reflexivity|].
  destruct Hin as [<- | Hin]; [apply tx_set_device_state_fd|].
  destruct Hin as [<- | Hin]; [apply tx_check_device_state|].
  destruct Hin as [<- | Hin]; [apply tx_get_shmem_config|].
  contradiction.
Qed.

(* the list above is every operation the specification knows *)
Lemma fe_op_names_complete : forall maxq l name a data fds regions,
  spec_op maxq l name a data fds regions <> None -> existsb (String.eqb name) fe_op_names = true.
Proof.
  intros maxq l name a data fds regions H. unfold spec_op in H. cbn [fe_op_names existsb].
  repeat match goal with
         | H : context [if String.eqb name ?x then _ else _] |- _ => destruct (String.eqb name x) eqn:?; [rewrite ?Bool.orb_true_r; reflexivity|]
         end.
  contradiction.
Qed.

(* non-vacuity: the right-hand disjunct is reached, e.g. SET_VRING_NUM(1, 64) on a two-queue endpoint puts 20 bytes on the wire *)
Example tx_example :
  f_sent (fe_op (fe_init 2) "set_vring_num" [1; 64] [] [] [] [])
  = [([8; 0; 0; 0; 1; 0; 0; 0; 8; 0; 0; 0; 1; 0; 0; 0; 64; 0; 0; 0], [])].
Proof. vm_compute. reflexivity. Qed.

(* the local refusal and payload of the vring-descriptor messages, REGENERATED from send_fd_for_vring *)
Lemma sfv_bad_spec q mx : sfv_bad q mx = false <-> (q < mx /\ q <= 255).
Proof. unfold sfv_bad. lia. Qed.
Lemma sfv_payload_is_index q : sfv_payload q = q.
Proof. reflexivity. Qed.
