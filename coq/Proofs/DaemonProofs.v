(* Lemmas about the daemon model (Model.Daemon): kick routing arithmetic (C17). *)
From VV Require Import Base.Bits Base.Rt Base.Val Gen.GenRoute Model.Daemon Spec.DaemonSpec.
Open Scope string_scope.
From Coq Require Import ZArith ZifyBool ZifyNat ZifyN.
Open Scope list_scope.
Open Scope N_scope.

(* popcount m = (m mod 2) + popcount (m / 2) *)
Lemma popcount_div2 m : popcount m = m mod 2 + popcount (m / 2).
Proof.
  destruct m as [|p]; [reflexivity|].
  destruct p as [p|p|]; cbn [popcount popcount_pos].
  - change (N.pos p~1) with (2 * N.pos p + 1).
    replace ((2 * N.pos p + 1) mod 2) with 1 by (rewrite N.add_comm, N.mul_comm, N.mod_add by lia; reflexivity).
    replace ((2 * N.pos p + 1) / 2) with (N.pos p) by (rewrite N.add_comm, N.mul_comm, N.div_add by lia; reflexivity).
    reflexivity.
  - change (N.pos p~0) with (2 * N.pos p).
    rewrite N.mul_comm, N.mod_mul, N.div_mul by lia. reflexivity.
  - reflexivity.
Qed.

(* the bits below q and the bits from q on *)
Lemma popcount_split : forall q m, popcount m = popcount (m mod 2 ^ q) + popcount (N.shiftr m q).
Proof.
  intros q. induction q as [|q IH] using N.peano_ind; intros m.
  - rewrite N.pow_0_r, N.mod_1_r, N.shiftr_0_r. reflexivity.
  - rewrite (popcount_div2 m). rewrite (IH (m / 2)).
    rewrite (popcount_div2 (m mod 2 ^ N.succ q)).
    assert (H2 : 2 ^ N.succ q = 2 * 2 ^ q) by (rewrite N.pow_succ_r'; reflexivity).
    assert (Hp : 2 ^ q <> 0) by (apply N.pow_nonzero; lia).
    assert (Ha : (m mod 2 ^ N.succ q) mod 2 = m mod 2).
    { rewrite H2. rewrite N.mod_mul_r by lia. rewrite N.mul_comm, N.mod_add by lia. apply N.mod_mod. lia. }
    assert (Hb : (m mod 2 ^ N.succ q) / 2 = (m / 2) mod 2 ^ q).
    { rewrite H2. rewrite N.mod_mul_r by lia. rewrite N.mul_comm, N.div_add by lia.
      rewrite (N.div_small (m mod 2) 2) by (apply N.mod_lt; lia). reflexivity. }
    assert (Hc : N.shiftr m (N.succ q) = N.shiftr (m / 2) q).
    { rewrite !N.shiftr_div_pow2, H2, N.div_div by lia. reflexivity. }
    rewrite Ha, Hb, Hc. lia.
Qed.

(* C17, event id: popcount(mask) - popcount(mask >> q) is the number of lower-numbered queues in the mask *)
Lemma rank_formula m q : popcount m - popcount (N.shiftr m q) = popcount (m mod 2 ^ q).
Proof. pose proof (popcount_split q m). lia. Qed.

Fixpoint list_eqb_s (a b : list string) : bool :=
  match a, b with
  | [], [] => true
  | x :: ra, y :: rb => String.eqb x y && list_eqb_s ra rb
  | _, _ => false
  end.
(* the regenerated membership test is "bit q of the mask", the regenerated event id is the rank *)
Lemma land1_testbit x : (N.land x 1 =? 1) = N.testbit x 0.
Proof.
  change 1 with (N.ones 1) at 1. rewrite N.land_ones. change (2 ^ 1) with 2. rewrite <- N.bit0_mod.
  destruct (N.testbit x 0); reflexivity.
Qed.
Lemma route_hit_testbit m q : route_hit (route_shift m q) = N.testbit m q.
Proof. unfold route_hit, route_shift. rewrite land1_testbit, N.shiftr_spec by apply N.le_0_l. rewrite N.add_0_l. reflexivity. Qed.
Lemma route_member_testbit m q : route_member m q = N.testbit m q.
Proof. unfold route_member. rewrite land1_testbit, N.shiftr_spec by apply N.le_0_l. rewrite N.add_0_l. reflexivity. Qed.
Lemma route_evt_rank m q : route_evt m (route_shift m q) = popcount (m mod 2 ^ q).
Proof. unfold route_evt, route_shift. apply rank_formula. Qed.
(* the subtraction of the source cannot underflow (it is checked arithmetic in debug builds) *)
Lemma route_evt_no_underflow m q : popcount (route_shift m q) <= popcount m.
Proof. unfold route_shift. pose proof (popcount_split q m). lia. Qed.
(* registration and unregistration compute the same worker and the same id *)
Lemma unroute_same : forall m q, unroute_shift m q = route_shift m q /\ unroute_hit (unroute_shift m q) = route_hit (route_shift m q)
                                 /\ unroute_evt m (unroute_shift m q) = route_evt m (route_shift m q).
Proof. intros m q. repeat split; reflexivity. Qed.
(* the shape around the expressions: one loop over the worker masks in order, the hit worker's own handler, the event
   id itself handed over, and the loop stops at the first hit *)
Definition route_shape_ok : bool :=
  list_eqb_s route_shape
    ["for (thread_index , queues_mask) in self . queues_per_thread . iter () . enumerate ()";
     "register_event on self . handlers [thread_index] with fd . as_raw_fd () , EventSet :: IN , u64 :: from (evt_idx)";
     "unregister_event on self . handlers [thread_index] with fd . as_raw_fd () , EventSet :: IN , u64 :: from (evt_idx)";
     "break"; "event id variable evt_idx"]
  && list_eqb_s unroute_shape
    ["for (thread_index , queues_mask) in self . queues_per_thread . iter () . enumerate ()";
     "unregister_event on self . handlers [thread_index] with fd . as_raw_fd () , EventSet :: IN , u64 :: from (evt_idx)";
     "break"; "event id variable evt_idx"]
  && list_eqb_s route_new_shape
    ["for (thread_id , queues_mask) in queues_per_thread . iter () . enumerate ()";
     "for (index , vring) in vrings . iter () . enumerate ()";
     "then { thread_vrings . push (vring . clone ()) ; }";
     "VringEpollHandler::new with backend . clone () , thread_vrings , thread_id"].
Lemma route_shape_ok_true : route_shape_ok = true.
Proof. vm_compute. reflexivity. Qed.

(* the model's owner computation is the specification's *)
Lemma owner_is_spec : forall masks q t,
  owner_of masks q t = match spec_owner masks q (N.of_nat t) with
                       | Some (w, r) => Some (N.to_nat w, r)
                       | None => None
                       end.
Proof.
  induction masks as [|m r IH]; intros q t; cbn [owner_of spec_owner]; [reflexivity|].
  cbv zeta. rewrite route_hit_testbit.
  destruct (N.testbit m q).
  - rewrite route_evt_rank, Nat2N.id. reflexivity.
  - rewrite IH. replace (N.of_nat (S t)) with (N.of_nat t + 1) by lia. reflexivity.
Qed.

(* one more bit: popcount (m mod 2^(k+1)) = popcount (m mod 2^k) + [bit k of m] *)
Lemma popcount_mod_succ m k :
  popcount (m mod 2 ^ N.succ k) = popcount (m mod 2 ^ k) + (if N.testbit m k then 1 else 0).
Proof.
  rewrite (popcount_split k (m mod 2 ^ N.succ k)).
  assert (Hp : 2 ^ k <> 0) by (apply N.pow_nonzero; lia).
  assert (H2 : 2 ^ N.succ k = 2 ^ k * 2) by (rewrite N.pow_succ_r'; lia).
  assert (Ha : (m mod 2 ^ N.succ k) mod 2 ^ k = m mod 2 ^ k).
  { rewrite H2, N.mod_mul_r by lia. rewrite (N.mul_comm (2 ^ k)), N.mod_add by lia. apply N.mod_mod. lia. }
  assert (Hb : N.shiftr (m mod 2 ^ N.succ k) k = if N.testbit m k then 1 else 0).
  { rewrite N.shiftr_div_pow2, H2, N.mod_mul_r by lia.
    rewrite (N.mul_comm (2 ^ k)), N.div_add by lia. rewrite (N.div_small (m mod 2 ^ k)) by (apply N.mod_lt; lia).
    rewrite N.add_0_l. rewrite <- N.testbit_spec'. destruct (N.testbit m k); reflexivity. }
  rewrite Ha, Hb. destruct (N.testbit m k); reflexivity.
Qed.

(* the number of queues below k that the mask contains, counted on the queue list *)
Lemma filter_count m : forall k,
  List.length (filter (fun q => N.testbit m q) (map N.of_nat (seq 0 k))) = N.to_nat (popcount (m mod 2 ^ N.of_nat k)).
Proof.
  induction k as [|k IH].
  - cbn. rewrite N.mod_1_r. reflexivity.
  - rewrite seq_S, map_app, filter_app, app_length, IH. cbn [map filter Nat.add].
    replace (N.of_nat (S k)) with (N.succ (N.of_nat k)) by lia.
    rewrite popcount_mod_succ. destruct (N.testbit m (N.of_nat k)); cbn [List.length]; lia.
Qed.

Lemma nth_error_filter_split {A} (P : A -> bool) (l1 l2 : list A) (x : A) :
  P x = true -> nth_error (filter P (l1 ++ x :: l2)) (List.length (filter P l1)) = Some x.
Proof.
  intros Hx. rewrite filter_app. cbn [filter]. rewrite Hx.
  rewrite nth_error_app2 by lia. rewrite Nat.sub_diag. reflexivity.
Qed.

(* C17, ring slice: in the worker's slice (the queues of its mask, in order) the element at the event id is queue q *)
Lemma slice_at_rank m nq q :
  (q < nq)%nat -> N.testbit m (N.of_nat q) = true ->
  nth_error (filter (fun x => N.testbit m x) (map N.of_nat (seq 0 nq))) (N.to_nat (popcount (m mod 2 ^ N.of_nat q)))
  = Some (N.of_nat q).
Proof.
  intros Hq Hb.
  replace nq with (q + S (nq - q - 1))%nat by lia.
  rewrite seq_app, map_app. cbn [seq map].
  rewrite <- (filter_count m q).
  apply (nth_error_filter_split (fun x => N.testbit m x)). exact Hb.
Qed.

(* C17, exit event and custom listeners: ids the routing can produce are below the queue count *)
Lemma rank_below_count m q : N.testbit m q = true -> popcount (m mod 2 ^ q) < popcount m.
Proof.
  intros Hb. pose proof (popcount_split q m) as H.
  assert (0 < popcount (N.shiftr m q)).
  { destruct (N.shiftr m q) eqn:E.
    - assert (N.testbit (N.shiftr m q) 0 = false) by (rewrite E; reflexivity).
      rewrite N.shiftr_spec' in H0. rewrite N.add_0_l in H0. congruence.
    - cbn. apply popcount_pos_pos. }
  lia.
Qed.

(* ---------- C11: registration follows the ring state ---------- *)
Definition registered (s : dstate) (t : nat) (k : kfd) : bool :=
  existsb (fun g => Nat.eqb (g_thread g) t && kfd_eqb (g_kfd g) k) (d_regs s).

Lemma existsb_filter_neg {A} (P : A -> bool) (l : list A) : existsb P (filter (fun x => negb (P x)) l) = false.
Proof.
  induction l as [|x r IH]; [reflexivity|]. cbn [filter]. destruct (P x) eqn:E; cbn [negb]; [exact IH|].
  cbn [existsb]. rewrite E, IH. reflexivity.
Qed.

(* update_vring_registration: afterwards the ring's current kick descriptor is in its owner's epoll set
   exactly when the ring is ready and enabled *)
Lemma update_reg_post s r q k t idx :
  r_kick r = Some k -> owner_of (d_masks s) q 0 = Some (t, idx) ->
  registered (update_reg s r q) t k = r_ready r && r_enabled r.
Proof.
  intros Hk Ho. unfold update_reg, GenCtl.ctl_reg_wanted. rewrite Hk, Ho.
  destruct (r_ready r && r_enabled r) eqn:E.
  - fold (registered s t k). destruct (registered s t k) eqn:Er; [exact Er|].
    unfold registered, set_regs. cbn [d_regs]. rewrite existsb_app. cbn [existsb g_thread g_kfd].
    rewrite Nat.eqb_refl. unfold kfd_eqb. rewrite !N.eqb_refl. cbn. apply orb_true_r.
  - unfold registered, set_regs. cbn [d_regs].
    apply (existsb_filter_neg (fun g => Nat.eqb (g_thread g) t && kfd_eqb (g_kfd g) k)).
Qed.

Lemma update_reg_rings s r q : d_rings (update_reg s r q) = d_rings s.
Proof.
  unfold update_reg, GenCtl.ctl_reg_wanted. destruct (r_kick r); [|reflexivity].
  destruct (owner_of (d_masks s) q 0) as [[t idx]|]; [|reflexivity].
  destruct (r_ready r && r_enabled r); [destruct (existsb _ _)|]; reflexivity.
Qed.
Lemma close_kick_rings s o : d_rings (close_kick s o) = d_rings s.
Proof. reflexivity. Qed.
Lemma nth_error_upd {A} (l : list A) : forall i x, (i < List.length l)%nat -> nth_error (upd l i x) i = Some x.
Proof.
  induction l as [|y l IH]; intros i x Hi; [cbn in Hi; lia|].
  destruct i; cbn [upd nth_error]; [reflexivity|]. apply IH. cbn in Hi. lia.
Qed.
Lemma upd_length {A} (l : list A) : forall i x, List.length (upd l i x) = List.length l.
Proof. induction l as [|y l IH]; intros [|i] x; cbn [upd List.length]; auto. Qed.

(* GET_VRING_BASE stops the ring, drops its kick and call descriptors and returns next-avail unchanged *)
Lemma get_vring_base_post s q r :
  get_ring s q = Some r ->
  exists s', h_get_vring_base s q = (s', DOk [r_next_avail r])
             /\ (forall r', get_ring s' q = Some r' -> r_ready r' = false /\ r_kick r' = None /\ r_call r' = None
                                                       /\ r_next_avail r' = r_next_avail r /\ r_enabled r' = r_enabled r).
Proof.
  intros Hr. unfold h_get_vring_base. rewrite Hr. eexists. split; [reflexivity|].
  intros r' Hr'. unfold get_ring in Hr'. rewrite close_kick_rings in Hr'.
  unfold put_ring at 1 in Hr'. unfold set_rings at 1 in Hr'. cbn [d_rings] in Hr'.
  assert (Hlt : (N.to_nat q < List.length (d_rings s))%nat).
  { unfold get_ring in Hr. apply nth_error_Some. rewrite Hr. discriminate. }
  rewrite nth_error_upd in Hr'.
  - injection Hr' as <-. cbn. repeat split; reflexivity.
  - rewrite update_reg_rings. unfold put_ring, set_rings. cbn [d_rings]. rewrite upd_length. exact Hlt.
Qed.

(* the slice VhostUserHandler::new builds (regenerated membership test) is the mask's queues in increasing order, and
   the element at the regenerated event id of queue q is q *)
Lemma slice_filter m nq :
  filter (fun x => route_member m x) (map N.of_nat (seq 0 nq)) = filter (fun x => N.testbit m x) (map N.of_nat (seq 0 nq)).
Proof. apply filter_ext. intros x. apply route_member_testbit. Qed.
Lemma slice_at_event_id m nq q :
  (q < nq)%nat -> route_hit (route_shift m (N.of_nat q)) = true ->
  nth_error (filter (fun x => route_member m x) (map N.of_nat (seq 0 nq)))
            (N.to_nat (route_evt m (route_shift m (N.of_nat q)))) = Some (N.of_nat q).
Proof.
  intros Hq Hh. rewrite route_hit_testbit in Hh. rewrite slice_filter, route_evt_rank. apply slice_at_rank; assumption.
Qed.
