(* Lemmas about the backend-initiated channel models (Model.Proxy). *)
From VV Require Import Base.Bits Base.Rt Base.Val Gen.GenConsts Gen.GenLayout Gen.GenFns Gen.GenFsAck Model.Transport Model.Proxy.
From Coq Require Import ZArith ZifyBool ZifyN.
Open Scope string_scope.
Open Scope list_scope.
Open Scope N_scope.

Ltac split_all :=
  repeat match goal with
         | |- context [match ?x with _ => _ end] =>
             lazymatch x with
             | context [match _ with _ => _ end] => fail
             | _ => destruct x eqn:?
             end
         end.

(* the acknowledgement value: the handler's number, the negated errno, or -EINVAL *)
Lemma ack_value_ok n : hres_ack (HOk n) = n.
Proof. reflexivity. Qed.
Lemma ack_value_errno e : 0 < e < 2 ^ 64 -> hres_ack (HErrno e) + e = 2 ^ 64.
Proof. intros H. unfold hres_ack, fsack_value_errno, neg64. rewrite N.mod_small by lia. lia. Qed.
Lemma ack_value_other : hres_ack HErrOther + 22 = 2 ^ 64.
Proof. reflexivity. Qed.

(* without REPLY_ACK (or without NEED_REPLY) nothing is written *)
Lemma fs_ack_silent ra h v :
  ra && VhostUserMsgHeader_is_need_reply RB h = false -> fs_ack ra h v = [].
Proof. intros H. unfold fs_ack, fsack_written. rewrite H. reflexivity. Qed.
Lemma fs_ack_one ra h v : (List.length (fs_ack ra h v) <= 1)%nat.
Proof. unfold fs_ack, fsack_written. destruct (_ && _); simpl; lia. Qed.

(* at most one handler invocation and at most one acknowledgement per request, for every input *)
Lemma fsrv_at_most_one ra hr q :
  (List.length (fo_calls (fst (fsrv_handle ra hr q))) <= 1)%nat
  /\ (List.length (fo_sent (fst (fsrv_handle ra hr q))) <= 1)%nat.
Proof.
  unfold fsrv_handle.
  split_all; cbn [fst fo_calls fo_sent fs_fail List.length]; split; try lia; try apply fs_ack_one.
Qed.

(* nothing written unless REPLY_ACK is in force *)
Lemma fsrv_silent_without_reply_ack hr q :
  fo_sent (fst (fsrv_handle false hr q)) = [].
Proof.
  unfold fsrv_handle.
  split_all; cbn [fst fo_sent fs_fail]; try reflexivity.
Qed.

(* the proxy: without REPLY_ACK it does not wait *)
Lemma px_wait_no_ack s req q : px_reply_ack s = false -> px_wait s req q = VL [VS "ok"; VN 0].
Proof. intros H. unfold px_wait. rewrite H. reflexivity. Qed.

(* with REPLY_ACK it succeeds only on a header-valid REPLY with the request's code, no descriptors, value 0 *)
Lemma px_wait_sound s req q :
  px_reply_ack s = true -> px_wait s req q = VL [VS "ok"; VN 0] ->
  exists bytes cl q',
    recv_all (fuel_for q 20) 20 [] None [] q = RxAll bytes None cl q'
    /\ List.length bytes = 20%nat
    /\ let h := VhostUserMsgHeader_read bytes 0 in
       VhostUserMsgHeader_is_valid RB h = true
       /\ VhostUserMsgHeader_is_reply_for RB h req = true
       /\ VhostUserU64_value (VhostUserU64_read bytes 12) = 0.
Proof.
  intros Ha. unfold px_wait. rewrite Ha. cbn [negb].
  destruct (recv_all _ _ _ _ _ _) as [bytes files cl q'|] eqn:E; [|discriminate].
  destruct (negb (Nat.eqb _ _)) eqn:El; [discriminate|].
  destruct (negb (VhostUserMsgHeader_is_valid RB _) || _) eqn:Ev; [discriminate|].
  destruct (negb (VhostUserMsgHeader_is_reply_for RB _ req) || o_is_some files) eqn:Er; [discriminate|].
  destruct (negb (_ =? 0)) eqn:Ez; [discriminate|]. intros _.
  apply negb_false_iff, Nat.eqb_eq in El. apply orb_false_iff in Ev as [Ev _]. apply negb_false_iff in Ev.
  apply orb_false_iff in Er as [Er1 Er2]. apply negb_false_iff in Er1. apply negb_false_iff, N.eqb_eq in Ez.
  destruct files; [discriminate|].
  exists bytes, cl, q'. repeat split; auto.
Qed.

(* a proxy operation whose feature flag is off writes nothing *)
Lemma px_refused_silent s name a uuid fds q :
  (name = "shared_object_add" \/ name = "shared_object_remove" \/ name = "shared_object_lookup") ->
  px_shared s = false -> po_sent (px_op s name a uuid fds q) = [].
Proof.
  intros [-> | [-> | ->]] H; unfold px_op; cbn [String.eqb Ascii.eqb Bool.eqb andb]; rewrite H; reflexivity.
Qed.
Lemma px_refused_silent_shmem s name a uuid fds q :
  (name = "shmem_map" \/ name = "shmem_unmap") ->
  px_shmem s = false -> po_sent (px_op s name a uuid fds q) = [].
Proof.
  intros [-> | ->] H; unfold px_op; cbn [String.eqb Ascii.eqb Bool.eqb andb]; rewrite H; reflexivity.
Qed.

(* the expressions REGENERATED from check_msg_size / send_ack_message (Gen.GenFsAck) *)
Lemma fs_size_bad_spec hs ir v sz ex : fs_size_bad hs ir v sz ex = false <-> (hs = ex /\ ir = false /\ v = 1 /\ sz = ex).
Proof. unfold fs_size_bad. destruct ir; lia. Qed.
Lemma fsack_written_spec ra nr : fsack_written ra nr = ra && nr.
Proof. reflexivity. Qed.
Lemma fsack_values n e : fsack_value_ok n = n /\ fsack_value_errno e = neg64 e /\ fsack_value_noerrno = neg64 22 /\ fsack_value_other = neg64 22.
Proof. repeat split; reflexivity. Qed.
Definition fsack_shape_ok : bool :=
  match fsack_shape with
  | [a; b; c; d] =>
      String.eqb a "let hdr = self . new_reply_header :: < VhostUserU64 > (req) ?" && String.eqb b "let msg = VhostUserU64 :: new (val)"
      && String.eqb c "self . sub_sock . send_message (& hdr , & msg , None) ? ;" && String.eqb d "after: Ok (())"
  | _ => false
  end.
Lemma fsack_shape_ok_true : fsack_shape_ok = true.
Proof. vm_compute. reflexivity. Qed.
