(* C11: the registration invariant as an INDUCTIVE invariant over all histories of the ring-control handlers of the
   daemon model (any number of rings, workers and messages): after every history, each ring's current kick descriptor is
   in its owner's epoll set exactly when the ring is started and enabled. *)
From VV Require Import Base.Bits Base.Rt Base.Val Gen.GenConsts Model.Daemon Proofs.DaemonProofs Proofs.MemProofs.
From Coq Require Import ZArith ZifyBool ZifyNat ZifyN Bool.
Open Scope list_scope.
Open Scope N_scope.

Definition ring_ok (s : dstate) (q : N) : Prop :=
  forall r t idx k, get_ring s q = Some r -> owner_of (d_masks s) q 0 = Some (t, idx) -> r_kick r = Some k ->
                    registered s t k = r_ready r && r_enabled r.
(* kick descriptors of different rings are different instances, all older than the next instance number *)
Definition kicks_distinct (s : dstate) : Prop :=
  forall q q' r r' k k', N.to_nat q <> N.to_nat q' -> get_ring s q = Some r -> get_ring s q' = Some r' ->
                         r_kick r = Some k -> r_kick r' = Some k' -> k_inst k <> k_inst k'.
Definition kicks_old (s : dstate) : Prop :=
  forall q r k, get_ring s q = Some r -> r_kick r = Some k -> k_inst k < d_next_inst s.
Definition RInv (s : dstate) : Prop := (forall q, ring_ok s q) /\ kicks_distinct s /\ kicks_old s.

(* ---- frame lemmas ---- *)
Lemma kfd_eqb_false_inst a b : k_inst a <> k_inst b -> kfd_eqb a b = false.
Proof. intros H. unfold kfd_eqb. destruct (k_inst a =? k_inst b) eqn:E; [apply N.eqb_eq in E; contradiction|]. apply andb_false_r. Qed.

Lemma registered_filter_other (regs : list reg) t k t' k' :
  kfd_eqb k' k = false \/ Nat.eqb t' t = false ->
  existsb (fun g => Nat.eqb (g_thread g) t' && kfd_eqb (g_kfd g) k')
          (filter (fun g => negb (Nat.eqb (g_thread g) t && kfd_eqb (g_kfd g) k)) regs)
  = existsb (fun g => Nat.eqb (g_thread g) t' && kfd_eqb (g_kfd g) k') regs.
Proof.
  intros Hne. induction regs as [|g regs IH]; [reflexivity|].
  cbn [filter existsb].
  destruct (Nat.eqb (g_thread g) t && kfd_eqb (g_kfd g) k) eqn:E; cbn [negb].
  - (* g is removed: it cannot be the (t', k') entry *)
    rewrite IH.
    assert (Hg : Nat.eqb (g_thread g) t' && kfd_eqb (g_kfd g) k' = false).
    { apply andb_true_iff in E. destruct E as [E1 E2]. apply Nat.eqb_eq in E1.
      unfold kfd_eqb in E2. apply andb_true_iff in E2. destruct E2 as [E2 E3]. apply N.eqb_eq in E2. apply N.eqb_eq in E3.
      destruct Hne as [Hk|Ht].
      - unfold kfd_eqb in *. rewrite E2, E3. rewrite (N.eqb_sym (k_file k) (k_file k')), (N.eqb_sym (k_inst k) (k_inst k')).
        rewrite Hk. apply andb_false_r.
      - rewrite E1. rewrite Nat.eqb_sym, Ht. reflexivity. }
    rewrite Hg. reflexivity.
  - cbn [existsb]. rewrite IH. reflexivity.
Qed.

(* update_reg for ring q with descriptor k touches no other descriptor's registration *)
Lemma update_reg_frame s r q k t' k' :
  r_kick r = Some k -> kfd_eqb k' k = false ->
  registered (update_reg s r q) t' k' = registered s t' k'.
Proof.
  intros Hk Hne. unfold update_reg, GenCtl.ctl_reg_wanted. rewrite Hk.
  destruct (owner_of (d_masks s) q 0) as [[t idx]|]; [|reflexivity].
  destruct (r_ready r && r_enabled r).
  - destruct (existsb _ (d_regs s)); [reflexivity|].
    unfold registered, set_regs. cbn [d_regs]. rewrite existsb_app. cbn [existsb g_thread g_kfd].
    unfold kfd_eqb in Hne |- *.
    rewrite (N.eqb_sym (k_file k) (k_file k')), (N.eqb_sym (k_inst k) (k_inst k')), Hne. rewrite andb_false_r. cbn. apply orb_false_r.
  - unfold registered, set_regs. cbn [d_regs]. apply registered_filter_other. left. exact Hne.
Qed.
Lemma update_reg_nokick s r q : r_kick r = None -> update_reg s r q = s.
Proof. intros H. unfold update_reg. rewrite H. reflexivity. Qed.
Lemma update_reg_masks s r q : d_masks (update_reg s r q) = d_masks s /\ d_next_inst (update_reg s r q) = d_next_inst s.
Proof.
  unfold update_reg. destruct (r_kick r); [|auto]. destruct (owner_of _ _ _) as [[t i]|]; [|auto].
  destruct (GenCtl.ctl_reg_wanted _ _); [destruct (existsb _ _)|]; auto.
Qed.

Lemma registered_put_ring s q r t k : registered (put_ring s q r) t k = registered s t k.
Proof. reflexivity. Qed.
Lemma get_ring_update_reg' s r q q' : get_ring (update_reg s r q) q' = get_ring s q'.
Proof. unfold get_ring. rewrite update_reg_rings. reflexivity. Qed.

(* changing a ring's flags (not its kick descriptor) and refreshing its registration keeps the invariant *)
Lemma ring_update_inv s q r r1 :
  RInv s -> get_ring s q = Some r -> r_kick r1 = r_kick r ->
  RInv (update_reg (put_ring s q r1) r1 q).
Proof.
  intros [Hok [Hd Ho]] Hr Hk.
  set (s1 := put_ring s q r1). set (s2 := update_reg s1 r1 q).
  assert (Hm : d_masks s2 = d_masks s) by (unfold s2; rewrite (proj1 (update_reg_masks s1 r1 q)); reflexivity).
  assert (Hn : d_next_inst s2 = d_next_inst s) by (unfold s2; rewrite (proj2 (update_reg_masks s1 r1 q)); reflexivity).
  assert (Hsame : get_ring s2 q = Some r1).
  { unfold s2. rewrite get_ring_update_reg'. eapply get_put_ring_same. exact Hr. }
  assert (Hoth : forall q', N.to_nat q <> N.to_nat q' -> get_ring s2 q' = get_ring s q').
  { intros q' Hne. unfold s2. rewrite get_ring_update_reg'. apply get_put_ring_other. exact Hne. }
  split; [|split].
  - intros q' r' t idx k Hr' Hown Hk'. rewrite Hm in Hown.
    destruct (Nat.eq_dec (N.to_nat q) (N.to_nat q')) as [He|Hne].
    + apply N2Nat.inj in He. subst q'. rewrite Hsame in Hr'. inversion Hr'; subst r'.
      unfold s2. apply (update_reg_post s1 r1 q k t idx); [exact Hk'|]. exact Hown.
    + rewrite (Hoth q' Hne) in Hr'.
      destruct (r_kick r1) as [k1|] eqn:Hk1.
      * assert (Hne_k : kfd_eqb k k1 = false).
        { apply kfd_eqb_false_inst. rewrite Hk in Hk1. intros Heq. eapply (Hd q' q r' r k k1); eauto. }
        unfold s2. rewrite (update_reg_frame s1 r1 q k1 t k Hk1 Hne_k). unfold s1. rewrite registered_put_ring.
        eapply Hok; eauto.
      * unfold s2. rewrite update_reg_nokick by exact Hk1. unfold s1. rewrite registered_put_ring. eapply Hok; eauto.
  - intros a b ra rb ka kb Hne Ha Hb Hka Hkb.
    assert (Hget : forall x rx kx, get_ring s2 x = Some rx -> r_kick rx = Some kx -> exists rx0, get_ring s x = Some rx0 /\ r_kick rx0 = Some kx).
    { intros x rx kx Hx Hkx. destruct (Nat.eq_dec (N.to_nat q) (N.to_nat x)) as [He|Hn'].
      - apply N2Nat.inj in He. subst x. rewrite Hsame in Hx. inversion Hx; subst rx. exists r. split; [exact Hr|]. rewrite <- Hk. exact Hkx.
      - rewrite (Hoth x Hn') in Hx. eauto. }
    destruct (Hget a ra ka Ha Hka) as [ra0 [Ha0 Hka0]]. destruct (Hget b rb kb Hb Hkb) as [rb0 [Hb0 Hkb0]].
    eapply Hd; eauto.
  - intros x rx kx Hx Hkx. rewrite Hn.
    destruct (Nat.eq_dec (N.to_nat q) (N.to_nat x)) as [He|Hn'].
    + apply N2Nat.inj in He. subst x. rewrite Hsame in Hx. inversion Hx; subst rx. eapply Ho; [exact Hr|]. rewrite <- Hk. exact Hkx.
    + rewrite (Hoth x Hn') in Hx. eapply Ho; eauto.
Qed.

(* a ring rewritten with the same kick descriptor and the same ready / enabled flags *)
Lemma put_ring_flags_inv s q r r1 :
  RInv s -> get_ring s q = Some r -> r_kick r1 = r_kick r -> r_ready r1 = r_ready r -> r_enabled r1 = r_enabled r ->
  RInv (put_ring s q r1).
Proof.
  intros [Hok [Hd Ho]] Hr Hk Hrd Hen.
  assert (Hsame : get_ring (put_ring s q r1) q = Some r1) by (eapply get_put_ring_same; exact Hr).
  assert (Hoth : forall q', N.to_nat q <> N.to_nat q' -> get_ring (put_ring s q r1) q' = get_ring s q') by (intros; apply get_put_ring_other; assumption).
  assert (Hget : forall x rx kx, get_ring (put_ring s q r1) x = Some rx -> r_kick rx = Some kx ->
                                 exists rx0, get_ring s x = Some rx0 /\ r_kick rx0 = Some kx /\ r_ready rx0 = r_ready rx /\ r_enabled rx0 = r_enabled rx).
  { intros x rx kx Hx Hkx. destruct (Nat.eq_dec (N.to_nat q) (N.to_nat x)) as [He|Hn'].
    - apply N2Nat.inj in He. subst x. rewrite Hsame in Hx. inversion Hx; subst rx. exists r. repeat split; auto. rewrite <- Hk. exact Hkx.
    - rewrite (Hoth x Hn') in Hx. exists rx. auto. }
  split; [|split].
  - intros q' r' t idx k Hr' Hown Hk'. destruct (Hget q' r' k Hr' Hk') as [r0 [H0 [Hk0 [Hr0 He0]]]].
    rewrite registered_put_ring. rewrite <- Hr0, <- He0. eapply Hok; eauto.
  - intros a b ra rb ka kb Hne Ha Hb Hka Hkb.
    destruct (Hget a ra ka Ha Hka) as [ra0 [Ha0 [Hka0 _]]]. destruct (Hget b rb kb Hb Hkb) as [rb0 [Hb0 [Hkb0 _]]]. eapply Hd; eauto.
  - intros x rx kx Hx Hkx. destruct (Hget x rx kx Hx Hkx) as [r0 [H0 [Hk0 _]]]. change (d_next_inst (put_ring s q r1)) with (d_next_inst s). eapply Ho; eauto.
Qed.

Lemma with_ring_kick r a b k c : r_kick (with_ring r a b k c) = k.  Proof. reflexivity. Qed.
Lemma with_ring_ready r a b k c : r_ready (with_ring r a b k c) = a.  Proof. reflexivity. Qed.
Lemma with_ring_enabled r a b k c : r_enabled (with_ring r a b k c) = b.  Proof. reflexivity. Qed.

Lemma set_vring_enable_inv s q e : RInv s -> RInv (fst (h_set_vring_enable s q e)).
Proof.
  intros H. unfold h_set_vring_enable. destruct (negb (hasd (d_acked s) PFB)); [exact H|].
  destruct (get_ring s q) as [r|] eqn:Hr; [|exact H]. cbn [fst].
  eapply ring_update_inv; [exact H|exact Hr|reflexivity].
Qed.

Lemma set_vring_call_inv s q f : RInv s -> RInv (fst (h_set_vring_call s q f)).
Proof.
  intros H. unfold h_set_vring_call. destruct (get_ring s q) as [r|] eqn:Hr; [|exact H].
  set (r1 := with_ring r (r_ready r) (r_enabled r) (r_kick r) (Some f)).
  assert (H1 : RInv (put_ring s q r1)) by (eapply put_ring_flags_inv; eauto).
  unfold GenCtl.ctl_needs_init. destruct (negb (r_ready r1) && o_is_some (r_kick r1)); cbn [fst]; [|exact H1].
  eapply ring_update_inv; [exact H1|eapply get_put_ring_same; exact Hr|reflexivity].
Qed.

(* enabling / disabling every ring in turn *)
Lemma enable_all_inv : forall n s q e, RInv s -> RInv (enable_all s n q e).
Proof.
  induction n as [|n IH]; intros s q e H; [exact H|]. cbn [enable_all].
  destruct (get_ring s q) as [r|] eqn:Hr; [|exact H].
  apply IH. eapply ring_update_inv; [exact H|exact Hr|reflexivity].
Qed.

(* only rings (their kick / ready / enabled), registrations, masks and the instance counter matter *)
Lemma RInv_ext s s' (f : ring -> ring) :
  d_rings s' = map f (d_rings s) -> d_regs s' = d_regs s -> d_masks s' = d_masks s -> d_next_inst s' = d_next_inst s ->
  (forall r, r_kick (f r) = r_kick r /\ r_ready (f r) = r_ready r /\ r_enabled (f r) = r_enabled r) ->
  RInv s -> RInv s'.
Proof.
  intros Hrings Hregs Hmasks Hnext Hf [Hok [Hd Ho]].
  assert (Hget : forall x rx, get_ring s' x = Some rx -> exists r0, get_ring s x = Some r0 /\ rx = f r0).
  { intros x rx Hx. unfold get_ring in *. rewrite Hrings, nth_error_map in Hx.
    destruct (nth_error (d_rings s) (N.to_nat x)) as [r0|]; [|discriminate]. inversion Hx. eauto. }
  assert (Hreg : forall t k, registered s' t k = registered s t k) by (intros; unfold registered; rewrite Hregs; reflexivity).
  split; [|split].
  - intros q r t idx k Hr Hown Hk. destruct (Hget q r Hr) as [r0 [H0 ->]]. destruct (Hf r0) as [Hfk [Hfr Hfe]].
    rewrite Hreg, Hfr, Hfe. rewrite Hmasks in Hown. rewrite Hfk in Hk. eapply Hok; eauto.
  - intros a b ra rb ka kb Hne Ha Hb Hka Hkb.
    destruct (Hget a ra Ha) as [ra0 [Ha0 ->]]. destruct (Hget b rb Hb) as [rb0 [Hb0 ->]].
    rewrite (proj1 (Hf ra0)) in Hka. rewrite (proj1 (Hf rb0)) in Hkb. eapply Hd; eauto.
  - intros x rx kx Hx Hkx. destruct (Hget x rx Hx) as [r0 [H0 ->]]. rewrite (proj1 (Hf r0)) in Hkx. rewrite Hnext. eapply Ho; eauto.
Qed.

Lemma RInv_same s s' :
  d_rings s' = d_rings s -> d_regs s' = d_regs s -> d_masks s' = d_masks s -> d_next_inst s' = d_next_inst s -> RInv s -> RInv s'.
Proof.
  intros H1 H2 H3 H4. apply (RInv_ext s s' (fun r => r)); auto. rewrite map_id. exact H1.
Qed.

Lemma reset_device_inv s : RInv s -> RInv (fst (h_reset_device s)).
Proof.
  intros H. unfold h_reset_device. cbn [fst].
  eapply RInv_same; [| | | |apply (enable_all_inv (d_nq s) s 0 false H)]; reflexivity.
Qed.

Lemma set_features_inv s v : RInv s -> RInv (fst (h_set_features s v)).
Proof.
  intros H. unfold h_set_features. destruct (negb (_ =? 0)); [exact H|]. cbn [fst].
  set (s1 := set_misc s (d_owned s) v (d_acked_proto s) (d_rq_acked s) (d_rq_acked_proto s) (d_fe_avf s) (d_fe_apf s) (d_fe_maxq s)).
  assert (H1 : RInv s1) by (eapply RInv_same; [| | | |exact H]; reflexivity).
  set (s2 := if hasd v PFB then s1 else enable_all s1 (d_nq s1) 0 true).
  assert (H2 : RInv s2) by (unfold s2; destruct (hasd v PFB); [exact H1|apply enable_all_inv; exact H1]).
  eapply (RInv_ext s2 _ (fun r => {| r_ready := r_ready r; r_enabled := r_enabled r; r_kick := r_kick r; r_call := r_call r; r_err := r_err r;
                                     r_size := r_size r; r_next_avail := r_next_avail r; r_next_used := r_next_used r;
                                     r_desc := r_desc r; r_avail := r_avail r; r_used := r_used r; r_event_idx := hasd v (2 ^ 29) |}));
    [reflexivity|reflexivity|reflexivity|reflexivity| |exact H2].
  intros r. cbn. auto.
Qed.

Lemma existsb_filter_keep {A} (P Q : A -> bool) (l : list A) :
  (forall x, P x = true -> Q x = true) -> existsb P (filter Q l) = existsb P l.
Proof.
  intros H. induction l as [|x l IH]; [reflexivity|]. cbn [filter existsb].
  destruct (Q x) eqn:EQ; cbn [existsb]; [rewrite IH; reflexivity|].
  destruct (P x) eqn:EP; [rewrite (H x EP) in EQ; discriminate|]. rewrite IH. reflexivity.
Qed.

(* closing a descriptor (garbage collection of registrations whose file has no holder left) does not remove the
   registration of a descriptor some ring still holds *)
Lemma registered_gc s o t k q r :
  get_ring s q = Some r -> r_kick r = Some k -> registered (close_kick s o) t k = registered s t k.
Proof.
  intros Hr Hk. unfold close_kick, registered, set_regs, gc_regs. cbn [d_regs].
  apply existsb_filter_keep. intros g Hg. apply andb_true_iff in Hg. destruct Hg as [_ Hg].
  unfold kfd_eqb in Hg. apply andb_true_iff in Hg. destruct Hg as [Hf _]. apply N.eqb_eq in Hf.
  unfold file_refs. apply orb_true_iff. right. apply existsb_exists. exists r. split.
  - unfold get_ring in Hr. eapply nth_error_In. exact Hr.
  - rewrite Hk. rewrite Hf. apply N.eqb_refl.
Qed.
Lemma close_kick_fields s o : d_rings (close_kick s o) = d_rings s /\ d_masks (close_kick s o) = d_masks s /\ d_next_inst (close_kick s o) = d_next_inst s.
Proof. repeat split. Qed.

(* GET_VRING_BASE *)
Lemma get_vring_base_inv s q : RInv s -> RInv (fst (h_get_vring_base s q)).
Proof.
  intros H. unfold h_get_vring_base. destruct (get_ring s q) as [r|] eqn:Hr; [|exact H]. cbn [fst].
  set (r1 := with_ring r false (r_enabled r) (r_kick r) (r_call r)).
  set (s1 := update_reg (put_ring s q r1) r1 q).
  assert (H1 : RInv s1) by (eapply ring_update_inv; [exact H|exact Hr|reflexivity]).
  assert (Hr1 : get_ring s1 q = Some r1) by (unfold s1; rewrite get_ring_update_reg'; eapply get_put_ring_same; exact Hr).
  set (r2 := with_ring r1 false (r_enabled r1) None None).
  set (s2 := put_ring s1 q r2).
  destruct H1 as [Hok [Hd Ho]].
  assert (Hsame : get_ring s2 q = Some r2) by (eapply get_put_ring_same; exact Hr1).
  assert (Hoth : forall q', N.to_nat q <> N.to_nat q' -> get_ring s2 q' = get_ring s1 q') by (intros; apply get_put_ring_other; assumption).
  assert (Hget : forall x rx kx, get_ring s2 x = Some rx -> r_kick rx = Some kx -> N.to_nat q <> N.to_nat x /\ get_ring s1 x = Some rx).
  { intros x rx kx Hx Hkx. destruct (Nat.eq_dec (N.to_nat q) (N.to_nat x)) as [He|Hn'].
    - apply N2Nat.inj in He. subst x. rewrite Hsame in Hx. inversion Hx; subst rx. discriminate Hkx.
    - split; [exact Hn'|]. rewrite <- (Hoth x Hn'). exact Hx. }
  split; [|split].
  - intros q' r' t idx k Hr' Hown Hk'.
    assert (Hr2' : get_ring s2 q' = Some r') by exact Hr'.
    destruct (Hget q' r' k Hr2' Hk') as [Hne Hr1'].
    rewrite (registered_gc s2 (r_kick r1) t k q' r' Hr2' Hk'). unfold s2. rewrite registered_put_ring.
    eapply Hok; eauto.
  - intros a b ra rb ka kb Hne Ha Hb Hka Hkb.
    destruct (Hget a ra ka Ha Hka) as [_ Ha1]. destruct (Hget b rb kb Hb Hkb) as [_ Hb1]. eapply Hd; eauto.
  - intros x rx kx Hx Hkx. destruct (Hget x rx kx Hx Hkx) as [_ Hx1]. eapply Ho; eauto.
Qed.

(* everything but ring q's own registration *)
Definition WeakInv (s : dstate) (q : N) : Prop :=
  (forall q', N.to_nat q' <> N.to_nat q -> ring_ok s q') /\ kicks_distinct s /\ kicks_old s.

Lemma weak_finish s q r0 r1 :
  WeakInv s q -> get_ring s q = Some r0 -> r_kick r1 = r_kick r0 -> RInv (update_reg (put_ring s q r1) r1 q).
Proof.
  intros [Hok [Hd Ho]] Hr Hk.
  set (s1 := put_ring s q r1). set (s2 := update_reg s1 r1 q).
  assert (Hm : d_masks s2 = d_masks s) by (unfold s2; rewrite (proj1 (update_reg_masks s1 r1 q)); reflexivity).
  assert (Hn : d_next_inst s2 = d_next_inst s) by (unfold s2; rewrite (proj2 (update_reg_masks s1 r1 q)); reflexivity).
  assert (Hsame : get_ring s2 q = Some r1).
  { unfold s2. rewrite get_ring_update_reg'. eapply get_put_ring_same. exact Hr. }
  assert (Hoth : forall q', N.to_nat q <> N.to_nat q' -> get_ring s2 q' = get_ring s q').
  { intros q' Hne. unfold s2. rewrite get_ring_update_reg'. apply get_put_ring_other. exact Hne. }
  split; [|split].
  - intros q' r' t idx k Hr' Hown Hk'. rewrite Hm in Hown.
    destruct (Nat.eq_dec (N.to_nat q) (N.to_nat q')) as [He|Hne].
    + apply N2Nat.inj in He. subst q'. rewrite Hsame in Hr'. inversion Hr'; subst r'.
      unfold s2. apply (update_reg_post s1 r1 q k t idx); [exact Hk'|]. exact Hown.
    + rewrite (Hoth q' Hne) in Hr'.
      destruct (r_kick r1) as [k1|] eqn:Hk1.
      * assert (Hne_k : kfd_eqb k k1 = false).
        { apply kfd_eqb_false_inst. rewrite Hk in Hk1. intros Heq. eapply (Hd q' q r' r0 k k1); eauto. }
        unfold s2. rewrite (update_reg_frame s1 r1 q k1 t k Hk1 Hne_k). unfold s1. rewrite registered_put_ring.
        eapply (Hok q'); eauto.
      * unfold s2. rewrite update_reg_nokick by exact Hk1. unfold s1. rewrite registered_put_ring. eapply (Hok q'); eauto.
  - intros a b ra rb ka kb Hne Ha Hb Hka Hkb.
    assert (Hget : forall x rx kx, get_ring s2 x = Some rx -> r_kick rx = Some kx -> exists rx0, get_ring s x = Some rx0 /\ r_kick rx0 = Some kx).
    { intros x rx kx Hx Hkx. destruct (Nat.eq_dec (N.to_nat q) (N.to_nat x)) as [He|Hn'].
      - apply N2Nat.inj in He. subst x. rewrite Hsame in Hx. inversion Hx; subst rx. exists r0. split; [exact Hr|]. rewrite <- Hk. exact Hkx.
      - rewrite (Hoth x Hn') in Hx. eauto. }
    destruct (Hget a ra ka Ha Hka) as [ra0 [Ha0 Hka0]]. destruct (Hget b rb kb Hb Hkb) as [rb0 [Hb0 Hkb0]].
    eapply Hd; eauto.
  - intros x rx kx Hx Hkx. rewrite Hn.
    destruct (Nat.eq_dec (N.to_nat q) (N.to_nat x)) as [He|Hn'].
    + apply N2Nat.inj in He. subst x. rewrite Hsame in Hx. inversion Hx; subst rx. eapply Ho; [exact Hr|]. rewrite <- Hk. exact Hkx.
    + rewrite (Hoth x Hn') in Hx. eapply Ho; eauto.
Qed.

Lemma upd_same {A} (l : list A) : forall i x, nth_error l i = Some x -> upd l i x = l.
Proof.
  induction l as [|y l IH]; intros [|i] x H; cbn in *; try discriminate; try reflexivity.
  - inversion H. reflexivity.
  - rewrite IH by exact H. reflexivity.
Qed.
Lemma put_ring_same s q r : get_ring s q = Some r -> put_ring s q r = s.
Proof.
  intros H. unfold put_ring, get_ring in *. rewrite upd_same by exact H. destruct s; reflexivity.
Qed.

(* SET_VRING_KICK *)
Lemma set_vring_kick_inv s q file : RInv s -> RInv (fst (h_set_vring_kick s q file)).
Proof.
  intros H. unfold h_set_vring_kick. destruct (get_ring s q) as [r|] eqn:Hr; [|exact H].
  destruct H as [Hok [Hd Ho]].
  set (k := {| k_file := file; k_inst := d_next_inst s |}).
  set (s0 := set_files s (d_pending s) (d_fe_holds s) (d_next_inst s + 1)).
  set (s0' := if r_ready r then
                match r_kick r, owner_of (d_masks s0) q 0 with
                | Some ko, Some (t, _) => set_regs s0 (filter (fun g => negb (Nat.eqb (g_thread g) t && kfd_eqb (g_kfd g) ko)) (d_regs s0))
                | _, _ => s0
                end
              else s0).
  set (r1 := with_ring r (r_ready r) (r_enabled r) (Some k) (r_call r)).
  set (sA := put_ring s0' q r1).
  set (s1 := close_kick sA (r_kick r)).
  (* facts about s0' *)
  assert (Hrings0 : d_rings s0' = d_rings s).
  { unfold s0'. destruct (r_ready r); [|reflexivity]. destruct (r_kick r); [|reflexivity]. destruct (owner_of _ _ _) as [[t i]|]; reflexivity. }
  assert (Hmasks0 : d_masks s0' = d_masks s).
  { unfold s0'. destruct (r_ready r); [|reflexivity]. destruct (r_kick r); [|reflexivity]. destruct (owner_of _ _ _) as [[t i]|]; reflexivity. }
  assert (Hnext0 : d_next_inst s0' = d_next_inst s + 1).
  { unfold s0'. destruct (r_ready r); [|reflexivity]. destruct (r_kick r); [|reflexivity]. destruct (owner_of _ _ _) as [[t i]|]; reflexivity. }
  assert (Hreg0 : forall q' r' t' k', N.to_nat q' <> N.to_nat q -> get_ring s q' = Some r' -> r_kick r' = Some k' ->
                                      registered s0' t' k' = registered s t' k').
  { intros q' r' t' k' Hne Hr' Hk'. unfold s0'. destruct (r_ready r); [|reflexivity].
    destruct (r_kick r) as [ko|] eqn:Hko; [|reflexivity]. destruct (owner_of _ _ _) as [[t i]|]; [|reflexivity].
    unfold registered, set_regs. cbn [d_regs]. apply registered_filter_other. left.
    apply kfd_eqb_false_inst. eapply (Hd q' q r' r k' ko); eauto. }
  assert (HgetA : get_ring sA q = Some r1).
  { unfold sA. eapply get_put_ring_same. unfold get_ring. rewrite Hrings0. exact Hr. }
  assert (HothA : forall q', N.to_nat q <> N.to_nat q' -> get_ring sA q' = get_ring s q').
  { intros q' Hne. unfold sA. rewrite get_put_ring_other by exact Hne. unfold get_ring. rewrite Hrings0. reflexivity. }
  assert (Hget1 : forall x, get_ring s1 x = get_ring sA x) by reflexivity.
  assert (HW : WeakInv s1 q).
  { split; [|split].
    - intros q' Hne r' t idx k' Hr' Hown Hk'.
      assert (Hne' : N.to_nat q <> N.to_nat q') by (intro; apply Hne; symmetry; assumption).
      rewrite Hget1, (HothA q' Hne') in Hr'.
      assert (HrA : get_ring sA q' = Some r') by (rewrite (HothA q' Hne'); exact Hr').
      unfold s1. rewrite (registered_gc sA (r_kick r) t k' q' r' HrA Hk'). unfold sA. rewrite registered_put_ring.
      rewrite (Hreg0 q' r' t k' Hne Hr' Hk').
      change (d_masks s1) with (d_masks s0') in Hown. rewrite Hmasks0 in Hown. eapply Hok; eauto.
    - intros a b ra rb ka kb Hne Ha Hb Hka Hkb. rewrite Hget1 in Ha, Hb.
      destruct (Nat.eq_dec (N.to_nat q) (N.to_nat a)) as [Ea|Na]; destruct (Nat.eq_dec (N.to_nat q) (N.to_nat b)) as [Eb|Nb].
      + exfalso. apply Hne. congruence.
      + apply N2Nat.inj in Ea. subst a. rewrite HgetA in Ha. inversion Ha; subst ra. cbn in Hka. inversion Hka; subst ka.
        rewrite (HothA b Nb) in Hb. pose proof (Ho b rb kb Hb Hkb) as Hlt. cbn [k_inst k]. lia.
      + apply N2Nat.inj in Eb. subst b. rewrite HgetA in Hb. inversion Hb; subst rb. cbn in Hkb. inversion Hkb; subst kb.
        rewrite (HothA a Na) in Ha. pose proof (Ho a ra ka Ha Hka) as Hlt. cbn [k_inst k]. lia.
      + rewrite (HothA a Na) in Ha. rewrite (HothA b Nb) in Hb. exact (Hd a b ra rb ka kb Hne Ha Hb Hka Hkb).
    - intros x rx kx Hx Hkx. rewrite Hget1 in Hx. change (d_next_inst s1) with (d_next_inst s0'). rewrite Hnext0.
      destruct (Nat.eq_dec (N.to_nat q) (N.to_nat x)) as [Ex|Nx].
      + apply N2Nat.inj in Ex. subst x. rewrite HgetA in Hx. inversion Hx; subst rx. cbn in Hkx. inversion Hkx; subst kx. cbn [k_inst k]. lia.
      + rewrite (HothA x Nx) in Hx. pose proof (Ho x rx kx Hx Hkx). lia. }
  assert (Hr1 : get_ring s1 q = Some r1) by (rewrite Hget1; exact HgetA).
  fold k s0 s0' r1 sA s1.
  destruct (GenCtl.ctl_needs_init (r_ready r1) (o_is_some (r_kick r1))); cbn [fst].
  - eapply weak_finish; [exact HW|exact Hr1|reflexivity].
  - rewrite <- (put_ring_same s1 q r1 Hr1) at 1. eapply weak_finish; [exact HW|exact Hr1|reflexivity].
Qed.

(* SET_VRING_KICK without a descriptor (polling mode) *)
Lemma set_vring_kick_none_inv s q : RInv s -> RInv (fst (h_set_vring_kick_none s q)).
Proof.
  intros H. unfold h_set_vring_kick_none. destruct (get_ring s q) as [r|] eqn:Hr; [|exact H]. cbn [fst].
  destruct H as [Hok [Hd Ho]].
  set (s0' := if r_ready r then
                match r_kick r, owner_of (d_masks s) q 0 with
                | Some ko, Some (t, _) => set_regs s (filter (fun g => negb (Nat.eqb (g_thread g) t && kfd_eqb (g_kfd g) ko)) (d_regs s))
                | _, _ => s
                end
              else s).
  set (r1 := with_ring r (r_ready r) (r_enabled r) None (r_call r)).
  set (sA := put_ring s0' q r1).
  assert (Hrings0 : d_rings s0' = d_rings s).
  { unfold s0'. destruct (r_ready r); [|reflexivity]. destruct (r_kick r); [|reflexivity]. destruct (owner_of _ _ _) as [[t i]|]; reflexivity. }
  assert (Hmasks0 : d_masks s0' = d_masks s).
  { unfold s0'. destruct (r_ready r); [|reflexivity]. destruct (r_kick r); [|reflexivity]. destruct (owner_of _ _ _) as [[t i]|]; reflexivity. }
  assert (Hnext0 : d_next_inst s0' = d_next_inst s).
  { unfold s0'. destruct (r_ready r); [|reflexivity]. destruct (r_kick r); [|reflexivity]. destruct (owner_of _ _ _) as [[t i]|]; reflexivity. }
  assert (Hreg0 : forall q' r' t' k', N.to_nat q' <> N.to_nat q -> get_ring s q' = Some r' -> r_kick r' = Some k' ->
                                      registered s0' t' k' = registered s t' k').
  { intros q' r' t' k' Hne Hr' Hk'. unfold s0'. destruct (r_ready r); [|reflexivity].
    destruct (r_kick r) as [ko|] eqn:Hko; [|reflexivity]. destruct (owner_of _ _ _) as [[t i]|]; [|reflexivity].
    unfold registered, set_regs. cbn [d_regs]. apply registered_filter_other. left.
    apply kfd_eqb_false_inst. eapply (Hd q' q r' r k' ko); eauto. }
  assert (HgetA : get_ring sA q = Some r1).
  { unfold sA. eapply get_put_ring_same. unfold get_ring. rewrite Hrings0. exact Hr. }
  assert (HothA : forall q', N.to_nat q <> N.to_nat q' -> get_ring sA q' = get_ring s q').
  { intros q' Hne. unfold sA. rewrite get_put_ring_other by exact Hne. unfold get_ring. rewrite Hrings0. reflexivity. }
  assert (Hget : forall x rx kx, get_ring (close_kick sA (r_kick r)) x = Some rx -> r_kick rx = Some kx ->
                                 N.to_nat q <> N.to_nat x /\ get_ring s x = Some rx).
  { intros x rx kx Hx Hkx. change (get_ring (close_kick sA (r_kick r)) x) with (get_ring sA x) in Hx.
    destruct (Nat.eq_dec (N.to_nat q) (N.to_nat x)) as [He|Hn'].
    - apply N2Nat.inj in He. subst x. rewrite HgetA in Hx. inversion Hx; subst rx. discriminate Hkx.
    - split; [exact Hn'|]. rewrite <- (HothA x Hn'). exact Hx. }
  split; [|split].
  - intros q' r' t idx k Hr' Hown Hk'. destruct (Hget q' r' k Hr' Hk') as [Hne Hr0].
    assert (HrA : get_ring sA q' = Some r') by (rewrite (HothA q' Hne); exact Hr0).
    rewrite (registered_gc sA (r_kick r) t k q' r' HrA Hk'). unfold sA. rewrite registered_put_ring.
    assert (Hne' : N.to_nat q' <> N.to_nat q) by (intro; apply Hne; symmetry; assumption).
    rewrite (Hreg0 q' r' t k Hne' Hr0 Hk').
    change (d_masks (close_kick sA (r_kick r))) with (d_masks s0') in Hown. rewrite Hmasks0 in Hown. eapply Hok; eauto.
  - intros a b ra rb ka kb Hne Ha Hb Hka Hkb.
    destruct (Hget a ra ka Ha Hka) as [_ Ha0]. destruct (Hget b rb kb Hb Hkb) as [_ Hb0].
    exact (Hd a b ra rb ka kb Hne Ha0 Hb0 Hka Hkb).
  - intros x rx kx Hx Hkx. destruct (Hget x rx kx Hx Hkx) as [_ Hx0].
    change (d_next_inst (close_kick sA (r_kick r))) with (d_next_inst s0'). rewrite Hnext0. eapply Ho; eauto.
Qed.

(* ---- all histories ---- *)
Inductive rop :=
| RKick (q file : N) | RKickNone (q : N) | RCall (q file : N) | RBase (q : N) | REnable (q : N) (e : bool) | RFeatures (v : N) | RReset.
Definition rop_apply (s : dstate) (o : rop) : dstate :=
  match o with
  | RKick q f => fst (h_set_vring_kick s q f)
  | RKickNone q => fst (h_set_vring_kick_none s q)
  | RCall q f => fst (h_set_vring_call s q f)
  | RBase q => fst (h_get_vring_base s q)
  | REnable q e => fst (h_set_vring_enable s q e)
  | RFeatures v => fst (h_set_features s v)
  | RReset => fst (h_reset_device s)
  end.
Definition ring_run (s : dstate) (ops : list rop) : dstate := fold_left rop_apply ops s.

Lemma rop_inv s o : RInv s -> RInv (rop_apply s o).
Proof.
  intros H. destruct o; cbn [rop_apply].
  - apply set_vring_kick_inv; exact H.
  - apply set_vring_kick_none_inv; exact H.
  - apply set_vring_call_inv; exact H.
  - apply get_vring_base_inv; exact H.
  - apply set_vring_enable_inv; exact H.
  - apply set_features_inv; exact H.
  - apply reset_device_inv; exact H.
Qed.

Lemma ring_run_inv ops : forall s, RInv s -> RInv (ring_run s ops).
Proof. induction ops as [|o ops IH]; intros s H; [exact H|]. cbn [ring_run fold_left]. apply IH. apply rop_inv. exact H. Qed.

Lemma rinv_init nq maxq f pf masks : RInv (dinit nq maxq f pf masks).
Proof.
  assert (Hnone : forall q r, get_ring (dinit nq maxq f pf masks) q = Some r -> r_kick r = None).
  { intros q r Hr. unfold get_ring, dinit in Hr. cbn [d_rings] in Hr. apply nth_error_In in Hr. apply repeat_spec in Hr. subst. reflexivity. }
  split; [|split].
  - intros q r t idx k Hr _ Hk. rewrite (Hnone q r Hr) in Hk. discriminate.
  - intros a b ra rb ka kb _ Ha _ Hka _. rewrite (Hnone a ra Ha) in Hka. discriminate.
  - intros x rx kx Hx Hkx. rewrite (Hnone x rx Hx) in Hkx. discriminate.
Qed.
