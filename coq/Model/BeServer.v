(* Hand model of BackendReqHandler::handle_request (backend_req_handler.rs):
   one request read from the transport, validated, dispatched to a scripted
   application handler, and answered.  Sizes, layouts, validators, request
   codes and feature bits are the definitions regenerated from the source
   (the Gen files); the control flow is written by hand and tied to the code by the
   correspondence family "be". *)
From VV Require Import Base.Bits Base.Rt Base.Val Gen.GenConsts Gen.GenLayout Gen.GenFns Gen.GenVrfd Gen.GenBeAck Model.Transport Gen.GenBeStat.
Open Scope string_scope.
Open Scope list_scope.
Open Scope N_scope.

Record be_state := {
  be_virtio_features : N;
  be_acked_virtio : N;
  be_acked_proto : N;
  be_reply_ack : bool }.
Definition be_init : be_state :=
  {| be_virtio_features := 0; be_acked_virtio := 0; be_acked_proto := 0; be_reply_ack := false |}.

(* handler oracle of the executable model: fixed answers, scripted outcome *)
Record be_cfg := { cfg_features : N; cfg_pfeatures : N }.
Definition OUT_OK : N := 0.
Definition OUT_ERR : N := 1.
Definition OUT_ALT : N := 2.

(* an emitted message: bytes and attached descriptor ids *)
Definition tx := (list N * list N)%type.

(* everything one handle_request does that is observable *)
Record be_out := {
  o_result : rresult unit;
  o_calls : list val;        (* handler invocations, in order *)
  o_sent : list tx;          (* messages written to the socket *)
  o_closed : list N;         (* descriptors closed by the library/kernel without delivery *)
  o_delivered : list N }.    (* descriptors handed to the handler *)

Definition hdr_sz : nat := fty_size VhostUserMsgHeader_layout.
Definition sizeof (t : fty) : N := N.of_nat (fty_size t).

Definition has (x bit : N) : bool := negb (N.land x bit =? 0).

Definition update_reply_ack (s : be_state) : be_state :=
  {| be_virtio_features := be_virtio_features s; be_acked_virtio := be_acked_virtio s;
     be_acked_proto := be_acked_proto s;
     be_reply_ack := ra_enabled (be_virtio_features s) (be_acked_proto s) |}.     (* update_reply_ack_flag, regenerated *)
Definition set_vf (s : be_state) v := {| be_virtio_features := v; be_acked_virtio := be_acked_virtio s; be_acked_proto := be_acked_proto s; be_reply_ack := be_reply_ack s |}.
Definition set_avf (s : be_state) v := {| be_virtio_features := be_virtio_features s; be_acked_virtio := v; be_acked_proto := be_acked_proto s; be_reply_ack := be_reply_ack s |}.
Definition set_apf (s : be_state) v := {| be_virtio_features := be_virtio_features s; be_acked_virtio := be_acked_virtio s; be_acked_proto := v; be_reply_ack := be_reply_ack s |}.

Definition check_proto (s : be_state) (bit : N) : rresult unit :=
  if has (be_acked_proto s) bit then ROk tt else RErr (EInactiveOperation bit).
Definition check_virtio (s : be_state) (bit : N) : rresult unit :=
  if has (be_acked_virtio s) bit then ROk tt else RErr (EInactiveFeature bit).

Definition R := FrontendReq_table.

(* check_request_size *)
Definition check_size (h : VhostUserMsgHeader) (size expected : N) : rresult unit :=
  if negb (VhostUserMsgHeader_get_size R h =? expected)
     || VhostUserMsgHeader_is_reply R h
     || negb (VhostUserMsgHeader_get_version R h =? 1)
     || negb (size =? expected)
  then RErr EInvalidMessage else ROk tt.

(* new_reply_header::<T>(req, payload) *)
Definition reply_hdr (h : VhostUserMsgHeader) (tsize payload : N) : rresult VhostUserMsgHeader :=
  if (MAX_MSG_SIZE <? tsize) || (MAX_MSG_SIZE <? payload) || (MAX_MSG_SIZE <? tsize + payload)
  then RErr EInvalidParam
  else match VhostUserMsgHeader_get_code R h with
       | ROk code => ROk (VhostUserMsgHeader_new R code VhostUserHeaderFlag_REPLY (tsize + payload))
       | RErr e => RErr e
       end.

Definition msg_of (h : VhostUserMsgHeader) (body : list N) (fds : list N) : tx :=
  (VhostUserMsgHeader_write h ++ body, fds).

Definition u64_body (v : N) : list N := VhostUserU64_write {| VhostUserU64_value := v |}.

(* the handler's scripted result of a unit-returning call *)
Definition hres (o : N) : rresult unit := if o =? OUT_OK then ROk tt else RErr EReqHandler.

Definition out0 (r : rresult unit) : be_out :=
  {| o_result := r; o_calls := []; o_sent := []; o_closed := []; o_delivered := [] |}.
Definition fail (e : verr) (dropped : list N) : be_out :=
  {| o_result := RErr e; o_calls := []; o_sent := []; o_closed := dropped; o_delivered := [] |}.

(* send_ack_message(req, res) after the handler call [call] *)
Definition ack (s : be_state) (h : VhostUserMsgHeader) (res : rresult unit) (call : val)
           (delivered dropped : list N) : be_out :=
  let sent :=
    (* whether an acknowledgement is written and its value: send_ack_message, regenerated (Gen.GenBeAck) *)
    if ack_written (be_reply_ack s) (VhostUserMsgHeader_is_need_reply R h) then
      match reply_hdr h (sizeof VhostUserU64_layout) 0 with
      | ROk rh => [msg_of rh (u64_body (ack_value (match res with ROk _ => true | RErr _ => false end))) []]
      | RErr _ => []
      end
    else [] in
  {| o_result := res; o_calls := [call]; o_sent := sent; o_closed := dropped; o_delivered := delivered |}.

(* send_reply_message(req, body) after the handler call *)
Definition reply (h : VhostUserMsgHeader) (body : list N) (fds : list N) (call : val)
           (delivered dropped : list N) : be_out :=
  match reply_hdr h (N.of_nat (List.length body)) 0 with
  | ROk rh => {| o_result := ROk tt; o_calls := [call]; o_sent := [msg_of rh body fds];
                 o_closed := dropped; o_delivered := delivered |}
  | RErr e => {| o_result := RErr e; o_calls := [call]; o_sent := []; o_closed := dropped; o_delivered := delivered |}
  end.
Definition handler_failed (call : val) (delivered dropped : list N) : be_out :=
  {| o_result := RErr EReqHandler; o_calls := [call]; o_sent := []; o_closed := dropped; o_delivered := delivered |}.

Definition call (name : string) (args : list val) : val := VL (VS name :: args).
Definition vfds (l : list N) : val := VL (map VN l).
Definition files_list (files : option (list N)) : list N := match files with Some l => l | None => [] end.

(* take_single_file *)
Definition take_single (files : option (list N)) : option N :=
  match files with Some [f] => Some f | _ => None end.

Definition requests_with_files : list N :=
  [FrontendReq_SET_MEM_TABLE; FrontendReq_SET_VRING_CALL; FrontendReq_SET_VRING_KICK; FrontendReq_SET_VRING_ERR;
   FrontendReq_SET_LOG_BASE; FrontendReq_SET_LOG_FD; FrontendReq_SET_BACKEND_REQ_FD; FrontendReq_SET_INFLIGHT_FD;
   FrontendReq_ADD_MEM_REG; FrontendReq_SET_DEVICE_STATE_FD; FrontendReq_GPU_SET_SOCKET].

Definition check_attached (code : N) (files : option (list N)) : bool :=
  existsb (N.eqb code) requests_with_files || match files with None => true | Some _ => false end.

(* extract_request_body::<T> : size check, decode, validate *)
Definition extract {T} (h : VhostUserMsgHeader) (size : N) (buf : list N) (lay : fty)
           (dec : list N -> option T) (valid : T -> bool) : rresult T :=
  match check_size h size (sizeof lay) with
  | RErr e => RErr e
  | ROk _ =>
      match dec buf with
      | Some m => if valid m then ROk m else RErr EInvalidMessage
      | None => RErr EInvalidMessage
      end
  end.

Definition region_val (r : VhostUserMemoryRegion) : val :=
  VL [VN (VhostUserMemoryRegion_guest_phys_addr r); VN (VhostUserMemoryRegion_memory_size r);
      VN (VhostUserMemoryRegion_user_addr r); VN (VhostUserMemoryRegion_mmap_offset r)].

Fixpoint read_regions (n : nat) (buf : list N) (off : nat) : list VhostUserMemoryRegion :=
  match n with
  | O => []
  | S k => VhostUserMemoryRegion_read buf off :: read_regions k buf (off + fty_size VhostUserMemoryRegion_layout)
  end.

Definition config_payload (off size : N) : list N :=
  map (fun i => (off + N.of_nat i) mod 251) (seq 0 (N.to_nat size)).

Definition FILE_SHARED : N := 1000.
Definition FILE_INFLIGHT : N := 1001.
Definition FILE_STATE : N := 1002.

Definition vring_fd_request (buf : list N) (files : option (list N)) : rresult (N * option N) :=
  if (N.to_nat MAX_MSG_SIZE <? List.length buf)%nat || (List.length buf <? fty_size VhostUserU64_layout)%nat
  then RErr EInvalidMessage
  else
    (* the flag test, the refusal condition and the ring index are REGENERATED from handle_vring_fd_request (Gen.GenVrfd) *)
    let v := VhostUserU64_value (VhostUserU64_read buf 0) in
    let has_fd := vrf_has_fd v in
    let no_files := match files with Some (_ :: _) => false | _ => true end in
    let file := take_single files in
    if vrf_reject has_fd (o_is_some file) no_files then RErr EInvalidMessage
    else ROk (vrf_index v, file).

Definition dispatch (cfg : be_cfg) (s : be_state) (o : N) (h : VhostUserMsgHeader) (files : option (list N))
           (size : N) (buf : list N) : be_state * be_out :=
  let code := VhostUserMsgHeader_request h in
  let fl := files_list files in
  let simple0 (name : string) (gate : rresult unit) :=
      match gate with
      | RErr e => (s, fail e fl)
      | ROk _ =>
          match check_size h size 0 with
          | RErr e => (s, fail e fl)
          | ROk _ => (s, ack s h (hres o) (call name []) [] fl)
          end
      end in
  let reply_u64 (name : string) (gate : rresult unit) (v : N) (s' : be_state) :=
      match gate with
      | RErr e => (s, fail e fl)
      | ROk _ =>
          match check_size h size 0 with
          | RErr e => (s, fail e fl)
          | ROk _ =>
              if o =? OUT_OK then (s', reply h (u64_body v) [] (call name []) [] fl)
              else (s, handler_failed (call name []) [] fl)
          end
      end in
  if code =? FrontendReq_SET_OWNER then simple0 "set_owner" (ROk tt)
  else if code =? FrontendReq_RESET_OWNER then simple0 "reset_owner" (ROk tt)
  else if code =? FrontendReq_RESET_DEVICE then
    simple0 "reset_device" (check_proto s VhostUserProtocolFeatures_RESET_DEVICE)
  else if code =? FrontendReq_GET_FEATURES then
    reply_u64 "get_features" (ROk tt) (cfg_features cfg) (update_reply_ack (set_vf s (cfg_features cfg)))
  else if code =? FrontendReq_SET_FEATURES then
    match extract h size buf VhostUserU64_layout VhostUserU64_decode VhostUserU64_is_valid with
    | RErr e => (s, fail e fl)
    | ROk m =>
        let v := VhostUserU64_value m in
        let s' := update_reply_ack (set_avf s v) in
        (s', ack s' h (hres o) (call "set_features" [VN v]) [] fl)
    end
  else if code =? FrontendReq_SET_MEM_TABLE then
    (* set_mem_table helper, then send_ack_message with its result *)
    let bad (e : verr) := (s, {| o_result := RErr e; o_calls := [];
                                 o_sent := o_sent (ack s h (RErr e) (VS "") [] []);
                                 o_closed := fl; o_delivered := [] |}) in
    match check_size h size (VhostUserMsgHeader_get_size R h) with
    | RErr e => bad e
    | ROk _ =>
        let hs := fty_size VhostUserMemory_layout in
        if (N.to_nat size <? hs)%nat then bad EInvalidMessage
        else
          let m := VhostUserMemory_read buf 0 in
          if negb (VhostUserMemory_is_valid m) then bad EInvalidMessage
          else
            let n := VhostUserMemory_num_regions m in
            if negb (size =? N.of_nat hs + n * sizeof VhostUserMemoryRegion_layout) then bad EInvalidMessage
            else match files with
                 | None => bad EInvalidMessage
                 | Some fs =>
                     if negb (N.of_nat (List.length fs) =? n) then bad EInvalidMessage
                     else
                       let regs := read_regions (N.to_nat n) buf hs in
                       if negb (forallb VhostUserMemoryRegion_is_valid regs) then bad EInvalidMessage
                       else (s, ack s h (hres o) (call "set_mem_table" [VL (map region_val regs); vfds fs]) fs [])
                 end
    end
  else if code =? FrontendReq_SET_VRING_NUM then
    match extract h size buf VhostUserVringState_layout VhostUserVringState_decode VhostUserVringState_is_valid with
    | RErr e => (s, fail e fl)
    | ROk m => (s, ack s h (hres o) (call "set_vring_num" [VN (VhostUserVringState_index m); VN (VhostUserVringState_num m)]) [] fl)
    end
  else if code =? FrontendReq_SET_VRING_ADDR then
    match extract h size buf VhostUserVringAddr_layout VhostUserVringAddr_decode VhostUserVringAddr_is_valid with
    | RErr e => (s, fail e fl)
    | ROk m =>
        match flags_from_bits 32 VhostUserVringAddrFlags_all (VhostUserVringAddr_flags m) with
        | None => (s, fail EInvalidMessage fl)
        | Some f =>
            (s, ack s h (hres o)
                    (call "set_vring_addr" [VN (VhostUserVringAddr_index m); VN f; VN (VhostUserVringAddr_descriptor m);
                                            VN (VhostUserVringAddr_used m); VN (VhostUserVringAddr_available m);
                                            VN (VhostUserVringAddr_log m)]) [] fl)
        end
    end
  else if code =? FrontendReq_SET_VRING_BASE then
    match extract h size buf VhostUserVringState_layout VhostUserVringState_decode VhostUserVringState_is_valid with
    | RErr e => (s, fail e fl)
    | ROk m => (s, ack s h (hres o) (call "set_vring_base" [VN (VhostUserVringState_index m); VN (VhostUserVringState_num m)]) [] fl)
    end
  else if code =? FrontendReq_GET_VRING_BASE then
    match extract h size buf VhostUserVringState_layout VhostUserVringState_decode VhostUserVringState_is_valid with
    | RErr e => (s, fail e fl)
    | ROk m =>
        let i := VhostUserVringState_index m in
        let c := call "get_vring_base" [VN i] in
        if o =? OUT_OK then
          (s, reply h (VhostUserVringState_write {| VhostUserVringState_index := i; VhostUserVringState_num := cast 32 (i * 7 + 3) |}) [] c [] fl)
        else (s, handler_failed c [] fl)
    end
  else if (code =? FrontendReq_SET_VRING_CALL) || (code =? FrontendReq_SET_VRING_KICK) || (code =? FrontendReq_SET_VRING_ERR) then
    let name := (if code =? FrontendReq_SET_VRING_CALL then "set_vring_call"
                 else if code =? FrontendReq_SET_VRING_KICK then "set_vring_kick" else "set_vring_err") in
    match check_size h size (sizeof VhostUserU64_layout) with
    | RErr e => (s, fail e fl)
    | ROk _ =>
        match vring_fd_request buf files with
        | RErr e => (s, fail e fl)
        | ROk (idx, file) =>
            let d := match file with Some f => [f] | None => [] end in
            (* take_single_file drops (closes) the vector unless it holds exactly one file *)
            let dropped := match file with Some _ => [] | None => fl end in
            (s, ack s h (hres o) (call name [VN idx; vfds d]) d dropped)
        end
    end
  else if code =? FrontendReq_GET_PROTOCOL_FEATURES then
    let pf := N.lor (N.land (cfg_pfeatures cfg) VhostUserProtocolFeatures_all) VhostUserProtocolFeatures_REPLY_ACK in
    reply_u64 "get_protocol_features" (ROk tt) pf (update_reply_ack s)
  else if code =? FrontendReq_SET_PROTOCOL_FEATURES then
    match extract h size buf VhostUserU64_layout VhostUserU64_decode VhostUserU64_is_valid with
    | RErr e => (s, fail e fl)
    | ROk m =>
        let v := VhostUserU64_value m in
        let s' := update_reply_ack (set_apf s v) in
        (s', ack s' h (hres o) (call "set_protocol_features" [VN v]) [] fl)
    end
  else if code =? FrontendReq_GET_QUEUE_NUM then
    reply_u64 "get_queue_num" (check_proto s VhostUserProtocolFeatures_MQ) 4660 s
  else if code =? FrontendReq_SET_VRING_ENABLE then
    match extract h size buf VhostUserVringState_layout VhostUserVringState_decode VhostUserVringState_is_valid with
    | RErr e => (s, fail e fl)
    | ROk m =>
        match check_virtio s VhostUserVirtioFeatures_PROTOCOL_FEATURES with
        | RErr e => (s, fail e fl)
        | ROk _ =>
            let n := VhostUserVringState_num m in
            if (n =? 1) || (n =? 0) then
              (s, ack s h (hres o) (call "set_vring_enable" [VN (VhostUserVringState_index m); VN n]) [] fl)
            else (s, fail EInvalidParam fl)
        end
    end
  else if code =? FrontendReq_GET_CONFIG then
    match check_proto s VhostUserProtocolFeatures_CONFIG with
    | RErr e => (s, fail e fl)
    | ROk _ =>
        match check_size h size (VhostUserMsgHeader_get_size R h) with
        | RErr e => (s, fail e fl)
        | ROk _ =>
            let po := fty_size VhostUserConfig_layout in
            if (N.to_nat MAX_MSG_SIZE <? List.length buf)%nat || (List.length buf <? po)%nat then (s, fail EInvalidMessage fl)
            else
              let m := VhostUserConfig_read buf 0 in
              if negb (VhostUserConfig_is_valid m) then (s, fail EInvalidMessage fl)
              else if negb (N.of_nat (List.length buf - po) =? VhostUserConfig_size m) then (s, fail EInvalidMessage fl)
              else match flags_from_bits 32 VhostUserConfigFlags_all (VhostUserConfig_flags m) with
                   | None => (s, fail EInvalidMessage fl)
                   | Some f =>
                       let off := VhostUserConfig_offset m in
                       let sz := VhostUserConfig_size m in
                       let c := call "get_config" [VN off; VN sz; VN f] in
                       let short := VhostUserConfig_write {| VhostUserConfig_offset := off; VhostUserConfig_size := 0; VhostUserConfig_flags := f |} in
                       if o =? OUT_OK then
                         let payload := config_payload off sz in
                         let body := VhostUserConfig_write {| VhostUserConfig_offset := off; VhostUserConfig_size := sz; VhostUserConfig_flags := f |} in
                         match reply_hdr h (sizeof VhostUserConfig_layout) sz with
                         | ROk rh => (s, {| o_result := ROk tt; o_calls := [c]; o_sent := [msg_of rh (body ++ payload) []];
                                            o_closed := fl; o_delivered := [] |})
                         | RErr e => (s, {| o_result := RErr e; o_calls := [c]; o_sent := []; o_closed := fl; o_delivered := [] |})
                         end
                       else (s, reply h short [] c [] fl)
                   end
        end
    end
  else if code =? FrontendReq_SET_CONFIG then
    match check_proto s VhostUserProtocolFeatures_CONFIG with
    | RErr e => (s, fail e fl)
    | ROk _ =>
        match check_size h size (VhostUserMsgHeader_get_size R h) with
        | RErr e => (s, fail e fl)
        | ROk _ =>
            let po := fty_size VhostUserConfig_layout in
            let bad (e : verr) := (s, {| o_result := RErr e; o_calls := [];
                                         o_sent := o_sent (ack s h (RErr e) (VS "") [] []);
                                         o_closed := fl; o_delivered := [] |}) in
            if (MAX_MSG_SIZE <? size) || (size <? N.of_nat po) then bad EInvalidMessage
            else
              let m := VhostUserConfig_read buf 0 in
              if negb (VhostUserConfig_is_valid m) then bad EInvalidMessage
              else if negb (size - N.of_nat po =? VhostUserConfig_size m) then bad EInvalidMessage
              else match flags_from_bits 32 VhostUserConfigFlags_all (VhostUserConfig_flags m) with
                   | None => bad EInvalidMessage
                   | Some f =>
                       (s, ack s h (hres o) (call "set_config" [VN (VhostUserConfig_offset m); vbytes (skipn po buf); VN f]) [] fl)
                   end
        end
    end
  else if (code =? FrontendReq_SET_BACKEND_REQ_FD) || (code =? FrontendReq_GPU_SET_SOCKET) then
    let is_be := code =? FrontendReq_SET_BACKEND_REQ_FD in
    let gate := if is_be then
                  match check_proto s VhostUserProtocolFeatures_BACKEND_REQ with
                  | RErr e => RErr e
                  | ROk _ => check_size h size (VhostUserMsgHeader_get_size R h)
                  end
                else check_size h size 0 in
    match gate with
    | RErr e => (s, fail e fl)
    | ROk _ =>
        match take_single files with
        | None =>
            (s, {| o_result := RErr EInvalidMessage; o_calls := [];
                   o_sent := o_sent (ack s h (RErr EInvalidMessage) (VS "") [] []);
                   o_closed := fl; o_delivered := [] |})
        | Some f =>
            (* set_backend_req_fd has no result: always Ok; set_gpu_socket returns the handler's *)
            let res := if is_be then ROk tt else hres o in
            (s, ack s h res (call (if is_be then "set_backend_req_fd" else "set_gpu_socket") [vfds [f]]) [f] [])
        end
    end
  else if code =? FrontendReq_GET_SHARED_OBJECT then
    match check_proto s VhostUserProtocolFeatures_SHARED_OBJECT with
    | RErr e => (s, fail e fl)
    | ROk _ =>
        match check_size h size (VhostUserMsgHeader_get_size R h) with
        | RErr e => (s, fail e fl)
        | ROk _ =>
            match extract h size buf VhostUserSharedMsg_layout VhostUserSharedMsg_decode VhostUserSharedMsg_is_valid with
            | RErr e => (s, fail e fl)
            | ROk m =>
                match reply_hdr h 0 0 with
                | RErr e => (s, fail e fl)
                | ROk rh =>
                    let c := call "get_shared_object" [vbytes (VhostUserSharedMsg_uuid m)] in
                    (s, {| o_result := ROk tt; o_calls := [c];
                           o_sent := [msg_of rh [] (if o =? OUT_OK then [FILE_SHARED] else [])];
                           o_closed := fl; o_delivered := [] |})
                end
            end
        end
    end
  else if code =? FrontendReq_GET_INFLIGHT_FD then
    match check_proto s VhostUserProtocolFeatures_INFLIGHT_SHMFD with
    | RErr e => (s, fail e fl)
    | ROk _ =>
        match extract h size buf VhostUserInflight_layout VhostUserInflight_decode VhostUserInflight_is_valid with
        | RErr e => (s, fail e fl)
        | ROk m =>
            let c := call "get_inflight_fd" [VN (VhostUserInflight_mmap_size m); VN (VhostUserInflight_mmap_offset m);
                                             VN (VhostUserInflight_num_queues m); VN (VhostUserInflight_queue_size m)] in
            if o =? OUT_OK then
              let r := {| VhostUserInflight_mmap_size := wrapping_add 64 (VhostUserInflight_mmap_size m) 1;
                          VhostUserInflight_mmap_offset := VhostUserInflight_mmap_offset m;
                          VhostUserInflight_num_queues := VhostUserInflight_num_queues m;
                          VhostUserInflight_queue_size := VhostUserInflight_queue_size m |} in
              (s, reply h (VhostUserInflight_write r) [FILE_INFLIGHT] c [] fl)
            else (s, handler_failed c [] fl)
        end
    end
  else if code =? FrontendReq_SET_INFLIGHT_FD then
    match check_proto s VhostUserProtocolFeatures_INFLIGHT_SHMFD with
    | RErr e => (s, fail e fl)
    | ROk _ =>
        match take_single files with
        | None => (s, fail EIncorrectFds fl)
        | Some f =>
            match extract h size buf VhostUserInflight_layout VhostUserInflight_decode VhostUserInflight_is_valid with
            | RErr e => (s, fail e fl)
            | ROk m =>
                (s, ack s h (hres o)
                        (call "set_inflight_fd" [VN (VhostUserInflight_mmap_size m); VN (VhostUserInflight_mmap_offset m);
                                                 VN (VhostUserInflight_num_queues m); VN (VhostUserInflight_queue_size m); vfds [f]]) [f] [])
            end
        end
    end
  else if code =? FrontendReq_GET_MAX_MEM_SLOTS then
    reply_u64 "get_max_mem_slots" (check_proto s VhostUserProtocolFeatures_CONFIGURE_MEM_SLOTS) 509 s
  else if code =? FrontendReq_ADD_MEM_REG then
    match check_proto s VhostUserProtocolFeatures_CONFIGURE_MEM_SLOTS with
    | RErr e => (s, fail e fl)
    | ROk _ =>
        match files with
        | Some [f] =>
            match extract h size buf VhostUserSingleMemoryRegion_layout VhostUserSingleMemoryRegion_decode VhostUserSingleMemoryRegion_is_valid with
            | RErr e => (s, fail e fl)
            | ROk m =>
                let r := VhostUserSingleMemoryRegion_region m in
                (s, ack s h (hres o) (call "add_mem_region" [region_val r; vfds [f]]) [f] [])
            end
        | _ => (s, fail EInvalidParam fl)
        end
    end
  else if code =? FrontendReq_REM_MEM_REG then
    match check_proto s VhostUserProtocolFeatures_CONFIGURE_MEM_SLOTS with
    | RErr e => (s, fail e fl)
    | ROk _ =>
        match extract h size buf VhostUserSingleMemoryRegion_layout VhostUserSingleMemoryRegion_decode VhostUserSingleMemoryRegion_is_valid with
        | RErr e => (s, fail e fl)
        | ROk m => (s, ack s h (hres o) (call "remove_mem_region" [region_val (VhostUserSingleMemoryRegion_region m)]) [] fl)
        end
    end
  else if code =? FrontendReq_SET_DEVICE_STATE_FD then
    match take_single files with
    | None => (s, fail EIncorrectFds fl)
    | Some f =>
        match extract h size buf VhostUserTransferDeviceState_layout VhostUserTransferDeviceState_decode VhostUserTransferDeviceState_is_valid with
        | RErr e => (s, fail e fl)
        | ROk m =>
            match reply_hdr h (sizeof VhostUserU64_layout) 0 with
            | RErr e => (s, fail e fl)
            | ROk rh =>
                let c := call "set_device_state_fd" [VN (VhostUserTransferDeviceState_direction m);
                                                     VN (VhostUserTransferDeviceState_phase m); vfds [f]] in
                (* value and descriptor of the reply per outcome of the handler: REGENERATED (Gen.GenBeStat) *)
                let sent := msg_of rh (u64_body (ds_reply_value o)) (if ds_reply_has_fd o then [FILE_STATE] else []) in
                (s, {| o_result := ROk tt; o_calls := [c]; o_sent := [sent]; o_closed := []; o_delivered := [f] |})
            end
        end
    end
  else if code =? FrontendReq_CHECK_DEVICE_STATE then
    match check_size h size 0 with
    | RErr e => (s, fail e fl)
    | ROk _ => (s, reply h (u64_body (cds_reply_value (o =? OUT_OK))) [] (call "check_device_state" []) [] fl)
    end
  else if code =? FrontendReq_GET_SHMEM_CONFIG then
    match check_proto s VhostUserProtocolFeatures_SHMEM with
    | RErr e => (s, fail e fl)
    | ROk _ =>
        match check_size h size 0 with
        | RErr e => (s, fail e fl)
        | ROk _ =>
            let c := call "get_shmem_config" [] in
            if o =? OUT_OK then
              let cfgv := {| VhostUserShMemConfig_nregions := 2; VhostUserShMemConfig_padding := 0;
                             VhostUserShMemConfig_memory_sizes := [4096; 8192] |} in
              (s, reply h (VhostUserShMemConfig_write cfgv) [] c [] fl)
            else (s, handler_failed c [] fl)
        end
    end
  else if code =? FrontendReq_SET_LOG_BASE then
    match check_proto s VhostUserProtocolFeatures_LOG_SHMFD with
    | RErr e => (s, fail e fl)
    | ROk _ =>
        match take_single files with
        | None => (s, fail EIncorrectFds fl)
        | Some f =>
            match extract h size buf VhostUserLog_layout VhostUserLog_decode VhostUserLog_is_valid with
            | RErr e => (s, fail e fl)
            | ROk m =>
                let c := call "set_log_base" [VN (VhostUserLog_mmap_size m); VN (VhostUserLog_mmap_offset m); vfds [f]] in
                if o =? OUT_OK then (s, reply h (VhostUserLog_write m) [] c [f] [])
                else (s, handler_failed c [f] [])
            end
        end
    end
  else (s, fail EInvalidMessage fl).

(* handle_request: header, attached-file check, body, dispatch *)
Definition handle_request (cfg : be_cfg) (s : be_state) (o : N) (q : stream) : be_state * be_out * stream :=
  match recv_all (fuel_for q hdr_sz) hdr_sz [] None [] q with
  | RxAllFuel => (s, fail ESocketError [], q)
  | RxAll bytes files cl q1 =>
      let fl := files_list files in
      if Nat.eqb (List.length bytes) 0 then (s, fail EDisconnected (cl ++ fl), q1)
      else if negb (Nat.eqb (List.length bytes) hdr_sz) then (s, fail EPartialMessage (cl ++ fl), q1)
      else
        let h := VhostUserMsgHeader_read bytes 0 in
        if negb (VhostUserMsgHeader_is_valid R h) then (s, fail EInvalidMessage (cl ++ fl), q1)
        else if negb (check_attached (VhostUserMsgHeader_request h) files) then (s, fail EInvalidMessage (cl ++ fl), q1)
        else
          let len := VhostUserMsgHeader_get_size R h in
          if len =? 0 then
            let '(s', out) := dispatch cfg s o h files 0 [] in
            (s', {| o_result := o_result out; o_calls := o_calls out; o_sent := o_sent out;
                    o_closed := cl ++ o_closed out; o_delivered := o_delivered out |}, q1)
          else
            match recv_data (N.to_nat len) q1 with
            | RxDRetry c2 q2 => (s, fail ESocketRetry (cl ++ c2 ++ fl), q2)
            | RxD buf c2 q2 =>
                if negb (Nat.eqb (List.length buf) (N.to_nat len)) then (s, fail EInvalidMessage (cl ++ c2 ++ fl), q2)
                else
                  let '(s', out) := dispatch cfg s o h files len buf in
                  (s', {| o_result := o_result out; o_calls := o_calls out; o_sent := o_sent out;
                          o_closed := cl ++ c2 ++ o_closed out; o_delivered := o_delivered out |}, q2)
            end
  end.
