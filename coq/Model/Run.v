(* Entry point of the executable model: one case (a [val]) in, one
   observation (a [val]) out.  The same function is extracted to OCaml
   (vv_eval) and re-evaluated on samples inside Coq by vm_compute. *)
From VV Require Import Base.Bits Base.Rt Base.Val Gen.GenConsts Gen.GenLayout Gen.GenFns Spec.ValidityDec Spec.BeSpec Spec.FeSpec Spec.SessSpec Model.Transport Model.BeServer Model.Frontend.
Open Scope string_scope.
Open Scope list_scope.
Open Scope N_scope.

(* family "valid": [VS "valid"; VS type; VH bytes]  ->  "true"/"false" *)
Definition run_valid (args : list val) : val :=
  match args with
  | [VS ty; VH h] =>
      match validate_by_name ty (hex_bytes h) with
      | Some b => vbool b
      | None => verror "decode"
      end
  | _ => verror "args"
  end.

(* spec check: is the observation [obs] the implementation produced for the
   case acceptable under the property?  "n/a" when the spec has no rule. *)
Definition val_eqb_S (a b : val) : bool :=
  match a, b with VS x, VS y => String.eqb x y | _, _ => false end.
Definition run_valid_spec (args : list val) : val :=
  match args with
  | [VS ty; VH h; obs] =>
      match spec_valid_by_name ty (hex_bytes h) with
      | Some b => vbool (val_eqb_S (vbool b) obs)
      | None => VS "n/a"
      end
  | _ => verror "args"
  end.

(* ---- family "be": the backend request server fed a scripted stream ----
   args: [VL [VN features; VN pfeatures]; VL outcomes; VL [VL [VH bytes; VL fds] ...]]
   obs : VL [VL results; VL calls; VL [VL [VH bytes; VL fds] ...]; VN leaked] *)
Definition verr_name (e : verr) : string :=
  match e with
  | EInvalidParam => "InvalidParam" | EInvalidOperation => "InvalidOperation"
  | EInactiveFeature _ => "InactiveFeature" | EInactiveOperation _ => "InactiveOperation"
  | EInvalidMessage => "InvalidMessage" | EPartialMessage => "PartialMessage"
  | EDisconnected => "Disconnected" | EOversizedMsg => "OversizedMsg" | EIncorrectFds => "IncorrectFds"
  | ESocketConnect => "SocketConnect" | ESocketError => "SocketError" | ESocketBroken => "SocketBroken"
  | ESocketRetry => "SocketRetry" | EBackendInternal => "BackendInternalError"
  | EFrontendInternal => "FrontendInternalError" | EFeatureMismatch => "FeatureMismatch"
  | EReqHandler => "ReqHandlerError" | EMemFdCreate => "MemFdCreateError"
  | EFileTruncate => "FileTruncateError" | EMemFdSeal => "MemFdSealError"
  end.
Definition res_val {A} (r : rresult A) : val :=
  match r with ROk _ => VS "ok" | RErr e => VS (verr_name e) end.
Definition stops_loop (r : rresult unit) : bool :=
  match r with
  | RErr EDisconnected | RErr EPartialMessage | RErr ESocketBroken | RErr ESocketError => true
  | _ => false
  end.
Definition tx_val (t : tx) : val := VL [vbytes (fst t); VL (map VN (snd t))].

Fixpoint be_loop (fuel : nat) (cfg : be_cfg) (s : be_state) (outs : list N) (q : stream)
         (results calls sent : list val) : list val * list val * list val :=
  match fuel with
  | O => (results ++ [VS "model-fuel"], calls, sent)
  | S f =>
      let o := hd 0 outs in
      let '(s', out, q') := handle_request cfg s o q in
      let results' := results ++ [res_val (o_result out)] in
      let calls' := calls ++ o_calls out in
      let sent' := sent ++ map tx_val (o_sent out) in
      if stops_loop (o_result out) then (results', calls', sent')
      else be_loop f cfg s' (tl outs) q' results' calls' sent'
  end.

Definition parse_seg (v : val) : option seg :=
  match v with
  | VL [VH h; fds] =>
      match val_NL fds with
      | Some l => Some {| seg_bytes := hex_bytes h; seg_fds := l |}
      | None => None
      end
  | _ => None
  end.

Definition run_be (args : list val) : val :=
  match args with
  | [VL [VN f; VN pf]; outs; VL msgs] =>
      match val_NL outs, all_some (map parse_seg msgs) with
      | Some os, Some q =>
          let '(r, c, s) := be_loop (List.length q + stream_len q + 2) {| cfg_features := f; cfg_pfeatures := pf |}
                                    be_init os q [] [] [] in
          VL [VL r; VL c; VL s; VN 0]
      | _, _ => verror "args"
      end
  | _ => verror "args"
  end.

(* ---- family "seg": the same request history under two segmentations (or truncated) ----
   args: [cfg; outs; whole; variant; VN kind; VN k; VN o] ; obs: VL [obs whole; obs variant] *)
Definition run_seg (args : list val) : val :=
  match args with
  | cfg :: outs :: whole :: variant :: _ => VL [run_be [cfg; outs; whole]; run_be [cfg; outs; variant]]
  | _ => verror "args"
  end.

(* seg-spec (C08): kind 0 = re-segmentation of clean messages: both observations equal.
   kind 1 = the stream ends at offset o of message k: same results for the first k requests, then
   an error that is Disconnected iff o = 0, and no handler invocation beyond those of the whole run's prefix *)
Fixpoint val_eqb (a b : val) {struct a} : bool :=
  match a, b with
  | VN x, VN y => x =? y
  | VS x, VS y => String.eqb x y
  | VH x, VH y => String.eqb x y
  | VL x, VL y =>
      (fix go (l1 l2 : list val) : bool :=
         match l1, l2 with
         | [], [] => true
         | p :: r1, q :: r2 => val_eqb p q && go r1 r2
         | _, _ => false
         end) x y
  | _, _ => false
  end.
Fixpoint is_prefix (a b : list val) : bool :=
  match a, b with
  | [], _ => true
  | x :: r, y :: s => val_eqb x y && is_prefix r s
  | _, [] => false
  end.
Definition all_clean (msgs : list val) : bool :=
  match all_some (map parse_case_msg msgs) with
  | Some ms => forallb clean_msg ms
  | None => false
  end.
Definition run_seg_spec (args : list val) : val :=
  match args with
  | [_; _; VL whole; VL variant; VN kind; VN k; VN o; VL [ow; ov]] =>
      if negb (all_clean whole) then VS "n/a"
      else if kind =? 0 then
        (if val_eqb ow ov then VS "true" else VS "false:C08")
      else
        match ow, ov with
        | VL [VL rw; VL cw; _; _], VL [VL rv; VL cv; _; _] =>
            let kk := N.to_nat k in
            let pre_ok := is_prefix (firstn kk rv) rw && Nat.eqb (List.length (firstn kk rv)) kk in
            let last := nth kk rv (VS "none") in
            let last_ok :=
              if o =? 0 then val_eqb last (VS "Disconnected")
              else negb (val_eqb last (VS "ok")) && negb (val_eqb last (VS "Disconnected")) && negb (val_eqb last (VS "none")) in
            (* the harness keeps calling until a stop-class error: one trailing Disconnected may follow *)
            let ends := Nat.eqb (List.length rv) (S kk)
                        || (Nat.eqb (List.length rv) (S (S kk)) && val_eqb (nth (S kk) rv (VS "none")) (VS "Disconnected")) in
            let calls_ok := is_prefix cv cw in
            if pre_ok && last_ok && ends && calls_ok then VS "true" else VS "false:C08"
        | _, _ => VS "false:C08"
        end
  | _ => verror "args"
  end.

(* ---- family "iovs": get_sub_iovs_offset ---- *)
Fixpoint m_sub_iovs_offset (lens : list nat) (skip : nat) (nr : nat) : nat * nat :=
  match lens with
  | [] => (nr, skip)
  | l :: r => if Nat.leb l skip then m_sub_iovs_offset r (skip - l) (S nr) else (nr, skip)
  end.
Definition run_iovs (args : list val) : val :=
  match args with
  | [lens; VN skip] =>
      match val_NL lens with
      | Some l => let '(i, off) := m_sub_iovs_offset (map N.to_nat l) (N.to_nat skip) 0 in
                  VL [VN (N.of_nat i); VN (N.of_nat off)]
      | None => verror "args"
      end
  | _ => verror "args"
  end.
Definition run_iovs_spec (args : list val) : val :=
  match args with
  | [lens; VN skip; VL [VN i; VN off]] =>
      match val_NL lens with
      | Some l =>
          let total := fold_right N.add 0 l in
          if skip <? total then
            vbool ((fold_right N.add 0 (firstn (N.to_nat i) l) + off =? skip) && (off <? nth (N.to_nat i) l 0))
          else VS "n/a"
      | None => verror "args"
      end
  | [_; _; _] => VS "false:C08"
  | _ => verror "args"
  end.

(* ---- family "fe": frontend operations against a scripted raw peer ----
   args: [VN maxq; VL steps]; step = VL [VS op; VL nums; VH bytes; VL fds; VL regions; VL script]
   obs : VL [ VL [result; VL sent] ... ] *)
Definition parse_step (v : val) : option (string * list N * list N * list N * list (list N) * stream) :=
  match v with
  | VL [VS name; nums; VH bytes; fds; VL regions; VL script] =>
      match val_NL nums, val_NL fds, all_some (map val_NL regions), all_some (map parse_seg script) with
      | Some a, Some f, Some r, Some q => Some (name, a, hex_bytes bytes, f, r, q)
      | _, _, _, _ => None
      end
  | _ => None
  end.
Fixpoint fe_steps (s : fe_state) (steps : list val) : list val :=
  match steps with
  | [] => []
  | st :: rest =>
      match parse_step st with
      | Some (name, a, bytes, fds, regions, q) =>
          let out := fe_op s name a bytes fds regions q in
          VL [f_result out; VL (map tx_val (f_sent out))] :: fe_steps (f_state out) rest
      | None => [verror "step"]
      end
  end.
Definition run_fe (args : list val) : val :=
  match args with
  | [VN maxq; VL steps] => VL (fe_steps (fe_init maxq) steps)
  | _ => verror "args"
  end.

(* ---- family "sess": real frontend talking to the real backend server ----
   args: [VN maxq; VL [VN feat; VN pfeat]; VL steps]; step = VL [VS op; nums; VH bytes; fds; regions; VN outcome]
   obs : VL [ VL [result; VL calls] ... ]
   Model: the frontend model writes its request (which does not depend on the answer), the backend
   model serves it, and the frontend model then reads the backend's reply. *)
Definition parse_sstep (v : val) : option (string * list N * list N * list N * list (list N) * N) :=
  match v with
  | VL [VS name; nums; VH bytes; fds; VL regions; VN o] =>
      match val_NL nums, val_NL fds, all_some (map val_NL regions) with
      | Some a, Some f, Some r => Some (name, a, hex_bytes bytes, f, r, o)
      | _, _, _ => None
      end
  | _ => None
  end.
Definition seg_of_tx (t : Frontend.tx) : seg := {| seg_bytes := fst t; seg_fds := snd t |}.
Fixpoint sess_steps (cfg : be_cfg) (fs : fe_state) (bs : be_state) (steps : list val) : list val :=
  match steps with
  | [] => []
  | st :: rest =>
      match parse_sstep st with
      | Some (name, a, bytes, fds, regions, o) =>
          let probe := fe_op fs name a bytes fds regions [] in
          match f_sent probe with
          | [] => VL [f_result probe; VL []] :: sess_steps cfg (f_state probe) bs rest
          | m :: _ =>
              let '(bs', out, _) := handle_request cfg bs o [seg_of_tx m] in
              let replies := map (fun t => {| seg_bytes := fst t; seg_fds := snd t |}) (o_sent out) in
              let fin := fe_op fs name a bytes fds regions replies in
              let served := match o_result out with ROk _ => true | RErr _ => false end in
              let avail := stream_len replies in
              (* a backend that answered short and keeps serving leaves the caller waiting *)
              let res := if served && (avail <? fe_demand fs name a bytes)%nat then VS "blocked" else f_result fin in
              let this := VL [res; VL (o_calls out)] in
              (* like the daemon loop, the server stops and closes the connection at the first error *)
              if served && negb (val_eqb res (VS "blocked")) then this :: sess_steps cfg (f_state fin) bs' rest
              else [this]
          end
      | None => [verror "step"]
      end
  end.
Definition run_sess (args : list val) : val :=
  match args with
  | [VN maxq; VL [VN f; VN pf]; VL steps] =>
      VL (sess_steps {| cfg_features := f; cfg_pfeatures := pf |} (fe_init maxq) be_init steps)
  | _ => verror "args"
  end.

Definition run (c : val) : val :=
  match c with
  | VL (VS fam :: args) =>
      if String.eqb fam "valid" then run_valid args
      else if String.eqb fam "valid-spec" then run_valid_spec args
      else if String.eqb fam "be" then run_be args
      else if String.eqb fam "be-spec" then be_spec args
      else if String.eqb fam "seg" then run_seg args
      else if String.eqb fam "fe" then run_fe args
      else if String.eqb fam "sess" then run_sess args
      else if String.eqb fam "sess-spec" then sess_spec args
      else if String.eqb fam "fe-spec" then fe_spec args
      else if String.eqb fam "iovs" then run_iovs args
      else if String.eqb fam "iovs-spec" then run_iovs_spec args
      else if String.eqb fam "seg-spec" then run_seg_spec args
      else verror "family"
  | _ => verror "case"
  end.
