(* Entry point of the executable model: one case (a [val]) in, one
   observation (a [val]) out.  The same function is extracted to OCaml
   (vv_eval) and re-evaluated on samples inside Coq by vm_compute. *)
From VV Require Import Base.Bits Base.Rt Base.Val Gen.GenConsts Gen.GenLayout Gen.GenFns Spec.ValidityDec Spec.BeSpec Spec.FeSpec Spec.SessSpec Spec.ProxySpec Spec.DaemonSpec Spec.ShutSpec Spec.KernSpec Spec.RaceSpec Spec.GpuSpec Model.Transport Model.BeServer Model.Frontend Model.Proxy Model.Daemon Model.Shutdown Model.Race Model.Gpu.
Open Scope string_scope.
Open Scope list_scope.
Open Scope N_scope.

Definition vbool_tag (b : bool) (tag : string) : val := if b then VS "true" else VS ("false:" ++ tag).

(* family "valid": [VS "valid"; VS type; VH bytes]  ->  "true"/"false" *)
Definition run_valid (args : list val) : val :=
  match args with
  | [VS ty; VH h] =>
      match validate_by_name ty (hex_bytes h) with
      | Some b => vbool b
      | None => verror "decode"
      end
  | _ => verror "args"
  end.

(* spec check: is the observation [obs] the implementation produced for the
   case acceptable under the property?  "n/a" when the spec has no rule. *)
Definition val_eqb_S (a b : val) : bool :=
  match a, b with VS x, VS y => String.eqb x y | _, _ => false end.
Definition run_valid_spec (args : list val) : val :=
  match args with
  | [VS ty; VH h; obs] =>
      match spec_valid_by_name ty (hex_bytes h) with
      | Some b => vbool (val_eqb_S (vbool b) obs)
      | None => VS "n/a"
      end
  | _ => verror "args"
  end.

(* ---- family "be": the backend request server fed a scripted stream ----
   args: [VL [VN features; VN pfeatures]; VL outcomes; VL [VL [VH bytes; VL fds] ...]]
   obs : VL [VL results; VL calls; VL [VL [VH bytes; VL fds] ...]; VN leaked] *)
Definition verr_name (e : verr) : string :=
  match e with
  | EInvalidParam => "InvalidParam" | EInvalidOperation => "InvalidOperation"
  | EInactiveFeature _ => "InactiveFeature" | EInactiveOperation _ => "InactiveOperation"
  | EInvalidMessage => "InvalidMessage" | EPartialMessage => "PartialMessage"
  | EDisconnected => "Disconnected" | EOversizedMsg => "OversizedMsg" | EIncorrectFds => "IncorrectFds"
  | ESocketConnect => "SocketConnect" | ESocketError => "SocketError" | ESocketBroken => "SocketBroken"
  | ESocketRetry => "SocketRetry" | EBackendInternal => "BackendInternalError"
  | EFrontendInternal => "FrontendInternalError" | EFeatureMismatch => "FeatureMismatch"
  | EReqHandler => "ReqHandlerError" | EMemFdCreate => "MemFdCreateError"
  | EFileTruncate => "FileTruncateError" | EMemFdSeal => "MemFdSealError"
  end.
Definition res_val {A} (r : rresult A) : val :=
  match r with ROk _ => VS "ok" | RErr e => VS (verr_name e) end.
Definition stops_loop (r : rresult unit) : bool :=
  match r with
  | RErr EDisconnected | RErr EPartialMessage | RErr ESocketBroken | RErr ESocketError => true
  | _ => false
  end.
Definition tx_val (t : tx) : val := VL [vbytes (fst t); VL (map VN (snd t))].

Fixpoint be_loop (fuel : nat) (cfg : be_cfg) (s : be_state) (outs : list N) (q : stream)
         (results calls sent : list val) : list val * list val * list val :=
  match fuel with
  | O => (results ++ [VS "model-fuel"], calls, sent)
  | S f =>
      let o := hd 0 outs in
      let '(s', out, q') := handle_request cfg s o q in
      let results' := results ++ [res_val (o_result out)] in
      let calls' := calls ++ o_calls out in
      let sent' := sent ++ map tx_val (o_sent out) in
      if stops_loop (o_result out) then (results', calls', sent')
      else be_loop f cfg s' (tl outs) q' results' calls' sent'
  end.

Definition parse_seg (v : val) : option seg :=
  match v with
  | VL [VH h; fds] =>
      match val_NL fds with
      | Some l => Some {| seg_bytes := hex_bytes h; seg_fds := l |}
      | None => None
      end
  | _ => None
  end.

Definition run_be (args : list val) : val :=
  match args with
  | [VL [VN f; VN pf]; outs; VL msgs] =>
      match val_NL outs, all_some (map parse_seg msgs) with
      | Some os, Some q =>
          let '(r, c, s) := be_loop (List.length q + stream_len q + 2) {| cfg_features := f; cfg_pfeatures := pf |}
                                    be_init os q [] [] [] in
          VL [VL r; VL c; VL s; VN 0]
      | _, _ => verror "args"
      end
  | _ => verror "args"
  end.

(* ---- family "seg": the same request history under two segmentations (or truncated) ----
   args: [cfg; outs; whole; variant; VN kind; VN k; VN o] ; obs: VL [obs whole; obs variant] *)
Definition run_seg (args : list val) : val :=
  match args with
  | cfg :: outs :: whole :: variant :: _ => VL [run_be [cfg; outs; whole]; run_be [cfg; outs; variant]]
  | _ => verror "args"
  end.

(* seg-spec (C08): kind 0 = re-segmentation of clean messages: both observations equal.
   kind 1 = the stream ends at offset o of message k: same results for the first k requests, then
   an error that is Disconnected iff o = 0, and no handler invocation beyond those of the whole run's prefix *)
Fixpoint val_eqb (a b : val) {struct a} : bool :=
  match a, b with
  | VN x, VN y => x =? y
  | VS x, VS y => String.eqb x y
  | VH x, VH y => String.eqb x y
  | VL x, VL y =>
      (fix go (l1 l2 : list val) : bool :=
         match l1, l2 with
         | [], [] => true
         | p :: r1, q :: r2 => val_eqb p q && go r1 r2
         | _, _ => false
         end) x y
  | _, _ => false
  end.
Fixpoint is_prefix (a b : list val) : bool :=
  match a, b with
  | [], _ => true
  | x :: r, y :: s => val_eqb x y && is_prefix r s
  | _, [] => false
  end.
Definition all_clean (msgs : list val) : bool :=
  match all_some (map parse_case_msg msgs) with
  | Some ms => forallb clean_msg ms
  | None => false
  end.
Definition run_seg_spec (args : list val) : val :=
  match args with
  | [_; _; VL whole; VL variant; VN kind; VN k; VN o; VL [ow; ov]] =>
      if negb (all_clean whole) then VS "n/a"
      else if kind =? 0 then
        (if val_eqb ow ov then VS "true" else VS "false:C08")
      else
        match ow, ov with
        | VL [VL rw; VL cw; _; _], VL [VL rv; VL cv; _; _] =>
            let kk := N.to_nat k in
            let pre_ok := is_prefix (firstn kk rv) rw && Nat.eqb (List.length (firstn kk rv)) kk in
            let last := nth kk rv (VS "none") in
            let last_ok :=
              if o =? 0 then val_eqb last (VS "Disconnected")
              else negb (val_eqb last (VS "ok")) && negb (val_eqb last (VS "Disconnected")) && negb (val_eqb last (VS "none")) in
            (* the harness keeps calling until a stop-class error: one trailing Disconnected may follow *)
            let ends := Nat.eqb (List.length rv) (S kk)
                        || (Nat.eqb (List.length rv) (S (S kk)) && val_eqb (nth (S kk) rv (VS "none")) (VS "Disconnected")) in
            let calls_ok := is_prefix cv cw in
            if pre_ok && last_ok && ends && calls_ok then VS "true"
            (* a request whose body was cut (the header arrived, o >= 12) and that is nevertheless served or reaches a
               handler was parsed from bytes that were never received: C05 as much as C08 *)
            else if (12 <=? o) && negb (last_ok && calls_ok) then VS "false:C05,C08"
            else VS "false:C08"
        | _, _ => VS "false:C08"
        end
  | _ => verror "args"
  end.

(* ---- family "iovs": get_sub_iovs_offset ---- *)
Fixpoint m_sub_iovs_offset (lens : list nat) (skip : nat) (nr : nat) : nat * nat :=
  match lens with
  | [] => (nr, skip)
  | l :: r => if Nat.leb l skip then m_sub_iovs_offset r (skip - l) (S nr) else (nr, skip)
  end.
Definition run_iovs (args : list val) : val :=
  match args with
  | [lens; VN skip] =>
      match val_NL lens with
      | Some l => let '(i, off) := m_sub_iovs_offset (map N.to_nat l) (N.to_nat skip) 0 in
                  VL [VN (N.of_nat i); VN (N.of_nat off)]
      | None => verror "args"
      end
  | _ => verror "args"
  end.
Definition run_iovs_spec (args : list val) : val :=
  match args with
  | [lens; VN skip; VL [VN i; VN off]] =>
      match val_NL lens with
      | Some l =>
          let total := fold_right N.add 0 l in
          if skip <? total then
            vbool ((fold_right N.add 0 (firstn (N.to_nat i) l) + off =? skip) && (off <? nth (N.to_nat i) l 0))
          else VS "n/a"
      | None => verror "args"
      end
  | [_; _; _] => VS "false:C08"
  | _ => verror "args"
  end.

(* ---- family "fe": frontend operations against a scripted raw peer ----
   args: [VN maxq; VL steps]; step = VL [VS op; VL nums; VH bytes; VL fds; VL regions; VL script]
   obs : VL [ VL [result; VL sent] ... ] *)
Definition parse_step (v : val) : option (string * list N * list N * list N * list (list N) * stream) :=
  match v with
  | VL [VS name; nums; VH bytes; fds; VL regions; VL script] =>
      match val_NL nums, val_NL fds, all_some (map val_NL regions), all_some (map parse_seg script) with
      | Some a, Some f, Some r, Some q => Some (name, a, hex_bytes bytes, f, r, q)
      | _, _, _, _ => None
      end
  | _ => None
  end.
Fixpoint fe_steps (s : fe_state) (steps : list val) : list val :=
  match steps with
  | [] => []
  | st :: rest =>
      match parse_step st with
      | Some (name, a, bytes, fds, regions, q) =>
          let out := fe_op s name a bytes fds regions q in
          VL [f_result out; VL (map tx_val (f_sent out))] :: fe_steps (f_state out) rest
      | None => [verror "step"]
      end
  end.
Definition run_fe (args : list val) : val :=
  match args with
  | [VN maxq; VL steps] => VL (fe_steps (fe_init maxq) steps)
  | _ => verror "args"
  end.

(* ---- family "sess": real frontend talking to the real backend server ----
   args: [VN maxq; VL [VN feat; VN pfeat]; VL steps]; step = VL [VS op; nums; VH bytes; fds; regions; VN outcome]
   obs : VL [ VL [result; VL calls] ... ]
   Model: the frontend model writes its request (which does not depend on the answer), the backend
   model serves it, and the frontend model then reads the backend's reply. *)
Definition parse_sstep (v : val) : option (string * list N * list N * list N * list (list N) * N) :=
  match v with
  | VL [VS name; nums; VH bytes; fds; VL regions; VN o] =>
      match val_NL nums, val_NL fds, all_some (map val_NL regions) with
      | Some a, Some f, Some r => Some (name, a, hex_bytes bytes, f, r, o)
      | _, _, _ => None
      end
  | _ => None
  end.
Definition seg_of_tx (t : Frontend.tx) : seg := {| seg_bytes := fst t; seg_fds := snd t |}.
Fixpoint sess_steps (cfg : be_cfg) (fs : fe_state) (bs : be_state) (steps : list val) : list val :=
  match steps with
  | [] => []
  | st :: rest =>
      match parse_sstep st with
      | Some (name, a, bytes, fds, regions, o) =>
          let probe := fe_op fs name a bytes fds regions [] in
          match f_sent probe with
          | [] => VL [f_result probe; VL []] :: sess_steps cfg (f_state probe) bs rest
          | m :: _ =>
              let '(bs', out, _) := handle_request cfg bs o [seg_of_tx m] in
              let replies := map (fun t => {| seg_bytes := fst t; seg_fds := snd t |}) (o_sent out) in
              let fin := fe_op fs name a bytes fds regions replies in
              let served := match o_result out with ROk _ => true | RErr _ => false end in
              let avail := stream_len replies in
              (* a backend that answered short and keeps serving leaves the caller waiting *)
              let res := if served && (avail <? fe_demand fs name a bytes)%nat then VS "blocked" else f_result fin in
              let this := VL [res; VL (o_calls out)] in
              (* like the daemon loop, the server stops and closes the connection at the first error *)
              if served && negb (val_eqb res (VS "blocked")) then this :: sess_steps cfg (f_state fin) bs' rest
              else [this]
          end
      | None => [verror "step"]
      end
  end.
Definition run_sess (args : list val) : val :=
  match args with
  | [VN maxq; VL [VN f; VN pf]; VL steps] =>
      VL (sess_steps {| cfg_features := f; cfg_pfeatures := pf |} (fe_init maxq) be_init steps)
  | _ => verror "args"
  end.

(* ---- family "tx": one frontend request written through a socket that accepts only part of each
   write (C08 sender side).  args: [VN maxq; step; VL caps]  (cap 0 = EAGAIN, k = accept k bytes)
   obs: VL [result; VH bytes on the wire; VL [VL [VN offset; VL fds] ...]] *)
Fixpoint fd_offsets (t : list tx_event) (off : nat) : list val :=
  match t with
  | [] => []
  | (b, f) :: r =>
      (match f with [] => [] | _ => [VL [VN (N.of_nat off); VL (map VN f)]] end) ++ fd_offsets r (off + List.length b)
  end.
Definition run_tx (args : list val) : val :=
  match args with
  | [VN maxq; st; caps] =>
      match parse_step st, val_NL caps with
      | Some (name, a, bytes, fds, regions, _), Some cs =>
          let out := fe_op (fe_init maxq) name a bytes fds regions [] in
          match f_sent out with
          | [] => VL [f_result out; VH ""; VL []]
          | m :: _ =>
              let oracle := map (fun c => if c =? 0 then TxRetry else TxAccept (N.to_nat c)) cs
                            ++ [TxAccept (List.length (fst m))] in
              let '(r, t) := send_all (fst m) (snd m) oracle 0 [] in
              let res := match r with
                         | TxOk n => if Nat.eqb n (List.length (fst m)) then f_result out else VS "PartialMessage"
                         | TxErr => VS "SocketError"
                         | TxFuel => VS "model-fuel"
                         end in
              VL [res; vbytes (flat_map fst t); VL (fd_offsets t 0)]
          end
      | _, _ => verror "args"
      end
  | _ => verror "args"
  end.
(* tx-spec: every byte of the specified encoding exactly once and in order; descriptors with the first byte only
   (what ends up on the wire is C01's subject, that it does so under every partial write is C08's) *)
Definition run_tx_spec (args : list val) : val :=
  match args with
  | [VN maxq; st; _; VL [res; VH wire; VL fdpos]] =>
      match parse_fstep st with
      | Some (name, a, data, fds, regions, _) =>
          match spec_op maxq false name a data fds regions with
          | Some sp =>
              match os_body sp with
              | Some body =>
                  let expect := le32 (os_code sp) ++ le32 1 ++ le32 (N.of_nat (List.length body)) ++ body in
                  let fd_ok := match os_fds sp, fdpos with
                               | [], [] => true
                               | f, [VL [VN 0; VL got]] => match all_some (map val_N got) with Some g => list_eqb g f | None => false end
                               | _, _ => false
                               end in
                  if is_ok res then vbool_tag (list_eqb (hex_bytes wire) expect && fd_ok) "C01,C08"
                  else VS "n/a"
              | None => VS "n/a"
              end
          | None => VS "n/a"
          end
      | None => verror "step"
      end
  | _ => verror "args"
  end.

(* ---- families on the backend-initiated channel ---- *)
Definition parse_hres (v : val) : hres :=
  match v with
  | VL [VN k; VN x] => if k =? 0 then HOk x else if k =? 1 then HErrno x else HErrOther
  | _ => HOk 0
  end.
Definition ptx_val (t : ptx) : val := VL [vbytes (fst t); VL (map VN (snd t))].
Definition stops_f (r : val) : bool :=
  match r with
  | VS x => String.eqb x "Disconnected" || String.eqb x "PartialMessage" || String.eqb x "SocketBroken" || String.eqb x "SocketError"
  | _ => false
  end.
(* fsrv: [VN reply_ack; VL hres-script; VL msgs] -> VL [VL results; VL calls; VL sent; VN leaked] *)
Fixpoint fsrv_loop (fuel : nat) (ra : bool) (hs : list val) (q : stream) (results calls sent : list val)
  : list val * list val * list val :=
  match fuel with
  | O => (results ++ [VS "model-fuel"], calls, sent)
  | S f =>
      let '(out, q') := fsrv_handle ra (parse_hres (hd (VL [VN 0; VN 0]) hs)) q in
      let results' := results ++ [fo_result out] in
      let calls' := calls ++ fo_calls out in
      let sent' := sent ++ map ptx_val (fo_sent out) in
      if stops_f (fo_result out) then (results', calls', sent')
      else fsrv_loop f ra (tl hs) q' results' calls' sent'
  end.
Definition run_fsrv (args : list val) : val :=
  match args with
  | [VN ra; VL hs; VL msgs] =>
      match all_some (map parse_seg msgs) with
      | Some q =>
          let '(r, c, s) := fsrv_loop (List.length q + stream_len q + 2) (ra =? 1) hs q [] [] [] in
          VL [VL r; VL c; VL s; VN 0]
      | None => verror "args"
      end
  | _ => verror "args"
  end.
(* proxy: [VL [VN ra; VN shared; VN shmem]; VL steps]; step = VL [VS op; nums; VH uuid; fds; VL script] *)
Fixpoint proxy_steps (s : px_state) (steps : list val) : list val :=
  match steps with
  | [] => []
  | VL [VS name; nums; VH uuid; fds; VL script] :: rest =>
      match val_NL nums, val_NL fds, all_some (map parse_seg script) with
      | Some a, Some f, Some q =>
          let out := px_op s name a (hex_bytes uuid) f q in
          VL [po_result out; VL (map ptx_val (po_sent out))] :: proxy_steps s rest
      | _, _, _ => [verror "step"]
      end
  | _ => [verror "step"]
  end.
Definition run_proxy (args : list val) : val :=
  match args with
  | [VL [VN ra; VN sh; VN sm]; VL steps] =>
      VL (proxy_steps {| px_reply_ack := ra =? 1; px_shared := sh =? 1; px_shmem := sm =? 1 |} steps)
  | _ => verror "args"
  end.
(* psess: the proxy model composed with the server model *)
Fixpoint psess_steps (s : px_state) (steps : list val) : list val :=
  match steps with
  | [] => []
  | VL [VS name; nums; VH uuid; fds; h] :: rest =>
      match val_NL nums, val_NL fds with
      | Some a, Some f =>
          let probe := px_op s name a (hex_bytes uuid) f [] in
          match po_sent probe with
          | [] => VL [po_result probe; VL []] :: psess_steps s rest
          | m :: _ =>
              let '(out, _) := fsrv_handle (px_reply_ack s) (parse_hres h) [{| seg_bytes := fst m; seg_fds := snd m |}] in
              let replies := map (fun t => {| seg_bytes := fst t; seg_fds := snd t |}) (fo_sent out) in
              let fin := px_op s name a (hex_bytes uuid) f replies in
              let served := negb (stops_f (fo_result out)) in
              (* the server keeps serving after a refused request: a proxy that awaits an acknowledgement then waits *)
              let res := if px_reply_ack s && match replies with [] => true | _ => false end then VS "blocked" else po_result fin in
              VL [res; VL (fo_calls out)] :: (if val_eqb res (VS "blocked") then [] else psess_steps s rest)
          end
      | _, _ => [verror "step"]
      end
  | _ => [verror "step"]
  end.
Definition run_psess (args : list val) : val :=
  match args with
  | [VL [VN ra; VN sh; VN sm]; VL steps] =>
      VL (psess_steps {| px_reply_ack := ra =? 1; px_shared := sh =? 1; px_shmem := sm =? 1 |} steps)
  | _ => verror "args"
  end.

(* ---- family "dmn": the daemon's control plane ----
   args: [VL [VN nq; VN maxq; VN features; VN pfeatures; VL masks; VN kind]; VL steps]; step = VL [VS kind; nums; ...]
   obs : VL [ VL [result; VL events] ... ] *)
Fixpoint dmn_steps (s : dstate) (steps : list val) : list val :=
  match steps with
  | [] => []
  | VL (VS kind :: nums :: more) :: rest =>
      let data := match more with VH h :: _ => hex_bytes h | _ => [] end in
      let rl := match more with _ :: VL l :: _ => fold_right (fun v acc => match val_NL v with Some x => x :: acc | None => acc end) [] l
                | _ => [] end in
      match val_NL nums with
      | Some a =>
          let o := d_step s kind a data rl in
          VL [do_res o; VL (do_events o)] :: dmn_steps (do_state o) rest
      | None => [verror "step"]
      end
  | _ => [verror "step"]
  end.
Definition run_dmn (args : list val) : val :=
  match args with
  | [VL [VN nq; VN maxq; VN f; VN pf; masks; VN _]; VL steps] =>
      match val_NL masks with
      | Some ms => VL (dmn_steps (dinit (N.to_nat nq) maxq f pf ms) steps)
      | None => verror "args"
      end
  | _ => verror "args"
  end.

(* ---- family "shut": shutdown / teardown scenarios ----
   args: [VS position; VN k; VN shutdown; VN callers; VN repeats; VN release_first; VN threads; VN exits] *)
Definition run_shut (args : list val) : val :=
  match args with
  | [VS pos; VN k; VN shutdown; VN _; VN _; VN rf; VN _; VN _] =>
      if String.eqb (substring 0 5 pos) "serve" then serve_obs pos
      else shut_obs pos k (negb (shutdown =? 0)) (negb (rf =? 0))
  | _ => verror "args"
  end.

(* ---- family "kern": kernel backends ----  args: [VS backend; VS op; nums; VH data; VN acked; VN layout] *)
Definition run_kern (args : list val) : val :=
  match args with
  | [VS backend; VS op; nums; VH data; VN acked] =>
      match val_NL nums with
      | Some a => kern_expected backend op a (hex_bytes data) acked 0
      | None => verror "args"
      end
  | [VS backend; VS op; nums; VH data; VN acked; VN lay] =>
      match val_NL nums with
      | Some a => kern_expected backend op a (hex_bytes data) acked lay
      | None => verror "args"
      end
  | _ => verror "args"
  end.
(* the specification IS the expected observation: the check is equality *)
Definition run_kern_spec (args : list val) : val :=
  match args with
  | [b; o; n; d; a; l; observed] => vbool (val_eqb (run_kern [b; o; n; d; a; l]) observed)
  | _ => verror "args"
  end.

(* ---- family "gpu": the GPU proxy ----  args: [VL steps]; step = VL [VS op; nums; VH data; fds; VL segments] *)
Definition run_gpu (args : list val) : val :=
  match args with
  | [VL steps] =>
      VL (map (fun st =>
                 match st with
                 | VL [VS op; nums; VH data; fds; VL segs] =>
                     match val_NL nums, val_NL fds, all_some (map parse_seg segs) with
                     | Some a, Some f, Some q =>
                         let o := gpu_op op a (hex_bytes data) f q in
                         VL [go_result o; VL (map (fun m => VL [vbytes (fst m); VL (map VN (snd m))]) (go_sent o))]
                     | _, _, _ => verror "step"
                     end
                 | _ => verror "step"
                 end) steps)
  | _ => verror "args"
  end.

Definition run (c : val) : val :=
  match c with
  | VL (VS fam :: args) =>
      if String.eqb fam "valid" then run_valid args
      else if String.eqb fam "valid-spec" then run_valid_spec args
      else if String.eqb fam "be" then run_be args
      else if String.eqb fam "be-spec" then be_spec args
      else if String.eqb fam "bgone-spec" then
        (* the peer stopped reading before the server ran (no model of failing sends: judged by the specification only):
           whatever the server did with the requests, no descriptor it received stays open once it is gone (C09) *)
        (match args with
         | [_; _; _; VL [VL _; VL _; _; VN 0]] => VS "true"
         | [_; _; _; VL [VL _; VL _; _; VN _]] => VS "false:C09"
         | [_; _; _; _] => VS "false:C05"
         | _ => verror "args" end)
      else if String.eqb fam "seg" then run_seg args
      else if String.eqb fam "fe" then run_fe args
      else if String.eqb fam "sess" then run_sess args
      else if String.eqb fam "tx" then run_tx args
      else if String.eqb fam "dmn" then run_dmn args
      else if String.eqb fam "gpu" then run_gpu args
      else if String.eqb fam "gpu-spec" then gpu_spec args
      else if String.eqb fam "conc" then
        (* a sequence of whole transactions: no overlap seen by the peer, every caller gets its own reply, all complete *)
        (match args with
         | [VS _; VL ops; VN _; VN _] => VL [VN 0; VL (map (fun _ => VS "ok") ops); VN (N.of_nat (List.length ops))]
         | _ => verror "args" end)
      else if String.eqb fam "conc-spec" then
        (match args with
         | [VS _; VL ops; VN _; VN _; VL [VN overlaps; VL results; VN completed]] =>
             vbool ((overlaps =? 0) && forallb (fun r => match r with VS "ok" => true | _ => false end) results
                    && (completed =? N.of_nat (List.length ops)))
         | [_; _; _; _; _] => VS "false"
         | _ => verror "args" end)
      else if String.eqb fam "race" then (match args with [VL toks] => race_run toks | _ => verror "args" end)
      else if String.eqb fam "race-spec" then race_spec args
      else if String.eqb fam "kern" then run_kern args
      else if String.eqb fam "kern-spec" then run_kern_spec args
      else if String.eqb fam "shut" then run_shut args
      else if String.eqb fam "shut-spec" then shut_spec args
      else if String.eqb fam "dmn-spec" then dmn_spec args
      else if String.eqb fam "fsrv" then run_fsrv args
      else if String.eqb fam "fsrv-spec" then fsrv_spec args
      else if String.eqb fam "proxy" then run_proxy args
      else if String.eqb fam "proxy-spec" then proxy_spec args
      else if String.eqb fam "psess" then run_psess args
      else if String.eqb fam "psess-spec" then psess_spec args
      else if String.eqb fam "tx-spec" then run_tx_spec args
      else if String.eqb fam "sess-spec" then sess_spec args
      else if String.eqb fam "fe-spec" then fe_spec args
      else if String.eqb fam "iovs" then run_iovs args
      else if String.eqb fam "iovs-spec" then run_iovs_spec args
      else if String.eqb fam "seg-spec" then run_seg_spec args
      else verror "family"
  | _ => verror "case"
  end.
