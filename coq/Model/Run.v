(* Entry point of the executable model: one case (a [val]) in, one
   observation (a [val]) out.  The same function is extracted to OCaml
   (vv_eval) and re-evaluated on samples inside Coq by vm_compute. *)
From VV Require Import Base.Bits Base.Rt Base.Val Gen.GenConsts Gen.GenLayout Gen.GenFns Spec.ValidityDec.
Open Scope N_scope.
Open Scope string_scope.

(* family "valid": [VS "valid"; VS type; VH bytes]  ->  "true"/"false" *)
Definition run_valid (args : list val) : val :=
  match args with
  | [VS ty; VH h] =>
      match validate_by_name ty (hex_bytes h) with
      | Some b => vbool b
      | None => verror "decode"
      end
  | _ => verror "args"
  end.

(* spec check: is the observation [obs] the implementation produced for the
   case acceptable under the property?  "n/a" when the spec has no rule. *)
Definition val_eqb_S (a b : val) : bool :=
  match a, b with VS x, VS y => String.eqb x y | _, _ => false end.
Definition run_valid_spec (args : list val) : val :=
  match args with
  | [VS ty; VH h; obs] =>
      match spec_valid_by_name ty (hex_bytes h) with
      | Some b => vbool (val_eqb_S (vbool b) obs)
      | None => VS "n/a"
      end
  | _ => verror "args"
  end.

Definition run (c : val) : val :=
  match c with
  | VL (VS fam :: args) =>
      if String.eqb fam "valid" then run_valid args
      else if String.eqb fam "valid-spec" then run_valid_spec args
      else verror "family"
  | _ => verror "case"
  end.
