(* Entry point of the executable model: one case (a [val]) in, one
   observation (a [val]) out.  The same function is extracted to OCaml
   (vv_eval) and re-evaluated on samples inside Coq by vm_compute. *)
From VV Require Import Base.Bits Base.Rt Base.Val Gen.GenConsts Gen.GenLayout Gen.GenFns Spec.ValidityDec Spec.BeSpec Model.Transport Model.BeServer.
Open Scope string_scope.
Open Scope list_scope.
Open Scope N_scope.

(* family "valid": [VS "valid"; VS type; VH bytes]  ->  "true"/"false" *)
Definition run_valid (args : list val) : val :=
  match args with
  | [VS ty; VH h] =>
      match validate_by_name ty (hex_bytes h) with
      | Some b => vbool b
      | None => verror "decode"
      end
  | _ => verror "args"
  end.

(* spec check: is the observation [obs] the implementation produced for the
   case acceptable under the property?  "n/a" when the spec has no rule. *)
Definition val_eqb_S (a b : val) : bool :=
  match a, b with VS x, VS y => String.eqb x y | _, _ => false end.
Definition run_valid_spec (args : list val) : val :=
  match args with
  | [VS ty; VH h; obs] =>
      match spec_valid_by_name ty (hex_bytes h) with
      | Some b => vbool (val_eqb_S (vbool b) obs)
      | None => VS "n/a"
      end
  | _ => verror "args"
  end.

(* ---- family "be": the backend request server fed a scripted stream ----
   args: [VL [VN features; VN pfeatures]; VL outcomes; VL [VL [VH bytes; VL fds] ...]]
   obs : VL [VL results; VL calls; VL [VL [VH bytes; VL fds] ...]; VN leaked] *)
Definition verr_name (e : verr) : string :=
  match e with
  | EInvalidParam => "InvalidParam" | EInvalidOperation => "InvalidOperation"
  | EInactiveFeature _ => "InactiveFeature" | EInactiveOperation _ => "InactiveOperation"
  | EInvalidMessage => "InvalidMessage" | EPartialMessage => "PartialMessage"
  | EDisconnected => "Disconnected" | EOversizedMsg => "OversizedMsg" | EIncorrectFds => "IncorrectFds"
  | ESocketConnect => "SocketConnect" | ESocketError => "SocketError" | ESocketBroken => "SocketBroken"
  | ESocketRetry => "SocketRetry" | EBackendInternal => "BackendInternalError"
  | EFrontendInternal => "FrontendInternalError" | EFeatureMismatch => "FeatureMismatch"
  | EReqHandler => "ReqHandlerError" | EMemFdCreate => "MemFdCreateError"
  | EFileTruncate => "FileTruncateError" | EMemFdSeal => "MemFdSealError"
  end.
Definition res_val {A} (r : rresult A) : val :=
  match r with ROk _ => VS "ok" | RErr e => VS (verr_name e) end.
Definition stops_loop (r : rresult unit) : bool :=
  match r with
  | RErr EDisconnected | RErr EPartialMessage | RErr ESocketBroken | RErr ESocketError => true
  | _ => false
  end.
Definition tx_val (t : tx) : val := VL [vbytes (fst t); VL (map VN (snd t))].

Fixpoint be_loop (fuel : nat) (cfg : be_cfg) (s : be_state) (outs : list N) (q : stream)
         (results calls sent : list val) : list val * list val * list val :=
  match fuel with
  | O => (results ++ [VS "model-fuel"], calls, sent)
  | S f =>
      let o := hd 0 outs in
      let '(s', out, q') := handle_request cfg s o q in
      let results' := results ++ [res_val (o_result out)] in
      let calls' := calls ++ o_calls out in
      let sent' := sent ++ map tx_val (o_sent out) in
      if stops_loop (o_result out) then (results', calls', sent')
      else be_loop f cfg s' (tl outs) q' results' calls' sent'
  end.

Definition parse_seg (v : val) : option seg :=
  match v with
  | VL [VH h; fds] =>
      match val_NL fds with
      | Some l => Some {| seg_bytes := hex_bytes h; seg_fds := l |}
      | None => None
      end
  | _ => None
  end.

Definition run_be (args : list val) : val :=
  match args with
  | [VL [VN f; VN pf]; outs; VL msgs] =>
      match val_NL outs, all_some (map parse_seg msgs) with
      | Some os, Some q =>
          let '(r, c, s) := be_loop (List.length q + stream_len q + 2) {| cfg_features := f; cfg_pfeatures := pf |}
                                    be_init os q [] [] [] in
          VL [VL r; VL c; VL s; VN 0]
      | _, _ => verror "args"
      end
  | _ => verror "args"
  end.

Definition run (c : val) : val :=
  match c with
  | VL (VS fam :: args) =>
      if String.eqb fam "valid" then run_valid args
      else if String.eqb fam "valid-spec" then run_valid_spec args
      else if String.eqb fam "be" then run_be args
      else if String.eqb fam "be-spec" then be_spec args
      else verror "family"
  | _ => verror "case"
  end.
