(* The meaning of the control-path operations (Model/CtlOps.v) over the daemon model's state, and the regenerated
   handlers (Gen/GenCtl.v) run through it.  The primitives are the hand model's own (Model/Daemon.v: put_ring, update_reg,
   close_kick, owner_of ...); what comes from the source is their composition: which operations a handler performs, in
   which order, under which conditions. *)
From VV Require Import Base.Bits Base.Rt Base.Val Gen.GenConsts Gen.GenRoute Gen.GenCtl Model.CtlOps Model.Daemon.
Open Scope list_scope.
Open Scope N_scope.

Record cenv := {
  c_s : dstate;
  c_q : N;                      (* the message's ring index *)
  c_r : ring;                   (* `vring`: the ring the handler works on (valid after OGetRing) *)
  c_enable : bool;              (* the message's boolean argument *)
  c_file : option N;            (* the message's descriptor *)
  c_started : bool;             (* the local `started` *)
  c_next_avail : N;             (* the local `next_avail` *)
  c_num : N;                    (* the message's numeric argument (features) *)
  c_evidx : bool;               (* the local `event_idx` *)
  c_res : option dres }.        (* Some: the handler has returned *)

Definition with_s (e : cenv) (s : dstate) (r : ring) : cenv :=
  {| c_s := s; c_q := c_q e; c_r := r; c_enable := c_enable e; c_file := c_file e; c_started := c_started e;
     c_next_avail := c_next_avail e; c_num := c_num e; c_evidx := c_evidx e; c_res := c_res e |}.
Definition with_res (e : cenv) (d : dres) : cenv :=
  {| c_s := c_s e; c_q := c_q e; c_r := c_r e; c_enable := c_enable e; c_file := c_file e; c_started := c_started e;
     c_next_avail := c_next_avail e; c_num := c_num e; c_evidx := c_evidx e; c_res := Some d |}.
Definition with_locals (e : cenv) (started : bool) (na : N) : cenv :=
  {| c_s := c_s e; c_q := c_q e; c_r := c_r e; c_enable := c_enable e; c_file := c_file e; c_started := started;
     c_next_avail := na; c_num := c_num e; c_evidx := c_evidx e; c_res := c_res e |}.
Definition at_ring (e : cenv) (q : N) (r : ring) : cenv :=
  {| c_s := c_s e; c_q := q; c_r := r; c_enable := c_enable e; c_file := c_file e; c_started := c_started e;
     c_next_avail := c_next_avail e; c_num := c_num e; c_evidx := c_evidx e; c_res := c_res e |}.

Definition with_evidx (e : cenv) (b : bool) : cenv :=
  {| c_s := c_s e; c_q := c_q e; c_r := c_r e; c_enable := c_enable e; c_file := c_file e; c_started := c_started e;
     c_next_avail := c_next_avail e; c_num := c_num e; c_evidx := b; c_res := c_res e |}.

Definition bval_of (e : cenv) (v : bval) : bool := match v with BParam => c_enable e | BTrue => true | BFalse => false end.

(* vring.set_kick(v): the ring takes the descriptor (a new instance of the eventfd), the previous one is closed *)
Definition do_set_kick (e : cenv) (v : option N) : cenv :=
  let s := c_s e in
  let r := c_r e in
  match v with
  | Some file =>
      let k := {| k_file := file; k_inst := d_next_inst s |} in
      let s0 := set_files s (d_pending s) (d_fe_holds s) (d_next_inst s + 1) in
      let r1 := with_ring r (r_ready r) (r_enabled r) (Some k) (r_call r) in
      with_s e (close_kick (put_ring s0 (c_q e) r1) (r_kick r)) r1
  | None =>
      let r1 := with_ring r (r_ready r) (r_enabled r) None (r_call r) in
      with_s e (close_kick (put_ring s (c_q e) r1) (r_kick r)) r1
  end.

Definition fval_of (e : cenv) (v : fval) : option N := match v with FParam => c_file e | FNone => None end.

Definition cond_of (e : cenv) (c : ccond) : bool :=
  match c with
  | CStarted => c_started e
  | CNeedsInit => ctl_needs_init (r_ready (c_r e)) (o_is_some (r_kick (c_r e)))
  | CNoProtocolFeatures => negb (hasd (d_acked (c_s e)) PFB)
  end.

(* for (index, vring) in self.vrings.iter().enumerate() { body } *)
Fixpoint for_rings (body : cenv -> cenv) (n : nat) (q : N) (e : cenv) : cenv :=
  match n with
  | O => e
  | S k =>
      match get_ring (c_s e) q with
      | Some r0 => for_rings body k (q + 1) (body (at_ring e q r0))
      | None => e
      end
  end.

Section Run.
  (* what self.initialize_vring(vring, index) does, given as a parameter so that the recursion below stays structural *)
  Variable init : cenv -> cenv.

  Fixpoint run_op (o : cop) (e : cenv) {struct o} : cenv :=
    match c_res e with
    | Some _ => e                                  (* the handler has returned: nothing further happens *)
    | None =>
        let s := c_s e in
        let r := c_r e in
        let q := c_q e in
        match o with
        | OCheckFeature f => if hasd (d_acked s) f then e else with_res e DErr
        | OGetRing => match get_ring s q with Some r0 => with_s e s r0 | None => with_res e DErr end
        | OSetEnabled v =>
            let r1 := with_ring r (r_ready r) (bval_of e v) (r_kick r) (r_call r) in with_s e (put_ring s q r1) r1
        | OSetReady v =>
            let r1 := with_ring r v (r_enabled r) (r_kick r) (r_call r) in with_s e (put_ring s q r1) r1
        | OUpdateReg => with_s e (update_reg s r q) r
        | OUnregKick =>
            match r_kick r, owner_of (d_masks s) q 0 with
            | Some ko, Some (t, _) =>
                with_s e (set_regs s (filter (fun g => negb ((Nat.eqb (g_thread g) t) && kfd_eqb (g_kfd g) ko)) (d_regs s))) r
            | _, _ => e
            end
        | OInitRing => init e
        | OLetStarted => with_locals e (r_ready r) (c_next_avail e)
        | OLetNextAvail => with_locals e (c_started e) (r_next_avail r)
        | OSetKick v => do_set_kick e (fval_of e v)
        | OSetCall v => let r1 := with_ring r (r_ready r) (r_enabled r) (r_kick r) (fval_of e v) in with_s e (put_ring s q r1) r1
        | OSetErr _ => e                           (* the error descriptor is not part of the model's state *)
        | OIf c t f =>
            (fix run_l (l : list cop) (e : cenv) : cenv := match l with [] => e | o :: l' => run_l l' (run_op o e) end)
              (if cond_of e c then t else f) e
        | OForRings body =>
            for_rings (fun e' => (fix run_l (l : list cop) (e : cenv) : cenv :=
                                    match l with [] => e | o :: l' => run_l l' (run_op o e) end) body e') (d_nq s) 0 e
        | OForgetFeatures => e                     (* features_acked is not part of the model's state *)
        | OClearAckedFeatures =>
            with_s e (set_misc s (d_owned s) 0 (d_acked_proto s) (d_rq_acked s) (d_rq_acked_proto s) (d_fe_avf s) (d_fe_apf s) (d_fe_maxq s)) r
        | OBackendReset => e
        | OCheckOffered => if negb (N.land (c_num e) (lnot 64 (d_features s)) =? 0) then with_res e DErr else e
        | OSetAckedFeatures =>
            with_s e (set_misc s (d_owned s) (c_num e) (d_acked_proto s) (d_rq_acked s) (d_rq_acked_proto s) (d_fe_avf s) (d_fe_apf s) (d_fe_maxq s)) r
        | OMarkFeaturesAcked => e                  (* features_acked is not part of the model's state *)
        | OLetEventIdx => with_evidx e (hasd (d_acked s) (2 ^ 29))      (* VIRTIO_RING_F_EVENT_IDX *)
        | OSetEventIdxAll =>
            with_s e (set_rings s (map (fun r0 => {| r_ready := r_ready r0; r_enabled := r_enabled r0; r_kick := r_kick r0; r_call := r_call r0;
                                                     r_err := r_err r0; r_size := r_size r0; r_next_avail := r_next_avail r0;
                                                     r_next_used := r_next_used r0; r_desc := r_desc r0; r_avail := r_avail r0;
                                                     r_used := r_used r0; r_event_idx := c_evidx e |}) (d_rings s))) r
        | OBackendEventIdx =>
            let m := d_mem s in
            with_s e (set_mem s {| m_maps := m_maps m; m_regs := m_regs m; m_fsizes := m_fsizes m; m_fbytes := m_fbytes m; m_upd := m_upd m;
                                   m_ackf := m_ackf m; m_evlog := m_evlog m ++ [if c_evidx e then 1 else 0]; m_log := m_log m; m_beq := m_beq m |}) r
        | OBackendAckedFeatures =>
            let m := d_mem s in
            with_s e (set_mem s {| m_maps := m_maps m; m_regs := m_regs m; m_fsizes := m_fsizes m; m_fbytes := m_fbytes m; m_upd := m_upd m;
                                   m_ackf := m_ackf m ++ [d_acked s]; m_evlog := m_evlog m; m_log := m_log m; m_beq := m_beq m |}) r
        | ORetOk => with_res e (DOk [])
        | ORetState => with_res e (DOk [c_next_avail e])
        end
    end.

  Fixpoint run_list (l : list cop) (e : cenv) : cenv :=
    match l with [] => e | o :: l' => run_list l' (run_op o e) end.
End Run.

(* initialize_vring itself contains no nested call *)
Definition run_init (e : cenv) : cenv := run_list (fun e => e) ctl_initialize_vring e.

Definition ring_dummy : ring := ring0 0.
Definition run_handler_num (prog : list cop) (s : dstate) (q : N) (enable : bool) (file : option N) (num : N) : dstate * dres :=
  let e := run_list run_init prog
                    {| c_s := s; c_q := q; c_r := ring_dummy; c_enable := enable; c_file := file; c_started := false;
                       c_next_avail := 0; c_num := num; c_evidx := false; c_res := None |} in
  (c_s e, match c_res e with Some d => d | None => DErr end).
Definition run_handler (prog : list cop) (s : dstate) (q : N) (enable : bool) (file : option N) : dstate * dres :=
  run_handler_num prog s q enable file 0.
