(* Hand model of the frontend endpoint (frontend.rs): every public operation
   as local checks, the request it writes and the reply it parses.  Request
   codes, feature bits, layouts, header constructor and validators are the
   regenerated definitions; control flow is by hand and tied to the code by
   the correspondence family "fe". *)
From VV Require Import Base.Bits Base.Rt Base.Val Gen.GenConsts Gen.GenLayout Gen.GenFns Gen.GenVrfd Gen.GenFeRecv Model.Transport.
Open Scope string_scope.
Open Scope list_scope.
Open Scope N_scope.

Record fe_state := {
  fe_vf : N;            (* features offered by the backend (last GET_FEATURES reply) *)
  fe_avf : N;           (* acknowledged virtio features *)
  fe_pf : N;            (* protocol features offered *)
  fe_apf : N;           (* acknowledged protocol features *)
  fe_maxq : N;
  fe_hdr_flags : N }.
Definition fe_init (maxq : N) : fe_state :=
  {| fe_vf := 0; fe_avf := 0; fe_pf := 0; fe_apf := 0; fe_maxq := maxq; fe_hdr_flags := 0 |}.

Definition RF := FrontendReq_table.
Definition tx := (list N * list N)%type.

Record fe_out := { f_state : fe_state; f_result : val; f_sent : list tx }.

Definition hasf (x bit : N) : bool := negb (N.land x bit =? 0).
Definition req_hdr (s : fe_state) (code size : N) : VhostUserMsgHeader :=
  VhostUserMsgHeader_new RF code (N.lor (N.land (fe_hdr_flags s) VhostUserHeaderFlag_NEED_REPLY) 1) size.
Definition mk_msg (h : VhostUserMsgHeader) (body : list N) (fds : list N) : tx :=
  (VhostUserMsgHeader_write h ++ body, fds).

Definition verr_s (e : verr) : val :=
  VS (match e with
      | EInvalidParam => "InvalidParam" | EInvalidOperation => "InvalidOperation"
      | EInactiveFeature _ => "InactiveFeature" | EInactiveOperation _ => "InactiveOperation"
      | EInvalidMessage => "InvalidMessage" | EPartialMessage => "PartialMessage"
      | EDisconnected => "Disconnected" | EOversizedMsg => "OversizedMsg" | EIncorrectFds => "IncorrectFds"
      | ESocketConnect => "SocketConnect" | ESocketError => "SocketError" | ESocketBroken => "SocketBroken"
      | ESocketRetry => "SocketRetry" | EBackendInternal => "BackendInternalError"
      | EFrontendInternal => "FrontendInternalError" | EFeatureMismatch => "FeatureMismatch"
      | EReqHandler => "ReqHandlerError" | EMemFdCreate => "MemFdCreateError"
      | EFileTruncate => "FileTruncateError" | EMemFdSeal => "MemFdSealError"
      end).

(* ---- receive paths ---- *)
Definition sz (t : fty) : nat := fty_size t.

(* Endpoint::recv_body::<T>: header and body in one loop of 12 + |T| bytes.  The decisions (frb_d1: short read, frb_d2:
   invalid header or body) are REGENERATED from connection.rs (Gen.GenFeRecv), as are those of the five reply readers below *)
Definition recv_body {T} (lay : fty) (read : list N -> nat -> T) (valid : T -> bool) (q : stream)
  : rresult (VhostUserMsgHeader * T * option (list N)) :=
  let total := (12 + sz lay)%nat in
  match recv_all (fuel_for q total) total [] None [] q with
  | RxAllFuel => RErr ESocketError
  | RxAll bytes files _ _ =>
      let h := VhostUserMsgHeader_read bytes 0 in
      let b := read bytes 12%nat in
      let nb := N.of_nat (List.length bytes) in
      let nt := N.of_nat total in
      if frb_d1 nb nt (VhostUserMsgHeader_is_valid RF h) (valid b) then RErr EPartialMessage
      else if frb_d2 nb nt (VhostUserMsgHeader_is_valid RF h) (valid b) then RErr EInvalidMessage
      else ROk (h, b, files)
  end.

(* FrontendInternal::recv_reply::<T> *)
Definition recv_reply {T} (req : VhostUserMsgHeader) (lay : fty) (read : list N -> nat -> T) (valid : T -> bool)
           (q : stream) : rresult T :=
  if frr_d1 (N.of_nat (sz lay)) MAX_MSG_SIZE (VhostUserMsgHeader_is_reply RF req) then RErr EInvalidParam
  else match recv_body lay read valid q with
       | RErr e => RErr e
       | ROk (h, b, files) =>
           if frr_d2 (VhostUserMsgHeader_is_reply_for RF h req) (o_is_some files) (valid b)
           then RErr EInvalidMessage else ROk b
       end.

Definition recv_reply_opt_files {T} (req : VhostUserMsgHeader) (lay : fty) (read : list N -> nat -> T)
           (valid : T -> bool) (q : stream) : rresult (T * option (list N)) :=
  if fro_d1 (N.of_nat (sz lay)) MAX_MSG_SIZE (VhostUserMsgHeader_is_reply RF req) then RErr EInvalidParam
  else match recv_body lay read valid q with
       | RErr e => RErr e
       | ROk (h, b, files) =>
           if fro_d2 (VhostUserMsgHeader_is_reply_for RF h req) (o_is_some files) (valid b)
           then RErr EInvalidMessage else ROk (b, files)
       end.
Definition recv_reply_files {T} (req : VhostUserMsgHeader) (lay : fty) (read : list N -> nat -> T)
           (valid : T -> bool) (q : stream) : rresult (T * option (list N)) :=
  match recv_reply_opt_files req lay read valid q with
  | RErr e => RErr e
  | ROk (b, files) => if frf_d1 (o_is_some files) then RErr EInvalidMessage else ROk (b, files)
  end.

(* wait_for_ack *)
Definition wait_for_ack (s : fe_state) (req : VhostUserMsgHeader) (q : stream) : rresult unit :=
  if fra_d1 (fe_apf s) (VhostUserMsgHeader_is_need_reply RF req)
  then ROk tt
  else match recv_body VhostUserU64_layout VhostUserU64_read VhostUserU64_is_valid q with
       | RErr e => RErr e
       | ROk (h, b, files) =>
           if fra_d2 (VhostUserMsgHeader_is_reply_for RF h req) (o_is_some files) (VhostUserU64_is_valid b)
           then RErr EInvalidMessage
           else if fra_d3 (VhostUserU64_value b) then RErr EBackendInternal else ROk tt
       end.

(* recv_reply_with_payload::<VhostUserConfig>: header first (Endpoint::recv_header: frh_d1..3), then exactly the announced size *)
Definition recv_reply_payload (req : VhostUserMsgHeader) (q : stream)
  : rresult (VhostUserConfig * list N * option (list N)) :=
  let tsz := sz VhostUserConfig_layout in
  let ntsz := N.of_nat tsz in
  let rsize := VhostUserMsgHeader_get_size RF req in
  if frp_d1 ntsz rsize MAX_MSG_SIZE (VhostUserMsgHeader_is_reply RF req) then RErr EInvalidParam
  else
    match recv_all (fuel_for q 12) 12 [] None [] q with
    | RxAllFuel => RErr ESocketError
    | RxAll hb files _ q1 =>
        let h := VhostUserMsgHeader_read hb 0 in
        let nhb := N.of_nat (List.length hb) in
        let hv := VhostUserMsgHeader_is_valid RF h in
        if frh_d1 nhb 12 hv then RErr EDisconnected
        else if frh_d2 nhb 12 hv then RErr EPartialMessage
        else if frh_d3 nhb 12 hv then RErr EInvalidMessage
        else
            let size := VhostUserMsgHeader_get_size RF h in
            if frp_d2 (VhostUserMsgHeader_is_reply_for RF h req) (o_is_some files) size ntsz rsize then RErr EInvalidMessage
            else
              match recv_data (N.to_nat size) q1 with
              | RxDRetry _ _ => RErr ESocketRetry
              | RxD buf _ _ =>
                  if frp_d3 (N.of_nat (List.length buf)) size then RErr EPartialMessage
                  else
                    let b := VhostUserConfig_read buf 0%nat in
                    let payload := skipn tsz buf in
                    if frp_d4 (VhostUserConfig_is_valid b) (N.of_nat (List.length payload)) rsize ntsz
                    then RErr EInvalidMessage
                    else ROk (b, payload, files)
              end
    end.

(* ---- helpers for results ---- *)
Definition ok (vals : list val) : val := VL (VS "ok" :: vals).
Definition out_err (s : fe_state) (e : verr) (sent : list tx) : fe_out :=
  {| f_state := s; f_result := verr_s e; f_sent := sent |}.
Definition out_ok (s : fe_state) (vals : list val) (sent : list tx) : fe_out :=
  {| f_state := s; f_result := ok vals; f_sent := sent |}.
Definition local_err (s : fe_state) (e : verr) : fe_out := out_err s e [].
Definition ack_out (s : fe_state) (h : VhostUserMsgHeader) (m : tx) (q : stream) : fe_out :=
  match wait_for_ack s h q with
  | ROk _ => out_ok s [] [m]
  | RErr e => out_err s e [m]
  end.
Definition check_proto_f (s : fe_state) (bit : N) : bool := hasf (fe_apf s) bit.

Definition u64b (v : N) : list N := VhostUserU64_write {| VhostUserU64_value := v |}.
Definition vstate (i n : N) : list N :=
  VhostUserVringState_write {| VhostUserVringState_index := i; VhostUserVringState_num := n |}.
Definition region_bytes (r : list N) : list N :=
  match r with
  | [gpa; size; ua; off] =>
      VhostUserMemoryRegion_write {| VhostUserMemoryRegion_guest_phys_addr := gpa; VhostUserMemoryRegion_memory_size := size;
                                     VhostUserMemoryRegion_user_addr := ua; VhostUserMemoryRegion_mmap_offset := off |}
  | _ => []
  end.
Definition single_region_bytes (r : list N) : list N :=
  match r with
  | [gpa; size; ua; off] =>
      VhostUserSingleMemoryRegion_write
        {| VhostUserSingleMemoryRegion_padding := 0;
           VhostUserSingleMemoryRegion_region :=
             {| VhostUserMemoryRegion_guest_phys_addr := gpa; VhostUserMemoryRegion_memory_size := size;
                VhostUserMemoryRegion_user_addr := ua; VhostUserMemoryRegion_mmap_offset := off |} |}
  | _ => []
  end.

Definition set_vf (s : fe_state) v := {| fe_vf := v; fe_avf := fe_avf s; fe_pf := fe_pf s; fe_apf := fe_apf s; fe_maxq := fe_maxq s; fe_hdr_flags := fe_hdr_flags s |}.
Definition set_avf (s : fe_state) v := {| fe_vf := fe_vf s; fe_avf := v; fe_pf := fe_pf s; fe_apf := fe_apf s; fe_maxq := fe_maxq s; fe_hdr_flags := fe_hdr_flags s |}.
Definition set_pf (s : fe_state) v := {| fe_vf := fe_vf s; fe_avf := fe_avf s; fe_pf := v; fe_apf := fe_apf s; fe_maxq := fe_maxq s; fe_hdr_flags := fe_hdr_flags s |}.
Definition set_apf (s : fe_state) v := {| fe_vf := fe_vf s; fe_avf := fe_avf s; fe_pf := fe_pf s; fe_apf := v; fe_maxq := fe_maxq s; fe_hdr_flags := fe_hdr_flags s |}.
Definition set_maxq (s : fe_state) v := {| fe_vf := fe_vf s; fe_avf := fe_avf s; fe_pf := fe_pf s; fe_apf := fe_apf s; fe_maxq := v; fe_hdr_flags := fe_hdr_flags s |}.
Definition set_hf (s : fe_state) v := {| fe_vf := fe_vf s; fe_avf := fe_avf s; fe_pf := fe_pf s; fe_apf := fe_apf s; fe_maxq := fe_maxq s; fe_hdr_flags := v |}.

(* a header-only request answered by a u64 *)
Definition get_u64 (s : fe_state) (code : N) (q : stream) (k : fe_state -> N -> tx -> fe_out) : fe_out :=
  let h := req_hdr s code 0 in
  let m := mk_msg h [] [] in
  match recv_reply h VhostUserU64_layout VhostUserU64_read VhostUserU64_is_valid q with
  | RErr e => out_err s e [m]
  | ROk b => k s (VhostUserU64_value b) m
  end.
Definition simple_ack (s : fe_state) (code : N) (body : list N) (fds : list N) (q : stream) : fe_out :=
  let h := req_hdr s code (N.of_nat (List.length body)) in
  let m := mk_msg h body fds in
  ack_out s h m q.

Definition fds_val (o : option (list N)) : val := match o with Some l => VL (map VN l) | None => VL [] end.

(* the operations; arguments are already decoded numbers / byte strings / descriptor ids *)
Definition fe_op (s : fe_state) (name : string) (a : list N) (bytes : list N) (fds : list N) (regions : list (list N))
           (q : stream) : fe_out :=
  let arg i := nth i a 0 in
  let qidx_bad := fe_maxq s <=? arg 0%nat in
  if String.eqb name "set_hdr_flags" then out_ok (set_hf s (N.land (arg 0%nat) (N.lor VhostUserHeaderFlag_ALL_FLAGS (N.lor VhostUserHeaderFlag_VERSION VhostUserHeaderFlag_RESERVED_BITS)))) [] []
  else if String.eqb name "get_features" then
    get_u64 s FrontendReq_GET_FEATURES q (fun s v m => out_ok (set_vf s v) [VN v] [m])
  else if String.eqb name "set_features" then
    let h := req_hdr s FrontendReq_SET_FEATURES 8 in
    let m := mk_msg h (u64b (arg 0%nat)) [] in
    let s' := set_avf s (N.land (arg 0%nat) (fe_vf s)) in
    ack_out s' h m q
  else if String.eqb name "set_owner" then simple_ack s FrontendReq_SET_OWNER [] [] q
  else if String.eqb name "reset_owner" then simple_ack s FrontendReq_RESET_OWNER [] [] q
  else if String.eqb name "set_mem_table" then
    (* regions: [gpa; size; ua; off; fd-or-negative-marker]; fd id 0 stands for a negative handle *)
    let n := List.length regions in
    if Nat.eqb n 0 || (32 <? n)%nat then local_err s EInvalidParam
    else if existsb (fun r => (nth 1 r 0 =? 0) || (nth 4 r 0 =? 0)) regions then local_err s EInvalidParam
    else
      let body := VhostUserMemory_write {| VhostUserMemory_num_regions := N.of_nat n; VhostUserMemory_padding1 := 0 |} in
      let payload := flat_map (fun r => region_bytes (firstn 4 r)) regions in
      let len := (List.length body + List.length payload)%nat in
      if (N.to_nat MAX_MSG_SIZE <? len)%nat then local_err s EInvalidParam
      else
        let h := req_hdr s FrontendReq_SET_MEM_TABLE (N.of_nat len) in
        ack_out s h (mk_msg h (body ++ payload) (map (fun r => nth 4 r 0) regions)) q
  else if String.eqb name "set_log_base" then
    (* a = [base; has_region; mmap_size; mmap_offset]; fds = [handle] *)
    if hasf (fe_apf s) VhostUserProtocolFeatures_LOG_SHMFD && (arg 1%nat =? 1) then
      let body := VhostUserLog_write {| VhostUserLog_mmap_size := arg 2%nat; VhostUserLog_mmap_offset := arg 3%nat |} in
      let h := req_hdr s FrontendReq_SET_LOG_BASE (N.of_nat (List.length body)) in
      let m := mk_msg h body fds in
      match recv_reply h VhostUserLog_layout VhostUserLog_read VhostUserLog_is_valid q with
      | RErr e => out_err s e [m]
      | ROk _ => out_ok s [] [m]
      end
    else
      let h := req_hdr s FrontendReq_SET_LOG_BASE 8 in
      out_ok s [] [mk_msg h (u64b (arg 0%nat)) []]
  else if String.eqb name "set_log_fd" then simple_ack s FrontendReq_SET_LOG_FD [] fds q
  else if String.eqb name "set_vring_num" then
    if qidx_bad then local_err s EInvalidParam
    else simple_ack s FrontendReq_SET_VRING_NUM (vstate (cast 32 (arg 0%nat)) (arg 1%nat)) [] q
  else if String.eqb name "set_vring_addr" then
    (* a = [queue; flags; desc; used; avail; has_log; log] *)
    if qidx_bad || negb (N.land (arg 1%nat) (lnot 32 VhostUserVringAddrFlags_all) =? 0) then local_err s EInvalidParam
    else
      let body := VhostUserVringAddr_write
                    {| VhostUserVringAddr_index := cast 32 (arg 0%nat); VhostUserVringAddr_flags := arg 1%nat;
                       VhostUserVringAddr_descriptor := arg 2%nat; VhostUserVringAddr_used := arg 3%nat;
                       VhostUserVringAddr_available := arg 4%nat;
                       VhostUserVringAddr_log := if arg 5%nat =? 1 then arg 6%nat else 0 |} in
      simple_ack s FrontendReq_SET_VRING_ADDR body [] q
  else if String.eqb name "set_vring_base" then
    if qidx_bad then local_err s EInvalidParam
    else simple_ack s FrontendReq_SET_VRING_BASE (vstate (cast 32 (arg 0%nat)) (arg 1%nat)) [] q
  else if String.eqb name "get_vring_base" then
    if qidx_bad then local_err s EInvalidParam
    else
      let body := vstate (cast 32 (arg 0%nat)) 0 in
      let h := req_hdr s FrontendReq_GET_VRING_BASE 8 in
      let m := mk_msg h body [] in
      match recv_reply h VhostUserVringState_layout VhostUserVringState_read VhostUserVringState_is_valid q with
      | RErr e => out_err s e [m]
      | ROk b => out_ok s [VN (VhostUserVringState_num b)] [m]
      end
  else if String.eqb name "set_vring_call" || String.eqb name "set_vring_kick" || String.eqb name "set_vring_err" then
    let code := if String.eqb name "set_vring_call" then FrontendReq_SET_VRING_CALL
                else if String.eqb name "set_vring_kick" then FrontendReq_SET_VRING_KICK else FrontendReq_SET_VRING_ERR in
    (* the local refusal and the payload value are REGENERATED from send_fd_for_vring (Gen.GenVrfd) *)
    if sfv_bad (arg 0%nat) (fe_maxq s) then local_err s EInvalidParam
    else simple_ack s code (u64b (sfv_payload (arg 0%nat))) fds q
  else if String.eqb name "get_protocol_features" then
    if negb (hasf (fe_vf s) VhostUserVirtioFeatures_PROTOCOL_FEATURES) then local_err s (EInactiveFeature 0)
    else get_u64 s FrontendReq_GET_PROTOCOL_FEATURES q
                 (fun s v m => out_ok (set_pf s v) [VN (N.land v VhostUserProtocolFeatures_all)] [m])
  else if String.eqb name "set_protocol_features" then
    if negb (hasf (fe_vf s) VhostUserVirtioFeatures_PROTOCOL_FEATURES) then local_err s (EInactiveFeature 0)
    else
      let v := N.land (arg 0%nat) VhostUserProtocolFeatures_all in
      let h := req_hdr s FrontendReq_SET_PROTOCOL_FEATURES 8 in
      let m := mk_msg h (u64b v) [] in
      ack_out (set_apf s v) h m q
  else if String.eqb name "get_queue_num" then
    if negb (check_proto_f s VhostUserProtocolFeatures_MQ) then local_err s (EInactiveOperation 0)
    else get_u64 s FrontendReq_GET_QUEUE_NUM q
                 (fun s v m => if VHOST_USER_MAX_VRINGS <? v then out_err s EInvalidMessage [m]
                               else out_ok (set_maxq s v) [VN v] [m])
  else if String.eqb name "reset_device" then
    if negb (check_proto_f s VhostUserProtocolFeatures_RESET_DEVICE) then local_err s (EInactiveOperation 0)
    else simple_ack s FrontendReq_RESET_DEVICE [] [] q
  else if String.eqb name "set_vring_enable" then
    if negb (hasf (fe_avf s) VhostUserVirtioFeatures_PROTOCOL_FEATURES) then local_err s (EInactiveFeature 0)
    else if qidx_bad then local_err s EInvalidParam
    else simple_ack s FrontendReq_SET_VRING_ENABLE (vstate (cast 32 (arg 0%nat)) (arg 1%nat)) [] q
  else if String.eqb name "get_config" then
    (* a = [offset; size; flags]; bytes = buf *)
    let body := {| VhostUserConfig_offset := arg 0%nat; VhostUserConfig_size := arg 1%nat; VhostUserConfig_flags := arg 2%nat |} in
    if negb (VhostUserConfig_is_valid body) || negb (N.of_nat (List.length bytes) =? arg 1%nat) then local_err s EInvalidParam
    else if negb (check_proto_f s VhostUserProtocolFeatures_CONFIG) then local_err s (EInactiveOperation 0)
    else
      let len := (sz VhostUserConfig_layout + List.length bytes)%nat in
      if (N.to_nat MAX_MSG_SIZE <? len)%nat then local_err s EInvalidParam
      else
        let h := req_hdr s FrontendReq_GET_CONFIG (N.of_nat len) in
        let m := mk_msg h (VhostUserConfig_write body ++ bytes) [] in
        match recv_reply_payload h q with
        | RErr e => out_err s e [m]
        | ROk (rb, payload, files) =>
            if o_is_some files then out_err s EInvalidMessage [m]
            else if VhostUserConfig_size rb =? 0 then out_err s EBackendInternal [m]
            else if negb (VhostUserConfig_size rb =? arg 1%nat)
                    || negb (VhostUserConfig_size rb =? N.of_nat (List.length bytes))
                    || negb (VhostUserConfig_offset rb =? arg 0%nat) then out_err s EInvalidMessage [m]
            else out_ok s [VN (VhostUserConfig_offset rb); VN (VhostUserConfig_size rb); VN (VhostUserConfig_flags rb); vbytes payload] [m]
        end
  else if String.eqb name "set_config" then
    (* a = [offset; flags]; bytes = buf *)
    if (N.to_nat MAX_MSG_SIZE <? List.length bytes)%nat then local_err s EInvalidParam
    else
      let body := {| VhostUserConfig_offset := arg 0%nat; VhostUserConfig_size := N.of_nat (List.length bytes);
                     VhostUserConfig_flags := arg 1%nat |} in
      if negb (VhostUserConfig_is_valid body) then local_err s EInvalidParam
      else if negb (check_proto_f s VhostUserProtocolFeatures_CONFIG) then local_err s (EInactiveOperation 0)
      else
        let len := (sz VhostUserConfig_layout + List.length bytes)%nat in
        if (N.to_nat MAX_MSG_SIZE <? len)%nat then local_err s EInvalidParam
        else simple_ack s FrontendReq_SET_CONFIG (VhostUserConfig_write body ++ bytes) [] q
  else if String.eqb name "set_backend_request_fd" then
    if negb (check_proto_f s VhostUserProtocolFeatures_BACKEND_REQ) then local_err s (EInactiveOperation 0)
    else simple_ack s FrontendReq_SET_BACKEND_REQ_FD [] fds q
  else if String.eqb name "get_shared_object" then
    if negb (check_proto_f s VhostUserProtocolFeatures_SHARED_OBJECT) then local_err s (EInactiveOperation 0)
    else if negb (VhostUserSharedMsg_is_valid {| VhostUserSharedMsg_uuid := bytes |}) then local_err s EInvalidParam
    else
      let h := req_hdr s FrontendReq_GET_SHARED_OBJECT 16 in
      let m := mk_msg h (firstn 16 (bytes ++ zeros 16)) [] in
      match recv_reply_files h VhostUserEmpty_layout VhostUserEmpty_read VhostUserEmpty_is_valid q with
      | RErr e => out_err s e [m]
      | ROk (_, files) =>
          match files with
          | Some [f] => out_ok s [VL [VN f]] [m]
          | _ => out_err s EIncorrectFds [m]
          end
      end
  else if String.eqb name "get_inflight_fd" || String.eqb name "set_inflight_fd" then
    (* a = [mmap_size; mmap_offset; num_queues; queue_size] *)
    let infl := {| VhostUserInflight_mmap_size := arg 0%nat; VhostUserInflight_mmap_offset := arg 1%nat;
                   VhostUserInflight_num_queues := arg 2%nat; VhostUserInflight_queue_size := arg 3%nat |} in
    if negb (check_proto_f s VhostUserProtocolFeatures_INFLIGHT_SHMFD) then local_err s (EInactiveOperation 0)
    else if String.eqb name "get_inflight_fd" then
      let h := req_hdr s FrontendReq_GET_INFLIGHT_FD (N.of_nat (sz VhostUserInflight_layout)) in
      let m := mk_msg h (VhostUserInflight_write infl) [] in
      match recv_reply_files h VhostUserInflight_layout VhostUserInflight_read VhostUserInflight_is_valid q with
      | RErr e => out_err s e [m]
      | ROk (r, files) =>
          match files with
          | Some [f] => out_ok s [VN (VhostUserInflight_mmap_size r); VN (VhostUserInflight_mmap_offset r);
                                  VN (VhostUserInflight_num_queues r); VN (VhostUserInflight_queue_size r); VL [VN f]] [m]
          | _ => out_err s EIncorrectFds [m]
          end
      end
    else
      if (arg 0%nat =? 0) || (arg 2%nat =? 0) || (arg 3%nat =? 0) || (nth 0 fds 0 =? 0) then local_err s EInvalidParam
      else simple_ack s FrontendReq_SET_INFLIGHT_FD (VhostUserInflight_write infl) fds q
  else if String.eqb name "get_max_mem_slots" then
    if negb (check_proto_f s VhostUserProtocolFeatures_CONFIGURE_MEM_SLOTS) then local_err s (EInactiveOperation 0)
    else get_u64 s FrontendReq_GET_MAX_MEM_SLOTS q (fun s v m => out_ok s [VN v] [m])
  else if String.eqb name "add_mem_region" then
    (* a = [gpa; size; ua; off; handle(0 = negative)] *)
    if negb (check_proto_f s VhostUserProtocolFeatures_CONFIGURE_MEM_SLOTS) then local_err s (EInactiveOperation 0)
    else if (arg 1%nat =? 0) || (arg 4%nat =? 0) then local_err s EInvalidParam
    else simple_ack s FrontendReq_ADD_MEM_REG (single_region_bytes (firstn 4 a)) [arg 4%nat] q
  else if String.eqb name "remove_mem_region" then
    if negb (check_proto_f s VhostUserProtocolFeatures_CONFIGURE_MEM_SLOTS) then local_err s (EInactiveOperation 0)
    else if arg 1%nat =? 0 then local_err s EInvalidParam
    else simple_ack s FrontendReq_REM_MEM_REG (single_region_bytes (firstn 4 a)) [] q
  else if String.eqb name "get_shmem_config" then
    if negb (check_proto_f s VhostUserProtocolFeatures_SHMEM) then local_err s (EInactiveOperation 0)
    else
      let h := req_hdr s FrontendReq_GET_SHMEM_CONFIG 0 in
      let m := mk_msg h [] [] in
      match recv_reply h VhostUserShMemConfig_layout VhostUserShMemConfig_read VhostUserShMemConfig_is_valid q with
      | RErr e => out_err s e [m]
      | ROk c => out_ok s [VN (VhostUserShMemConfig_nregions c); VL (map VN (firstn 4 (VhostUserShMemConfig_memory_sizes c)))] [m]
      end
  else if String.eqb name "set_device_state_fd" then
    (* a = [direction; phase]; fds = [fd] *)
    if negb (check_proto_f s VhostUserProtocolFeatures_DEVICE_STATE) then local_err s (EInactiveOperation 0)
    else
      let body := {| VhostUserTransferDeviceState_direction := arg 0%nat; VhostUserTransferDeviceState_phase := arg 1%nat |} in
      if negb (VhostUserTransferDeviceState_is_valid body) then local_err s EInvalidParam
      else
        let h := req_hdr s FrontendReq_SET_DEVICE_STATE_FD 8 in
        let m := mk_msg h (VhostUserTransferDeviceState_write body) fds in
        match recv_reply_opt_files h VhostUserU64_layout VhostUserU64_read VhostUserU64_is_valid q with
        | RErr e => out_err s e [m]
        | ROk (b, files) =>
            let v := VhostUserU64_value b in
            if (v =? 256) && o_is_none files then out_ok s [VL []] [m]
            else if (v =? 0) && o_is_some files then
              match files with
              | Some [f] => out_ok s [VL [VN f]] [m]
              | _ => out_err s EIncorrectFds [m]
              end
            else out_err s EBackendInternal [m]
        end
  else if String.eqb name "check_device_state" then
    if negb (check_proto_f s VhostUserProtocolFeatures_DEVICE_STATE) then local_err s (EInactiveOperation 0)
    else get_u64 s FrontendReq_CHECK_DEVICE_STATE q
                 (fun s v m => if negb (v =? 0) then out_err s EBackendInternal [m] else out_ok s [] [m])
  else {| f_state := s; f_result := VS "model-unknown-op"; f_sent := [] |}.

(* how many reply bytes the operation waits for once its request is written (used by the session
   model to tell "returns an error" from "keeps waiting on a live connection") *)
Definition fe_demand (s : fe_state) (name : string) (a : list N) (bytes : list N) : nat :=
  let ack := if hasf (fe_apf s) VhostUserProtocolFeatures_REPLY_ACK && hasf (fe_hdr_flags s) VhostUserHeaderFlag_NEED_REPLY
             then 20%nat else 0%nat in
  if existsb (String.eqb name) ["get_features"; "get_protocol_features"; "get_queue_num"; "get_max_mem_slots";
                                "check_device_state"; "set_device_state_fd"; "get_vring_base"] then 20%nat
  else if String.eqb name "set_log_base" then
    (if hasf (fe_apf s) VhostUserProtocolFeatures_LOG_SHMFD && (nth 1 a 0 =? 1) then 28%nat else 0%nat)
  else if String.eqb name "get_config" then 12%nat
  else if String.eqb name "get_shared_object" then 12%nat
  else if String.eqb name "get_inflight_fd" then (12 + sz VhostUserInflight_layout)%nat
  else if String.eqb name "get_shmem_config" then (12 + sz VhostUserShMemConfig_layout)%nat
  else if String.eqb name "set_protocol_features" then
    (* the acknowledged set is updated before the wait *)
    (if hasf (N.land (nth 0 a 0) VhostUserProtocolFeatures_all) VhostUserProtocolFeatures_REPLY_ACK
        && hasf (fe_hdr_flags s) VhostUserHeaderFlag_NEED_REPLY then 20%nat else 0%nat)
  else ack.
