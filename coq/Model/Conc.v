(* C10: callers sharing one endpoint.  Each call is: take the endpoint's lock,
   write the request, (for replying operations) read the reply, release the
   lock - the shape the regenerated table lock_ops shows for every method
   (Proofs/ConcProofs.v).  The transition system interleaves up to three such
   calls step by step; the wire is the list of (caller, what) in order. *)
From VV Require Import Base.Bits Base.Val.
Open Scope list_scope.
Open Scope N_scope.

(* per caller: 0 not started, 1 holds the lock, 2 request written, 3 reply read, 4 done; kind: true = expects a reply *)
Record cs := {
  holder : N;                    (* 0 = free, otherwise the caller holding the lock *)
  p1 : N; p2 : N; p3 : N;        (* callers' program counters; 9 = absent *)
  k1 : bool; k2 : bool; k3 : bool;
  wire : list N;                 (* 10*caller + 1 = request written, 10*caller + 2 = reply read *)
  bad : bool }.                  (* a request was written between another caller's request and its reply *)

Definition pc_of (s : cs) (i : N) : N := if i =? 1 then p1 s else if i =? 2 then p2 s else p3 s.
Definition kind_of (s : cs) (i : N) : bool := if i =? 1 then k1 s else if i =? 2 then k2 s else k3 s.
Definition set_pc (s : cs) (i v : N) (h : N) (wr : list N) (b : bool) : cs :=
  {| holder := h; p1 := if i =? 1 then v else p1 s; p2 := if i =? 2 then v else p2 s; p3 := if i =? 3 then v else p3 s;
     k1 := k1 s; k2 := k2 s; k3 := k3 s; wire := wr; bad := b |}.

(* is some other caller's request awaiting its reply? *)
Definition awaiting (s : cs) (me : N) : bool :=
  existsb (fun j => negb (j =? me) && (pc_of s j =? 2) && kind_of s j) [1; 2; 3].

Definition caller_step (s : cs) (i : N) : list cs :=
  let p := pc_of s i in
  if p =? 0 then (if holder s =? 0 then [set_pc s i 1 i (wire s) (bad s)] else [])
  else if p =? 1 then [set_pc s i 2 (holder s) (wire s ++ [10 * i + 1]) (bad s || awaiting s i)]
  else if p =? 2 then
    (if kind_of s i then [set_pc s i 3 (holder s) (wire s ++ [10 * i + 2]) (bad s)]
     else [set_pc s i 4 0 (wire s) (bad s)])
  else if p =? 3 then [set_pc s i 4 0 (wire s) (bad s)]
  else [].
Definition csteps (s : cs) : list cs := caller_step s 1 ++ caller_step s 2 ++ caller_step s 3.

Definition cinit (a b c : N) (ka kb kc : bool) : cs :=
  {| holder := 0; p1 := a; p2 := b; p3 := c; k1 := ka; k2 := kb; k3 := kc; wire := []; bad := false |}.
(* two or three callers, every mix of replying / non-replying operations *)
Definition cinits : list cs :=
  flat_map (fun third => flat_map (fun ka => flat_map (fun kb => map (fun kc => cinit 0 0 third ka kb kc) [false; true]) [false; true]) [false; true]) [0; 9].

(* the wire is a sequence of whole transactions: a reply entry directly follows the same caller's request entry *)
Fixpoint whole (l : list N) : bool :=
  match l with
  | [] => true
  | x :: r =>
      if x mod 10 =? 2 then false                       (* a reply without its request in front *)
      else match r with
           | y :: r' => if (y mod 10 =? 2) then (y / 10 =? x / 10) && whole r' else whole r
           | [] => true
           end
  end.
