(* Stream transport with descriptor passing, as seen by the receive paths of
   connection.rs.  The peer's output is a queue of segments; a descriptor list
   rides on the first byte of a segment.  One recvmsg never crosses a segment
   boundary (the harness shim enforces exactly this; a legal kernel behaviour
   since short reads are always allowed).  Hand model of Endpoint::recv_* . *)
From VV Require Import Base.Bits Base.Rt.
Open Scope N_scope.

Record seg := { seg_bytes : list N; seg_fds : list N }.
Definition stream := list seg.

Inductive rx_event :=
| RxData (bytes : list N) (fds : list N)   (* bytes read; descriptors delivered with them *)
| RxEof
| RxRetry (bytes_lost : list N).           (* ENOBUFS: control data truncated; the data bytes were consumed *)

(* Descriptors closed without ever being delivered (kernel or vmm-sys-util). *)
Definition closed := list N.

Definition max_fds : nat := N.to_nat 32.

(* one recvmsg for at most [n] bytes; [ctrl] = whether a control buffer for 32 descriptors is supplied *)
Definition recvmsg (n : nat) (ctrl : bool) (q : stream) : rx_event * closed * stream :=
  match q with
  | [] => (RxEof, [], [])
  | s :: rest =>
      let k := Nat.min n (List.length (seg_bytes s)) in
      let got := firstn k (seg_bytes s) in
      let left := skipn k (seg_bytes s) in
      let q' := match left with [] => rest | _ => {| seg_bytes := left; seg_fds := [] |} :: rest end in
      match seg_fds s with
      | [] => (RxData got [], [], q')
      | fds =>
          if ctrl && Nat.leb (List.length fds) max_fds
          then (RxData got fds, [], q')
          else (RxRetry got, fds, q')
      end
  end.

(* Endpoint::recv_into_iovec_all for a total of [need] bytes, with fuel.
   Returns the bytes read, the descriptors kept (those of the first chunk
   only), the descriptors closed, and whether the loop ended on EOF. *)
Inductive rx_all_result :=
| RxAll (bytes : list N) (fds : option (list N)) (cl : closed) (q : stream)
| RxAllFuel.

Fixpoint recv_all (fuel : nat) (need : nat) (acc : list N) (rfds : option (list N)) (cl : closed) (q : stream)
  : rx_all_result :=
  match fuel with
  | O => RxAllFuel
  | S f =>
      if Nat.leb need (List.length acc) then RxAll acc rfds cl q
      else
        match recvmsg (need - List.length acc) true q with
        | (RxEof, c, q') => RxAll acc rfds (cl ++ c) q'
        | (RxData [] fds, c, q') => RxAll acc rfds (cl ++ c ++ fds) q'   (* 0 bytes: treated as end; files dropped *)
        | (RxData bs fds, c, q') =>
            let is_first := match acc with [] => true | _ => false end in
            let rfds' := if is_first then (match fds with [] => None | _ => Some fds end) else rfds in
            (* descriptors arriving with a later chunk are dropped (File values go out of scope) *)
            let c' := if is_first then [] else fds in
            recv_all f need (acc ++ bs) rfds' (cl ++ c ++ c') q'
        | (RxRetry lost, c, q') =>
            (* SocketRetry is swallowed by the loop; the data of that recvmsg is gone *)
            recv_all f need acc rfds (cl ++ c) q'
        end
  end.

(* total bytes in the stream: a sufficient fuel *)
Definition stream_len (q : stream) : nat := fold_right (fun s a => (List.length (seg_bytes s) + a)%nat) 0%nat q.
Definition fuel_for (q : stream) (need : nat) : nat := (List.length q + stream_len q + need + 2)%nat.

(* Endpoint::recv_data: recvmsg without a control buffer, repeated until [len] bytes arrived
   or the stream ended; an error (descriptors attached to body bytes: ENOBUFS) is returned at once *)
Inductive rx_data_result :=
| RxD (bytes : list N) (cl : closed) (q : stream)
| RxDRetry (cl : closed) (q : stream).
Fixpoint recv_data_loop (fuel : nat) (len : nat) (acc : list N) (cl : closed) (q : stream) : rx_data_result :=
  match fuel with
  | O => RxD acc cl q
  | S f =>
      if Nat.leb len (List.length acc) then RxD acc cl q
      else
        match recvmsg (len - List.length acc) false q with
        | (RxEof, c, q') => RxD acc (cl ++ c) q'
        | (RxData [] _, c, q') => RxD acc (cl ++ c) q'
        | (RxData bs _, c, q') => recv_data_loop f len (acc ++ bs) (cl ++ c) q'
        | (RxRetry _, c, q') => RxDRetry (cl ++ c) q'
        end
  end.
Definition recv_data (len : nat) (q : stream) : rx_data_result :=
  recv_data_loop (fuel_for q len) len [] [] q.

(* ---- sender: Endpoint::send_iovec_all over a socket that may accept only part of a write ---- *)
Inductive tx_choice :=
| TxAccept (k : nat)      (* the socket accepts k bytes (capped to what is offered); 0 = "wrote nothing" *)
| TxRetry                 (* EAGAIN / EINTR / ENOBUFS: mapped to SocketRetry and retried *)
| TxFail.                 (* any other errno *)
Inductive tx_result := TxOk (sent : nat) | TxErr | TxFuel.
(* one accepted sendmsg: the bytes it carried and the descriptors passed with it *)
Definition tx_event := (list N * list N)%type.

Fixpoint send_all (data : list N) (fds : list N) (oracle : list tx_choice) (sent : nat) (trace : list tx_event)
  : tx_result * list tx_event :=
  if Nat.leb (List.length data) sent then (TxOk sent, trace)
  else
    match oracle with
    | [] => (TxFuel, trace)                      (* the call would block: outside the scripted run *)
    | c :: rest =>
        let sfds := match sent with O => fds | _ => [] end in
        match c with
        | TxAccept k =>
            let n := Nat.min k (List.length data - sent) in
            match n with
            | O => (TxOk sent, trace)
            | _ => send_all data fds rest (sent + n) (trace ++ [(firstn n (skipn sent data), sfds)])
            end
        | TxRetry => send_all data fds rest sent trace
        | TxFail => (TxErr, trace)
        end
    end.
