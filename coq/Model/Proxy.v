(* Hand models of the backend-initiated channel: the Backend proxy
   (backend_req.rs) and the frontend's server for its requests
   (frontend_req_handler.rs).  Tied to the code by the correspondence families
   "fsrv", "proxy" and "psess". *)
From VV Require Import Base.Bits Base.Rt Base.Val Gen.GenConsts Gen.GenLayout Gen.GenFns Gen.GenFsAck Model.Transport.
Open Scope string_scope.
Open Scope list_scope.
Open Scope N_scope.

Definition RB := BackendReq_table.
Definition ptx := (list N * list N)%type.

(* ---------------- the frontend's server for backend-initiated requests ---------------- *)
(* scripted handler result: HOk n | HErrno e | HErrOther *)
Inductive hres := HOk (n : N) | HErrno (e : N) | HErrOther.

Record fs_out := {
  fo_result : val;             (* VL [VS "ok"; VN n] or VS error name *)
  fo_calls : list val;
  fo_sent : list ptx;
  fo_closed : list N }.

Definition EINVAL : N := 22.

Definition fs_fail (e : string) (closed : list N) : fs_out :=
  {| fo_result := VS e; fo_calls := []; fo_sent := []; fo_closed := closed |}.

(* check_msg_size, REGENERATED (Gen.GenFsAck.fs_size_bad) *)
Definition fs_check_size (h : VhostUserMsgHeader) (size expected : N) : bool :=
  negb (fs_size_bad (VhostUserMsgHeader_get_size RB h) (VhostUserMsgHeader_is_reply RB h) (VhostUserMsgHeader_get_version RB h) size expected).

Definition fs_ack (reply_ack : bool) (h : VhostUserMsgHeader) (v : N) : list ptx :=
  if fsack_written reply_ack (VhostUserMsgHeader_is_need_reply RB h) then      (* send_ack_message, regenerated *)
    [(VhostUserMsgHeader_write (VhostUserMsgHeader_new RB (VhostUserMsgHeader_request h) VhostUserHeaderFlag_REPLY 8)
      ++ VhostUserU64_write {| VhostUserU64_value := v |}, [])]
  else [].

Definition hres_val (r : hres) : val :=
  match r with HOk n => VL [VS "ok"; VN n] | _ => VS "ReqHandlerError" end.
(* the acknowledgement value per kind of handler result: send_ack_message's arms, REGENERATED *)
Definition hres_ack (r : hres) : N :=
  match r with HOk n => fsack_value_ok n | HErrno e => fsack_value_errno e | HErrOther => fsack_value_noerrno end.

Definition mmap_val (m : VhostUserMMap) : list val :=
  [VN (VhostUserMMap_shmid m); VN (VhostUserMMap_fd_offset m); VN (VhostUserMMap_shm_offset m);
   VN (VhostUserMMap_len m); VN (VhostUserMMap_flags m)].

Definition fsrv_handle (reply_ack : bool) (hr : hres) (q : stream) : fs_out * stream :=
  match recv_all (fuel_for q 12) 12 [] None [] q with
  | RxAllFuel => (fs_fail "SocketError" [], q)
  | RxAll bytes files cl q1 =>
      let fl := match files with Some l => l | None => [] end in
      if Nat.eqb (List.length bytes) 0 then (fs_fail "Disconnected" (cl ++ fl), q1)
      else if negb (Nat.eqb (List.length bytes) 12) then (fs_fail "PartialMessage" (cl ++ fl), q1)
      else
        let h := VhostUserMsgHeader_read bytes 0 in
        if negb (VhostUserMsgHeader_is_valid RB h) then (fs_fail "InvalidMessage" (cl ++ fl), q1)
        else
          let code := VhostUserMsgHeader_request h in
          let needs_file := (code =? BackendReq_SHARED_OBJECT_LOOKUP) || (code =? BackendReq_SHMEM_MAP) in
          let files_ok := if needs_file then Nat.eqb (List.length fl) 1 && o_is_some files
                          else o_is_none files in
          if negb files_ok then (fs_fail "InvalidMessage" (cl ++ fl), q1)
          else
            let len := VhostUserMsgHeader_get_size RB h in
            let body_res :=
              if len =? 0 then Some ([], [], q1)
              else match recv_data (N.to_nat len) q1 with
                   | RxDRetry c2 q2 => None
                   | RxD buf c2 q2 => Some (buf, c2, q2)
                   end in
            match body_res with
            | None =>
                (match recv_data (N.to_nat len) q1 with
                 | RxDRetry c2 q2 => (fs_fail "SocketRetry" (cl ++ c2 ++ fl), q2)
                 | RxD _ c2 q2 => (fs_fail "SocketRetry" (cl ++ c2 ++ fl), q2)
                 end)
            | Some (buf, c2, q2) =>
                if negb (Nat.eqb (List.length buf) (N.to_nat len)) then (fs_fail "InvalidMessage" (cl ++ c2 ++ fl), q2)
                else
                  let size := len in
                  let closed := cl ++ c2 ++ fl in   (* lent files are closed after the call; others dropped *)
                  let finish (call : val) :=
                      ({| fo_result := hres_val hr; fo_calls := [call]; fo_sent := fs_ack reply_ack h (hres_ack hr);
                          fo_closed := closed |}, q2) in
                  let early := (fs_fail "InvalidMessage" closed, q2) in
                  if code =? BackendReq_CONFIG_CHANGE_MSG then
                    if fs_check_size h size 0 then finish (VL [VS "handle_config_change"]) else early
                  else if (code =? BackendReq_SHARED_OBJECT_ADD) || (code =? BackendReq_SHARED_OBJECT_REMOVE)
                          || (code =? BackendReq_SHARED_OBJECT_LOOKUP) then
                    if negb (fs_check_size h size (N.of_nat (fty_size VhostUserSharedMsg_layout))) then early
                    else
                      let m := VhostUserSharedMsg_read buf 0 in
                      if negb (VhostUserSharedMsg_is_valid m) then early
                      else
                        let u := vbytes (VhostUserSharedMsg_uuid m) in
                        if code =? BackendReq_SHARED_OBJECT_ADD then finish (VL [VS "shared_object_add"; u])
                        else if code =? BackendReq_SHARED_OBJECT_REMOVE then finish (VL [VS "shared_object_remove"; u])
                        else finish (VL [VS "shared_object_lookup"; u; VL (map VN fl)])
                  else if (code =? BackendReq_SHMEM_MAP) || (code =? BackendReq_SHMEM_UNMAP) then
                    if negb (fs_check_size h size (N.of_nat (fty_size VhostUserMMap_layout))) then early
                    else
                      let m := VhostUserMMap_read buf 0 in
                      if negb (VhostUserMMap_is_valid m) then early
                      else if code =? BackendReq_SHMEM_MAP then finish (VL (VS "shmem_map" :: mmap_val m ++ [VL (map VN fl)]))
                      else finish (VL (VS "shmem_unmap" :: mmap_val m))
                  else
                    (* a defined request this server does not implement: acknowledged as a failure *)
                    ({| fo_result := VS "InvalidMessage"; fo_calls := []; fo_sent := fs_ack reply_ack h (neg64 EINVAL);
                        fo_closed := closed |}, q2)
            end
  end.

(* ---------------- the Backend proxy ---------------- *)
Record px_state := { px_reply_ack : bool; px_shared : bool; px_shmem : bool }.
Record px_out := { po_result : val; po_sent : list ptx }.

Definition px_wait (s : px_state) (req : VhostUserMsgHeader) (q : stream) : val :=
  if negb (px_reply_ack s) then VL [VS "ok"; VN 0]
  else
    match recv_all (fuel_for q 20) 20 [] None [] q with
    | RxAllFuel => VS "SocketError"
    | RxAll bytes files _ _ =>
        if negb (Nat.eqb (List.length bytes) 20) then VS "PartialMessage"
        else
          let h := VhostUserMsgHeader_read bytes 0 in
          let b := VhostUserU64_read bytes 12 in
          if negb (VhostUserMsgHeader_is_valid RB h) || negb (VhostUserU64_is_valid b) then VS "InvalidMessage"
          else if negb (VhostUserMsgHeader_is_reply_for RB h req) || o_is_some files then VS "InvalidMessage"
          else if negb (VhostUserU64_value b =? 0) then VS "FrontendInternalError"
          else VL [VS "ok"; VN 0]
    end.

Definition px_send (s : px_state) (code : N) (body : list N) (fds : list N) (q : stream) : px_out :=
  let h0 := VhostUserMsgHeader_new RB code 0 (N.of_nat (List.length body)) in
  let h := if px_reply_ack s
           then {| VhostUserMsgHeader_request := VhostUserMsgHeader_request h0;
                   VhostUserMsgHeader_flags := N.lor (VhostUserMsgHeader_flags h0) VhostUserHeaderFlag_NEED_REPLY;
                   VhostUserMsgHeader_size := VhostUserMsgHeader_size h0 |}
           else h0 in
  {| po_result := px_wait s h q; po_sent := [(VhostUserMsgHeader_write h ++ body, fds)] |}.

Definition mmap_body (a : list N) : list N :=
  VhostUserMMap_write {| VhostUserMMap_shmid := nth 0 a 0; VhostUserMMap_padding := zeros 7;
                         VhostUserMMap_fd_offset := nth 1 a 0; VhostUserMMap_shm_offset := nth 2 a 0;
                         VhostUserMMap_len := nth 3 a 0; VhostUserMMap_flags := nth 4 a 0 |}.

Definition px_op (s : px_state) (name : string) (a : list N) (uuid : list N) (fds : list N) (q : stream) : px_out :=
  let refuse := {| po_result := VS "NotNegotiated"; po_sent := [] |} in
  let ub := firstn 16 (uuid ++ zeros 16) in
  if String.eqb name "shared_object_add" then
    if px_shared s then px_send s BackendReq_SHARED_OBJECT_ADD ub [] q else refuse
  else if String.eqb name "shared_object_remove" then
    if px_shared s then px_send s BackendReq_SHARED_OBJECT_REMOVE ub [] q else refuse
  else if String.eqb name "shared_object_lookup" then
    if px_shared s then px_send s BackendReq_SHARED_OBJECT_LOOKUP ub fds q else refuse
  else if String.eqb name "shmem_map" then
    if px_shmem s then px_send s BackendReq_SHMEM_MAP (mmap_body a) fds q else refuse
  else if String.eqb name "shmem_unmap" then
    if px_shmem s then px_send s BackendReq_SHMEM_UNMAP (mmap_body a) [] q else refuse
  else {| po_result := VS "model-unknown-op"; po_sent := [] |}.
