(* Hand model of one ring's worker loop (event_loop.rs) racing with the control
   path (handler.rs) and guest kicks: C12.  Two views:
   - the transition system [rsteps] explored completely in Proofs/RaceBase.v, and
   - [race_run], which executes a schedule given as tokens (the same tokens the
     correspondence family "race" forces on a real daemon through hold points). *)
From VV Require Import Base.Bits Base.Val Gen.GenWk.
Open Scope string_scope.
Open Scope list_scope.
Open Scope N_scope.

(* control micro-operations, in the order the handlers perform them; a micro-operation is code * 4 + hook, where
   hook = 1: followed by hold point ctl:after_state, 2: by ctl:after_epoll *)
Definition M_DIS_STATE : N := 1.   (* enabled := false *)
Definition M_UNREG : N := 2.       (* the ring is inactive: remove the kick descriptor from the worker's epoll set *)
Definition M_REPLY_DIS : N := 3.   (* acknowledgement of a disabling message written *)
Definition M_EN_STATE : N := 4.    (* enabled := true *)
Definition M_REG_IF : N := 5.      (* register iff started, enabled and a kick descriptor exists *)
Definition M_REPLY : N := 6.
Definition M_STOP_STATE : N := 7.  (* started := false *)
Definition M_DROP_KICK : N := 8.   (* the ring forgets its kick descriptor *)
Definition M_REPLY_STOP : N := 9.
Definition M_START_STATE : N := 10. (* a kick descriptor arrives: started := true *)

Definition op (code hook : N) : N := code * 4 + hook.
Definition prog_disable : list N := [op M_DIS_STATE 1; op M_UNREG 2; op M_REPLY_DIS 0].
Definition prog_enable : list N := [op M_EN_STATE 1; op M_REG_IF 2; op M_REPLY 0].
Definition prog_stop : list N := [op M_STOP_STATE 1; op M_UNREG 2; op M_DROP_KICK 0; op M_REPLY_STOP 0].
Definition prog_restart : list N := [op M_START_STATE 0; op M_REG_IF 0; op M_REPLY 0].
Definition prog_reset : list N := [op M_DIS_STATE 0; op M_UNREG 0; op M_REPLY_DIS 0].

Record rs := {
  w : N;                      (* worker: 0 in epoll_wait, 1 woken for the ring (before read_kick), 2 kick read (before dispatch) *)
  started : bool; enabled : bool; registered : bool; haskick : bool;
  pending : N;                (* eventfd counter, saturating at 2 *)
  kicks_left : N;             (* kicks the guest may still raise *)
  cq : list N;                (* remaining micro-operations of the control thread *)
  mon_dis : bool; mon_stop : bool;   (* a disabling / stopping reply is out and the ring was not enabled / started since *)
  inflight : bool;            (* the worker was past epoll_wait when that reply went out *)
  late : bool }.              (* a dispatch happened while a monitor was on *)

Definition set_w (s : rs) (w' pending' : N) (late' : bool) : rs :=
  {| w := w'; started := started s; enabled := enabled s; registered := registered s; haskick := haskick s;
     pending := pending'; kicks_left := kicks_left s; cq := cq s; mon_dis := mon_dis s; mon_stop := mon_stop s;
     inflight := inflight s; late := late' |}.

(* the worker's next step, if any *)
Definition worker_step (s : rs) : list rs :=
  if w s =? 0 then (if registered s && (0 <? pending s) then [set_w s 1 (pending s) (late s)] else [])
  else if w s =? 1 then
    (* read_kick and what handle_event does with its result, both REGENERATED (Gen.GenWk): wk_rk_d1 says when read_kick
       returns "not enabled" without touching the descriptor, wk_he_d3 when handle_event then returns without a dispatch *)
    (let res := negb (wk_rk_d1 (enabled s)) in
     let pend := if res && haskick s then 0 else pending s in
     if wk_he_d3 true 0 1 1 res then [set_w s 0 pend (late s)] else [set_w s 2 pend (late s)])
  else [set_w s 0 (pending s) (late s || mon_dis s || mon_stop s)].

Definition guest_step (s : rs) : list rs :=
  if 0 <? kicks_left s then
    [{| w := w s; started := started s; enabled := enabled s; registered := registered s; haskick := haskick s;
        pending := N.min 2 (pending s + 1); kicks_left := kicks_left s - 1; cq := cq s; mon_dis := mon_dis s; mon_stop := mon_stop s;
        inflight := inflight s; late := late s |}]
  else [].

Definition micro (s : rs) (code : N) (rest : list N) : rs :=
  let mk st en rg hk md ms inf :=
      {| w := w s; started := st; enabled := en; registered := rg; haskick := hk; pending := pending s; kicks_left := kicks_left s;
         cq := rest; mon_dis := md; mon_stop := ms; inflight := inf; late := late s |} in
  let '(st, en, rg, hk, md, ms, inf) := (started s, enabled s, registered s, haskick s, mon_dis s, mon_stop s, inflight s) in
  if code =? M_DIS_STATE then mk st false rg hk md ms inf
  else if code =? M_UNREG then mk st en false hk md ms inf
  else if code =? M_REPLY_DIS then mk st en rg hk true ms (inf || negb (w s =? 0))
  else if code =? M_EN_STATE then mk st true rg hk false ms inf
  else if code =? M_REG_IF then mk st en (st && en && hk) hk md ms inf
  else if code =? M_STOP_STATE then mk false en rg hk md ms inf
  else if code =? M_DROP_KICK then mk st en rg false md ms inf
  else if code =? M_REPLY_STOP then mk st en rg hk md true (inf || negb (w s =? 0))
  else if code =? M_START_STATE then mk true en rg true md false inf
  else mk st en rg hk md ms inf.

Definition control_step (s : rs) : list rs :=
  match cq s with
  | [] => []
  | o :: rest => [micro s (o / 4) rest]
  end.

Definition rsteps (s : rs) : list rs := worker_step s ++ control_step s ++ guest_step s.

Definition rinit (prog : list N) (kicks pend : N) : rs :=
  {| w := 0; started := true; enabled := true; registered := true; haskick := true; pending := pend; kicks_left := kicks;
     cq := prog; mon_dis := false; mon_stop := false; inflight := false; late := false |}.

(* the scenarios of the property: disable/enable, stop/restart, reset/enable, and their combination; 0..2 kicks raised
   at arbitrary moments, a kick possibly pending at the start *)
Definition rinits : list rs :=
  flat_map (fun p => flat_map (fun k => map (fun pe => rinit p k pe) [0; 1]) [0; 1; 2])
           [prog_disable ++ prog_enable; prog_stop ++ prog_restart; prog_reset ++ prog_enable;
            prog_disable ++ prog_stop ++ prog_restart ++ prog_enable; prog_disable ++ prog_enable ++ prog_disable ++ prog_enable].

(* ------------------------------------------------------------------ schedules as tokens *)
Record sched := {
  st : rs;
  arm_we : bool; arm_wr : bool; arm_cs : bool; arm_ce : bool;   (* armed hold points *)
  cpark : N;                   (* the control thread is parked after a micro-operation: 0 no, 1 after_state, 2 after_epoll *)
  cname : string;              (* the control message in flight *)
  rlog : list val }.

Definition wparked (x : sched) : bool := ((w (st x) =? 1) && arm_we x) || ((w (st x) =? 2) && arm_wr x).
Definition cparked (x : sched) : bool := ((cpark x =? 1) && arm_cs x) || ((cpark x =? 2) && arm_ce x).

Definition with_st (x : sched) (s : rs) (log : list val) (cp : N) : sched :=
  {| st := s; arm_we := arm_we x; arm_wr := arm_wr x; arm_cs := arm_cs x; arm_ce := arm_ce x; cpark := cp; cname := cname x; rlog := log |}.

(* run whatever can run, the worker and the control thread taking turns (the schedules leave at most one of them
   runnable, except while the worker spins on a disabled ring whose descriptor is still registered) *)
Fixpoint run_free (fuel : nat) (x : sched) : sched :=
  match fuel with
  | O =>
      (* out of fuel only while spinning: park the spinner in epoll_wait *)
      if (w (st x) =? 1) && negb (enabled (st x)) && negb (arm_we x) then with_st x (set_w (st x) 0 (pending (st x)) (late (st x))) (rlog x) (cpark x) else x
  | S f =>
      let '(x1, moved1) :=
          if wparked x then (x, false)
          else match worker_step (st x) with
               | s' :: _ => (with_st x s' (if w (st x) =? 2 then rlog x ++ [VS "dispatch"] else rlog x) (cpark x), true)
               | [] => (x, false)
               end in
      let '(x2, moved2) :=
          if cparked x1 then (x1, false)
          else match cq (st x1) with
               | o :: rest => (with_st x1 (micro (st x1) (o / 4) rest) (rlog x1) (o mod 4), true)
               | [] => (x1, false)
               end in
      if moved1 || moved2 then run_free f x2 else x2
  end.

Definition prog_of (name : string) : list N :=
  if String.eqb name "disable" then prog_disable else if String.eqb name "enable" then prog_enable
  else if String.eqb name "reenable" then [op M_EN_STATE 0; op M_REG_IF 0; op M_REPLY 0]
  else if String.eqb name "stop" then prog_stop else if String.eqb name "restart" then prog_restart
  else if String.eqb name "reset" then prog_reset else [].

Definition set_arm (x : sched) (p : string) (v : bool) : sched :=
  {| st := st x;
     arm_we := if String.eqb p "worker:after_epoll" then v else arm_we x;
     arm_wr := if String.eqb p "worker:after_read" then v else arm_wr x;
     arm_cs := if String.eqb p "ctl:after_state" then v else arm_cs x;
     arm_ce := if String.eqb p "ctl:after_epoll" then v else arm_ce x;
     cpark := cpark x; cname := cname x; rlog := rlog x |}.

Definition held_at (x : sched) (p : string) : bool :=
  if String.eqb p "worker:after_epoll" then (w (st x) =? 1) && arm_we x
  else if String.eqb p "worker:after_read" then (w (st x) =? 2) && arm_wr x
  else if String.eqb p "ctl:after_state" then (cpark x =? 1) && arm_cs x
  else if String.eqb p "ctl:after_epoll" then (cpark x =? 2) && arm_ce x
  else false.

Definition FUEL : nat := 40.
Definition token (x : sched) (verb arg : string) : sched :=
  let logx (x : sched) (e : string) := with_st x (st x) (rlog x ++ [VS e]) (cpark x) in
  if String.eqb verb "kick" then
    let s := st x in
    let s' := {| w := w s; started := started s; enabled := enabled s; registered := registered s; haskick := haskick s;
                 pending := N.min 2 (pending s + 1); kicks_left := kicks_left s; cq := cq s; mon_dis := mon_dis s; mon_stop := mon_stop s;
                 inflight := inflight s; late := late s |} in
    run_free FUEL (with_st x s' (rlog x ++ [VS "kick"]) (cpark x))
  else if String.eqb verb "arm" then set_arm x arg true
  else if String.eqb verb "wait" then logx x (String.append (if held_at x arg then "held:" else "not-held:") arg)
  else if String.eqb verb "release" then run_free FUEL (set_arm x arg false)
  else if String.eqb verb "ctl" then
    let x1 := logx x (String.append "ctl:" arg) in
    let s := st x1 in
    let s' := {| w := w s; started := started s; enabled := enabled s; registered := registered s; haskick := haskick s;
                 pending := pending s; kicks_left := kicks_left s; cq := prog_of arg; mon_dis := mon_dis s; mon_stop := mon_stop s;
                 inflight := inflight s; late := late s |} in
    run_free FUEL {| st := s'; arm_we := arm_we x1; arm_wr := arm_wr x1; arm_cs := arm_cs x1; arm_ce := arm_ce x1; cpark := 0;
                     cname := arg; rlog := rlog x1 |}
  else if String.eqb verb "join" then
    if String.eqb (cname x) "" then x
    else if Nat.eqb (List.length (cq (st x))) 0 && negb (cparked x)
    then {| st := st x; arm_we := arm_we x; arm_wr := arm_wr x; arm_cs := arm_cs x; arm_ce := arm_ce x; cpark := 0; cname := "";
            rlog := rlog x ++ [VS (String.append "reply:" (String.append (cname x) ":ok"))] |}
    else logx x "join-blocked"
  else if String.eqb verb "settle" then run_free FUEL x
  else x.

Fixpoint n_to_string (fuel : nat) (n : N) : string :=
  match fuel with
  | O => ""
  | S f => String.append (if n <? 10 then "" else n_to_string f (n / 10))
                         (String (Ascii.ascii_of_N (48 + n mod 10)) "")
  end.

Definition race_run (tokens : list val) : val :=
  let x0 := {| st := rinit [] 0 0; arm_we := false; arm_wr := false; arm_cs := false; arm_ce := false; cpark := 0; cname := ""; rlog := [] |} in
  let x1 := fold_left (fun x t => match t with VL [VS verb; VS arg] => token x verb arg | _ => x end) tokens x0 in
  (* the end of a run: every hold point is released, an outstanding control message is joined, everything settles *)
  let x2 := run_free FUEL {| st := st x1; arm_we := false; arm_wr := false; arm_cs := false; arm_ce := false; cpark := 0;
                             cname := cname x1; rlog := rlog x1 |} in
  let x3 := token x2 "join" "" in
  let x4 := run_free FUEL x3 in
  VL (rlog x4 ++ [VS (String.append "pending:" (n_to_string 3 (pending (st x4))))]).
