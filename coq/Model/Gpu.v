(* Hand model of the GPU proxy (gpu_backend_req.rs): every public operation of
   GpuBackend against a byte stream fed by the peer.  Tied to the code by the
   correspondence family "gpu". *)
From VV Require Import Base.Bits Base.Rt Base.Val Gen.GenConsts Gen.GenLayout Gen.GenFns Model.Transport.
Open Scope string_scope.
Open Scope list_scope.
Open Scope N_scope.

Definition RG := GpuBackendReq_table.
Definition gtx := (list N * list N)%type.
Record gpu_out := { go_result : val; go_sent : list gtx }.

Definition ghdr (code size : N) : VhostUserGpuMsgHeader := VhostUserGpuMsgHeader_new RG code 0 size.
Definition gmsg (code : N) (body payload : list N) (fds : list N) : gtx :=
  (VhostUserGpuMsgHeader_write (ghdr code (N.of_nat (List.length body + List.length payload))) ++ body ++ payload, fds).

(* recv_reply::<V>: header and a body of V's size in one read; exactly those bytes, a valid header that answers the
   request, no descriptors (every V used here has the always-true validator) *)
Definition gpu_wait (req : VhostUserGpuMsgHeader) (bsize : nat) (q : stream) : val + list N :=
  let need := (12 + bsize)%nat in
  match recv_all (fuel_for q need) need [] None [] q with
  | RxAllFuel => inl (VS "err")
  | RxAll bytes files _ _ =>
      if negb (Nat.eqb (List.length bytes) need) then inl (VS "PartialMessage")
      else
        let h := VhostUserGpuMsgHeader_read bytes 0 in
        if negb (VhostUserGpuMsgHeader_is_valid RG h) then inl (VS "InvalidMessage")
        else if negb (VhostUserGpuMsgHeader_is_reply_for RG h req) || o_is_some files then inl (VS "InvalidMessage")
        else inr (skipn 12 bytes)
  end.

Definition u32s (l : list N) : list N := flat_map (le_encode 4) l.

Definition gpu_op (name : string) (a : list N) (data : list N) (fds : list N) (q : stream) : gpu_out :=
  let g i := nth i a 0 in
  let is n := String.eqb name n in
  let send_only code body payload f := {| go_result := VL [VS "ok"]; go_sent := [gmsg code body payload f] |} in
  let with_reply code body bsize (k : list N -> val) :=
      {| go_result := match gpu_wait (ghdr code (N.of_nat (List.length body))) bsize q with inl e => e | inr b => k b end;
         go_sent := [gmsg code body [] []] |} in
  if is "get_protocol_features" then
    with_reply GpuBackendReq_GET_PROTOCOL_FEATURES [] 8%nat (fun b => VL [VS "ok"; VN (le_decode b)])
  else if is "set_protocol_features" then send_only GpuBackendReq_SET_PROTOCOL_FEATURES (le_encode 8 (g 0%nat)) [] []
  else if is "get_display_info" then
    with_reply GpuBackendReq_GET_DISPLAY_INFO [] (fty_size VirtioGpuRespDisplayInfo_layout) (fun b => VL [VS "ok"; vbytes b])
  else if is "get_edid" then
    with_reply GpuBackendReq_GET_EDID (u32s [g 0%nat]) (fty_size VirtioGpuRespGetEdid_layout) (fun b => VL [VS "ok"; vbytes b])
  else if is "set_scanout" then send_only GpuBackendReq_SCANOUT (u32s [g 0%nat; g 1%nat; g 2%nat]) [] []
  else if is "update_scanout" then send_only GpuBackendReq_UPDATE (u32s (firstn 5 (a ++ repeat 0 5))) data []
  else if is "set_dmabuf_scanout" then send_only GpuBackendReq_DMABUF_SCANOUT (u32s (firstn 10 (a ++ repeat 0 10))) [] fds
  else if is "set_dmabuf_scanout2" then
    send_only GpuBackendReq_DMABUF_SCANOUT2 (u32s (firstn 10 (a ++ repeat 0 10)) ++ le_encode 8 (g 10%nat)) [] fds
  else if is "update_dmabuf_scanout" then
    with_reply GpuBackendReq_DMABUF_UPDATE (u32s (firstn 5 (a ++ repeat 0 5))) 0%nat (fun _ => VL [VS "ok"])
  else if is "cursor_pos" then send_only GpuBackendReq_CURSOR_POS (u32s [g 0%nat; g 1%nat; g 2%nat]) [] []
  else if is "cursor_pos_hide" then send_only GpuBackendReq_CURSOR_POS_HIDE (u32s [g 0%nat; g 1%nat; g 2%nat]) [] []
  else if is "cursor_update" then
    (* the harness fills the fixed 64x64x4 image by repeating [data] *)
    let n := List.length data in
    let img := map (fun i => match n with O => 0 | _ => nth (i mod n) data 0 end) (seq 0 (N.to_nat 16384)) in
    send_only GpuBackendReq_CURSOR_UPDATE (u32s (firstn 5 (a ++ repeat 0 5))) img []
  else {| go_result := VS "model-unknown-op"; go_sent := [] |}.
