(* Hand model of the daemon's connection life-cycle (vhost-user-backend lib.rs):
   the daemon thread's loop, ShutdownHandle::shutdown (flag, then socket
   shutdown), the peer closing at any moment, a handler that may block, and
   wait()'s classification of the thread's result.  Two views:
   - a small-step transition system over which every interleaving is explored
     (Proofs/ShutProofs.v), and
   - [shut_obs], the outcome of the sequential scenarios the correspondence
     family "shut" drives on a real daemon. *)
From VV Require Import Base.Bits Base.Val Gen.GenLife.
Open Scope string_scope.
Open Scope list_scope.
Open Scope N_scope.

(* thread program counter *)
Definition P_READ : N := 0.     (* blocked in / about to perform the header read *)
Definition P_BODY : N := 1.     (* header consumed, reading the body *)
Definition P_HANDLER : N := 2.  (* inside the backend's handler *)
Definition P_REPLY : N := 3.    (* about to write the reply *)
Definition P_FINAL : N := 4.    (* left the loop with an error; about to shut the socket down *)
Definition P_DONE : N := 5.
(* the error the loop ended with *)
Definition R_NONE : N := 0.  Definition R_DISCONNECTED : N := 1.  Definition R_PARTIAL : N := 2.
Definition R_INVALID : N := 3.  Definition R_BROKEN : N := 4.
(* what the peer has queued *)
Definition I_NONE : N := 0.  Definition I_PARTIAL_HDR : N := 1.  Definition I_HDR_ONLY : N := 2.
Definition I_REQUEST : N := 3.  Definition I_INVALID : N := 4.

Record st := {
  pc : N; res : N;
  shut : bool;            (* our end of the socket has been shut down *)
  pclosed : bool;         (* the peer has closed its end *)
  inbox : N;
  flag : bool;            (* shutdown_requested *)
  c1 : N; c2 : N; c3 : N; (* shutdown callers: 0 absent, 1 ready, 2 flag stored, 3 done *)
  gate : bool;            (* the handler blocks while the gate is closed *)
  pwill : bool }.         (* the peer will close at some later moment *)

Definition upd_thread (s : st) (pc' res' : N) (inbox' : N) (shut' : bool) : st :=
  {| pc := pc'; res := res'; shut := shut'; pclosed := pclosed s; inbox := inbox'; flag := flag s;
     c1 := c1 s; c2 := c2 s; c3 := c3 s; gate := gate s; pwill := pwill s |}.

Definition eof (s : st) : bool := shut s || pclosed s.

(* the daemon thread's next step, if it is not blocked *)
Definition thread_step (s : st) : list st :=
  if pc s =? P_READ then
    if inbox s =? I_REQUEST then [upd_thread s P_HANDLER (res s) I_NONE (shut s)]
    else if inbox s =? I_INVALID then [upd_thread s P_FINAL R_INVALID I_NONE (shut s)]
    else if inbox s =? I_HDR_ONLY then [upd_thread s P_BODY (res s) I_NONE (shut s)]
    else if inbox s =? I_PARTIAL_HDR then (if eof s then [upd_thread s P_FINAL R_PARTIAL I_NONE (shut s)] else [])
    else (if eof s then [upd_thread s P_FINAL R_DISCONNECTED I_NONE (shut s)] else [])
  else if pc s =? P_BODY then (if eof s then [upd_thread s P_FINAL R_INVALID I_NONE (shut s)] else [])
  else if pc s =? P_HANDLER then (if gate s then [] else [upd_thread s P_REPLY (res s) (inbox s) (shut s)])
  else if pc s =? P_REPLY then
    (if eof s then [upd_thread s P_FINAL R_BROKEN (inbox s) (shut s)] else [upd_thread s P_READ (res s) (inbox s) (shut s)])
  else if pc s =? P_FINAL then [upd_thread s P_DONE (res s) (inbox s) true]
  else [].

(* the callers are interchangeable: the state keeps the multiset of their program counters (sorted, c1 >= c2 >= c3) *)
Definition sort3 (a b c : N) : N * N * N :=
  let '(a, b) := if a <? b then (b, a) else (a, b) in
  let '(b, c) := if b <? c then (c, b) else (b, c) in
  let '(a, b) := if a <? b then (b, a) else (a, b) in
  (a, b, c).
Definition set_caller (s : st) (i : N) (v : N) (flag' shut' : bool) : st :=
  let '(a, b, c) := sort3 (if i =? 1 then v else c1 s) (if i =? 2 then v else c2 s) (if i =? 3 then v else c3 s) in
  {| pc := pc s; res := res s; shut := shut'; pclosed := pclosed s; inbox := inbox s; flag := flag';
     c1 := a; c2 := b; c3 := c; gate := gate s; pwill := pwill s |}.
(* ShutdownHandle::shutdown: store the flag, then shut the socket down *)
Definition caller_step (s : st) (i : N) (c : N) : list st :=
  if c =? 1 then [set_caller s i 2 true (shut s)]
  else if c =? 2 then [set_caller s i 3 (flag s) true]
  else [].
Definition env_step (s : st) : list st :=
  (if pwill s then [{| pc := pc s; res := res s; shut := shut s; pclosed := true; inbox := inbox s; flag := flag s;
                       c1 := c1 s; c2 := c2 s; c3 := c3 s; gate := gate s; pwill := false |}] else [])
  ++ (if gate s then [{| pc := pc s; res := res s; shut := shut s; pclosed := pclosed s; inbox := inbox s; flag := flag s;
                         c1 := c1 s; c2 := c2 s; c3 := c3 s; gate := false; pwill := pwill s |}] else []).

Definition steps (s : st) : list st :=
  thread_step s ++ caller_step s 1 (c1 s) ++ caller_step s 2 (c2 s) ++ caller_step s 3 (c3 s) ++ env_step s.

(* wait(): the classification of the daemon thread's result REGENERATED from lib.rs (Gen.GenLife.life_wait_ok; the R_
   codes are the generator's numbering of the request errors): Ok for SocketBroken, Ok for any request error once
   shutdown was requested, the error otherwise *)
Definition wait_ok (s : st) : bool := life_wait_ok (res s) (flag s).

Definition caller_done (c : N) : bool := (c =? 0) || (c =? 3).
Definition shutdown_returned (s : st) : bool :=
  caller_done (c1 s) && caller_done (c2 s) && caller_done (c3 s) && ((c1 s =? 3) || (c2 s =? 3) || (c3 s =? 3)).
Definition no_callers (s : st) : bool := (c1 s =? 0) && (c2 s =? 0) && (c3 s =? 0).

Definition init (inbox0 : N) (a b c : N) (gate0 pwill0 pclosed0 : bool) : st :=
  {| pc := P_READ; res := R_NONE; shut := false; pclosed := pclosed0; inbox := inbox0; flag := false;
     c1 := a; c2 := b; c3 := c; gate := gate0; pwill := pwill0 |}.

(* every initial situation: what the peer queued x 0..3 callers x handler gate x peer closes later / already closed *)
Definition inits : list st :=
  flat_map (fun ib =>
  flat_map (fun cs : N * N * N =>
  flat_map (fun g : bool =>
  flat_map (fun pw : bool =>
  map (fun pcl : bool => let '(a, b, c) := cs in init ib a b c g pw pcl) [false; true]) [false; true]) [false; true])
    [(0, 0, 0); (1, 0, 0); (1, 1, 0); (1, 1, 1)]) [I_NONE; I_PARTIAL_HDR; I_HDR_ONLY; I_REQUEST; I_INVALID].

(* ------------------------------------------------------------------ the sequential scenarios of family "shut" *)
(* run the thread until it blocks or is done *)
Fixpoint run_thread (fuel : nat) (s : st) : st :=
  match fuel with
  | O => s
  | S f => match thread_step s with s' :: _ => run_thread f s' | [] => s end
  end.
Definition err_name (r : N) : string :=
  if r =? R_DISCONNECTED then "err:Disconnected" else if r =? R_PARTIAL then "err:PartialMessage"
  else if r =? R_INVALID then "err:InvalidMessage" else if r =? R_BROKEN then "err:SocketBroken" else "err:other".

(* position, k, shutdown?, release_first? -> [wait/second wait; bounded; peer; restart; workers left] *)
Definition shut_obs (pos : string) (k : N) (shutdown release_first : bool) : val :=
  let mk ib g pcl := init ib (if shutdown then 1 else 0) 0 0 g false pcl in
  let s0 :=
    if String.eqb pos "idle" then mk I_NONE false false
    else if String.eqb pos "partial_hdr" then mk I_PARTIAL_HDR false false
    else if String.eqb pos "header_only" then mk I_HDR_ONLY false false
    else if String.eqb pos "in_handler" then mk I_REQUEST true false
    else if String.eqb pos "reply_to_closed_peer" then mk I_REQUEST true false
    else if String.eqb pos "after_reply" then mk I_NONE false false
    (* the peer never reads: the thread is blocked writing a reply.  The model has no notion of a full socket; a thread
       that is serving a request stands for it (the request for shutdown must end either) *)
    else if String.eqb pos "reply_blocked" then mk I_REQUEST false false
    else if String.eqb pos "peer_closed" then mk I_NONE false true
    else if String.eqb pos "peer_closed_partial" then mk (if k <? 12 then I_PARTIAL_HDR else I_HDR_ONLY) false true
    (* the peer closed only its sending side: end of input for the daemon thread, but the peer still reads *)
    else if String.eqb pos "peer_halfclose" then mk (if k =? 0 then I_NONE else if k <? 12 then I_PARTIAL_HDR else I_HDR_ONLY) false true
    else mk I_INVALID false false in
  (* the thread reaches its position *)
  let s1 := run_thread 8 s0 in
  let s1 := if String.eqb pos "reply_to_closed_peer"
            then {| pc := pc s1; res := res s1; shut := shut s1; pclosed := true; inbox := inbox s1; flag := flag s1;
                    c1 := c1 s1; c2 := c2 s1; c3 := c3 s1; gate := gate s1; pwill := false |} else s1 in
  let release (s : st) := {| pc := pc s; res := res s; shut := shut s; pclosed := pclosed s; inbox := inbox s; flag := flag s;
                             c1 := c1 s; c2 := c2 s; c3 := c3 s; gate := false; pwill := pwill s |} in
  let s2 := if gate s1 && (release_first || negb shutdown) then run_thread 8 (release s1) else s1 in
  (* the shutdown request, completely *)
  let s3 := if shutdown then
              match caller_step s2 1 (c1 s2) with
              | sa :: _ => match caller_step sa 1 (c1 sa) with sb :: _ => sb | [] => sa end
              | [] => s2
              end
            else s2 in
  let s4 := run_thread 8 (release (run_thread 8 s3)) in
  if pc s4 =? P_DONE then
    VL [VS ((if wait_ok s4 then "ok" else err_name (res s4)) ++ "/ok"); VN 1;
        VS (if pclosed s4 && negb (String.eqb pos "peer_halfclose") then "closed" else "eof"); VS "ok"; VN 0]
  else VL [VS "timeout"; VN 0; VS "timeout"; VS "n/a"; VN 99].

(* serve(): wait's result with clean and partial-header disconnects mapped to success (Gen.GenLife.life_serve_forgives);
   every worker's exit event raised *)
Definition serve_obs (pos : string) : val :=
  if String.eqb pos "serve_invalid" then VL [VS "err:InvalidMessage"; VN 1; VS "eof"; VS "n/a"; VN 0]
  else VL [VS "ok"; VN 1; VS "closed"; VS "n/a"; VN 0].
