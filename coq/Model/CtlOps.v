(* The operations the daemon's per-ring control handlers (vhost-user-backend/src/handler.rs) are made of.  rs2v (ctl.rs)
   translates each handler's statements, in order, into a list of these (Gen/GenCtl.v); Model/CtlRun.v gives them their
   meaning over the daemon model's state, and Proofs/CtlProofs.v proves that the regenerated programs compute exactly
   the hand model's handlers (Model/Daemon.v: h_set_vring_enable, h_get_vring_base, ...). *)
From Coq Require Import List NArith Bool.
Import ListNotations.

Inductive bval := BParam | BTrue | BFalse.        (* the message's boolean argument / a literal *)
Inductive fval := FParam | FNone.                  (* the message's descriptor / None *)
Inductive ccond := CStarted | CNeedsInit | CNoProtocolFeatures.   (* the local `started` / self.vring_needs_init(vring) /
                                                                     acked_features & PROTOCOL_FEATURES == 0 *)

Inductive cop :=
| OCheckFeature (f : N)          (* self.check_feature(F)?                       *)
| OGetRing                        (* let vring = self.vrings.get(index)...?       *)
| OSetEnabled (v : bval)          (* vring.set_enabled(v)                         *)
| OSetReady (v : bool)            (* vring.set_queue_ready(v)                     *)
| OUpdateReg                      (* self.update_vring_registration(vring, index) *)
| OUnregKick                      (* self.unregister_vring_kick(vring, index)     *)
| OInitRing                       (* self.initialize_vring(vring, index)?         *)
| OLetStarted                     (* let started = vring...ready()                *)
| OLetNextAvail                   (* let next_avail = vring.queue_next_avail()    *)
| OSetKick (v : fval)             (* vring.set_kick(v)                            *)
| OSetCall (v : fval)
| OSetErr (v : fval)
| OIf (c : ccond) (t e : list cop)
| OForRings (body : list cop)     (* for (index, vring) in self.vrings.iter().enumerate() *)
| OForgetFeatures                 (* self.features_acked = false                  *)
| OClearAckedFeatures             (* self.acked_features = 0                      *)
| OBackendReset                   (* self.backend.reset_device()                  *)
| OCheckOffered                   (* if (features & !self.backend.features()) != 0 { return Err(InvalidParam) } *)
| OSetAckedFeatures               (* self.acked_features = features               *)
| OMarkFeaturesAcked              (* self.features_acked = true                   *)
| OLetEventIdx                    (* let event_idx = acked_features & (1 << VIRTIO_RING_F_EVENT_IDX) != 0 *)
| OSetEventIdxAll                 (* for vring in self.vrings.iter_mut() { vring.set_queue_event_idx(event_idx) } *)
| OBackendEventIdx                (* self.backend.set_event_idx(event_idx)        *)
| OBackendAckedFeatures           (* self.backend.acked_features(self.acked_features) *)
| ORetOk                          (* Ok(())                                       *)
| ORetState.                      (* Ok(VhostUserVringState::new(index, next_avail)) *)
