(* The operations the daemon's per-ring control handlers (vhost-user-backend/src/handler.rs) are made of.  rs2v (ctl.rs)
   translates each handler's statements, in order, into a list of these (Gen/GenCtl.v); Model/CtlRun.v gives them their
   meaning over the daemon model's state, and Proofs/CtlProofs.v proves that the regenerated programs compute exactly
   the hand model's handlers (Model/Daemon.v: h_set_vring_enable, h_get_vring_base, ...). *)
From Coq Require Import List NArith Bool.
Import ListNotations.

Inductive bval := BParam | BTrue | BFalse.        (* the message's boolean argument / a literal *)
Inductive fval := FParam | FNone.                  (* the message's descriptor / None *)
Inductive ccond := CStarted | CNeedsInit.          (* the local `started` / self.vring_needs_init(vring) *)

Inductive cop :=
| OCheckFeature (f : N)          (* self.check_feature(F)?                       *)
| OGetRing                        (* let vring = self.vrings.get(index)...?       *)
| OSetEnabled (v : bval)          (* vring.set_enabled(v)                         *)
| OSetReady (v : bool)            (* vring.set_queue_ready(v)                     *)
| OUpdateReg                      (* self.update_vring_registration(vring, index) *)
| OUnregKick                      (* self.unregister_vring_kick(vring, index)     *)
| OInitRing                       (* self.initialize_vring(vring, index)?         *)
| OLetStarted                     (* let started = vring...ready()                *)
| OLetNextAvail                   (* let next_avail = vring.queue_next_avail()    *)
| OSetKick (v : fval)             (* vring.set_kick(v)                            *)
| OSetCall (v : fval)
| OSetErr (v : fval)
| OIf (c : ccond) (t e : list cop)
| OForRings (body : list cop)     (* for (index, vring) in self.vrings.iter().enumerate() *)
| OForgetFeatures                 (* self.features_acked = false                  *)
| OClearAckedFeatures             (* self.acked_features = 0                      *)
| OBackendReset                   (* self.backend.reset_device()                  *)
| ORetOk                          (* Ok(())                                       *)
| ORetState.                      (* Ok(VhostUserVringState::new(index, next_avail)) *)
