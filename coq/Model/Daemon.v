(* Hand model of the vhost-user-backend daemon's control plane (handler.rs,
   vring.rs, event_loop.rs): ring state machine, epoll registrations, kick
   dispatch, queue configuration, memory table.  The three layers a control
   message crosses (frontend endpoint gates, request-server gates, daemon
   handler) are modelled as far as they decide whether the handler runs.
   Tied to the code by the correspondence family "dmn". *)
From VV Require Import Base.Bits Base.Rt Base.Val Gen.GenConsts Gen.GenRoute Gen.GenBitmap Gen.GenCtl Gen.GenWk.
Open Scope string_scope.
Open Scope list_scope.
Open Scope N_scope.

(* a kick descriptor as the backend holds it: the eventfd's identity and the instance (each
   SET_VRING_KICK delivers a new descriptor number, even for the same eventfd) *)
Record kfd := { k_file : N; k_inst : N }.

Record ring := {
  r_ready : bool; r_enabled : bool;
  r_kick : option kfd; r_call : option N; r_err : option N;
  r_size : N; r_next_avail : N; r_next_used : N;
  r_desc : N; r_avail : N; r_used : N; r_event_idx : bool }.
Definition ring0 (maxq : N) : ring :=
  {| r_ready := false; r_enabled := false; r_kick := None; r_call := None; r_err := None;
     r_size := maxq; r_next_avail := 0; r_next_used := 0; r_desc := 0; r_avail := 0; r_used := 0; r_event_idx := false |}.

(* an epoll registration of a worker: which descriptor instance, with which event id *)
Record reg := { g_thread : nat; g_kfd : kfd; g_idx : N }.

Record mapping := { m_vmm : N; m_size : N; m_gpa : N }.
(* rg_log: the dirty log this region's bitmap writes to (file, offset of the mapped window, its length) *)
Record region := { rg_gpa : N; rg_size : N; rg_file : N; rg_off : N; rg_log : option (N * N * N) }.
(* memory side of the daemon: the translation table, the guest memory handed to the backend, the shared
   files (size and bytes written so far; unwritten bytes are zero), and what the backend was told *)
Record dmem := {
  m_maps : list mapping; m_regs : list region;
  m_fsizes : list (N * N); m_fbytes : list (N * N * N);
  m_upd : N; m_ackf : list N; m_evlog : list N;
  m_log : option (N * N * N);
  m_beq : option (bool * bool * bool) }.   (* the backend-request channel: reply-ack, shared-object, shared-memory settings it got *)            (* the dirty log in force: file, window offset, window length *)
Definition dmem0 : dmem :=
  {| m_maps := []; m_regs := []; m_fsizes := []; m_fbytes := []; m_upd := 0; m_ackf := []; m_evlog := []; m_log := None; m_beq := None |}.

Record dstate := {
  d_nq : nat; d_maxq : N; d_features : N; d_pfeatures : N; d_masks : list N;
  d_rings : list ring;
  d_regs : list reg;
  d_pending : list (N * N);          (* eventfd counters *)
  d_fe_holds : list N;               (* eventfds the guest side still holds *)
  d_next_inst : N;
  d_owned : bool; d_acked : N; d_acked_proto : N;      (* daemon handler *)
  d_rq_acked : N; d_rq_acked_proto : N;                (* request server *)
  d_fe_avf : N; d_fe_apf : N; d_fe_maxq : N;           (* frontend endpoint *)
  d_dead : bool;                                        (* the daemon thread stopped serving *)
  d_mem : dmem;
  d_worker_dead : list nat }.

Definition hasd (x b : N) : bool := negb (N.land x b =? 0).
Definition PFB := VhostUserVirtioFeatures_PROTOCOL_FEATURES.

(* ---- helpers ---- *)
Fixpoint upd {A} (l : list A) (i : nat) (x : A) : list A :=
  match l, i with
  | [], _ => []
  | _ :: r, O => x :: r
  | y :: r, S k => y :: upd r k x
  end.
Definition kfd_eqb (a b : kfd) : bool := (k_file a =? k_file b) && (k_inst a =? k_inst b).

(* the worker that owns queue q, and q's event id there: the loop of update_vring_registration /
   unregister_vring_kick over the worker masks, with the shifted mask, the membership test and the event id
   expression REGENERATED from handler.rs (Gen.GenRoute); the loop stops at the first hit (route_shape) *)
Fixpoint owner_of (masks : list N) (q : N) (t : nat) : option (nat * N) :=
  match masks with
  | [] => None
  | m :: r =>
      let shifted := route_shift m q in
      if route_hit shifted then Some (t, route_evt m shifted)
      else owner_of r q (S t)
  end.

Definition file_refs (s : dstate) (f : N) : bool :=
  existsb (N.eqb f) (d_fe_holds s)
  || existsb (fun r => match r_kick r with Some k => k_file k =? f | None => false end) (d_rings s).

(* registrations of a file whose last reference is gone disappear from every epoll set *)
Definition gc_regs (s : dstate) (regs : list reg) : list reg :=
  filter (fun g => file_refs s (k_file (g_kfd g))) regs.

Definition set_rings (s : dstate) (rs : list ring) : dstate :=
  {| d_nq := d_nq s; d_maxq := d_maxq s; d_features := d_features s; d_pfeatures := d_pfeatures s; d_masks := d_masks s;
     d_rings := rs; d_regs := d_regs s; d_pending := d_pending s; d_fe_holds := d_fe_holds s; d_next_inst := d_next_inst s;
     d_owned := d_owned s; d_acked := d_acked s; d_acked_proto := d_acked_proto s; d_rq_acked := d_rq_acked s;
     d_rq_acked_proto := d_rq_acked_proto s; d_fe_avf := d_fe_avf s; d_fe_apf := d_fe_apf s; d_fe_maxq := d_fe_maxq s;
     d_dead := d_dead s; d_mem := d_mem s; d_worker_dead := d_worker_dead s |}.
Definition set_regs (s : dstate) (g : list reg) : dstate :=
  {| d_nq := d_nq s; d_maxq := d_maxq s; d_features := d_features s; d_pfeatures := d_pfeatures s; d_masks := d_masks s;
     d_rings := d_rings s; d_regs := g; d_pending := d_pending s; d_fe_holds := d_fe_holds s; d_next_inst := d_next_inst s;
     d_owned := d_owned s; d_acked := d_acked s; d_acked_proto := d_acked_proto s; d_rq_acked := d_rq_acked s;
     d_rq_acked_proto := d_rq_acked_proto s; d_fe_avf := d_fe_avf s; d_fe_apf := d_fe_apf s; d_fe_maxq := d_fe_maxq s;
     d_dead := d_dead s; d_mem := d_mem s; d_worker_dead := d_worker_dead s |}.

(* update_vring_registration *)
Definition update_reg (s : dstate) (r : ring) (q : N) : dstate :=
  match r_kick r with
  | None => s
  | Some k =>
      match owner_of (d_masks s) q 0 with
      | None => s
      | Some (t, idx) =>
          let without := filter (fun g => negb ((Nat.eqb (g_thread g) t) && kfd_eqb (g_kfd g) k)) (d_regs s) in
          if ctl_reg_wanted (r_ready r) (r_enabled r)     (* REGENERATED (Gen.GenCtl) *)
          then (if existsb (fun g => (Nat.eqb (g_thread g) t) && kfd_eqb (g_kfd g) k) (d_regs s)
                then s                                   (* EEXIST is ignored: the old entry (and its id) stays *)
                else set_regs s (d_regs s ++ [{| g_thread := t; g_kfd := k; g_idx := idx |}]))
          else set_regs s without
      end
  end.

Definition get_ring (s : dstate) (q : N) : option ring := nth_error (d_rings s) (N.to_nat q).
Definition put_ring (s : dstate) (q : N) (r : ring) : dstate := set_rings s (upd (d_rings s) (N.to_nat q) r).

Definition with_ring (r : ring) (ready enabled : bool) (kick : option kfd) (call : option N) : ring :=
  {| r_ready := ready; r_enabled := enabled; r_kick := kick; r_call := call; r_err := r_err r;
     r_size := r_size r; r_next_avail := r_next_avail r; r_next_used := r_next_used r;
     r_desc := r_desc r; r_avail := r_avail r; r_used := r_used r; r_event_idx := r_event_idx r |}.

(* apply update_reg to every ring after setting its enabled flag *)
Fixpoint enable_all (s : dstate) (n : nat) (q : N) (e : bool) : dstate :=
  match n with
  | O => s
  | S k =>
      match get_ring s q with
      | Some r =>
          let r' := with_ring r (r_ready r) e (r_kick r) (r_call r) in
          enable_all (update_reg (put_ring s q r') r' q) k (q + 1) e
      | None => s
      end
  end.

Inductive dres := DOk (vals : list N) | DErr.

Definition set_misc (s : dstate) (owned : bool) (acked acked_proto rq_acked rq_acked_proto fe_avf fe_apf fe_maxq : N) : dstate :=
  {| d_nq := d_nq s; d_maxq := d_maxq s; d_features := d_features s; d_pfeatures := d_pfeatures s; d_masks := d_masks s;
     d_rings := d_rings s; d_regs := d_regs s; d_pending := d_pending s; d_fe_holds := d_fe_holds s; d_next_inst := d_next_inst s;
     d_owned := owned; d_acked := acked; d_acked_proto := acked_proto; d_rq_acked := rq_acked;
     d_rq_acked_proto := rq_acked_proto; d_fe_avf := fe_avf; d_fe_apf := fe_apf; d_fe_maxq := fe_maxq;
     d_dead := d_dead s; d_mem := d_mem s; d_worker_dead := d_worker_dead s |}.
Definition kill (s : dstate) : dstate :=
  {| d_nq := d_nq s; d_maxq := d_maxq s; d_features := d_features s; d_pfeatures := d_pfeatures s; d_masks := d_masks s;
     d_rings := d_rings s; d_regs := d_regs s; d_pending := d_pending s; d_fe_holds := d_fe_holds s; d_next_inst := d_next_inst s;
     d_owned := d_owned s; d_acked := d_acked s; d_acked_proto := d_acked_proto s; d_rq_acked := d_rq_acked s;
     d_rq_acked_proto := d_rq_acked_proto s; d_fe_avf := d_fe_avf s; d_fe_apf := d_fe_apf s; d_fe_maxq := d_fe_maxq s;
     d_dead := true; d_mem := d_mem s; d_worker_dead := d_worker_dead s |}.
Definition set_files (s : dstate) (pending : list (N * N)) (holds : list N) (next : N) : dstate :=
  {| d_nq := d_nq s; d_maxq := d_maxq s; d_features := d_features s; d_pfeatures := d_pfeatures s; d_masks := d_masks s;
     d_rings := d_rings s; d_regs := d_regs s; d_pending := pending; d_fe_holds := holds; d_next_inst := next;
     d_owned := d_owned s; d_acked := d_acked s; d_acked_proto := d_acked_proto s; d_rq_acked := d_rq_acked s;
     d_rq_acked_proto := d_rq_acked_proto s; d_fe_avf := d_fe_avf s; d_fe_apf := d_fe_apf s; d_fe_maxq := d_fe_maxq s;
     d_dead := d_dead s; d_mem := d_mem s; d_worker_dead := d_worker_dead s |}.

Definition set_mem (s : dstate) (m : dmem) : dstate :=
  {| d_nq := d_nq s; d_maxq := d_maxq s; d_features := d_features s; d_pfeatures := d_pfeatures s; d_masks := d_masks s;
     d_rings := d_rings s; d_regs := d_regs s; d_pending := d_pending s; d_fe_holds := d_fe_holds s; d_next_inst := d_next_inst s;
     d_owned := d_owned s; d_acked := d_acked s; d_acked_proto := d_acked_proto s; d_rq_acked := d_rq_acked s;
     d_rq_acked_proto := d_rq_acked_proto s; d_fe_avf := d_fe_avf s; d_fe_apf := d_fe_apf s; d_fe_maxq := d_fe_maxq s;
     d_dead := d_dead s; d_mem := m; d_worker_dead := d_worker_dead s |}.

Definition pending_of (s : dstate) (f : N) : N :=
  fold_right (fun p a => if fst p =? f then snd p else a) 0 (d_pending s).
Definition set_pending (l : list (N * N)) (f v : N) : list (N * N) :=
  (f, v) :: filter (fun p => negb (fst p =? f)) l.

(* whether acknowledgements are exchanged (the harness always asks for them with NEED_REPLY) *)
Definition acks_on (s : dstate) : bool :=
  hasd (d_fe_apf s) VhostUserProtocolFeatures_REPLY_ACK
  && hasd (d_features s) PFB && hasd (d_rq_acked_proto s) VhostUserProtocolFeatures_REPLY_ACK.

(* ---- the daemon handler's methods ---- *)
Definition h_set_features (s : dstate) (v : N) : dstate * dres :=
  if negb (N.land v (lnot 64 (d_features s)) =? 0) then (s, DErr)
  else
    let s1 := set_misc s (d_owned s) v (d_acked_proto s) (d_rq_acked s) (d_rq_acked_proto s) (d_fe_avf s) (d_fe_apf s) (d_fe_maxq s) in
    let s2 := if hasd v PFB then s1 else enable_all s1 (d_nq s1) 0 true in
    let ev := hasd v (2 ^ 29) in      (* VIRTIO_RING_F_EVENT_IDX *)
    let rs := map (fun r => {| r_ready := r_ready r; r_enabled := r_enabled r; r_kick := r_kick r; r_call := r_call r; r_err := r_err r;
                               r_size := r_size r; r_next_avail := r_next_avail r; r_next_used := r_next_used r;
                               r_desc := r_desc r; r_avail := r_avail r; r_used := r_used r; r_event_idx := ev |}) (d_rings s2) in
    let m := d_mem s2 in
    (set_mem (set_rings s2 rs)
             {| m_maps := m_maps m; m_regs := m_regs m; m_fsizes := m_fsizes m; m_fbytes := m_fbytes m; m_upd := m_upd m;
                m_ackf := m_ackf m ++ [v]; m_evlog := m_evlog m ++ [if ev then 1 else 0]; m_log := m_log m; m_beq := m_beq m |}, DOk []).

Definition h_reset_device (s : dstate) : dstate * dres :=
  let s1 := enable_all s (d_nq s) 0 false in
  (set_misc s1 (d_owned s1) 0 (d_acked_proto s1) (d_rq_acked s1) (d_rq_acked_proto s1) (d_fe_avf s1) (d_fe_apf s1) (d_fe_maxq s1), DOk []).

Definition close_kick (s : dstate) (old : option kfd) : dstate := set_regs s (gc_regs s (d_regs s)).

Definition h_set_vring_kick (s : dstate) (q : N) (file : N) : dstate * dres :=
  match get_ring s q with
  | None => (s, DErr)
  | Some r =>
      let k := {| k_file := file; k_inst := d_next_inst s |} in
      let s0 := set_files s (d_pending s) (d_fe_holds s) (d_next_inst s + 1) in
      (* a started ring: the old descriptor leaves the worker's epoll set first *)
      let s0' := if r_ready r then
                   match r_kick r, owner_of (d_masks s0) q 0 with
                   | Some ko, Some (t, _) =>
                       set_regs s0 (filter (fun g => negb ((Nat.eqb (g_thread g) t) && kfd_eqb (g_kfd g) ko)) (d_regs s0))
                   | _, _ => s0
                   end
                 else s0 in
      let r1 := with_ring r (r_ready r) (r_enabled r) (Some k) (r_call r) in
      let s1 := close_kick (put_ring s0' q r1) (r_kick r) in
      if ctl_needs_init (r_ready r1) (o_is_some (r_kick r1)) then
        let r2 := with_ring r1 true (r_enabled r1) (r_kick r1) (r_call r1) in
        (update_reg (put_ring s1 q r2) r2 q, DOk [])
      else (update_reg s1 r1 q, DOk [])
  end.
(* SET_VRING_KICK with the "no descriptor" bit: the ring forgets its kick descriptor (polling); its flags stay *)
Definition h_set_vring_kick_none (s : dstate) (q : N) : dstate * dres :=
  match get_ring s q with
  | None => (s, DErr)
  | Some r =>
      let s0' := if r_ready r then
                   match r_kick r, owner_of (d_masks s) q 0 with
                   | Some ko, Some (t, _) =>
                       set_regs s (filter (fun g => negb ((Nat.eqb (g_thread g) t) && kfd_eqb (g_kfd g) ko)) (d_regs s))
                   | _, _ => s
                   end
                 else s in
      let r1 := with_ring r (r_ready r) (r_enabled r) None (r_call r) in
      (close_kick (put_ring s0' q r1) (r_kick r), DOk [])
  end.
Definition h_set_vring_call (s : dstate) (q : N) (file : N) : dstate * dres :=
  match get_ring s q with
  | None => (s, DErr)
  | Some r =>
      let r1 := with_ring r (r_ready r) (r_enabled r) (r_kick r) (Some file) in
      let s1 := put_ring s q r1 in
      if ctl_needs_init (r_ready r1) (o_is_some (r_kick r1)) then
        let r2 := with_ring r1 true (r_enabled r1) (r_kick r1) (r_call r1) in
        (update_reg (put_ring s1 q r2) r2 q, DOk [])
      else (s1, DOk [])
  end.
Definition h_get_vring_base (s : dstate) (q : N) : dstate * dres :=
  match get_ring s q with
  | None => (s, DErr)
  | Some r =>
      let r1 := with_ring r false (r_enabled r) (r_kick r) (r_call r) in
      let s1 := update_reg (put_ring s q r1) r1 q in
      let r2 := with_ring r1 false (r_enabled r1) None None in
      (close_kick (put_ring s1 q r2) (r_kick r1), DOk [r_next_avail r])
  end.
Definition h_set_vring_enable (s : dstate) (q : N) (e : bool) : dstate * dres :=
  if negb (hasd (d_acked s) PFB) then (s, DErr)
  else match get_ring s q with
       | None => (s, DErr)
       | Some r =>
           let r1 := with_ring r (r_ready r) e (r_kick r) (r_call r) in
           (update_reg (put_ring s q r1) r1 q, DOk [])
       end.
Definition h_set_vring_num (s : dstate) (q n : N) : dstate * dres :=
  match get_ring s q with
  | None => (s, DErr)
  | Some r =>
      if num_bad n (d_maxq s) then (s, DErr)       (* the size test regenerated from handler.rs set_vring_num *)
      else
        (put_ring s q {| r_ready := r_ready r; r_enabled := r_enabled r; r_kick := r_kick r; r_call := r_call r; r_err := r_err r;
                         r_size := n; r_next_avail := r_next_avail r; r_next_used := r_next_used r;
                         r_desc := r_desc r; r_avail := r_avail r; r_used := r_used r; r_event_idx := r_event_idx r |}, DOk [])
  end.
Definition h_set_vring_base (s : dstate) (q b : N) : dstate * dres :=
  match get_ring s q with
  | None => (s, DErr)
  | Some r =>
      (put_ring s q {| r_ready := r_ready r; r_enabled := r_enabled r; r_kick := r_kick r; r_call := r_call r; r_err := r_err r;
                       r_size := r_size r; r_next_avail := cast 16 b; r_next_used := r_next_used r;
                       r_desc := r_desc r; r_avail := r_avail r; r_used := r_used r; r_event_idx := r_event_idx r |}, DOk [])
  end.


(* ---- shared files and guest memory ---- *)
Definition fsize_of (m : dmem) (f : N) : N :=
  match find (fun p => fst p =? f) (m_fsizes m) with Some p => snd p | None => 0 end.
Definition fbyte_of (m : dmem) (f off : N) : N :=
  match find (fun t => (fst (fst t) =? f) && (snd (fst t) =? off)) (m_fbytes m) with Some t => snd t | None => 0 end.
Definition with_files (m : dmem) (sizes : list (N * N)) (bytes : list (N * N * N)) : dmem :=
  {| m_maps := m_maps m; m_regs := m_regs m; m_fsizes := sizes; m_fbytes := bytes; m_upd := m_upd m;
     m_ackf := m_ackf m; m_evlog := m_evlog m; m_log := m_log m; m_beq := m_beq m |}.
Definition with_table (m : dmem) (maps : list mapping) (regs : list region) : dmem :=
  {| m_maps := maps; m_regs := regs; m_fsizes := m_fsizes m; m_fbytes := m_fbytes m; m_upd := m_upd m + 1;
     m_ackf := m_ackf m; m_evlog := m_evlog m; m_log := m_log m; m_beq := m_beq m |}.
Fixpoint put_bytes (f off : N) (bytes : list N) (acc : list (N * N * N)) : list (N * N * N) :=
  match bytes with
  | [] => acc
  | b :: r => put_bytes f (off + 1) r ((f, off, b) :: acc)
  end.
(* a write through a descriptor (pwrite): extends the file when it ends beyond the current size *)
Definition file_write (m : dmem) (f off : N) (bytes : list N) : dmem :=
  let e := off + N.of_nat (List.length bytes) in
  with_files m ((f, N.max (fsize_of m f) e) :: m_fsizes m) (put_bytes f off bytes (m_fbytes m)).
Definition file_read (m : dmem) (f off len : N) : list N :=
  let sz := fsize_of m f in
  let n := if off <? sz then N.min len (sz - off) else 0 in
  map (fun i => fbyte_of m f (off + N.of_nat i)) (seq 0 (N.to_nat n)).

Definition region_of (regs : list region) (a : N) : option region :=
  find (fun r => (rg_gpa r <=? a) && (a <? rg_gpa r + rg_size r)) regs.
(* the file locations of the bytes [a, a+n) as far as guest memory is mapped without a gap *)
Fixpoint mem_locs (regs : list region) (a : N) (n : nat) : list (N * N) :=
  match n with
  | O => []
  | S k =>
      match region_of regs a with
      | Some r => (rg_file r, rg_off r + (a - rg_gpa r)) :: mem_locs regs (a + 1) k
      | None => []
      end
  end.
Fixpoint put_locs (locs : list (N * N)) (bytes : list N) (acc : list (N * N * N)) : list (N * N * N) :=
  match locs, bytes with
  | (f, o) :: rl, b :: rb => put_locs rl rb ((f, o, b) :: acc)
  | _, _ => acc
  end.
(* the dirty-log bit of guest byte x of region r: what AtomicBitmapMmap::mark_dirty does for a one-byte write at offset
   x - gpa of the region, on the bitmap AtomicBitmapMmap::new built for the region - both REGENERATED from bitmap.rs
   (Gen.GenBitmap): first page of the offset, out-of-bounds stop, absolute page, log word and mask *)
Definition mark_loc (r : region) (x : N) : option (N * N * N) :=
  match rg_log r with
  | Some (f, off, len) =>
      match bm_new (rg_gpa r) (rg_size r) len with
      | Some (before, npages) =>
          let page := bm_md_first_page (x - rg_gpa r) 1 in
          if bm_md_stop page npages then None
          else let abs := bm_md_abs before page in Some (f, off + bm_md_word abs, bm_md_mask abs)
      | None => None
      end
  | None => None
  end.
Definition store_get (l : list (N * N * N)) (f off : N) : N :=
  match find (fun t => (fst (fst t) =? f) && (snd (fst t) =? off)) l with Some t => snd t | None => 0 end.
Fixpoint apply_marks (regs : list region) (a : N) (n : nat) (st : list (N * N * N)) : list (N * N * N) :=
  match n with
  | O => st
  | S k =>
      let st1 := match region_of regs a with
                 | Some r => match mark_loc r a with
                             | Some (f, o, bit) => (f, o, N.lor (store_get st f o) bit) :: st
                             | None => st
                             end
                 | None => st
                 end in
      apply_marks regs (a + 1) k st1
  end.
(* write_slice: the bytes that fit before the first gap are written (and their pages logged); the call fails unless
   all were *)
Definition mem_write (m : dmem) (a : N) (bytes : list N) : dmem * bool :=
  match bytes with
  | [] => (m, o_is_some (region_of (m_regs m) a))
  | _ =>
      let locs := mem_locs (m_regs m) a (List.length bytes) in
      let st1 := put_locs locs bytes (m_fbytes m) in
      (with_files m (m_fsizes m) (apply_marks (m_regs m) a (List.length locs) st1),
       Nat.eqb (List.length locs) (List.length bytes))
  end.
Definition mem_read (m : dmem) (a : N) (n : nat) : option (list N) :=
  match n with
  | O => if o_is_some (region_of (m_regs m) a) then Some [] else None
  | _ =>
      let locs := mem_locs (m_regs m) a n in
      if Nat.eqb (List.length locs) n then Some (map (fun l => fbyte_of m (fst l) (snd l)) locs) else None
  end.
(* an atomic 16-bit access: inside one region, at an even offset from the region's start *)
Definition mem_u16_ok (m : dmem) (a : N) : bool :=
  match region_of (m_regs m) a with
  | Some r => (a + 2 <=? rg_gpa r + rg_size r) && ((a - rg_gpa r) mod 2 =? 0)
  | None => false
  end.
Definition mem_load16 (m : dmem) (a : N) : option N :=
  if mem_u16_ok m a then
    match mem_read m a 2 with Some [b0; b1] => Some (b0 + 256 * b1) | _ => None end
  else None.

(* mapping a file: the offset must be page-aligned.  (Whether the range lies inside the file is not checked by
   the code; touching a page beyond the end of the file is the frontend's fault and the cases avoid it.) *)
Definition PAGE : N := 4096.
Definition mmap_ok (m : dmem) (off size file : N) : bool :=
  (* the kernel also refuses a length beyond the address space and a file range that does not fit a signed offset *)
  (off mod PAGE =? 0) && (size <? 2 ^ 47) && (off + size <? 2 ^ 63).
(* GuestRegionCollection::from_regions: ascending by start address, no two overlapping *)
Fixpoint regs_sorted (l : list region) : bool :=
  match l with
  | a :: ((b :: _) as r) => (rg_gpa a <=? rg_gpa b) && (rg_gpa a + rg_size a - 1 <? rg_gpa b) && regs_sorted r
  | _ => true
  end.
Fixpoint insert_reg (x : region) (l : list region) : list region :=
  match l with
  | [] => [x]
  | y :: r => if rg_gpa x <? rg_gpa y then x :: l else y :: insert_reg x r
  end.

(* a = [gpa; size; user; off; file] *)
Definition mk_region (log : option (N * N * N)) (a : list N) : region :=
  {| rg_gpa := nth 0 a 0; rg_size := nth 1 a 0; rg_file := nth 4 a 0; rg_off := nth 3 a 0; rg_log := log |}.
(* a new region takes the dirty log in force, which must be able to cover it *)
Definition log_fits (len : N) (r : region) : bool :=
  match bm_new (rg_gpa r) (rg_size r) len with Some _ => true | None => false end.    (* AtomicBitmapMmap::new, regenerated *)
Definition new_region_ok (m : dmem) (a : list N) : bool :=
  mmap_ok m (nth 3 a 0) (nth 1 a 0) (nth 4 a 0)
  && match m_log m with Some (_, _, len) => log_fits len (mk_region None a) | None => true end.
Definition mk_mapping (a : list N) : mapping :=
  {| m_vmm := nth 2 a 0; m_size := nth 1 a 0; m_gpa := nth 0 a 0 |}.
Definition region_arg_valid (a : list N) : bool :=
  let sz := nth 1 a 0 in
  negb (sz =? 0) && (nth 0 a 0 + sz <? 2 ^ 64) && (nth 2 a 0 + sz <? 2 ^ 64) && (nth 3 a 0 + sz <? 2 ^ 64).

Definition h_set_mem_table (s : dstate) (rl : list (list N)) : dstate * dres :=
  let m := d_mem s in
  if negb (forallb (new_region_ok m) rl) then (s, DErr)
  else
    let regs := map (mk_region (m_log m)) rl in
    if negb (Nat.ltb 0 (List.length regs)) || negb (regs_sorted regs) then (s, DErr)
    else (set_mem s (with_table m (map mk_mapping rl) regs), DOk []).
Definition h_add_mem (s : dstate) (a : list N) : dstate * dres :=
  let m := d_mem s in
  if negb (new_region_ok m a) then (s, DErr)
  else
    let regs := insert_reg (mk_region (m_log m) a) (m_regs m) in
    if negb (regs_sorted regs) then (s, DErr)
    else (set_mem s (with_table m (m_maps m ++ [mk_mapping a]) regs), DOk []).
Definition h_rem_mem (s : dstate) (a : list N) : dstate * dres :=
  let m := d_mem s in
  let hit r := (rg_gpa r =? nth 0 a 0) && (rg_size r =? nth 1 a 0) in
  if existsb hit (m_regs m)
  then (set_mem s (with_table m (filter (fun mp => negb (m_gpa mp =? nth 0 a 0)) (m_maps m))
                              (filter (fun r => negb (rg_gpa r =? nth 0 a 0)) (m_regs m))), DOk [])
  else (s, DErr).


(* SET_LOG_BASE: map the log window, build one bitmap per current region (each must fit), then install them all *)
Definition with_logs (m : dmem) (regs : list region) (log : option (N * N * N)) : dmem :=
  {| m_maps := m_maps m; m_regs := regs; m_fsizes := m_fsizes m; m_fbytes := m_fbytes m; m_upd := m_upd m;
     m_ackf := m_ackf m; m_evlog := m_evlog m; m_log := log; m_beq := m_beq m |}.
Definition h_set_log_base (s : dstate) (size off file : N) : dstate * dres :=
  let m := d_mem s in
  if (2 ^ 63 <=? off) || (2 ^ 63 <=? size) then (s, DErr)
  else if (size =? 0) || negb (off mod PAGE =? 0) || negb (size <? 2 ^ 47) || negb (off + size <? 2 ^ 63) then (s, DErr)
  else if negb (forallb (log_fits size) (m_regs m)) then (s, DErr)
  else (set_mem s (with_logs m (map (fun r => {| rg_gpa := rg_gpa r; rg_size := rg_size r; rg_file := rg_file r; rg_off := rg_off r;
                                                 rg_log := Some (file, off, size) |}) (m_regs m)) (Some (file, off, size))), DOk []).

(* vmm_va_to_gpa: first mapping that contains the address; containment test and value REGENERATED from handler.rs *)
Definition va_to_gpa (maps : list mapping) (va : N) : option N :=
  match find (fun mp => va_hit va (m_vmm mp) (m_size mp) (m_gpa mp)) maps with
  | Some mp => Some (va_gpa va (m_vmm mp) (m_size mp) (m_gpa mp))
  | None => None
  end.

Definition with_addrs (r : ring) (desc avail used next_used : N) : ring :=
  {| r_ready := r_ready r; r_enabled := r_enabled r; r_kick := r_kick r; r_call := r_call r; r_err := r_err r;
     r_size := r_size r; r_next_avail := r_next_avail r; r_next_used := next_used;
     r_desc := desc; r_avail := avail; r_used := used; r_event_idx := r_event_idx r |}.

(* a = [q; flags; desc; used; avail] (user addresses) *)
Definition h_set_vring_addr (s : dstate) (a : list N) : dstate * dres :=
  let q := nth 0 a 0 in
  let m := d_mem s in
  match get_ring s q with
  | None => (s, DErr)
  | Some r =>
      match m_maps m with
      | [] => (s, DErr)
      | _ =>
          match va_to_gpa (m_maps m) (nth 2 a 0), va_to_gpa (m_maps m) (nth 4 a 0), va_to_gpa (m_maps m) (nth 3 a 0) with
          | Some d, Some av, Some u =>
              (* the three addresses are installed one after the other; the first misaligned one stops it *)
              if negb (d mod 16 =? 0) then (s, DErr)
              else if negb (av mod 2 =? 0) then (put_ring s q (with_addrs r d (r_avail r) (r_used r) (r_next_used r)), DErr)
              else if negb (u mod 4 =? 0) then (put_ring s q (with_addrs r d av (r_used r) (r_next_used r)), DErr)
              else
                match mem_load16 m ((u + 2) mod 2 ^ 64) with
                | Some idx => if u + 2 <? 2 ^ 64 then (put_ring s q (with_addrs r d av u idx), DOk [])
                              else (put_ring s q (with_addrs r d av u (r_next_used r)), DErr)
                | None => (put_ring s q (with_addrs r d av u (r_next_used r)), DErr)
                end
          | _, _, _ => (s, DErr)
          end
      end
  end.

(* Queue::add_used on ring q through the current guest memory *)
Definition le32 (v : N) : list N := [v mod 256; (v / 256) mod 256; (v / 65536) mod 256; (v / 16777216) mod 256].
Definition h_add_used (s : dstate) (q idx len : N) : dstate * bool :=
  match get_ring s q with
  | None => (s, false)
  | Some r =>
      if r_size r <=? idx then (s, false)
      else
        let m := d_mem s in
        let slot := r_used r + 4 + (r_next_used r mod r_size r) * 8 in
        if 2 ^ 64 <=? slot then (s, false)
        else
          let '(m1, ok) := mem_write m slot (le32 idx ++ le32 len) in
          if negb ok then (set_mem s m1, false)
          else
            let nu := (r_next_used r + 1) mod 65536 in
            let s1 := put_ring (set_mem s m1) q (with_addrs r (r_desc r) (r_avail r) (r_used r) nu) in
            if (2 ^ 64 <=? r_used r + 2) || negb (mem_u16_ok m1 (r_used r + 2)) then (s1, false)
            else
              let '(m2, _) := mem_write m1 (r_used r + 2) [nu mod 256; nu / 256] in
              (set_mem s1 m2, true)
  end.

(* ---- one step of the family: control message (through the three layers), guest action, query ---- *)
Record dout := { do_state : dstate; do_res : val; do_events : list val }.

Definition control (s : dstate) (fe_ok rq_ok : bool) (awaits_reply : bool) (h : dstate -> dstate * dres) : dstate * val :=
  if negb fe_ok then (s, VS "err")                      (* refused by the frontend endpoint: nothing sent *)
  else if d_dead s then (s, VS "err")
  else if negb rq_ok then (kill s, if awaits_reply || acks_on s then VS "err" else VS "ok")
  else
    let '(s', r) := h s in
    match r with
    | DOk vals => (s', match vals with [] => VS "ok" | _ => VL (VS "ok" :: map VN vals) end)
    | DErr => (kill s', if awaits_reply || acks_on s then VS "err" else VS "ok")
    end.

(* the workers drain what is ready: every registered descriptor whose eventfd counter is non-zero wakes its
   worker with the registered id; the worker reads the ring's CURRENT kick descriptor and dispatches iff enabled *)
Definition slice_of (s : dstate) (t : nat) : list N :=
  match nth_error (d_masks s) t with
  | Some m => filter (fun q => route_member m q) (map N.of_nat (seq 0 (d_nq s)))     (* VhostUserHandler::new, regenerated test *)
  | None => []
  end.
Fixpoint poll (fuel : nat) (s : dstate) (events : list val) : dstate * list val :=
  match fuel with
  | O => (s, events)
  | S f =>
      match find (fun g => negb (pending_of s (k_file (g_kfd g)) =? 0) && negb (existsb (Nat.eqb (g_thread g)) (d_worker_dead s)))
                 (d_regs s) with
      | None => (s, events)
      | Some g =>
          let t := g_thread g in
          match nth_error (slice_of s t) (N.to_nat (g_idx g)) with
          | None =>
              (* an id beyond the worker's slice goes straight to the backend, which drains the listener *)
              let s1 := set_files s (set_pending (d_pending s) (k_file (g_kfd g)) 0) (d_fe_holds s) (d_next_inst s) in
              poll f s1 (events ++ [VL [VN (N.of_nat t); VN (g_idx g); VN 9999]])
          | Some q =>
              match get_ring s q with
              | None => (s, events)
              | Some r =>
                  (* read_kick: consume the counter of the ring's current kick descriptor *)
                  let cur := match r_kick r with Some k => Some (k_file k) | None => None end in
                  match cur with
                  | Some f0 =>
                      (* read_kick leaves the counter alone and reports "not enabled" for a disabled ring *)
                      if wk_rk_d1 (r_enabled r) then (s, events) else      (* REGENERATED (Gen.GenWk) *)
                      if pending_of s f0 =? 0 then
                        (* a stale registration woke the worker but the current descriptor is not readable: the
                           non-blocking read fails and the worker thread ends with an error *)
                        ({| d_nq := d_nq s; d_maxq := d_maxq s; d_features := d_features s; d_pfeatures := d_pfeatures s;
                            d_masks := d_masks s; d_rings := d_rings s; d_regs := d_regs s; d_pending := d_pending s;
                            d_fe_holds := d_fe_holds s; d_next_inst := d_next_inst s; d_owned := d_owned s; d_acked := d_acked s;
                            d_acked_proto := d_acked_proto s; d_rq_acked := d_rq_acked s; d_rq_acked_proto := d_rq_acked_proto s;
                            d_fe_avf := d_fe_avf s; d_fe_apf := d_fe_apf s; d_fe_maxq := d_fe_maxq s; d_dead := d_dead s;
                            d_mem := d_mem s; d_worker_dead := t :: d_worker_dead s |}, events)
                      else
                        let s1 := set_files s (set_pending (d_pending s) f0 0) (d_fe_holds s) (d_next_inst s) in
                        let ev := if r_enabled r then [VL [VN (N.of_nat t); VN (g_idx g); VN (r_size r)]] else [] in
                        poll f s1 (events ++ ev)
                  | None =>
                      (* no current kick descriptor: nothing is consumed; the registration keeps firing.  Not reachable
                         through the handler (it unregisters before dropping the descriptor) *)
                      (s, events ++ (if r_enabled r then [VL [VN (N.of_nat t); VN (g_idx g); VN (r_size r)]] else []))
                  end
              end
          end
      end
  end.

Definition dinit (nq : nat) (maxq features pfeatures : N) (masks : list N) : dstate :=
  {| d_nq := nq; d_maxq := maxq; d_features := features; d_pfeatures := pfeatures; d_masks := masks;
     d_rings := repeat (ring0 maxq) nq; d_regs := []; d_pending := []; d_fe_holds := []; d_next_inst := 0;
     d_owned := false; d_acked := 0; d_acked_proto := 0; d_rq_acked := 0; d_rq_acked_proto := 0;
     d_fe_avf := 0; d_fe_apf := 0; d_fe_maxq := 32768; d_dead := false; d_mem := dmem0;
     d_worker_dead := [] |}.

Definition hold (s : dstate) (f : N) : dstate :=
  if existsb (N.eqb f) (d_fe_holds s) then s else set_files s (d_pending s) (f :: d_fe_holds s) (d_next_inst s).

Definition PF_ALL := VhostUserProtocolFeatures_all.

(* one step: returns the new state and the step's result (before the workers run) *)
Definition d_apply (s : dstate) (kind : string) (a : list N) (data : list N) (rl : list (list N)) : dstate * val :=
  let arg i := nth i a 0 in
  let q := arg 0%nat in
  let q_fe := q <? d_fe_maxq s in
  if String.eqb kind "get_features" then control s true true true (fun s => (s, DOk [d_features s]))
  else if String.eqb kind "set_features" then
    let v := q in
    let s1 := set_misc s (d_owned s) (d_acked s) (d_acked_proto s)
                       (if d_dead s then d_rq_acked s else v) (d_rq_acked_proto s) (N.land v (d_features s)) (d_fe_apf s) (d_fe_maxq s) in
    control s1 true true false (fun s => h_set_features s v)
  else if String.eqb kind "get_protocol_features" then
    control s (hasd (d_features s) PFB) true true
            (fun s => (s, DOk [N.lor (N.land (d_pfeatures s) PF_ALL) VhostUserProtocolFeatures_REPLY_ACK]))
  else if String.eqb kind "reconnect" then
    (* a new frontend on a new connection to the same daemon: everything the handler keeps (rings, registrations, memory
       and translation tables, log, owner, acknowledged features) persists; what the request server and the frontend
       endpoint had negotiated on the old connection does not *)
    let s1 := set_misc s (d_owned s) (d_acked s) (d_acked_proto s) 0 0 0 0 32768 in
    ({| d_nq := d_nq s1; d_maxq := d_maxq s1; d_features := d_features s1; d_pfeatures := d_pfeatures s1; d_masks := d_masks s1;
        d_rings := d_rings s1; d_regs := d_regs s1; d_pending := d_pending s1; d_fe_holds := d_fe_holds s1; d_next_inst := d_next_inst s1;
        d_owned := d_owned s1; d_acked := d_acked s1; d_acked_proto := d_acked_proto s1; d_rq_acked := d_rq_acked s1;
        d_rq_acked_proto := d_rq_acked_proto s1; d_fe_avf := d_fe_avf s1; d_fe_apf := d_fe_apf s1; d_fe_maxq := d_fe_maxq s1;
        d_dead := false; d_mem := d_mem s1; d_worker_dead := d_worker_dead s1 |}, VS "ok")
  else if String.eqb kind "set_protocol_features" then
    let v := N.land q PF_ALL in
    if negb (hasd (d_features s) PFB) then (s, VS "err")
    else
      let s1 := set_misc s (d_owned s) (d_acked s) (if d_dead s then d_acked_proto s else v) (d_rq_acked s)
                         (if d_dead s then d_rq_acked_proto s else v) (d_fe_avf s) v (d_fe_maxq s) in
      control s1 true true false (fun s => (s, DOk []))
  else if String.eqb kind "get_queue_num" then
    let '(s1, r) := control s (hasd (d_fe_apf s) VhostUserProtocolFeatures_MQ) (hasd (d_rq_acked_proto s) VhostUserProtocolFeatures_MQ) true
                            (fun s => (s, DOk [N.of_nat (d_nq s)])) in
    (match r with
     | VL _ => set_misc s1 (d_owned s1) (d_acked s1) (d_acked_proto s1) (d_rq_acked s1) (d_rq_acked_proto s1) (d_fe_avf s1) (d_fe_apf s1) (N.of_nat (d_nq s1))
     | _ => s1 end, r)
  else if String.eqb kind "set_owner" then
    control s true true false
            (fun s => if d_owned s then (s, DErr)
                      else (set_misc s true (d_acked s) (d_acked_proto s) (d_rq_acked s) (d_rq_acked_proto s) (d_fe_avf s) (d_fe_apf s) (d_fe_maxq s), DOk []))
  else if String.eqb kind "reset_owner" then
    control s true true false
            (fun s => (set_misc s false 0 0 (d_rq_acked s) (d_rq_acked_proto s) (d_fe_avf s) (d_fe_apf s) (d_fe_maxq s), DOk []))
  else if String.eqb kind "reset_device" then
    control s (hasd (d_fe_apf s) VhostUserProtocolFeatures_RESET_DEVICE) (hasd (d_rq_acked_proto s) VhostUserProtocolFeatures_RESET_DEVICE)
            false h_reset_device
  else if String.eqb kind "set_vring_num" then control s q_fe true false (fun s => h_set_vring_num s q (arg 1%nat))
  else if String.eqb kind "set_vring_base" then control s q_fe true false (fun s => h_set_vring_base s q (arg 1%nat))
  else if String.eqb kind "get_vring_base" then control s q_fe true true (fun s => h_get_vring_base s q)
  else if String.eqb kind "set_vring_kick" then
    let s0 := hold s (arg 1%nat) in
    control s0 (q_fe && (q <=? 255)) true false (fun s => h_set_vring_kick s q (arg 1%nat))
  else if String.eqb kind "set_vring_kick_nofd" then
    (* written on the raw socket: only the request server and the daemon handler see it; acknowledged iff REPLY_ACK *)
    if d_dead s then (s, VS "err")
    else
      let '(s', r) := h_set_vring_kick_none s (N.land q 255) in
      (match r with DOk _ => (s', if acks_on s then VS "ok" else VS "err") | DErr => (kill s', VS "err") end)
  else if String.eqb kind "set_vring_call" then
    let s0 := hold s (arg 1%nat) in
    control s0 (q_fe && (q <=? 255)) true false (fun s => h_set_vring_call s q (arg 1%nat))
  else if String.eqb kind "set_vring_err" then
    let s0 := hold s (arg 1%nat) in
    control s0 (q_fe && (q <=? 255)) true false
            (fun s => match get_ring s q with Some _ => (s, DOk []) | None => (s, DErr) end)
  else if String.eqb kind "set_vring_enable" then
    control s (hasd (d_fe_avf s) PFB && q_fe) (hasd (d_rq_acked s) PFB) false
            (fun s => h_set_vring_enable s q (negb (arg 1%nat =? 0)))
  else if String.eqb kind "kick" then
    let s0 := hold s q in
    (set_files s0 (set_pending (d_pending s0) q (pending_of s0 q + 1)) (d_fe_holds s0) (d_next_inst s0), VS "ok")
  else if String.eqb kind "close_evfd" then
    let s1 := set_files s (d_pending s) (filter (fun f => negb (f =? q)) (d_fe_holds s)) (d_next_inst s) in
    let s2 := set_regs s1 (gc_regs s1 (d_regs s1)) in
    (* the counter dies with the last reference *)
    ((if file_refs s2 q then s2 else set_files s2 (filter (fun p => negb (fst p =? q)) (d_pending s2)) (d_fe_holds s2) (d_next_inst s2)), VS "ok")
  else if String.eqb kind "add_listener" then
    (* a = [thread; id]: accepted only above the ids reserved for queues and the exit event, and within 16 bits *)
    let t := N.to_nat q in
    let id := arg 1%nat in
    if Nat.leb (List.length (d_masks s)) t then (s, VS "no-such-thread")
    else if (id <=? N.of_nat (d_nq s)) || (65535 <? id) then (s, VS "err")
    else
      let f := 2 ^ 40 + q * 2 ^ 20 + id in
      let s1 := hold s f in
      (set_regs s1 (d_regs s1 ++ [{| g_thread := t; g_kfd := {| k_file := f; k_inst := 0 |}; g_idx := id |}]), VS "ok")
  else if String.eqb kind "fire_listener" then
    let f := 2 ^ 40 + q * 2 ^ 20 + arg 1%nat in
    if existsb (N.eqb f) (d_fe_holds s)
    then (set_files s (set_pending (d_pending s) f (pending_of s f + 1)) (d_fe_holds s) (d_next_inst s), VS "ok")
    else (s, VS "no-listener")
  else if String.eqb kind "queue_state" then
    match owner_of (d_masks s) q 0, get_ring s q with
    | Some (t, _), Some r =>
        if existsb (Nat.eqb t) (d_worker_dead s) then (s, VS "worker-timeout")
        else (s, VL [VN (r_size r); VN (if r_ready r then 1 else 0); VN (r_next_avail r); VN (r_next_used r); VN (r_desc r);
                     VN (r_avail r); VN (r_used r); VN (if r_event_idx r then 1 else 0); VN (if r_enabled r then 1 else 0)])
    | _, _ => (s, VS "no-owner")
    end
  else if String.eqb kind "file_size" then
    let m := d_mem s in (set_mem s (with_files m ((q, arg 1%nat) :: m_fsizes m) (m_fbytes m)), VS "ok")
  else if String.eqb kind "guest_write" then (set_mem s (file_write (d_mem s) q (arg 1%nat) data), VS "ok")
  else if String.eqb kind "guest_read" then (s, vbytes (file_read (d_mem s) q (arg 1%nat) (arg 2%nat)))
  else if String.eqb kind "set_mem_table" then
    let n := List.length rl in
    control s (Nat.ltb 0 n && Nat.leb n 32 && forallb (fun r => negb (nth 1 r 0 =? 0)) rl)
            (forallb region_arg_valid rl) false (fun s => h_set_mem_table s rl)
  else if String.eqb kind "add_mem" then
    control s (hasd (d_fe_apf s) VhostUserProtocolFeatures_CONFIGURE_MEM_SLOTS && negb (arg 1%nat =? 0))
            (hasd (d_rq_acked_proto s) VhostUserProtocolFeatures_CONFIGURE_MEM_SLOTS && region_arg_valid a) false
            (fun s => h_add_mem s a)
  else if String.eqb kind "rem_mem" then
    control s (hasd (d_fe_apf s) VhostUserProtocolFeatures_CONFIGURE_MEM_SLOTS && negb (arg 1%nat =? 0))
            (hasd (d_rq_acked_proto s) VhostUserProtocolFeatures_CONFIGURE_MEM_SLOTS && region_arg_valid a) false
            (fun s => h_rem_mem s a)
  else if String.eqb kind "set_vring_addr" then
    control s (q_fe && (N.land (arg 1%nat) (lnot 32 1) =? 0))
            ((arg 2%nat mod 16 =? 0) && (arg 4%nat mod 2 =? 0) && (arg 3%nat mod 4 =? 0)) false
            (fun s => h_set_vring_addr s a)
  else if String.eqb kind "set_log_base" then
    (* a = [size; off; file] *)
    if negb (hasd (d_fe_apf s) VhostUserProtocolFeatures_LOG_SHMFD) then
      (if d_dead s then (s, VS "err") else (kill s, VS "ok"))
    else
      control s true (hasd (d_rq_acked_proto s) VhostUserProtocolFeatures_LOG_SHMFD && negb (q =? 0) && (arg 1%nat + q <? 2 ^ 64)) true
              (fun s => h_set_log_base s q (arg 1%nat) (arg 2%nat))
  else if String.eqb kind "regions" then
    if existsb (Nat.eqb 0) (d_worker_dead s) then (s, VS "worker-timeout")
    else (s, if m_upd (d_mem s) =? 0 then VL []
             else VL (map (fun r => VL [VN (rg_gpa r); VN (rg_size r)]) (m_regs (d_mem s))))
  else if String.eqb kind "snapshot" then
    (* what the memory handle resolved to when the backend was last notified: the table is replaced first, then the
       backend is told *)
    (s, if m_upd (d_mem s) =? 0 then VL [] else VL (map (fun r => VL [VN (rg_gpa r); VN (rg_size r)]) (m_regs (d_mem s))))
  else if String.eqb kind "write_mem" then
    if existsb (Nat.eqb 0) (d_worker_dead s) then (s, VS "worker-timeout")
    else if m_upd (d_mem s) =? 0 then (s, VS "no-memory")
    else let '(m1, ok) := mem_write (d_mem s) q data in (set_mem s m1, VS (if ok then "ok" else "error"))
  else if String.eqb kind "par_write" then
    (* concurrent writers of the same bytes at different addresses: any order gives the same memory and log *)
    if m_upd (d_mem s) =? 0 then (s, VS "no-memory")
    else
      let '(m1, ok) := fold_left (fun acc g => let '(m0, ok0) := acc in let '(m', ok') := mem_write m0 g data in (m', ok0 && ok'))
                                 a (d_mem s, true) in
      (set_mem s m1, VS (if ok then "ok" else "error"))
  else if String.eqb kind "par_stress" then
    (* rounds of concurrent single-byte writers on pages that share one log byte, the byte cleared before and restored after
       the rounds by the harness: no round loses a bit; the lasting effect is stated by the par_write step that follows *)
    if m_upd (d_mem s) =? 0 then (s, VS "no-memory") else (s, VL [VS "ok"; VN 0])
  else if String.eqb kind "read_mem" then
    if existsb (Nat.eqb 0) (d_worker_dead s) then (s, VS "worker-timeout")
    else if m_upd (d_mem s) =? 0 then (s, VS "no-memory")
    else (s, match mem_read (d_mem s) q (N.to_nat (arg 1%nat)) with Some b => vbytes b | None => VS "error" end)
  else if String.eqb kind "add_used" then
    match owner_of (d_masks s) q 0, get_ring s q with
    | Some (t, _), Some _ =>
        if existsb (Nat.eqb t) (d_worker_dead s) then (s, VS "worker-timeout")
        else let '(s1, ok) := h_add_used s q (cast 16 (arg 1%nat)) (cast 32 (arg 2%nat)) in (s1, VS (if ok then "ok" else "error"))
    | _, _ => (s, VS "no-owner")
    end
  else if String.eqb kind "signal" then
    match owner_of (d_masks s) q 0, get_ring s q with
    | Some (t, _), Some r =>
        if existsb (Nat.eqb t) (d_worker_dead s) then (s, VS "worker-timeout")
        else (match r_call r with
              | Some f => set_files s (set_pending (d_pending s) f (pending_of s f + 1)) (d_fe_holds s) (d_next_inst s)
              | None => s
              end, VS "ok")
    | _, _ => (s, VS "no-owner")
    end
  else if String.eqb kind "read_call" then
    let s0 := hold s q in
    (set_files s0 (set_pending (d_pending s0) q 0) (d_fe_holds s0) (d_next_inst s0), VN (pending_of s0 q))
  else if String.eqb kind "set_backend_req" then
    control s (hasd (d_fe_apf s) VhostUserProtocolFeatures_BACKEND_REQ) (hasd (d_rq_acked_proto s) VhostUserProtocolFeatures_BACKEND_REQ) false
            (fun s => let m := d_mem s in
                      let p := d_acked_proto s in
                      (set_mem s {| m_maps := m_maps m; m_regs := m_regs m; m_fsizes := m_fsizes m; m_fbytes := m_fbytes m; m_upd := m_upd m;
                                    m_ackf := m_ackf m; m_evlog := m_evlog m; m_log := m_log m;
                                    m_beq := Some (hasd p VhostUserProtocolFeatures_REPLY_ACK, hasd p VhostUserProtocolFeatures_SHARED_OBJECT,
                                                   hasd p VhostUserProtocolFeatures_SHMEM) |}, DOk []))
  else if String.eqb kind "proxy_probe" then
    match m_beq (d_mem s) with
    | None => (s, VS "no-channel")
    | Some (ra, sh, shm) =>
        if (if q =? 0 then sh else shm) then (s, VL [VS "sent"; VN (if ra then 1 else 0)]) else (s, VS "refused")
    end
  else if String.eqb kind "panics" then (s, VN 0)      (* the model has no panics: every handler is a total function *)
  else if String.eqb kind "teardown" then (s, VL [VS "ok"; VN 0])     (* nothing the daemon received stays open once it is gone *)
  else if String.eqb kind "backend_log" then
    let m := d_mem s in (s, VL [VN (m_upd m); VL (map VN (m_ackf m)); VL (map VN (m_evlog m)); VN 0])
  else (s, VS "model-unknown-step").

Fixpoint insert_sorted (x : val) (key : val -> N) (l : list val) : list val :=
  match l with
  | [] => [x]
  | y :: r => if key x <=? key y then x :: l else y :: insert_sorted x key r
  end.
Definition ev_key (v : val) : N :=
  match v with VL [VN t; VN i; VN m] => t * 1000000 + i * 10000 + m | _ => 0 end.

Definition d_step (s : dstate) (kind : string) (a : list N) (data : list N) (rl : list (list N)) : dout :=
  let '(s1, r) := d_apply s kind a data rl in
  let '(s2, evs) := poll (List.length (d_regs s1) * 2 + 4) s1 [] in
  {| do_state := s2; do_res := r; do_events := fold_right (fun e acc => insert_sorted e ev_key acc) [] evs |}.
