(* Property C14: ring configuration and negotiated features reach queues and
   backend unchanged.  Statements only (model level); the histories are decided
   by family "dmn" against Spec.MemSpec. *)
From VV Require Import Base.Bits Base.Rt Base.Val Model.Daemon Proofs.MemProofs.
Open Scope N_scope.

(* SET_VRING_NUM succeeds exactly for a power of two in 1..=max on an existing ring, and then that ring - and no
   other - has that size; otherwise nothing changes *)
Theorem C14_set_vring_num : forall s q n,
  match h_set_vring_num s q n with
  | (s', DOk _) => (exists r0, get_ring s q = Some r0) /\ n <> 0 /\ n <= d_maxq s /\ is_pow2 n = true
                   /\ (forall r', get_ring s' q = Some r' -> r_size r' = n)
                   /\ (forall q', N.to_nat q <> N.to_nat q' -> get_ring s' q' = get_ring s q')
  | (s', DErr) => s' = s /\ (get_ring s q = None \/ n = 0 \/ d_maxq s < n \/ is_pow2 n = false)
  end.
Proof. exact set_vring_num_spec. Qed.
Print Assumptions C14_set_vring_num.

Theorem C14_set_vring_base : forall s q b r0,
  get_ring s q = Some r0 ->
  exists s', h_set_vring_base s q b = (s', DOk [])
             /\ (forall r', get_ring s' q = Some r' -> r_next_avail r' = b mod 2 ^ 16 /\ r_size r' = r_size r0 /\ r_next_used r' = r_next_used r0).
Proof. exact set_vring_base_spec. Qed.
Print Assumptions C14_set_vring_base.

(* SET_VRING_ADDR: the installed addresses are the translations of the user addresses through the current table,
   and next-used is the 16-bit used index found in guest memory at used+2 *)
Theorem C14_set_vring_addr : forall s a s',
  h_set_vring_addr s a = (s', DOk []) ->
  exists r0 d av u idx,
    get_ring s (nth 0 a 0) = Some r0
    /\ va_to_gpa (m_maps (d_mem s)) (nth 2 a 0) = Some d
    /\ va_to_gpa (m_maps (d_mem s)) (nth 4 a 0) = Some av
    /\ va_to_gpa (m_maps (d_mem s)) (nth 3 a 0) = Some u
    /\ mem_load16 (d_mem s) (u + 2) = Some idx
    /\ (forall r', get_ring s' (nth 0 a 0) = Some r' ->
          r_desc r' = d /\ r_avail r' = av /\ r_used r' = u /\ r_next_used r' = idx
          /\ r_size r' = r_size r0 /\ r_next_avail r' = r_next_avail r0).
Proof. exact set_vring_addr_spec. Qed.
Print Assumptions C14_set_vring_addr.

(* an out-of-range ring index is rejected by every per-ring handler, with no change *)
Theorem C14_ring_index_checked : forall s q,
  get_ring s q = None ->
  (forall n, h_set_vring_num s q n = (s, DErr)) /\ (forall b, h_set_vring_base s q b = (s, DErr))
  /\ h_get_vring_base s q = (s, DErr) /\ (forall f, h_set_vring_kick s q f = (s, DErr))
  /\ (forall f, h_set_vring_call s q f = (s, DErr))
  /\ (forall a, nth 0 a 0 = q -> h_set_vring_addr s a = (s, DErr)).
Proof. exact per_ring_index_checked. Qed.
Print Assumptions C14_ring_index_checked.

(* SET_FEATURES: accepted exactly for a subset of the offer; then the backend is told exactly those bits and the
   EVENT_IDX setting, and every ring carries that setting *)
Theorem C14_set_features : forall s v,
  match h_set_features s v with
  | (s', DOk _) => N.land v (lnot 64 (d_features s)) = 0
                   /\ d_acked s' = v
                   /\ (forall r, In r (d_rings s') -> r_event_idx r = hasd v (2 ^ 29))
                   /\ m_ackf (d_mem s') = m_ackf (d_mem s) ++ [v]
                   /\ m_evlog (d_mem s') = m_evlog (d_mem s) ++ [if hasd v (2 ^ 29) then 1 else 0]
  | (s', DErr) => s' = s /\ N.land v (lnot 64 (d_features s)) <> 0
  end.
Proof. exact set_features_spec. Qed.
Print Assumptions C14_set_features.

(* the call descriptor a later signal uses is the one most recently installed *)
Theorem C14_call_installed : forall s q f r0 s',
  get_ring s q = Some r0 -> h_set_vring_call s q f = (s', DOk []) ->
  exists r', get_ring s' q = Some r' /\ r_call r' = Some f.
Proof. exact set_call_then_signal. Qed.
Print Assumptions C14_call_installed.

Example C14_example :
  let s0 := dinit 2 256 (2 ^ 29 + 2 ^ 30) 0 [3] in
  snd (h_set_vring_num s0 1 64) = DOk [] /\ snd (h_set_vring_num s0 1 48) = DErr /\ snd (h_set_vring_num s0 2 64) = DErr
  /\ snd (h_set_features s0 (2 ^ 29)) = DOk [] /\ snd (h_set_features s0 1) = DErr.
Proof. vm_compute. repeat split. Qed.

(* the size test of SET_VRING_NUM REGENERATED from handler.rs on this run (Gen.GenRoute.num_bad), which the model's handler
   calls: a size is taken exactly when it is non-zero, at most the device maximum and a power of two *)
From VV Require Import Gen.GenRoute.
Theorem C14_ring_size_test_regenerated : forall n mx, num_bad n mx = false <-> (n <> 0 /\ n <= mx /\ popcount n = 1).
Proof. exact num_bad_spec. Qed.
Print Assumptions C14_ring_size_test_regenerated.

(* ---- the SET_FEATURES handler REGENERATED from handler.rs as a program over the model's primitives (Gen/GenCtl.v:
   the subset test against the offer, the acknowledged features, enabling every ring when PROTOCOL_FEATURES is not among
   them, the EVENT_IDX setting for every queue and for the backend, the bits handed to the backend) computes exactly the
   model's handler the theorems above are about, for every state and value ---- *)
From VV Require Import Gen.GenCtl Model.CtlOps Model.CtlRun Proofs.CtlProofs.
Theorem C14_set_features_regenerated : forall s q e f v, run_handler_num ctl_set_features s q e f v = h_set_features s v.
Proof. exact ctl_set_features_eq. Qed.
Print Assumptions C14_set_features_regenerated.
