(* Property C06: frontend-side parsers accept only the matching reply.
   Statements only, over the hand model of the frontend receive paths. *)
From VV Require Import Base.Bits Base.Rt Base.Val Gen.GenConsts Gen.GenLayout Gen.GenFns
  Model.Transport Model.Frontend Model.Proxy Proofs.FeProofs Proofs.ProxyProofs Model.Gpu Proofs.GpuProofs.
Open Scope N_scope.

(* recv_reply: success implies that the consumed bytes are a header-valid REPLY with the request's
   own code, no descriptors, and a valid body - for every byte stream and every segmentation *)
Theorem C06_recv_reply_sound : forall (T : Type) req lay (read : list N -> nat -> T) valid q b,
  recv_reply req lay read valid q = ROk b ->
  exists bytes cl q',
    recv_all (fuel_for q (12 + sz lay)) (12 + sz lay) [] None [] q = RxAll bytes None cl q'
    /\ List.length bytes = (12 + sz lay)%nat
    /\ b = read bytes 12%nat /\ valid b = true
    /\ let h := VhostUserMsgHeader_read bytes 0 in
       VhostUserMsgHeader_is_valid RF h = true
       /\ VhostUserMsgHeader_is_reply RF h = true
       /\ VhostUserMsgHeader_request h = VhostUserMsgHeader_request req.
Proof. intros T. exact (@recv_reply_sound T). Qed.
Print Assumptions C06_recv_reply_sound.

(* wait_for_ack: success implies a REPLY with the request's code and a zero status *)
Theorem C06_wait_for_ack_sound : forall s req q,
  hasf (fe_apf s) VhostUserProtocolFeatures_REPLY_ACK = true ->
  VhostUserMsgHeader_is_need_reply RF req = true ->
  wait_for_ack s req q = ROk tt ->
  exists bytes cl q',
    recv_all (fuel_for q (12 + 8)) (12 + 8) [] None [] q = RxAll bytes None cl q'
    /\ List.length bytes = 20%nat
    /\ let h := VhostUserMsgHeader_read bytes 0 in
       VhostUserMsgHeader_is_valid RF h = true
       /\ VhostUserMsgHeader_is_reply RF h = true
       /\ VhostUserMsgHeader_request h = VhostUserMsgHeader_request req
       /\ VhostUserU64_value (VhostUserU64_read bytes 12) = 0.
Proof. exact wait_for_ack_sound. Qed.
Print Assumptions C06_wait_for_ack_sound.

(* "is a reply for" means: REPLY set on the answer, clear on the request, equal known codes *)
Theorem C06_is_reply_for : forall h req,
  VhostUserMsgHeader_is_reply_for RF h req = true ->
  VhostUserMsgHeader_is_reply RF h = true
  /\ VhostUserMsgHeader_is_reply RF req = false
  /\ VhostUserMsgHeader_request h = VhostUserMsgHeader_request req
  /\ enum_mem RF (VhostUserMsgHeader_request h) = true.
Proof. exact is_reply_for_spec. Qed.
Print Assumptions C06_is_reply_for.

(* the backend-to-frontend proxy accepts an acknowledgement only if it is a header-valid REPLY for
   its own request, without descriptors, with a zero status *)
Theorem C06_proxy_accept_sound : forall s req q,
  px_reply_ack s = true -> px_wait s req q = VL [VS "ok"%string; VN 0] ->
  exists bytes cl q',
    recv_all (fuel_for q 20) 20 [] None [] q = RxAll bytes None cl q'
    /\ List.length bytes = 20%nat
    /\ let h := VhostUserMsgHeader_read bytes 0 in
       VhostUserMsgHeader_is_valid RB h = true
       /\ VhostUserMsgHeader_is_reply_for RB h req = true
       /\ VhostUserU64_value (VhostUserU64_read bytes 12) = 0.
Proof. exact px_wait_sound. Qed.
Print Assumptions C06_proxy_accept_sound.

(* the frontend's server for backend-initiated requests: one handler invocation at most per request *)
Theorem C06_feserver_at_most_one : forall ra hr q,
  (List.length (fo_calls (fst (fsrv_handle ra hr q))) <= 1)%nat
  /\ (List.length (fo_sent (fst (fsrv_handle ra hr q))) <= 1)%nat.
Proof. exact fsrv_at_most_one. Qed.
Print Assumptions C06_feserver_at_most_one.

(* the GPU proxy accepts bytes as the answer only if they are a header-valid REPLY to its own request, of exactly the
   length of the reply type, without descriptors; the value it returns is the body it read *)
Theorem C06_gpu_accept_sound : forall req bsize q body,
  gpu_wait req bsize q = inr body ->
  exists bytes cl q',
    recv_all (fuel_for q (12 + bsize)) (12 + bsize) [] None [] q = RxAll bytes None cl q'
    /\ List.length bytes = (12 + bsize)%nat
    /\ VhostUserGpuMsgHeader_is_valid RG (VhostUserGpuMsgHeader_read bytes 0) = true
    /\ VhostUserGpuMsgHeader_is_reply_for RG (VhostUserGpuMsgHeader_read bytes 0) req = true
    /\ body = skipn 12 bytes.
Proof. exact gpu_wait_sound. Qed.
Print Assumptions C06_gpu_accept_sound.

(* ---- the acceptance decisions of the frontend's reply readers, REGENERATED from frontend.rs / connection.rs
   (Gen/GenFeRecv.v) and called by the model the theorems above are about ---- *)
From VV Require Import Gen.GenFeRecv Proofs.FeRecvProofs.
From Coq Require Import List String.
Import ListNotations.

(* a fixed-size reply / an acknowledgement is accepted only if it answers that very request, carries no descriptors and has a valid body *)
Theorem C06_reply_acceptance_regenerated : forall irf hf bv, frr_d2 irf hf bv = false <-> irf = true /\ hf = false /\ bv = true.
Proof. exact frr_d2_spec. Qed.
Print Assumptions C06_reply_acceptance_regenerated.

Theorem C06_ack_acceptance_regenerated : forall irf hf bv, fra_d2 irf hf bv = false <-> irf = true /\ hf = false /\ bv = true.
Proof. exact fra_d2_spec. Qed.
Print Assumptions C06_ack_acceptance_regenerated.

(* replies that may or must carry descriptors *)
Theorem C06_reply_with_files_acceptance_regenerated :
  (forall irf hf bv, fro_d2 irf hf bv = false <-> irf = true /\ bv = true) /\ (forall hf, frf_d1 hf = false <-> hf = true).
Proof. split; [exact fro_d2_spec|exact frf_d1_spec]. Qed.
Print Assumptions C06_reply_with_files_acceptance_regenerated.

(* the variable-length reply: its header answers the request, carries no descriptors and announces a size between the
   fixed part and what was asked for; its body is valid and exactly as long as asked for *)
Theorem C06_payload_reply_acceptance_regenerated :
  (forall irf hf size tsz hs, frp_d2 irf hf size tsz hs = false <-> irf = true /\ hf = false /\ tsz <= size /\ size <= hs)
  /\ (forall bv bl hs tsz, frp_d4 bv bl hs tsz = false <-> bv = true /\ bl = hs - tsz).
Proof. split; [exact frp_d2_spec|exact frp_d4_spec]. Qed.
Print Assumptions C06_payload_reply_acceptance_regenerated.

(* every received header and body is validated before any reader looks at it *)
Theorem C06_received_message_validated_regenerated : forall b t hv bv,
  (frb_d1 b t hv bv = false <-> b = t) /\ (frb_d2 b t hv bv = false <-> hv = true /\ bv = true).
Proof. exact frb_spec. Qed.
Print Assumptions C06_received_message_validated_regenerated.

(* which result each decision returns, and the statements between the decisions *)
Theorem C06_reader_statements_regenerated :
  [frr_shape; fro_shape; frf_shape; frp_shape; fra_shape; frh_shape; frb_shape] = fe_recv_shapes_expected.
Proof. exact fe_recv_shapes_ok. Qed.
Print Assumptions C06_reader_statements_regenerated.
