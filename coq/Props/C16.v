(* Property C16: daemon shutdown and teardown always complete, whatever the
   timing.  Statements only.  The transition system (Model.Shutdown) has the
   daemon thread at every position of its loop, up to three shutdown callers
   (each: store the flag, then shut the socket down), the peer closing at any
   moment, and a handler that may block; every interleaving is covered because
   the theorems quantify over ALL reachable states (closure computed and checked
   inside Coq, Proofs/ShutBase.v).  The real daemon is driven to the same
   positions by family "shut". *)
From VV Require Import Base.Bits Base.Val Model.Shutdown Proofs.ShutBase Proofs.ShutProofs.
Open Scope N_scope.

(* once a shutdown request has returned, the daemon thread is done, or can take a step, or is inside a handler the
   backend has not returned from: it is never left blocked on the socket (bounded-time wait) *)
Theorem C16_shutdown_unblocks : forall s0 s, In s0 inits -> reach s0 s -> progress_b s = true.
Proof. exact (all_reachable progress_b progress_all). Qed.
Print Assumptions C16_shutdown_unblocks.

(* the thread's own steps strictly decrease a measure: the loop cannot run forever on a finite input *)
Theorem C16_thread_terminates : forall s0 s, In s0 inits -> reach s0 s -> decreases_b s = true.
Proof. exact (all_reachable decreases_b thread_terminates_all). Qed.
Print Assumptions C16_thread_terminates.

(* a returned shutdown request has stored the flag and shut the socket down; a thread that is done after the flag was
   stored makes wait() succeed - at whichever moment the request came, from however many callers *)
Theorem C16_flag_and_socket : forall s0 s, In s0 inits -> reach s0 s -> flag_before_return_b s = true.
Proof. exact (all_reachable flag_before_return_b flag_before_return_all). Qed.
Print Assumptions C16_flag_and_socket.
Theorem C16_wait_succeeds_after_shutdown : forall s0 s, In s0 inits -> reach s0 s -> wait_after_shutdown_b s = true.
Proof. exact (all_reachable wait_after_shutdown_b wait_after_shutdown_all). Qed.
Print Assumptions C16_wait_succeeds_after_shutdown.

(* whenever the daemon thread is done - shutdown, disconnect or request error - its socket is shut down: the peer
   observes end-of-stream *)
Theorem C16_peer_sees_end_of_stream : forall s0 s, In s0 inits -> reach s0 s -> eos_when_done_b s = true.
Proof. exact (all_reachable eos_when_done_b eos_when_done_all). Qed.
Print Assumptions C16_peer_sees_end_of_stream.

(* without a shutdown request the thread never ends successfully, and wait() reports the error - EXCEPT for the
   class SocketBroken (the reply could not be written because the peer had gone) ... *)
Theorem C16_disconnect_reported_partial : forall s0 s, In s0 inits -> reach s0 s -> reported_b s = true.
Proof. exact (all_reachable reported_b reported_all). Qed.
Print Assumptions C16_disconnect_reported_partial.
Theorem C16_thread_never_ends_ok : forall s0 s, In s0 inits -> reach s0 s -> never_ok_result_b s = true.
Proof. exact (all_reachable never_ok_result_b never_ok_result_all). Qed.
Print Assumptions C16_thread_never_ends_ok.

(* ... for which the full statement ("wait reports a peer disconnect as an error") is FALSE of the faithful model:
   a reachable state without any shutdown request in which the peer has gone and wait() succeeds.  Replayed on the
   real daemon by family "shut", position reply_to_closed_peer (known finding F17). *)
Theorem C16_disconnect_reported_refuted :
  mem broken_witness reachable_set = true /\ no_callers broken_witness = true /\ wait_ok broken_witness = true.
Proof. exact broken_witness_reachable. Qed.
Print Assumptions C16_disconnect_reported_refuted.

(* the classifications of wait() and serve() REGENERATED from lib.rs on this run (Gen.GenLife), which the life-cycle
   model calls, and the statements of the small functions around them *)
From VV Require Import Gen.GenLife Proofs.LifeProofs.
Theorem C16_wait_classification_regenerated : forall k f, 1 <= k < 100 -> life_wait_ok k f = (k =? 4) || f.
Proof. exact life_wait_ok_request_error. Qed.
Print Assumptions C16_wait_classification_regenerated.
Theorem C16_serve_forgives_regenerated : forall k, life_serve_forgives k = (k =? 1) || (k =? 2).
Proof. exact life_serve_forgives_spec. Qed.
Print Assumptions C16_serve_forgives_regenerated.
Theorem C16_lifecycle_code_shape : life_shape_ok = true.
Proof. exact life_shape_ok_true. Qed.
Print Assumptions C16_lifecycle_code_shape.
