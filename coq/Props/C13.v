(* Property C13: guest memory table and address translation always reflect the
   accepted updates.  Statements only.  The model's memory operations are tied
   to handler.rs by the correspondence family "dmn" (memory histories), whose
   observations are also judged against Spec.MemSpec. *)
From VV Require Import Base.Bits Base.Rt Base.Val Model.Daemon Proofs.MemProofs.
Open Scope N_scope.

(* a failed SET_MEM_TABLE / ADD_MEM_REG / REM_MEM_REG leaves the whole daemon state intact *)
Theorem C13_failed_update_intact : forall s o s', mop_apply s o = (s', DErr) -> s' = s.
Proof. exact mop_failed_intact. Qed.
Print Assumptions C13_failed_update_intact.

(* a step installs exactly the regions of the successful operation (replace / add / remove by guest address),
   and the backend is notified exactly once per successful change *)
Theorem C13_table_is_accepted_regions : forall s o s' r,
  mop_apply s o = (s', r) ->
  (forall x, In x (m_regs (d_mem s')) <-> In x (abs_step (m_log (d_mem s)) (m_regs (d_mem s)) o (d_ok r)))
  /\ m_upd (d_mem s') = m_upd (d_mem s) + (if d_ok r then 1 else 0).
Proof. exact mop_step_table. Qed.
Print Assumptions C13_table_is_accepted_regions.

(* after ANY history of memory operations: the regions are sorted and pairwise disjoint, and the translation
   table lists exactly the same (guest address, size) pairs as the guest memory *)
Theorem C13_table_consistent_always : forall nq maxq f pf masks ops,
  MemInv (d_mem (mem_run (dinit nq maxq f pf masks) ops)).
Proof. intros. apply mem_run_inv. apply meminv_init. Qed.
Print Assumptions C13_table_consistent_always.

Theorem C13_regions_disjoint : forall l, regs_sorted l = true ->
  forall a b x, In a l -> In b l -> rg_gpa a <= x < rg_gpa a + rg_size a -> rg_gpa b <= x < rg_gpa b + rg_size b -> a = b.
Proof. exact sorted_disjoint. Qed.
Print Assumptions C13_regions_disjoint.

(* translation: gpa_base + (va - user_base) of a region whose user range contains va; rejected iff none does *)
Theorem C13_translation_sound : forall maps va g,
  va_to_gpa maps va = Some g ->
  exists mp, In mp maps /\ m_vmm mp <= va < m_vmm mp + m_size mp /\ g = m_gpa mp + (va - m_vmm mp).
Proof. exact va_to_gpa_sound. Qed.
Print Assumptions C13_translation_sound.

Theorem C13_translation_rejects_unmapped : forall maps va,
  va_to_gpa maps va = None <-> (forall mp, In mp maps -> ~ (m_vmm mp <= va < m_vmm mp + m_size mp)).
Proof. exact va_to_gpa_none. Qed.
Print Assumptions C13_translation_rejects_unmapped.

(* a byte the backend writes at a guest address (of a region without dirty logging; C15 covers the log) is the byte
   of the passed file at mmap_offset + offset,
   and a byte the frontend writes there is what the backend reads *)
Theorem C13_backend_write_visible : forall m a b m' r,
  region_of (m_regs m) a = Some r -> rg_log r = None -> mem_write m a [b] = (m', true) ->
  fbyte_of m' (rg_file r) (rg_off r + (a - rg_gpa r)) = b /\ mem_read m' a 1 = Some [b].
Proof. exact backend_write_visible. Qed.
Print Assumptions C13_backend_write_visible.

Theorem C13_guest_write_visible : forall m f o b a r,
  region_of (m_regs m) a = Some r -> rg_file r = f -> rg_off r + (a - rg_gpa r) = o ->
  mem_read (file_write m f o [b]) a 1 = Some [b].
Proof. exact guest_write_visible. Qed.
Print Assumptions C13_guest_write_visible.

(* non-vacuity: a two-region table accepted by the model, a rejected overlapping third, a probe translation *)
Example C13_example :
  let s0 := dinit 1 256 0 0 [1] in
  let s1 := fst (h_set_mem_table s0 [[0; 4096; 1000000; 0; 1]; [8192; 4096; 2000000; 4096; 2]]) in
  m_upd (d_mem s1) = 1
  /\ snd (h_add_mem s1 [4095; 4096; 3000000; 0; 1]) = DErr
  /\ va_to_gpa (m_maps (d_mem s1)) 2000010 = Some 8202
  /\ va_to_gpa (m_maps (d_mem s1)) 1004096 = None.
Proof. vm_compute. repeat split. Qed.

(* the containment test and the translated value REGENERATED from vmm_va_to_gpa (handler.rs) on this run: the address is
   inside [start, start + size) of the mapping - the end excluded -, the result is the guest base plus the offset, the
   first containing mapping decides and no mapping means an error *)
From VV Require Import Gen.GenRoute.
Theorem C13_translation_test_regenerated : forall va a sz g, va_hit va a sz g = true <-> a <= va < a + sz.
Proof. exact va_hit_spec. Qed.
Print Assumptions C13_translation_test_regenerated.
Theorem C13_translation_value_regenerated : forall va a sz g, a <= va -> va_gpa va a sz g = g + (va - a).
Proof. exact va_gpa_spec. Qed.
Print Assumptions C13_translation_value_regenerated.
Theorem C13_translation_code_shape : va_shape_ok = true.
Proof. exact va_shape_ok_true. Qed.
Print Assumptions C13_translation_code_shape.
