(* Property C07: feature-dependent operations are impossible before the
   feature is negotiated.  Statements only. *)
From VV Require Import Base.Bits Base.Rt Base.Val Gen.GenConsts Gen.GenLayout Gen.GenFns Gen.GenArms
  Spec.BeSpec Spec.Gates Model.Transport Model.BeServer Proofs.BeProofs Proofs.TableProofs.
Open Scope N_scope.

(* backend: whenever the handler is invoked, the gate that the (regenerated) arm of that request
   demands is open in the server's negotiation state *)
Theorem C07_backend_calls_gated : forall cfg s o h files size buf,
  o_calls (snd (dispatch cfg s o h files size buf)) <> [] ->
  gen_gate_open s (VhostUserMsgHeader_request h).
Proof. exact dispatch_calls_gated. Qed.
Print Assumptions C07_backend_calls_gated.

(* the gates in the regenerated arms are the specification's, one per request, checked before
   any handler call, reply or acknowledgement *)
Theorem C07_backend_gate_table : be_tables_ok = true.
Proof. exact be_tables_ok_true. Qed.
Print Assumptions C07_backend_gate_table.

(* a gate can only have been opened by an earlier SET_PROTOCOL_FEATURES / SET_FEATURES on the
   same connection: no other request changes the acknowledged sets *)
Theorem C07_acked_proto_only_by_set : forall cfg s o h files size buf,
  be_acked_proto (fst (dispatch cfg s o h files size buf)) = be_acked_proto s
  \/ VhostUserMsgHeader_request h = FrontendReq_SET_PROTOCOL_FEATURES.
Proof. exact dispatch_acked_proto. Qed.
Print Assumptions C07_acked_proto_only_by_set.
Theorem C07_acked_virtio_only_by_set : forall cfg s o h files size buf,
  be_acked_virtio (fst (dispatch cfg s o h files size buf)) = be_acked_virtio s
  \/ VhostUserMsgHeader_request h = FrontendReq_SET_FEATURES.
Proof. exact dispatch_acked_virtio. Qed.
Print Assumptions C07_acked_virtio_only_by_set.

(* frontend endpoint: each gated operation checks the specified gate before it sends, and sends
   exactly its own request code *)
Theorem C07_frontend_gate_table : fe_tables_ok = true.
Proof. exact fe_tables_ok_true. Qed.
Print Assumptions C07_frontend_gate_table.

(* REPLY_ACK is offered whatever the device's own protocol features are *)
Theorem C07_reply_ack_always_offered : forall x,
  has (N.lor x VhostUserProtocolFeatures_REPLY_ACK) VhostUserProtocolFeatures_REPLY_ACK = true.
Proof. intros x. apply lor_has. discriminate. Qed.
Print Assumptions C07_reply_ack_always_offered.
