(* Property C07: feature-dependent operations are impossible before the
   feature is negotiated.  Statements only. *)
From VV Require Import Base.Bits Base.Rt Base.Val Gen.GenConsts Gen.GenLayout Gen.GenFns Gen.GenArms
  Spec.BeSpec Spec.Gates Model.Transport Model.BeServer Model.Frontend Proofs.BeProofs Proofs.TableProofs Proofs.FeProofs.
Open Scope N_scope.

(* backend: whenever the handler is invoked, the gate that the (regenerated) arm of that request
   demands is open in the server's negotiation state *)
Theorem C07_backend_calls_gated : forall cfg s o h files size buf,
  o_calls (snd (dispatch cfg s o h files size buf)) <> [] ->
  gen_gate_open s (VhostUserMsgHeader_request h).
Proof. exact dispatch_calls_gated. Qed.
Print Assumptions C07_backend_calls_gated.

(* the gates in the regenerated arms are the specification's, one per request, checked before
   any handler call, reply or acknowledgement *)
Theorem C07_backend_gate_table : be_tables_ok = true.
Proof. exact be_tables_ok_true. Qed.
Print Assumptions C07_backend_gate_table.

(* a gate can only have been opened by an earlier SET_PROTOCOL_FEATURES / SET_FEATURES on the
   same connection: no other request changes the acknowledged sets *)
Theorem C07_acked_proto_only_by_set : forall cfg s o h files size buf,
  be_acked_proto (fst (dispatch cfg s o h files size buf)) = be_acked_proto s
  \/ VhostUserMsgHeader_request h = FrontendReq_SET_PROTOCOL_FEATURES.
Proof. exact dispatch_acked_proto. Qed.
Print Assumptions C07_acked_proto_only_by_set.
Theorem C07_acked_virtio_only_by_set : forall cfg s o h files size buf,
  be_acked_virtio (fst (dispatch cfg s o h files size buf)) = be_acked_virtio s
  \/ VhostUserMsgHeader_request h = FrontendReq_SET_FEATURES.
Proof. exact dispatch_acked_virtio. Qed.
Print Assumptions C07_acked_virtio_only_by_set.

(* frontend endpoint: each gated operation checks the specified gate before it sends, and sends
   exactly its own request code *)
Theorem C07_frontend_gate_table : fe_tables_ok = true.
Proof. exact fe_tables_ok_true. Qed.
Print Assumptions C07_frontend_gate_table.

(* REPLY_ACK is offered whatever the device's own protocol features are *)
Theorem C07_reply_ack_always_offered : forall x,
  has (N.lor x VhostUserProtocolFeatures_REPLY_ACK) VhostUserProtocolFeatures_REPLY_ACK = true.
Proof. intros x. apply lor_has. discriminate. Qed.
Print Assumptions C07_reply_ack_always_offered.

(* frontend endpoint (model): gated operations put nothing on the wire and change no state
   while the feature is not acknowledged; the protocol-feature exchange itself needs the offer;
   ring enable needs the acknowledged VHOST_USER_F_PROTOCOL_FEATURES *)
Theorem C07_frontend_gated_silent : forall s name a bytes fds regions q bit,
  In (name, bit)
     [("get_queue_num"%string, VhostUserProtocolFeatures_MQ); ("reset_device"%string, VhostUserProtocolFeatures_RESET_DEVICE);
      ("set_backend_request_fd"%string, VhostUserProtocolFeatures_BACKEND_REQ);
      ("get_max_mem_slots"%string, VhostUserProtocolFeatures_CONFIGURE_MEM_SLOTS);
      ("get_shmem_config"%string, VhostUserProtocolFeatures_SHMEM);
      ("check_device_state"%string, VhostUserProtocolFeatures_DEVICE_STATE)] ->
  hasf (fe_apf s) bit = false ->
  f_sent (fe_op s name a bytes fds regions q) = [] /\ f_state (fe_op s name a bytes fds regions q) = s.
Proof. exact fe_gated_silent. Qed.
Print Assumptions C07_frontend_gated_silent.
Theorem C07_frontend_exchange_gated : forall s name a bytes fds regions q,
  name = "get_protocol_features"%string \/ name = "set_protocol_features"%string ->
  hasf (fe_vf s) VhostUserVirtioFeatures_PROTOCOL_FEATURES = false ->
  f_sent (fe_op s name a bytes fds regions q) = [] /\ f_state (fe_op s name a bytes fds regions q) = s.
Proof. exact fe_protocol_exchange_gated. Qed.
Print Assumptions C07_frontend_exchange_gated.
Theorem C07_frontend_ring_enable_gated : forall s a bytes fds regions q,
  hasf (fe_avf s) VhostUserVirtioFeatures_PROTOCOL_FEATURES = false ->
  f_sent (fe_op s "set_vring_enable" a bytes fds regions q) = []
  /\ f_state (fe_op s "set_vring_enable" a bytes fds regions q) = s.
Proof. exact fe_ring_enable_gated. Qed.
Print Assumptions C07_frontend_ring_enable_gated.
