(* Property C03: handler results and failures are reported faithfully to the
   frontend caller.  Statements only (model-level parts; the end-to-end clause
   incl. "returns in bounded time" is decided by families fe and sess). *)
From VV Require Import Base.Bits Base.Rt Base.Val Gen.GenConsts Gen.GenLayout Gen.GenFns
  Model.Transport Model.Frontend Model.BeServer Proofs.FeProofs Proofs.BeProofs.
Open Scope N_scope.

(* a value returned by a reply-bearing call is the one decoded from a genuine reply to that call *)
Theorem C03_value_from_reply : forall (T : Type) req lay (read : list N -> nat -> T) valid q b,
  recv_reply req lay read valid q = ROk b ->
  exists bytes cl q',
    recv_all (fuel_for q (12 + sz lay)) (12 + sz lay) [] None [] q = RxAll bytes None cl q'
    /\ List.length bytes = (12 + sz lay)%nat
    /\ b = read bytes 12%nat /\ valid b = true
    /\ let h := VhostUserMsgHeader_read bytes 0 in
       VhostUserMsgHeader_is_valid RF h = true
       /\ VhostUserMsgHeader_is_reply RF h = true
       /\ VhostUserMsgHeader_request h = VhostUserMsgHeader_request req.
Proof. intros T. exact (@recv_reply_sound T). Qed.
Print Assumptions C03_value_from_reply.

(* an acknowledged operation succeeds only on a zero status *)
Theorem C03_ack_zero_only : forall s req q,
  hasf (fe_apf s) VhostUserProtocolFeatures_REPLY_ACK = true ->
  VhostUserMsgHeader_is_need_reply RF req = true ->
  wait_for_ack s req q = ROk tt ->
  exists bytes cl q',
    recv_all (fuel_for q (12 + 8)) (12 + 8) [] None [] q = RxAll bytes None cl q'
    /\ List.length bytes = 20%nat
    /\ let h := VhostUserMsgHeader_read bytes 0 in
       VhostUserMsgHeader_is_valid RF h = true
       /\ VhostUserMsgHeader_is_reply RF h = true
       /\ VhostUserMsgHeader_request h = VhostUserMsgHeader_request req
       /\ VhostUserU64_value (VhostUserU64_read bytes 12) = 0.
Proof. exact wait_for_ack_sound. Qed.
Print Assumptions C03_ack_zero_only.

(* the backend's acknowledgement carries 0 iff the handler succeeded *)
Theorem C03_backend_ack_value : forall s h res c d dr,
  VhostUserMsgHeader_is_valid R h = true ->
  (o_sent (ack s h res c d dr) <> [] <-> be_reply_ack s && VhostUserMsgHeader_is_need_reply R h = true)
  /\ (forall t, In t (o_sent (ack s h res c d dr)) ->
        exists rh, fst t = VhostUserMsgHeader_write rh ++ u64_body (match res with ROk _ => 0 | RErr _ => 1 end)).
Proof. exact ack_rule. Qed.
Print Assumptions C03_backend_ack_value.

(* the value of the backend's acknowledgement REGENERATED from send_ack_message: zero exactly for a successful handler *)
From VV Require Import Gen.GenBeAck.
Theorem C03_backend_ack_value_regenerated : forall ok, (ack_value ok =? 0) = ok.
Proof. exact ack_value_spec. Qed.
Print Assumptions C03_backend_ack_value_regenerated.

(* ---- the frontend side of an acknowledgement, REGENERATED from frontend.rs (Gen/GenFeRecv.v): it is awaited exactly
   when REPLY_ACK is negotiated and the request asks for it, and it is a success exactly for the value 0 ---- *)
From VV Require Import Gen.GenFeRecv Proofs.FeRecvProofs.
Theorem C03_ack_awaited_and_judged_regenerated :
  (forall apf nr, fra_d1 apf nr = false <-> N.land apf VhostUserProtocolFeatures_REPLY_ACK <> 0 /\ nr = true)
  /\ (forall v, fra_d3 v = false <-> v = 0).
Proof. split; [exact fra_d1_spec|exact fra_d3_spec]. Qed.
Print Assumptions C03_ack_awaited_and_judged_regenerated.
