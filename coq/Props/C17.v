(* Property C17: kicks are routed to the owning worker with the ring's rank
   as event id.  Statements only. *)
From VV Require Import Base.Bits Base.Rt Base.Val Gen.GenRoute Model.Daemon Spec.DaemonSpec Proofs.DaemonProofs.
Open Scope N_scope.

(* the event id computed by the daemon (popcount(mask) - popcount(mask >> q)) is the number of
   lower-numbered queues in the mask: for every 64-bit (indeed every) mask and every q *)
Theorem C17_rank : forall m q, popcount m - popcount (N.shiftr m q) = popcount (m mod 2 ^ q).
Proof. exact rank_formula. Qed.
Print Assumptions C17_rank.

(* the expressions of update_vring_registration REGENERATED from handler.rs on this run (Gen.GenRoute): the membership
   test is bit q of the worker's mask, the event id is the rank, the source's subtraction cannot underflow,
   unregistration computes the same worker and id, and the code around them is one in-order loop that stops at the
   first hit and hands the id to the hit worker's own handler *)
Theorem C17_regenerated_membership : forall m q, route_hit (route_shift m q) = N.testbit m q.
Proof. exact route_hit_testbit. Qed.
Print Assumptions C17_regenerated_membership.
Theorem C17_regenerated_event_id : forall m q, route_evt m (route_shift m q) = popcount (m mod 2 ^ q).
Proof. exact route_evt_rank. Qed.
Print Assumptions C17_regenerated_event_id.
Theorem C17_event_id_no_underflow : forall m q, popcount (route_shift m q) <= popcount m.
Proof. exact route_evt_no_underflow. Qed.
Print Assumptions C17_event_id_no_underflow.
Theorem C17_unregistration_agrees : forall m q,
  unroute_shift m q = route_shift m q /\ unroute_hit (unroute_shift m q) = route_hit (route_shift m q)
  /\ unroute_evt m (unroute_shift m q) = route_evt m (route_shift m q).
Proof. exact unroute_same. Qed.
Print Assumptions C17_unregistration_agrees.
Theorem C17_routing_code_shape : route_shape_ok = true.
Proof. exact route_shape_ok_true. Qed.
Print Assumptions C17_routing_code_shape.
(* the slice a worker is given by VhostUserHandler::new (regenerated membership test) holds queue q at q's event id *)
Theorem C17_slice_at_event_id : forall m nq q,
  (q < nq)%nat -> route_hit (route_shift m (N.of_nat q)) = true ->
  nth_error (filter (fun x => route_member m x) (map N.of_nat (seq 0 nq)))
            (N.to_nat (route_evt m (route_shift m (N.of_nat q)))) = Some (N.of_nat q).
Proof. exact slice_at_event_id. Qed.
Print Assumptions C17_slice_at_event_id.

(* the owner is the first worker whose mask contains the queue, with that rank: the model's loop over the regenerated
   expressions equals the specification's *)
Theorem C17_single_owner : forall masks q t,
  owner_of masks q t = match spec_owner masks q (N.of_nat t) with
                       | Some (w, r) => Some (N.to_nat w, r)
                       | None => None
                       end.
Proof. exact owner_is_spec. Qed.
Print Assumptions C17_single_owner.

(* in the worker's ring slice (the queues of its mask in increasing order, bits beyond the queue
   count contributing nothing) the element at the event id is queue q *)
Theorem C17_slice : forall m nq q,
  (q < nq)%nat -> N.testbit m (N.of_nat q) = true ->
  nth_error (filter (fun x => N.testbit m x) (map N.of_nat (seq 0 nq))) (N.to_nat (popcount (m mod 2 ^ N.of_nat q)))
  = Some (N.of_nat q).
Proof. exact slice_at_rank. Qed.
Print Assumptions C17_slice.

(* a queue's event id is below the number of queues of its worker: it can never be the exit event's id
   (num_queues) nor a custom listener's (above num_queues) *)
Theorem C17_ids_disjoint : forall m q, N.testbit m q = true -> popcount (m mod 2 ^ q) < popcount m.
Proof. exact rank_below_count. Qed.
Print Assumptions C17_ids_disjoint.

Example C17_ex : owner_of [5; 10] 3 0 = Some (1%nat, 1) /\ owner_of [5; 10] 2 0 = Some (0%nat, 1).
Proof. split; reflexivity. Qed.
