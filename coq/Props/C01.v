(* Property C01: wire encoding of every message matches the specification.
   Statements only.  Tables and layouts: regenerated (Gen) vs transcribed
   specification (Spec.WireConsts); byte-level statements: for all field values. *)
From VV Require Import Base.Bits Base.Rt Gen.GenConsts Gen.GenLayout Gen.GenFns Spec.WireConsts Proofs.WireProofs.
Open Scope N_scope.

(* every request number of the three request spaces, every header flag, every virtio / protocol
   feature bit, every flag set and the size limits equal the specification's (whole tables) *)
Theorem C01_consts : consts_ok = true.
Proof. exact consts_ok_true. Qed.
Print Assumptions C01_consts.

(* every wire struct has the specified total size and every field the specified offset and width,
   computed from the regenerated layout by the C / packed layout rules *)
Theorem C01_layouts : layouts_ok = true.
Proof. exact layouts_ok_true. Qed.
Print Assumptions C01_layouts.

(* header encoding, for all u32 values: request, then flags reduced to version 1 plus REPLY/NEED_REPLY,
   then size, each little-endian in 4 bytes *)
Theorem C01_header : forall (R : enum_tbl) code flags size,
  VhostUserMsgHeader_write (VhostUserMsgHeader_new R code flags size)
  = le_encode 4 code ++ le_encode 4 (N.lor (N.land flags 12) 1) ++ le_encode 4 size.
Proof. exact header_bytes. Qed.
Print Assumptions C01_header.
Theorem C01_header_flags : forall flags,
  let f := N.lor (N.land flags 12) 1 in f mod 4 = 1 /\ f < 16.
Proof. exact header_flags_shape. Qed.
Print Assumptions C01_header_flags.
Theorem C01_gpu_header : forall (R : enum_tbl) code flags size,
  VhostUserGpuMsgHeader_write (VhostUserGpuMsgHeader_new R code flags size)
  = le_encode 4 code ++ le_encode 4 flags ++ le_encode 4 size.
Proof. exact gpu_header_bytes. Qed.
Print Assumptions C01_gpu_header.

(* field values survive encoding and decoding *)
Theorem C01_u32_roundtrip : forall v, v < 2 ^ 32 -> le_decode (le_encode 4 v) = v.
Proof. exact u32_roundtrip. Qed.
Print Assumptions C01_u32_roundtrip.
Theorem C01_u64_roundtrip : forall v, v < 2 ^ 64 -> le_decode (le_encode 8 v) = v.
Proof. exact u64_roundtrip. Qed.
Print Assumptions C01_u64_roundtrip.
