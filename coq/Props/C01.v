(* Property C01: wire encoding of every message matches the specification.
   Statements only.  Tables and layouts: regenerated (Gen) vs transcribed
   specification (Spec.WireConsts); byte-level statements: for all field values. *)
From VV Require Import Base.Bits Base.Rt Gen.GenConsts Gen.GenLayout Gen.GenFns Spec.WireConsts Proofs.WireProofs Proofs.CodecProofs.
Open Scope N_scope.

(* every request number of the three request spaces, every header flag, every virtio / protocol
   feature bit, every flag set and the size limits equal the specification's (whole tables) *)
Theorem C01_consts : consts_ok = true.
Proof. exact consts_ok_true. Qed.
Print Assumptions C01_consts.

(* every wire struct has the specified total size and every field the specified offset and width,
   computed from the regenerated layout by the C / packed layout rules *)
Theorem C01_layouts : layouts_ok = true.
Proof. exact layouts_ok_true. Qed.
Print Assumptions C01_layouts.

(* header encoding, for all u32 values: request, then flags reduced to version 1 plus REPLY/NEED_REPLY,
   then size, each little-endian in 4 bytes *)
Theorem C01_header : forall (R : enum_tbl) code flags size,
  VhostUserMsgHeader_write (VhostUserMsgHeader_new R code flags size)
  = le_encode 4 code ++ le_encode 4 (N.lor (N.land flags 12) 1) ++ le_encode 4 size.
Proof. exact header_bytes. Qed.
Print Assumptions C01_header.
Theorem C01_header_flags : forall flags,
  let f := N.lor (N.land flags 12) 1 in f mod 4 = 1 /\ f < 16.
Proof. exact header_flags_shape. Qed.
Print Assumptions C01_header_flags.
Theorem C01_gpu_header : forall (R : enum_tbl) code flags size,
  VhostUserGpuMsgHeader_write (VhostUserGpuMsgHeader_new R code flags size)
  = le_encode 4 code ++ le_encode 4 flags ++ le_encode 4 size.
Proof. exact gpu_header_bytes. Qed.
Print Assumptions C01_gpu_header.

(* field values survive encoding and decoding *)
Theorem C01_u32_roundtrip : forall v, v < 2 ^ 32 -> le_decode (le_encode 4 v) = v.
Proof. exact u32_roundtrip. Qed.
Print Assumptions C01_u32_roundtrip.
Theorem C01_u64_roundtrip : forall v, v < 2 ^ 64 -> le_decode (le_encode 8 v) = v.
Proof. exact u64_roundtrip. Qed.
Print Assumptions C01_u64_roundtrip.

(* whole structures: decoding what the regenerated writer produced gives back every field, for all values that fit
   their fields (the layouts, offsets and widths are the regenerated ones) *)
Theorem C01_header_roundtrip : forall v,
  VhostUserMsgHeader_request v < 2 ^ 32 -> VhostUserMsgHeader_flags v < 2 ^ 32 -> VhostUserMsgHeader_size v < 2 ^ 32 ->
  VhostUserMsgHeader_read (VhostUserMsgHeader_write v) 0 = v.
Proof. exact header_roundtrip. Qed.
Print Assumptions C01_header_roundtrip.
Theorem C01_vring_state_roundtrip : forall v,
  VhostUserVringState_index v < 2 ^ 32 -> VhostUserVringState_num v < 2 ^ 32 ->
  VhostUserVringState_read (VhostUserVringState_write v) 0 = v.
Proof. exact vring_state_roundtrip. Qed.
Print Assumptions C01_vring_state_roundtrip.
Theorem C01_vring_addr_roundtrip : forall v,
  VhostUserVringAddr_index v < 2 ^ 32 -> VhostUserVringAddr_flags v < 2 ^ 32 -> VhostUserVringAddr_descriptor v < 2 ^ 64 ->
  VhostUserVringAddr_used v < 2 ^ 64 -> VhostUserVringAddr_available v < 2 ^ 64 -> VhostUserVringAddr_log v < 2 ^ 64 ->
  VhostUserVringAddr_read (VhostUserVringAddr_write v) 0 = v.
Proof. exact vring_addr_roundtrip. Qed.
Print Assumptions C01_vring_addr_roundtrip.
Theorem C01_config_roundtrip : forall v,
  VhostUserConfig_offset v < 2 ^ 32 -> VhostUserConfig_size v < 2 ^ 32 -> VhostUserConfig_flags v < 2 ^ 32 ->
  VhostUserConfig_read (VhostUserConfig_write v) 0 = v.
Proof. exact config_roundtrip. Qed.
Print Assumptions C01_config_roundtrip.
Theorem C01_memory_region_roundtrip : forall v,
  VhostUserMemoryRegion_guest_phys_addr v < 2 ^ 64 -> VhostUserMemoryRegion_memory_size v < 2 ^ 64 ->
  VhostUserMemoryRegion_user_addr v < 2 ^ 64 -> VhostUserMemoryRegion_mmap_offset v < 2 ^ 64 ->
  VhostUserMemoryRegion_read (VhostUserMemoryRegion_write v) 0 = v.
Proof. exact memory_region_roundtrip. Qed.
Print Assumptions C01_memory_region_roundtrip.
Theorem C01_inflight_roundtrip : forall v,
  VhostUserInflight_mmap_size v < 2 ^ 64 -> VhostUserInflight_mmap_offset v < 2 ^ 64 ->
  VhostUserInflight_num_queues v < 2 ^ 16 -> VhostUserInflight_queue_size v < 2 ^ 16 ->
  VhostUserInflight_read (VhostUserInflight_write v) 0 = v.
Proof. exact inflight_roundtrip. Qed.
Print Assumptions C01_inflight_roundtrip.
Theorem C01_log_roundtrip : forall v,
  VhostUserLog_mmap_size v < 2 ^ 64 -> VhostUserLog_mmap_offset v < 2 ^ 64 -> VhostUserLog_read (VhostUserLog_write v) 0 = v.
Proof. exact log_roundtrip. Qed.
Print Assumptions C01_log_roundtrip.
Theorem C01_transfer_state_roundtrip : forall v,
  VhostUserTransferDeviceState_direction v < 2 ^ 32 -> VhostUserTransferDeviceState_phase v < 2 ^ 32 ->
  VhostUserTransferDeviceState_read (VhostUserTransferDeviceState_write v) 0 = v.
Proof. exact transfer_state_roundtrip. Qed.
Print Assumptions C01_transfer_state_roundtrip.

(* every operation of the frontend endpoint, for ALL argument values: what the model of frontend.rs (over the regenerated
   codecs and constants) puts on the socket is byte for byte the specification's encoding - code, version 1 plus the
   NEED_REPLY bit only, payload size, payload at the specified offsets, the specified descriptors - or nothing; arguments
   the specification rejects are rejected locally and silently.  [args_wf]: the shape the public Rust API gives the
   arguments (u32 flag words, four numbers per region, a 16-byte UUID). *)
From VV Require Import Model.Transport Model.Frontend Spec.FeSpec Proofs.TxSpecProofs.
Theorem C01_frontend_requests_are_the_specified_encoding : forall name, In name fe_op_names ->
  forall s a data fds regions q, args_wf name a data regions ->
  match spec_op (fe_maxq s) (hasf (fe_apf s) VhostUserProtocolFeatures_LOG_SHMFD) name a data fds regions with
  | Some sp =>
      match os_body sp with
      | Some body => f_sent (fe_op s name a data fds regions q) = [] \/ f_sent (fe_op s name a data fds regions q) = [spec_wire s sp body]
      | None => f_sent (fe_op s name a data fds regions q) = []
      end
  | None => True
  end.
Proof. exact frontend_transmits_spec. Qed.
Print Assumptions C01_frontend_requests_are_the_specified_encoding.
(* ... and the list of operations is every operation the specification describes *)
Theorem C01_frontend_operations_complete : forall maxq l name a data fds regions,
  spec_op maxq l name a data fds regions <> None -> existsb (String.eqb name) fe_op_names = true.
Proof. exact fe_op_names_complete. Qed.
Print Assumptions C01_frontend_operations_complete.

(* the two proxies: each operation sends its own request code with the caller's message, payload and descriptor
   (regenerated forwarding table against the specification table) *)
From VV Require Import Gen.GenArms Spec.FwdSpec Proofs.FwdProofs.
Theorem C01_proxy_requests : fwd_ops_ok = true.
Proof. exact fwd_ops_ok_true. Qed.
Print Assumptions C01_proxy_requests.

(* ---- the status values of the device-state replies, REGENERATED from backend_req_handler.rs (Gen/GenBeStat.v) and used by
   the request-server model: in the answer to SET_DEVICE_STATE_FD bit 8 says exactly whether a descriptor is missing, bits
   0..7 are zero exactly on success; the answer to CHECK_DEVICE_STATE is zero exactly on success ---- *)
From VV Require Import Gen.GenBeStat Proofs.BeProofs.
Theorem C01_device_state_reply_values_regenerated :
  (forall o, N.testbit (ds_reply_value o) 8 = negb (ds_reply_has_fd o)
             /\ (N.land (ds_reply_value o) 255 =? 0) = ((o =? 0) || (o =? 2))
             /\ ds_reply_has_fd o = (o =? 2))
  /\ (forall ok, (cds_reply_value ok =? 0) = ok).
Proof. split; [exact ds_reply_spec|exact cds_reply_spec]. Qed.
Print Assumptions C01_device_state_reply_values_regenerated.
