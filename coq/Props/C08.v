(* Property C08: message framing is independent of stream segmentation;
   truncation is an error.  Statements only. *)
From VV Require Import Base.Bits Base.Rt Base.Val Gen.GenConsts Gen.GenLayout Gen.GenFns
  Model.Transport Model.BeServer Proofs.TransportProofs Proofs.FramingProofs.
Open Scope N_scope.

(* the offset computation used by both loops: for any iovec lengths and any amount already
   transferred, the result points at the byte where the transfer continues *)
Theorem C08_sub_iovs_offset : forall lens skip nr,
  (skip < fold_right Nat.add 0 lens)%nat ->
  let '(i, off) := sub_iovs_offset lens skip nr in
  exists j, i = (nr + j)%nat /\ (fold_right Nat.add 0 (firstn j lens) + off = skip)%nat
            /\ (off < nth j lens 0)%nat.
Proof. exact sub_iovs_offset_spec. Qed.
Print Assumptions C08_sub_iovs_offset.

(* the receive loop returns exactly the first [need] bytes of the stream, whatever the piece
   boundaries, and leaves the rest of the bytes in the stream *)
Theorem C08_rx_all_indep : forall ps fuel need acc rfds cl rest,
  plain ps -> (acc = [] -> rfds = None) ->
  (List.length acc <= need)%nat ->
  (need <= List.length acc + List.length (bytes_of ps))%nat ->
  (List.length ps + 2 <= fuel)%nat ->
  exists ps',
    recv_all fuel need acc rfds cl (ps ++ rest) = RxAll (firstn need (acc ++ bytes_of ps)) rfds cl (ps' ++ rest)
    /\ plain ps' /\ bytes_of ps' = skipn need (acc ++ bytes_of ps).
Proof. exact recv_all_plain. Qed.
Print Assumptions C08_rx_all_indep.

(* a well-formed request is dispatched identically under every cut of its bytes (header and body
   in separate writes, byte by byte, any split points): same state, calls, replies, stream rest *)
Theorem C08_request_indep : forall cfg s o b0 fds ps rest,
  b0 <> [] -> (List.length fds <= max_fds)%nat -> plain ps ->
  let bytes := b0 ++ bytes_of ps in
  let h := VhostUserMsgHeader_read (firstn 12 bytes) 0 in
  (12 <= List.length bytes)%nat ->
  VhostUserMsgHeader_is_valid R h = true ->
  check_attached (VhostUserMsgHeader_request h) (fds_opt fds) = true ->
  List.length bytes = (12 + N.to_nat (VhostUserMsgHeader_get_size R h))%nat ->
  handle_request cfg s o ({| seg_bytes := b0; seg_fds := fds |} :: ps ++ rest)
  = handle_request cfg s o ({| seg_bytes := bytes; seg_fds := fds |} :: rest).
Proof. exact handle_request_indep. Qed.
Print Assumptions C08_request_indep.

(* truncation: clean "disconnected" only at a message boundary ... *)
Theorem C08_truncated_at_boundary : forall cfg s o,
  handle_request cfg s o [] = (s, fail EDisconnected [], []).
Proof. exact truncated_at_boundary. Qed.
Print Assumptions C08_truncated_at_boundary.

(* ... PartialMessage when the stream ends inside the header ... *)
Theorem C08_truncated_in_header : forall cfg s o ps,
  plain ps -> (0 < List.length (bytes_of ps) < 12)%nat ->
  let r := handle_request cfg s o ps in
  o_result (snd (fst r)) = RErr EPartialMessage /\ o_calls (snd (fst r)) = [] /\ o_sent (snd (fst r)) = []
  /\ fst (fst r) = s.
Proof. exact truncated_in_header. Qed.
Print Assumptions C08_truncated_in_header.

(* ... and an error, with the partial request not dispatched, when it ends inside the body.
   None of these is a blocked state: the model's end-of-stream is the kernel's 0-byte read *)
Theorem C08_truncated_in_body : forall cfg s o b0 fds ps,
  b0 <> [] -> (List.length fds <= max_fds)%nat -> plain ps ->
  let bytes := b0 ++ bytes_of ps in
  let h := VhostUserMsgHeader_read (firstn 12 bytes) 0 in
  (12 <= List.length bytes)%nat ->
  VhostUserMsgHeader_is_valid R h = true ->
  check_attached (VhostUserMsgHeader_request h) (fds_opt fds) = true ->
  (List.length bytes < 12 + N.to_nat (VhostUserMsgHeader_get_size R h))%nat ->
  let r := handle_request cfg s o ({| seg_bytes := b0; seg_fds := fds |} :: ps) in
  o_result (snd (fst r)) = RErr EInvalidMessage /\ o_calls (snd (fst r)) = [] /\ o_sent (snd (fst r)) = []
  /\ fst (fst r) = s.
Proof. exact truncated_in_body. Qed.
Print Assumptions C08_truncated_in_body.

(* sender: under any partial-write behaviour of the socket the bytes put on the wire are a
   prefix of the message, each byte once and in order, the return value is their number, and
   the descriptors are passed with the first accepted write only *)
Theorem C08_tx_once_in_order : forall oracle data fds,
  exists n,
    tx_bytes (snd (send_all data fds oracle 0 [])) = firstn n data
    /\ (n <= List.length data)%nat
    /\ (forall m, fst (send_all data fds oracle 0 []) = TxOk m -> m = n)
    /\ fds_first_only fds (snd (send_all data fds oracle 0 [])).
Proof. exact send_all_from_start. Qed.
Print Assumptions C08_tx_once_in_order.

(* non-vacuity: SET_FEATURES cut after one body byte is a well-formed cut request *)
Example C08_ex :
  let b0 := le_encode 4 2 ++ le_encode 4 1 ++ le_encode 4 8 ++ [7] in
  let ps := [ {| seg_bytes := [0;0;0;0;0;0;0]; seg_fds := [] |} ] in
  plain ps /\ VhostUserMsgHeader_is_valid R (VhostUserMsgHeader_read (firstn 12 (b0 ++ bytes_of ps)) 0) = true
  /\ o_calls (snd (fst (handle_request {| cfg_features := 0; cfg_pfeatures := 0 |} be_init 0
                         ({| seg_bytes := b0; seg_fds := [] |} :: ps)))) = [VL [VS "set_features"; VN 7]].
Proof.
  cbv zeta. split; [repeat constructor; discriminate|]. split; vm_compute; reflexivity.
Qed.

(* ---- receiving side of the frontend: the short-read decisions REGENERATED from connection.rs / frontend.rs
   (Gen/GenFeRecv.v) and called by the frontend model: fewer bytes than the message has is an error, a clean
   'disconnected' only when no byte of a header arrived ---- *)
From VV Require Import Gen.GenFeRecv Proofs.FeRecvProofs.
Theorem C08_short_read_is_an_error_regenerated :
  (forall b t hv bv, frb_d1 b t hv bv = false <-> b = t)
  /\ (forall b s, frp_d3 b s = false <-> b = s)
  /\ (forall b hsz hv, (frh_d1 b hsz hv = true <-> b = 0) /\ (frh_d2 b hsz hv = false <-> b = hsz) /\ (frh_d3 b hsz hv = false <-> hv = true)).
Proof. split; [intros b t hv bv; exact (proj1 (frb_spec b t hv bv))|split; [exact frp_d3_spec|exact frh_spec]]. Qed.
Print Assumptions C08_short_read_is_an_error_regenerated.
