(* Property C05: no frontend input can crash the backend or reach the handler
   unvalidated.  Statements only. *)
From VV Require Import Base.Bits Base.Rt Base.Val Gen.GenArms Spec.BeSpec Model.Transport Model.BeServer
  Model.Daemon Proofs.C05Proofs Proofs.MemProofs.
Open Scope N_scope.

(* for EVERY header, descriptor set and body (a list of bytes of the length the header declares): whatever the
   request server model hands to the handler satisfies the validity rules of the property - regions of non-zero
   size that do not wrap, 1..=32 regions with one file each, ring addresses aligned 16/2/4 with defined flags,
   config window inside [0,0x1000) with payload length = declared size, enable in {0,1}, exactly the prescribed
   number of files, ... (Spec.BeSpec.valid_call_b is the independent predicate, also applied to the real server's
   recorded calls by family "be") *)
Theorem C05_handler_arguments_valid : forall cfg s o h files size buf,
  bytes_ok buf = true -> List.length buf = N.to_nat size ->
  forall c, In c (o_calls (snd (dispatch cfg s o h files size buf))) -> valid_call_b c = true.
Proof. exact dispatch_calls_valid. Qed.
Print Assumptions C05_handler_arguments_valid.

(* in the arm table REGENERATED from backend_req_handler.rs, the validation the protocol prescribes for a
   request's body / descriptors occurs before the handler call, for every request that has one *)
Theorem C05_validation_precedes_handler : be_validation_ok = true.
Proof. exact be_validation_ok_true. Qed.
Print Assumptions C05_validation_precedes_handler.

(* daemon side: the address arithmetic of the translation cannot leave 64 bits for mappings built from validated
   regions (the frontend's user address may sit at the very top of the address space) *)
Theorem C05_translation_no_overflow : forall maps va g,
  Forall (fun mp => m_vmm mp + m_size mp < 2 ^ 64 /\ m_gpa mp + m_size mp < 2 ^ 64) maps ->
  va_to_gpa maps va = Some g -> g < 2 ^ 64.
Proof.
  intros maps va g Hall H. apply va_to_gpa_sound in H. destruct H as [mp [Hin [Hr ->]]].
  rewrite Forall_forall in Hall. specialize (Hall mp Hin). lia.
Qed.
Print Assumptions C05_translation_no_overflow.

Theorem C05_validated_region_gives_bounded_mapping : forall a,
  region_arg_valid a = true ->
  m_vmm (mk_mapping a) + m_size (mk_mapping a) < 2 ^ 64 /\ m_gpa (mk_mapping a) + m_size (mk_mapping a) < 2 ^ 64.
Proof.
  intros a H. unfold region_arg_valid in H. cbn [mk_mapping m_vmm m_size m_gpa]. lia.
Qed.
Print Assumptions C05_validated_region_gives_bounded_mapping.

Example C05_example :
  valid_call_b (VL [VS "set_vring_addr"; VN 0; VN 1; VN 4096; VN 8192; VN 12290; VN 0]) = true
  /\ valid_call_b (VL [VS "set_vring_addr"; VN 0; VN 1; VN 4097; VN 8192; VN 12290; VN 0]) = false
  /\ valid_call_b (VL [VS "set_vring_enable"; VN 0; VN 2]) = false.
Proof. vm_compute. repeat split. Qed.

(* the vring-descriptor request over the expressions REGENERATED from handle_vring_fd_request (Gen.GenVrfd), which the
   request-server model calls: it is served exactly when the flag is clear and a single descriptor came with it, or the
   flag is set and no descriptor came at all; the flag is bit 8 of the payload; the handler's ring index is below 256 *)
From VV Require Import Gen.GenVrfd.
Theorem C05_vring_fd_rule_regenerated : forall has_fd some nofiles,
  vrf_reject has_fd some nofiles = false <-> (has_fd = true /\ some = true) \/ (has_fd = false /\ nofiles = true).
Proof. exact vrf_reject_spec. Qed.
Print Assumptions C05_vring_fd_rule_regenerated.
Theorem C05_vring_fd_flag_regenerated : forall v, vrf_has_fd v = negb (N.testbit v 8).
Proof. exact vrf_has_fd_bit. Qed.
Print Assumptions C05_vring_fd_flag_regenerated.
Theorem C05_vring_fd_index_regenerated : forall v, vrf_index v < 256.
Proof. exact vrf_index_small. Qed.
Print Assumptions C05_vring_fd_index_regenerated.
