(* Property C18: backend-initiated requests reach the frontend handler
   faithfully, with status.  Statements only (models: Model.Proxy; the
   end-to-end clause is decided by family psess against Spec.ProxySpec). *)
From VV Require Import Base.Bits Base.Rt Base.Val Gen.GenConsts Gen.GenLayout Gen.GenFns Model.Transport Model.Proxy Proofs.ProxyProofs.
Open Scope N_scope.

(* the acknowledgement on the wire: the handler's value, resp. the negated errno *)
Theorem C18_ack_value_ok : forall n, hres_ack (HOk n) = n.
Proof. exact ack_value_ok. Qed.
Print Assumptions C18_ack_value_ok.
Theorem C18_ack_value_errno : forall e, 0 < e < 2 ^ 64 -> hres_ack (HErrno e) + e = 2 ^ 64.
Proof. exact ack_value_errno. Qed.
Print Assumptions C18_ack_value_errno.
Theorem C18_ack_value_other : hres_ack HErrOther + 22 = 2 ^ 64.
Proof. exact ack_value_other. Qed.
Print Assumptions C18_ack_value_other.

(* exactly-once: at most one handler invocation and one acknowledgement per request, any input *)
Theorem C18_at_most_one : forall ra hr q,
  (List.length (fo_calls (fst (fsrv_handle ra hr q))) <= 1)%nat
  /\ (List.length (fo_sent (fst (fsrv_handle ra hr q))) <= 1)%nat.
Proof. exact fsrv_at_most_one. Qed.
Print Assumptions C18_at_most_one.

(* without REPLY_ACK no acknowledgement is written ... *)
Theorem C18_no_ack_written : forall hr q, fo_sent (fst (fsrv_handle false hr q)) = [].
Proof. exact fsrv_silent_without_reply_ack. Qed.
Print Assumptions C18_no_ack_written.
(* ... or awaited *)
Theorem C18_no_ack_awaited : forall s req q, px_reply_ack s = false -> px_wait s req q = VL [VS "ok"%string; VN 0].
Proof. exact px_wait_no_ack. Qed.
Print Assumptions C18_no_ack_awaited.

(* with REPLY_ACK the proxy call succeeds only on a zero status in a genuine acknowledgement *)
Theorem C18_proxy_success_means_zero : forall s req q,
  px_reply_ack s = true -> px_wait s req q = VL [VS "ok"%string; VN 0] ->
  exists bytes cl q',
    recv_all (fuel_for q 20) 20 [] None [] q = RxAll bytes None cl q'
    /\ List.length bytes = 20%nat
    /\ let h := VhostUserMsgHeader_read bytes 0 in
       VhostUserMsgHeader_is_valid RB h = true
       /\ VhostUserMsgHeader_is_reply_for RB h req = true
       /\ VhostUserU64_value (VhostUserU64_read bytes 12) = 0.
Proof. exact px_wait_sound. Qed.
Print Assumptions C18_proxy_success_means_zero.

(* shared-object and shared-memory requests are refused, silently, until enabled (C07's proxy clause) *)
Theorem C18_shared_refused_silent : forall s name a uuid fds q,
  (name = "shared_object_add"%string \/ name = "shared_object_remove"%string \/ name = "shared_object_lookup"%string) ->
  px_shared s = false -> po_sent (px_op s name a uuid fds q) = [].
Proof. exact px_refused_silent. Qed.
Print Assumptions C18_shared_refused_silent.
Theorem C18_shmem_refused_silent : forall s name a uuid fds q,
  (name = "shmem_map"%string \/ name = "shmem_unmap"%string) ->
  px_shmem s = false -> po_sent (px_op s name a uuid fds q) = [].
Proof. exact px_refused_silent_shmem. Qed.
Print Assumptions C18_shmem_refused_silent.

(* every forwarding operation of the Backend proxy (and of the GPU proxy), as regenerated from backend_req.rs and
   gpu_backend_req.rs on this run: its own request code, the caller's message object passed through untouched, exactly
   the caller's descriptor, behind the negotiated-feature gate, and nothing else computed on the way *)
From VV Require Import Gen.GenArms Spec.FwdSpec Proofs.FwdProofs.
Theorem C18_proxy_forwards_callers_message : fwd_ops_ok = true.
Proof. exact fwd_ops_ok_true. Qed.
Print Assumptions C18_proxy_forwards_callers_message.

(* the frontend-side server's size check and acknowledgement REGENERATED from check_msg_size / send_ack_message
   (Gen.GenFsAck), which the model calls: a request is taken exactly when header size, version 1, not-a-reply and the
   received size all agree; an acknowledgement is written exactly when REPLY_ACK is in force and the request asks for it;
   its value is the handler's number, the negated OS error code, or -EINVAL for an error without one *)
From VV Require Import Gen.GenFsAck.
Theorem C18_size_check_regenerated : forall hs ir v sz ex,
  fs_size_bad hs ir v sz ex = false <-> (hs = ex /\ ir = false /\ v = 1 /\ sz = ex).
Proof. exact fs_size_bad_spec. Qed.
Print Assumptions C18_size_check_regenerated.
Theorem C18_ack_written_regenerated : forall ra nr, fsack_written ra nr = ra && nr.
Proof. exact fsack_written_spec. Qed.
Print Assumptions C18_ack_written_regenerated.
Theorem C18_ack_values_regenerated : forall n e,
  fsack_value_ok n = n /\ fsack_value_errno e = neg64 e /\ fsack_value_noerrno = neg64 22 /\ fsack_value_other = neg64 22.
Proof. exact fsack_values. Qed.
Print Assumptions C18_ack_values_regenerated.
Theorem C18_ack_code_shape : fsack_shape_ok = true.
Proof. exact fsack_shape_ok_true. Qed.
Print Assumptions C18_ack_code_shape.
