(* Property C12: no lost or post-stop kick dispatch under any thread interleaving.
   Statements only.  The transition system (Model.Race): one ring's worker
   (epoll_wait -> read_kick -> dispatch), the control thread's micro-operations
   (state change, epoll add/delete, descriptor drop, reply) for the scenarios
   disable/enable, stop/restart, reset/enable and combinations, and 0..2 guest
   kicks raised at arbitrary moments.  All interleavings are covered: the theorems
   quantify over every reachable state (set computed and checked closed in Coq).
   The real daemon is forced through the same interleavings by family "race". *)
From VV Require Import Base.Bits Base.Val Base.Explore Model.Race Proofs.RaceBase Proofs.RaceProofs.
Open Scope N_scope.

(* no kick is stranded: whenever nothing can move any more and the ring is started and enabled, no kick is pending -
   together with the shape of the worker (the counter is reset only on the step that leads to the dispatch), no wake-up
   is consumed without being processed *)
Theorem C12_no_lost_kick : forall s0 s, In s0 rinits -> rreach s0 s -> not_stranded_b s = true.
Proof. exact (race_lift not_stranded_b not_stranded_all). Qed.
Print Assumptions C12_no_lost_kick.

Theorem C12_consumed_only_for_dispatch : forall s s',
  In s' (worker_step s) -> pending s' <> pending s -> w s' = 2 /\ enabled s = true.
Proof.
  intros s s' Hin Hne. unfold worker_step in Hin.
  destruct (w s =? 0) eqn:E0.
  - destruct (registered s && (0 <? pending s)); [|destruct Hin]. destruct Hin as [<-|[]]. cbn in Hne. congruence.
  - destruct (w s =? 1) eqn:E1.
    + destruct (enabled s) eqn:Een; destruct Hin as [<-|[]]; cbn in *; [split; reflexivity|congruence].
    + destruct Hin as [<-|[]]. cbn in Hne. congruence.
Qed.
Print Assumptions C12_consumed_only_for_dispatch.

(* between control messages the epoll registration is exactly "started, enabled and holding a kick descriptor" *)
Theorem C12_registration_tracks_state : forall s0 s, In s0 rinits -> rreach s0 s -> registered_when_active_b s = true.
Proof. exact (race_lift registered_when_active_b registered_when_active_all). Qed.
Print Assumptions C12_registration_tracks_state.

(* first clause, partial: a dispatch after the reply to a disabling / stopping message happens only as the completion of
   an event the worker had already taken out of epoll_wait when that reply was written ... *)
Theorem C12_no_new_dispatch_after_reply_partial : forall s0 s, In s0 rinits -> rreach s0 s -> late_only_inflight_b s = true.
Proof. exact (race_lift late_only_inflight_b late_only_inflight_all). Qed.
Print Assumptions C12_no_new_dispatch_after_reply_partial.

(* ... and the full statement is FALSE of the faithful model: a reachable state in which the backend's handler was
   entered after the disabling reply (known finding F18; replayed on the real daemon by family "race" with the worker
   parked at worker:after_read while SET_VRING_ENABLE 0 is processed) *)
Theorem C12_no_dispatch_after_reply_refuted : late_witness_b = true.
Proof. exact late_witness. Qed.
Print Assumptions C12_no_dispatch_after_reply_refuted.
