(* Property C12: no lost or post-stop kick dispatch under any thread interleaving.
   Statements only.  The transition system (Model.Race): one ring's worker
   (epoll_wait -> read_kick -> dispatch), the control thread's micro-operations
   (state change, epoll add/delete, descriptor drop, reply) for the scenarios
   disable/enable, stop/restart, reset/enable and combinations, and 0..2 guest
   kicks raised at arbitrary moments.  All interleavings are covered: the theorems
   quantify over every reachable state (set computed and checked closed in Coq).
   The real daemon is forced through the same interleavings by family "race". *)
From VV Require Import Base.Bits Base.Val Base.Explore Model.Race Proofs.RaceBase Proofs.RaceProofs
     Gen.GenCtl Model.CtlOps Proofs.CtlRaceProofs.
Open Scope N_scope.

(* no kick is stranded: whenever nothing can move any more and the ring is started and enabled, no kick is pending -
   together with the shape of the worker (the counter is reset only on the step that leads to the dispatch), no wake-up
   is consumed without being processed *)
Theorem C12_no_lost_kick : forall s0 s, In s0 rinits -> rreach s0 s -> not_stranded_b s = true.
Proof. exact (race_lift not_stranded_b not_stranded_all). Qed.
Print Assumptions C12_no_lost_kick.

Theorem C12_consumed_only_for_dispatch : forall s s',
  In s' (worker_step s) -> pending s' <> pending s -> w s' = 2 /\ enabled s = true.
Proof.
  intros s s' Hin Hne. unfold worker_step in Hin.
  destruct (w s =? 0) eqn:E0.
  - destruct (registered s && (0 <? pending s)); [|destruct Hin]. destruct Hin as [<-|[]]. cbn in Hne. congruence.
  - destruct (w s =? 1) eqn:E1.
    + destruct (enabled s) eqn:Een; destruct Hin as [<-|[]]; cbn in *; [split; reflexivity|congruence].
    + destruct Hin as [<-|[]]. cbn in Hne. congruence.
Qed.
Print Assumptions C12_consumed_only_for_dispatch.

(* between control messages the epoll registration is exactly "started, enabled and holding a kick descriptor" *)
Theorem C12_registration_tracks_state : forall s0 s, In s0 rinits -> rreach s0 s -> registered_when_active_b s = true.
Proof. exact (race_lift registered_when_active_b registered_when_active_all). Qed.
Print Assumptions C12_registration_tracks_state.

(* first clause, partial: a dispatch after the reply to a disabling / stopping message happens only as the completion of
   an event the worker had already taken out of epoll_wait when that reply was written ... *)
Theorem C12_no_new_dispatch_after_reply_partial : forall s0 s, In s0 rinits -> rreach s0 s -> late_only_inflight_b s = true.
Proof. exact (race_lift late_only_inflight_b late_only_inflight_all). Qed.
Print Assumptions C12_no_new_dispatch_after_reply_partial.

(* ... and the full statement is FALSE of the faithful model: a reachable state in which the backend's handler was
   entered after the disabling reply (known finding F18; replayed on the real daemon by family "race" with the worker
   parked at worker:after_read while SET_VRING_ENABLE 0 is processed) *)
Theorem C12_no_dispatch_after_reply_refuted : late_witness_b = true.
Proof. exact late_witness. Qed.
Print Assumptions C12_no_dispatch_after_reply_refuted.

(* ---- the control programs the race system runs are the REGENERATED handlers of handler.rs (Gen/GenCtl.v), seen through
   the facts the race model keeps about a ring (started, enabled, kick registered, kick present): in every reachable
   state, the ring after the handler's state change equals the ring after the program's first micro-operation (where the
   hold point ctl:after_state sits), and the ring after the whole handler equals the ring after the program's
   micro-operations before the reply.  A handler that updated epoll before changing the state, dropped the kick
   descriptor before unregistering it, or skipped the registration update would break these equations. ---- *)
Theorem C12_programs : 
  codes_of prog_disable = [M_DIS_STATE; M_UNREG; M_REPLY_DIS] /\ codes_of prog_enable = [M_EN_STATE; M_REG_IF; M_REPLY]
  /\ codes_of prog_stop = [M_STOP_STATE; M_UNREG; M_DROP_KICK; M_REPLY_STOP]
  /\ codes_of prog_restart = [M_START_STATE; M_REG_IF; M_REPLY] /\ codes_of prog_reset = [M_DIS_STATE; M_UNREG; M_REPLY_DIS].
Proof. exact race_programs. Qed.
Print Assumptions C12_programs.

Theorem C12_disable_program_is_source : forall s0 s, In s0 rinits -> rreach s0 s ->
  view_of (micros s [M_DIS_STATE]) = vrun false (through_state ctl_set_vring_enable) (view_of s)
  /\ view_of (micros s [M_DIS_STATE; M_UNREG]) = vrun false ctl_set_vring_enable (view_of s).
Proof. intros s0 s H0 Hr. exact (race_disable_is_source s (vinv_reachable s0 s H0 Hr)). Qed.
Print Assumptions C12_disable_program_is_source.

Theorem C12_enable_program_is_source : forall s0 s, In s0 rinits -> rreach s0 s ->
  view_of (micros s [M_EN_STATE]) = vrun true (through_state ctl_set_vring_enable) (view_of s)
  /\ view_of (micros s [M_EN_STATE; M_REG_IF]) = vrun true ctl_set_vring_enable (view_of s).
Proof. intros s0 s H0 Hr. exact (race_enable_is_source s (vinv_reachable s0 s H0 Hr)). Qed.
Print Assumptions C12_enable_program_is_source.

Theorem C12_stop_program_is_source : forall s0 s, In s0 rinits -> rreach s0 s ->
  view_of (micros s [M_STOP_STATE]) = vrun false (through_state ctl_get_vring_base) (view_of s)
  /\ view_of (micros s [M_STOP_STATE; M_UNREG; M_DROP_KICK]) = vrun false ctl_get_vring_base (view_of s).
Proof. intros s0 s H0 Hr. exact (race_stop_is_source s (vinv_reachable s0 s H0 Hr)). Qed.
Print Assumptions C12_stop_program_is_source.

Theorem C12_restart_program_is_source : forall s0 s, In s0 rinits -> rreach s0 s ->
  view_of (micros s [M_START_STATE; M_REG_IF]) = vrun false ctl_set_vring_kick (view_of s).
Proof. intros s0 s H0 Hr. exact (race_restart_is_source s (vinv_reachable s0 s H0 Hr)). Qed.
Print Assumptions C12_restart_program_is_source.

Theorem C12_reset_program_is_source : forall s0 s, In s0 rinits -> rreach s0 s ->
  view_of (micros s [M_DIS_STATE; M_UNREG]) = vrun false ctl_reset_device (view_of s).
Proof. intros s0 s H0 Hr. exact (race_reset_is_source s (vinv_reachable s0 s H0 Hr)). Qed.
Print Assumptions C12_reset_program_is_source.

(* ---- the worker's decisions on a kick are REGENERATED from vring.rs / event_loop.rs (Gen/GenWk.v) and called by the
   race system explored above: a ring that is not enabled leaves the kick pending and is not dispatched; every other
   woken ring has its kick consumed and is dispatched ---- *)
From VV Require Import Gen.GenWk Proofs.WkProofs.
From Coq Require Import String.
Theorem C12_worker_decisions_regenerated :
  (forall e, wk_rk_d1 e = negb e)
  /\ (forall x dev nq nr e, wk_he_d1 x dev nq nr e = x && (dev =? nq) /\ wk_he_d2 x dev nq nr e = (dev <? nr) /\ wk_he_d3 x dev nq nr e = negb e).
Proof. split; [exact wk_rk_d1_spec|exact wk_he_spec]. Qed.
Print Assumptions C12_worker_decisions_regenerated.

Theorem C12_worker_statements_regenerated : [wk_rk_shape; wk_setters_shape; wk_he_shape] = wk_shapes_expected.
Proof. exact wk_shapes_ok. Qed.
Print Assumptions C12_worker_statements_regenerated.
