(* Property C04: the backend request server emits exactly the replies the
   protocol prescribes; peers stay in step.  Statements only.
   Model: Model.BeServer (hand model of handle_request, tied to the code by the
   correspondence family "be"); tables: Gen.GenArms (regenerated from source). *)
From VV Require Import Base.Bits Base.Rt Base.Val Gen.GenConsts Gen.GenLayout Gen.GenFns Gen.GenArms
  Spec.BeSpec Model.Transport Model.BeServer Proofs.BeProofs Proofs.TableProofs.
Open Scope N_scope.

(* whether an acknowledgement is due is a function of the negotiation so far, after ANY history *)
Theorem C04_flag_invariant : forall cfg outs s q,
  flag_inv s -> flag_inv (fst (run_requests cfg s outs q)).
Proof. exact run_requests_flag_inv. Qed.
Print Assumptions C04_flag_invariant.

Theorem C04_flag_invariant_init : flag_inv be_init.
Proof. exact flag_inv_init. Qed.
Print Assumptions C04_flag_invariant_init.

(* at most one message per request, and it is a reply to that very request: same code,
   flags = version 1 + REPLY (NEED_REPLY clear), size = length of the payload that follows *)
Theorem C04_one_reply_per_request : forall cfg s o h files size buf,
  sent_ok h (snd (dispatch cfg s o h files size buf)).
Proof. exact dispatch_sent_ok. Qed.
Print Assumptions C04_one_reply_per_request.

(* the acknowledgement: written iff REPLY_ACK is in force and the request carries NEED_REPLY;
   its value is 0 iff the handler succeeded *)
Theorem C04_ack_rule : forall s h res c d dr,
  VhostUserMsgHeader_is_valid R h = true ->
  (o_sent (ack s h res c d dr) <> [] <-> be_reply_ack s && VhostUserMsgHeader_is_need_reply R h = true)
  /\ (forall t, In t (o_sent (ack s h res c d dr)) ->
        exists rh, fst t = VhostUserMsgHeader_write rh ++ u64_body (match res with ROk _ => 0 | RErr _ => 1 end)).
Proof. exact ack_rule. Qed.
Print Assumptions C04_ack_rule.

(* per request code, the arm regenerated from the source replies (resp. acknowledges) exactly
   when the specification defines a reply (resp. none), calls the handler of that request once,
   and checks its gate first *)
Theorem C04_reply_kind_table : be_tables_ok = true.
Proof. exact be_tables_ok_true. Qed.
Print Assumptions C04_reply_kind_table.

(* in every arm the reply-ack flag is recomputed after a negotiation field is assigned and before
   the acknowledgement is written *)
Theorem C04_flag_discipline : be_flag_discipline_ok = true.
Proof. exact be_flag_discipline_true. Qed.
Print Assumptions C04_flag_discipline.

(* non-vacuity: a state where acknowledgements are on, reached from the initial state *)
Example C04_ex_reachable :
  exists s, flag_inv s /\ be_reply_ack s = true.
Proof.
  exists (update_reply_ack (set_apf (set_vf be_init VhostUserVirtioFeatures_PROTOCOL_FEATURES) VhostUserProtocolFeatures_REPLY_ACK)).
  split; reflexivity.
Qed.

(* the acknowledgement rule REGENERATED from update_reply_ack_flag / send_ack_message on this run (Gen.GenBeAck), which the
   request-server model calls: acknowledgements are in force exactly when the device offers PROTOCOL_FEATURES and REPLY_ACK
   was acknowledged; one is written exactly when they are in force and the request asks for it; its value is 0 exactly
   for a successful handler; it is a u64 reply without descriptors and the handler's own result is what is returned *)
From VV Require Import Gen.GenBeAck.
Theorem C04_flag_rule_regenerated : forall vf apf,
  ra_enabled vf apf = has vf VhostUserVirtioFeatures_PROTOCOL_FEATURES && has apf VhostUserProtocolFeatures_REPLY_ACK.
Proof. exact ra_enabled_spec. Qed.
Print Assumptions C04_flag_rule_regenerated.
Theorem C04_ack_written_regenerated : forall ra nr, ack_written ra nr = ra && nr.
Proof. exact ack_written_spec. Qed.
Print Assumptions C04_ack_written_regenerated.
Theorem C04_ack_value_regenerated : forall ok, (ack_value ok =? 0) = ok.
Proof. exact ack_value_spec. Qed.
Print Assumptions C04_ack_value_regenerated.
Theorem C04_ack_code_shape : ack_shape_ok = true.
Proof. exact ack_shape_ok_true. Qed.
Print Assumptions C04_ack_code_shape.
