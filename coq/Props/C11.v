(* Property C11: vring state follows the protocol; kicks are dispatched iff
   started and enabled.  Statements only (model-level parts; the life-cycle
   over whole histories is decided by family dmn against Spec.DaemonSpec). *)
From VV Require Import Base.Bits Base.Rt Base.Val Model.Daemon Spec.DaemonSpec Proofs.DaemonProofs Proofs.RingInvProofs
     Gen.GenCtl Model.CtlOps Model.CtlRun Proofs.CtlProofs.
Open Scope N_scope.

(* after the registration update, the ring's CURRENT kick descriptor is in its owner's epoll set
   exactly when the ring is ready (started) and enabled - for every state, ring and mask set *)
Theorem C11_registration_follows_state : forall s r q k t idx,
  r_kick r = Some k -> owner_of (d_masks s) q 0 = Some (t, idx) ->
  registered (update_reg s r q) t k = r_ready r && r_enabled r.
Proof. exact update_reg_post. Qed.
Print Assumptions C11_registration_follows_state.

(* GET_VRING_BASE stops the ring, returns next-avail unchanged and drops the kick and call descriptors *)
Theorem C11_get_vring_base : forall s q r,
  get_ring s q = Some r ->
  exists s', h_get_vring_base s q = (s', DOk [r_next_avail r])
             /\ (forall r', get_ring s' q = Some r' -> r_ready r' = false /\ r_kick r' = None /\ r_call r' = None
                                                       /\ r_next_avail r' = r_next_avail r /\ r_enabled r' = r_enabled r).
Proof. exact get_vring_base_post. Qed.
Print Assumptions C11_get_vring_base.

(* the registration update never touches ring state *)
Theorem C11_update_keeps_rings : forall s r q, d_rings (update_reg s r q) = d_rings s.
Proof. exact update_reg_rings. Qed.
Print Assumptions C11_update_keeps_rings.

(* the registration invariant is INDUCTIVE: after ANY history of SET_VRING_KICK / SET_VRING_CALL / GET_VRING_BASE /
   SET_VRING_ENABLE / SET_FEATURES / RESET_DEVICE, on any number of rings and workers, every ring's current kick
   descriptor is in its owner's epoll set exactly when the ring is started and enabled (and the descriptors of different
   rings are distinct instances) *)
Theorem C11_registration_invariant_all_histories : forall nq maxq f pf masks ops,
  RInv (ring_run (dinit nq maxq f pf masks) ops).
Proof. intros. apply ring_run_inv. apply rinv_init. Qed.
Print Assumptions C11_registration_invariant_all_histories.

Theorem C11_invariant_means : forall s, RInv s ->
  forall q r t idx k, get_ring s q = Some r -> owner_of (d_masks s) q 0 = Some (t, idx) -> r_kick r = Some k ->
                      registered s t k = r_ready r && r_enabled r.
Proof. intros s [H _] q r t idx k. apply H. Qed.
Print Assumptions C11_invariant_means.

(* ---- the control handlers REGENERATED from handler.rs (Gen/GenCtl.v: the statements of each handler, in order, as
   operations over the ring primitives) compute exactly the model's handlers the theorems above are about - for every
   state, ring index and argument.  A reordered, dropped or added operation in the source breaks the equation. ---- *)
Theorem C11_set_vring_enable_regenerated : forall s q e f, run_handler ctl_set_vring_enable s q e f = h_set_vring_enable s q e.
Proof. exact ctl_set_vring_enable_eq. Qed.
Print Assumptions C11_set_vring_enable_regenerated.

Theorem C11_get_vring_base_regenerated : forall s q e f, run_handler ctl_get_vring_base s q e f = h_get_vring_base s q.
Proof. exact ctl_get_vring_base_eq. Qed.
Print Assumptions C11_get_vring_base_regenerated.

Theorem C11_set_vring_kick_regenerated : forall s q e file, run_handler ctl_set_vring_kick s q e (Some file) = h_set_vring_kick s q file.
Proof. exact ctl_set_vring_kick_eq. Qed.
Print Assumptions C11_set_vring_kick_regenerated.

Theorem C11_set_vring_kick_without_descriptor_regenerated : forall s q e, run_handler ctl_set_vring_kick s q e None = h_set_vring_kick_none s q.
Proof. exact ctl_set_vring_kick_none_eq. Qed.
Print Assumptions C11_set_vring_kick_without_descriptor_regenerated.

Theorem C11_set_vring_call_regenerated : forall s q e file, run_handler ctl_set_vring_call s q e (Some file) = h_set_vring_call s q file.
Proof. exact ctl_set_vring_call_eq. Qed.
Print Assumptions C11_set_vring_call_regenerated.

Theorem C11_set_vring_err_regenerated : forall s q e f,
  run_handler ctl_set_vring_err s q e f = match get_ring s q with Some _ => (s, DOk []) | None => (s, DErr) end.
Proof. exact ctl_set_vring_err_eq. Qed.
Print Assumptions C11_set_vring_err_regenerated.

Theorem C11_reset_device_regenerated : forall s q e f, run_handler ctl_reset_device s q e f = h_reset_device s.
Proof. exact ctl_reset_device_eq. Qed.
Print Assumptions C11_reset_device_regenerated.

(* the registration condition and the start condition, as the source states them *)
Theorem C11_registration_condition_regenerated : forall ready enabled, ctl_reg_wanted ready enabled = ready && enabled.
Proof. exact ctl_reg_wanted_spec. Qed.
Print Assumptions C11_registration_condition_regenerated.

Theorem C11_start_condition_regenerated : forall ready has_kick, ctl_needs_init ready has_kick = negb ready && has_kick.
Proof. exact ctl_needs_init_spec. Qed.
Print Assumptions C11_start_condition_regenerated.
