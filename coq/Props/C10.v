(* Property C10: concurrent callers get their own replies: request/response
   pairs are atomic.  Statements only. *)
From VV Require Import Base.Bits Base.Rt Base.Val Base.Explore Gen.GenArms Model.Conc Proofs.ConcProofs.
Open Scope N_scope.

(* in the method table REGENERATED from frontend.rs, backend_req.rs and gpu_backend_req.rs: every method of the three
   shareable endpoints takes the endpoint's lock exactly once, before any socket traffic, and never releases it before
   returning - request and reply of a call are one critical section *)
Theorem C10_one_guard_spans_request_and_reply : lock_ops_ok = true.
Proof. exact lock_ops_ok_true. Qed.
Print Assumptions C10_one_guard_spans_request_and_reply.

(* for calls of that shape, under EVERY interleaving of two or three callers (replying and non-replying operations in
   every mix): no request is written between another caller's request and the reading of its reply, and the wire is a
   sequence of whole transactions - each reply read directly follows the reader's own request *)
Theorem C10_transactions_atomic : forall s0 s, In s0 cinits -> creach s0 s -> atomic_b s = true.
Proof. exact (conc_lift atomic_b atomic_all). Qed.
Print Assumptions C10_transactions_atomic.

(* and all calls complete: the only states without a successor are those in which every caller is done and the lock
   is free (no self-deadlock) *)
Theorem C10_all_calls_complete : forall s0 s, In s0 cinits -> creach s0 s -> complete_b s = true.
Proof. exact (conc_lift complete_b complete_all). Qed.
Print Assumptions C10_all_calls_complete.
