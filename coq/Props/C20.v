(* Property C20: message validators accept exactly the protocol-valid
   encodings.  Statements only; proofs are in Proofs/C20Proofs.v.
   Each field ranges over its full width (hypotheses only bound a field by the
   width of its wire type); the validators are the definitions regenerated
   from /repo by rs2v (Gen.GenFns); the right-hand sides are Spec.Validity. *)
From VV Require Import Base.Bits Base.Rt Gen.GenConsts Gen.GenLayout Gen.GenFns Spec.Validity Proofs.C20Proofs.
Open Scope N_scope.

Theorem C20_header_frontend : forall h, hdr_wf h ->
  (VhostUserMsgHeader_is_valid FrontendReq_table h = true <->
   header_valid frontend_req_known (VhostUserMsgHeader_request h) (VhostUserMsgHeader_flags h) (VhostUserMsgHeader_size h)).
Proof. exact header_frontend_ok. Qed.
Print Assumptions C20_header_frontend.

Theorem C20_header_backend : forall h, hdr_wf h ->
  (VhostUserMsgHeader_is_valid BackendReq_table h = true <->
   header_valid backend_req_known (VhostUserMsgHeader_request h) (VhostUserMsgHeader_flags h) (VhostUserMsgHeader_size h)).
Proof. exact header_backend_ok. Qed.
Print Assumptions C20_header_backend.

Theorem C20_gpu_header : forall h, VhostUserGpuMsgHeader_flags h < 2 ^ 32 ->
  (VhostUserGpuMsgHeader_is_valid GpuBackendReq_table h = true <->
   gpu_header_valid (VhostUserGpuMsgHeader_request h) (VhostUserGpuMsgHeader_flags h)).
Proof. exact gpu_header_ok. Qed.
Print Assumptions C20_gpu_header.

Theorem C20_memory : forall m,
  VhostUserMemory_is_valid m = true <->
  memory_valid (VhostUserMemory_num_regions m) (VhostUserMemory_padding1 m).
Proof. exact memory_ok. Qed.
Print Assumptions C20_memory.

Theorem C20_region : forall r,
  VhostUserMemoryRegion_is_valid r = true <->
  region_valid (VhostUserMemoryRegion_guest_phys_addr r) (VhostUserMemoryRegion_memory_size r)
               (VhostUserMemoryRegion_user_addr r) (VhostUserMemoryRegion_mmap_offset r).
Proof. exact region_ok. Qed.
Print Assumptions C20_region.

Theorem C20_single_region : forall s,
  VhostUserSingleMemoryRegion_is_valid s = true <->
  let r := VhostUserSingleMemoryRegion_region s in
  region_valid (VhostUserMemoryRegion_guest_phys_addr r) (VhostUserMemoryRegion_memory_size r)
               (VhostUserMemoryRegion_user_addr r) (VhostUserMemoryRegion_mmap_offset r).
Proof. exact single_region_ok. Qed.
Print Assumptions C20_single_region.

Theorem C20_vring_addr : forall a, VhostUserVringAddr_flags a < 2 ^ 32 ->
  (VhostUserVringAddr_is_valid a = true <->
   vring_addr_valid (VhostUserVringAddr_flags a) (VhostUserVringAddr_descriptor a)
                    (VhostUserVringAddr_used a) (VhostUserVringAddr_available a)).
Proof. exact vring_addr_ok. Qed.
Print Assumptions C20_vring_addr.

Theorem C20_config : forall c, VhostUserConfig_flags c < 2 ^ 32 ->
  (VhostUserConfig_is_valid c = true <->
   config_valid (VhostUserConfig_offset c) (VhostUserConfig_size c) (VhostUserConfig_flags c)).
Proof. exact config_ok. Qed.
Print Assumptions C20_config.

Theorem C20_inflight : forall i,
  VhostUserInflight_is_valid i = true <->
  inflight_valid (VhostUserInflight_num_queues i) (VhostUserInflight_queue_size i).
Proof. exact inflight_ok. Qed.
Print Assumptions C20_inflight.

Theorem C20_log : forall l,
  VhostUserLog_is_valid l = true <-> log_valid (VhostUserLog_mmap_size l) (VhostUserLog_mmap_offset l).
Proof. exact log_ok. Qed.
Print Assumptions C20_log.

Theorem C20_transfer_state : forall t,
  VhostUserTransferDeviceState_is_valid t = true <->
  transfer_state_valid (VhostUserTransferDeviceState_direction t) (VhostUserTransferDeviceState_phase t).
Proof. exact transfer_ok. Qed.
Print Assumptions C20_transfer_state.

Theorem C20_shared : forall s, List.length (VhostUserSharedMsg_uuid s) = 16%nat ->
  (VhostUserSharedMsg_is_valid s = true <-> uuid_valid (VhostUserSharedMsg_uuid s)).
Proof. exact shared_ok. Qed.
Print Assumptions C20_shared.

Theorem C20_mmap : forall m, VhostUserMMap_flags m < 2 ^ 64 ->
  (VhostUserMMap_is_valid m = true <->
   mmap_valid (VhostUserMMap_fd_offset m) (VhostUserMMap_shm_offset m) (VhostUserMMap_len m) (VhostUserMMap_flags m)).
Proof. exact mmap_ok. Qed.
Print Assumptions C20_mmap.

Theorem C20_trivial :
  (forall x, VhostUserEmpty_is_valid x = true) /\
  (forall x, VhostUserU64_is_valid x = true) /\
  (forall x, VhostUserVringState_is_valid x = true) /\
  (forall x, VhostUserShMemConfig_is_valid x = true).
Proof. exact trivial_validators. Qed.
Print Assumptions C20_trivial.

(* non-vacuity: the width hypotheses are met by concrete accepted and rejected values *)
Example C20_ex_header :
  let h := {| VhostUserMsgHeader_request := 5; VhostUserMsgHeader_flags := 9; VhostUserMsgHeader_size := 4096 |} in
  hdr_wf h /\ VhostUserMsgHeader_is_valid FrontendReq_table h = true.
Proof. cbv zeta. unfold hdr_wf. cbn. repeat split; lia || reflexivity. Qed.
Example C20_ex_header_bad :
  let h := {| VhostUserMsgHeader_request := 45; VhostUserMsgHeader_flags := 1; VhostUserMsgHeader_size := 0 |} in
  hdr_wf h /\ VhostUserMsgHeader_is_valid FrontendReq_table h = false.
Proof. cbv zeta. unfold hdr_wf. cbn. repeat split; lia || reflexivity. Qed.
Example C20_ex_single_region_zero :
  VhostUserSingleMemoryRegion_is_valid
    {| VhostUserSingleMemoryRegion_padding := 0;
       VhostUserSingleMemoryRegion_region :=
         {| VhostUserMemoryRegion_guest_phys_addr := 0; VhostUserMemoryRegion_memory_size := 0;
            VhostUserMemoryRegion_user_addr := 18446744073709547520; VhostUserMemoryRegion_mmap_offset := 0 |} |} = false.
Proof. reflexivity. Qed.
