(* Property C02: frontend calls reach the backend handler with identical
   arguments and files.  Statements only.  (The end-to-end clause is decided
   by the correspondence families fe / be / sess against Spec.FeSpec and
   Spec.BeSpec; the theorems below are its model-level parts.) *)
From VV Require Import Base.Bits Base.Rt Base.Val Gen.GenConsts Gen.GenLayout Gen.GenFns Gen.GenArms
  Model.Transport Model.Frontend Model.BeServer Proofs.FeProofs Proofs.BeProofs Proofs.TableProofs.
Open Scope N_scope.

(* calls rejected locally put nothing on the wire and leave the endpoint's state unchanged *)
Theorem C02_reject_silent : forall s e, f_sent (local_err s e) = [] /\ f_state (local_err s e) = s.
Proof. exact local_err_silent. Qed.
Print Assumptions C02_reject_silent.

(* backend side: at most one handler invocation per request, of the handler the specification
   names for that request code (regenerated arm table, whole table) *)
Theorem C02_one_handler_per_request : be_tables_ok = true.
Proof. exact be_tables_ok_true. Qed.
Print Assumptions C02_one_handler_per_request.

(* frontend side: every operation sends exactly its own request code (regenerated table) *)
Theorem C02_frontend_codes : fe_tables_ok = true.
Proof. exact fe_tables_ok_true. Qed.
Print Assumptions C02_frontend_codes.

(* the request written by the frontend is consumed by the backend server as one request whatever
   the transport does to it: see C08_request_indep; at most one reply comes back: C04 *)
Theorem C02_at_most_one_reply : forall cfg s o h files size buf,
  sent_ok h (snd (dispatch cfg s o h files size buf)).
Proof. exact dispatch_sent_ok. Qed.
Print Assumptions C02_at_most_one_reply.
