(* Property C02: frontend calls reach the backend handler with identical
   arguments and files.  Statements only.  (The end-to-end clause is decided
   by the correspondence families fe / be / sess against Spec.FeSpec and
   Spec.BeSpec; the theorems below are its model-level parts.) *)
From VV Require Import Base.Bits Base.Rt Base.Val Gen.GenConsts Gen.GenLayout Gen.GenFns Gen.GenArms
  Model.Transport Model.Frontend Model.BeServer Proofs.FeProofs Proofs.BeProofs Proofs.TableProofs Proofs.CodecProofs Proofs.E2EProofs.
Open Scope N_scope.

(* calls rejected locally put nothing on the wire and leave the endpoint's state unchanged *)
Theorem C02_reject_silent : forall s e, f_sent (local_err s e) = [] /\ f_state (local_err s e) = s.
Proof. exact local_err_silent. Qed.
Print Assumptions C02_reject_silent.

(* backend side: at most one handler invocation per request, of the handler the specification
   names for that request code (regenerated arm table, whole table) *)
Theorem C02_one_handler_per_request : be_tables_ok = true.
Proof. exact be_tables_ok_true. Qed.
Print Assumptions C02_one_handler_per_request.

(* frontend side: every operation sends exactly its own request code (regenerated table) *)
Theorem C02_frontend_codes : fe_tables_ok = true.
Proof. exact fe_tables_ok_true. Qed.
Print Assumptions C02_frontend_codes.

(* the request written by the frontend is consumed by the backend server as one request whatever
   the transport does to it: see C08_request_indep; at most one reply comes back: C04 *)
Theorem C02_at_most_one_reply : forall cfg s o h files size buf,
  sent_ok h (snd (dispatch cfg s o h files size buf)).
Proof. exact dispatch_sent_ok. Qed.
Print Assumptions C02_at_most_one_reply.

(* end to end over the regenerated codecs and the request-server model, for ALL values that fit the fields: the body a
   frontend call writes, dispatched by the server, makes the handler see exactly the caller's arguments *)
Theorem C02_set_vring_num_end_to_end : forall cfg s o idx num fl,
  idx < 2 ^ 32 -> num < 2 ^ 32 -> req_flags_ok fl ->
  o_calls (snd (dispatch cfg s o (VhostUserMsgHeader_new R FrontendReq_SET_VRING_NUM fl 8) None 8
                         (VhostUserVringState_write {| VhostUserVringState_index := idx; VhostUserVringState_num := num |})))
  = [call "set_vring_num" [VN idx; VN num]].
Proof. exact set_vring_num_end_to_end. Qed.
Print Assumptions C02_set_vring_num_end_to_end.
Theorem C02_set_vring_base_end_to_end : forall cfg s o idx num fl,
  idx < 2 ^ 32 -> num < 2 ^ 32 -> req_flags_ok fl ->
  o_calls (snd (dispatch cfg s o (VhostUserMsgHeader_new R FrontendReq_SET_VRING_BASE fl 8) None 8
                         (VhostUserVringState_write {| VhostUserVringState_index := idx; VhostUserVringState_num := num |})))
  = [call "set_vring_base" [VN idx; VN num]].
Proof. exact set_vring_base_end_to_end. Qed.
Print Assumptions C02_set_vring_base_end_to_end.
Theorem C02_set_features_end_to_end : forall cfg s o v fl,
  v < 2 ^ 64 -> req_flags_ok fl ->
  o_calls (snd (dispatch cfg s o (VhostUserMsgHeader_new R FrontendReq_SET_FEATURES fl 8) None 8
                         (VhostUserU64_write {| VhostUserU64_value := v |})))
  = [call "set_features" [VN v]].
Proof. exact set_features_end_to_end. Qed.
Print Assumptions C02_set_features_end_to_end.
Theorem C02_set_protocol_features_end_to_end : forall cfg s o v fl,
  v < 2 ^ 64 -> req_flags_ok fl ->
  o_calls (snd (dispatch cfg s o (VhostUserMsgHeader_new R FrontendReq_SET_PROTOCOL_FEATURES fl 8) None 8
                         (VhostUserU64_write {| VhostUserU64_value := v |})))
  = [call "set_protocol_features" [VN v]].
Proof. exact set_protocol_features_end_to_end. Qed.
Print Assumptions C02_set_protocol_features_end_to_end.

(* the request an accepted call writes carries the caller's own values in the specified fields, for every operation and
   all values (the frontend half of "the handler sees the caller's arguments"; the backend half for four operations is
   above, for the rest it is the sess correspondence) *)
From VV Require Import Spec.FeSpec Proofs.TxSpecProofs.
Theorem C02_frontend_request_carries_callers_values : forall name, In name fe_op_names ->
  forall s a data fds regions q, args_wf name a data regions -> sends_spec s name a data fds regions q.
Proof. exact frontend_transmits_spec. Qed.
Print Assumptions C02_frontend_request_carries_callers_values.

(* further end-to-end statements over the two models and the regenerated codecs *)
Theorem C02_set_vring_addr_end_to_end : forall cfg s o idx flags d u av lg fl,
  idx < 2 ^ 32 -> flags < 2 -> d < 2 ^ 64 -> u < 2 ^ 64 -> av < 2 ^ 64 -> lg < 2 ^ 64 -> req_flags_ok fl ->
  let v := {| VhostUserVringAddr_index := idx; VhostUserVringAddr_flags := flags; VhostUserVringAddr_descriptor := d;
              VhostUserVringAddr_used := u; VhostUserVringAddr_available := av; VhostUserVringAddr_log := lg |} in
  VhostUserVringAddr_is_valid v = true ->
  o_calls (snd (dispatch cfg s o (VhostUserMsgHeader_new R FrontendReq_SET_VRING_ADDR fl 40) None 40 (VhostUserVringAddr_write v)))
  = [call "set_vring_addr" [VN idx; VN flags; VN d; VN u; VN av; VN lg]].
Proof. exact set_vring_addr_end_to_end. Qed.
Print Assumptions C02_set_vring_addr_end_to_end.
Theorem C02_get_vring_base_end_to_end : forall cfg s o idx fl,
  idx < 2 ^ 32 -> req_flags_ok fl ->
  o_calls (snd (dispatch cfg s o (VhostUserMsgHeader_new R FrontendReq_GET_VRING_BASE fl 8) None 8
                         (VhostUserVringState_write {| VhostUserVringState_index := idx; VhostUserVringState_num := 0 |})))
  = [call "get_vring_base" [VN idx]].
Proof. exact get_vring_base_end_to_end. Qed.
Print Assumptions C02_get_vring_base_end_to_end.
Theorem C02_set_vring_enable_end_to_end : forall cfg s o idx en fl,
  idx < 2 ^ 32 -> en < 2 -> req_flags_ok fl ->
  check_virtio s VhostUserVirtioFeatures_PROTOCOL_FEATURES = ROk tt ->
  o_calls (snd (dispatch cfg s o (VhostUserMsgHeader_new R FrontendReq_SET_VRING_ENABLE fl 8) None 8
                         (VhostUserVringState_write {| VhostUserVringState_index := idx; VhostUserVringState_num := en |})))
  = [call "set_vring_enable" [VN idx; VN en]].
Proof. exact set_vring_enable_end_to_end. Qed.
Print Assumptions C02_set_vring_enable_end_to_end.
Theorem C02_set_vring_fd_end_to_end : forall cfg s o code name idx f fl,
  (code = FrontendReq_SET_VRING_CALL /\ name = "set_vring_call"%string) \/ (code = FrontendReq_SET_VRING_KICK /\ name = "set_vring_kick"%string)
  \/ (code = FrontendReq_SET_VRING_ERR /\ name = "set_vring_err"%string) ->
  idx < 256 -> req_flags_ok fl ->
  o_calls (snd (dispatch cfg s o (VhostUserMsgHeader_new R code fl 8) (Some [f]) 8 (VhostUserU64_write {| VhostUserU64_value := idx |})))
  = [call name [VN idx; vfds [f]]].
Proof. exact set_vring_fd_end_to_end. Qed.
Print Assumptions C02_set_vring_fd_end_to_end.

(* the frontend half of the vring-descriptor messages, REGENERATED from send_fd_for_vring: refused locally exactly when
   the index is not below the queue maximum or does not fit bits 0-7; the payload is the index itself (bit 8 clear) *)
From VV Require Import Gen.GenVrfd.
Theorem C02_vring_fd_local_check_regenerated : forall q mx, sfv_bad q mx = false <-> (q < mx /\ q <= 255).
Proof. exact sfv_bad_spec. Qed.
Print Assumptions C02_vring_fd_local_check_regenerated.
Theorem C02_vring_fd_payload_regenerated : forall q, sfv_payload q = q.
Proof. exact sfv_payload_is_index. Qed.
Print Assumptions C02_vring_fd_payload_regenerated.
