(* Property C09: every descriptor received is handed over exactly once or
   closed; none leak.  Statements only.  Descriptors are abstract identifiers;
   the transport is Model.Transport. *)
From VV Require Import Base.Bits Base.Rt Base.Val Gen.GenConsts Gen.GenLayout Gen.GenFns
  Model.Transport Model.BeServer Proofs.BeProofs.
From Coq Require Import Permutation.
Open Scope N_scope.

(* one request, any input (valid, invalid, truncated, over-stuffed): the descriptors of the
   consumed part of the stream are exactly those delivered to the handler plus those closed *)
Theorem C09_request_partition : forall cfg s o q,
  let r := handle_request cfg s o q in
  Permutation (stream_fds q)
              (o_delivered (snd (fst r)) ++ o_closed (snd (fst r)) ++ stream_fds (snd r)).
Proof. intros. apply same_fds_perm. exact (handle_request_fds cfg s o q). Qed.
Print Assumptions C09_request_partition.

(* any history of requests *)
Theorem C09_history_partition : forall cfg outs s q,
  Permutation (stream_fds q)
              (flat_map o_delivered (fst (serve cfg s outs q)) ++ flat_map o_closed (fst (serve cfg s outs q))
               ++ stream_fds (snd (serve cfg s outs q))).
Proof. intros. apply same_fds_perm. apply serve_fds. Qed.
Print Assumptions C09_history_partition.

(* no descriptor is delivered twice, none is both delivered and closed by the library,
   and only descriptors that were received are delivered *)
Theorem C09_once : forall cfg outs s q,
  NoDup (stream_fds q) ->
  NoDup (flat_map o_delivered (fst (serve cfg s outs q)))
  /\ (forall x, In x (flat_map o_delivered (fst (serve cfg s outs q))) ->
                ~ In x (flat_map o_closed (fst (serve cfg s outs q))))
  /\ (forall x, In x (flat_map o_delivered (fst (serve cfg s outs q))) -> In x (stream_fds q)).
Proof. exact serve_once. Qed.
Print Assumptions C09_once.

(* non-vacuity: a stream with distinct descriptors, two of them on a request that takes one *)
Example C09_ex :
  let q := [ {| seg_bytes := le_encode 4 13 ++ le_encode 4 1 ++ le_encode 4 8 ++ le_encode 8 0; seg_fds := [7; 8] |} ] in
  NoDup (stream_fds q) /\
  o_closed (snd (fst (handle_request {| cfg_features := 0; cfg_pfeatures := 0 |} be_init 0 q))) = [7; 8].
Proof. cbv zeta. split; [repeat constructor; cbn; intuition discriminate|]. vm_compute. reflexivity. Qed.
