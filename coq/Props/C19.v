(* Property C19: kernel vhost/vDPA operations issue exactly the UAPI ioctls with
   UAPI layouts.  Statements only.  Both sides of every equality are regenerated
   on each run: Gen/GenKern.v by rs2v from vhost/src/vhost_kern/*.rs, Gen/GenUapi.v
   by tools/uapi_gen.py from the installed <linux/vhost.h> through the C compiler. *)
From VV Require Import Base.Bits Base.Val Base.CLayout Gen.GenKern Gen.GenUapi Spec.KernSpec Proofs.KernProofs.
Open Scope N_scope.

(* all 40 request definitions: direction, type, number and argument size as the UAPI header defines them *)
Theorem C19_request_numbers : ioctl_numbers_ok = true.
Proof. exact ioctl_numbers_ok_true. Qed.
Print Assumptions C19_request_numbers.

(* all binding structures the header defines: UAPI size and field offsets *)
Theorem C19_structure_layouts : struct_layouts_ok = true.
Proof. exact struct_layouts_ok_true. Qed.
Print Assumptions C19_structure_layouts.

(* every operation of the four backends issues exactly the request(s) assigned to it, and every assigned operation
   exists *)
Theorem C19_operation_requests : ops_ok = true.
Proof. exact ops_ok_true. Qed.
Print Assumptions C19_operation_requests.

(* ring configurations with a zero, non-power-of-two or over-maximum size, or with the log flag but no log address,
   are refused before any ioctl is issued (specification function the real backends are compared with), whatever the
   guest memory layout *)
Theorem C19_invalid_ring_refused : forall backend q mx sz fl d u av hl lg acked lay,
  let mx' := mx mod 65536 in let sz' := sz mod 65536 in
  (mx' <? sz') || (sz' =? 0) || negb (pow2 sz') = true ->
  kern_expected backend "set_vring_addr" [q; mx; sz; fl; d; u; av; hl; lg] [] acked lay = obs [] [] (VS "InvalidQueue").
Proof.
  intros backend q mx sz fl d u av hl lg acked lay mx' sz' H. unfold kern_expected.
  cbn [String.eqb Ascii.eqb Bool.eqb nth]. fold mx' sz'. rewrite H. reflexivity.
Qed.
Print Assumptions C19_invalid_ring_refused.

(* an IOTLB message written in the v1 or the v2 UAPI layout (offsets and type words from the installed header) parses
   back to the same five values, for every 64-bit address / size and every type and permission byte *)
Theorem C19_iotlb_roundtrip : forall v2 iova size uaddr perm ty,
  iotlb_fields_fit iova size uaddr perm ty -> ty <> 0 ->
  iotlb_parse v2 (iotlb_img v2 iova size uaddr perm ty) = okv (VL [VN iova; VN size; VN uaddr; VN perm; VN ty]).
Proof. exact iotlb_roundtrip_ok. Qed.
Print Assumptions C19_iotlb_roundtrip.

(* ... and the empty type is refused *)
Theorem C19_iotlb_empty_refused : forall v2 iova size uaddr perm,
  iotlb_fields_fit iova size uaddr perm 0 ->
  iotlb_parse v2 (iotlb_img v2 iova size uaddr perm 0) = VS "InvalidIotlbMsg".
Proof. exact iotlb_empty_refused. Qed.
Print Assumptions C19_iotlb_empty_refused.
