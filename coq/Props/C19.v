(* Property C19: kernel vhost/vDPA operations issue exactly the UAPI ioctls with
   UAPI layouts.  Statements only.  Both sides of every equality are regenerated
   on each run: Gen/GenKern.v by rs2v from vhost/src/vhost_kern/*.rs, Gen/GenUapi.v
   by tools/uapi_gen.py from the installed <linux/vhost.h> through the C compiler. *)
From VV Require Import Base.Bits Base.Val Base.CLayout Gen.GenKern Gen.GenUapi Spec.KernSpec Proofs.KernProofs.
Open Scope N_scope.

(* all 40 request definitions: direction, type, number and argument size as the UAPI header defines them *)
Theorem C19_request_numbers : ioctl_numbers_ok = true.
Proof. exact ioctl_numbers_ok_true. Qed.
Print Assumptions C19_request_numbers.

(* all binding structures the header defines: UAPI size and field offsets *)
Theorem C19_structure_layouts : struct_layouts_ok = true.
Proof. exact struct_layouts_ok_true. Qed.
Print Assumptions C19_structure_layouts.

(* every operation of the four backends issues exactly the request(s) assigned to it, and every assigned operation
   exists *)
Theorem C19_operation_requests : ops_ok = true.
Proof. exact ops_ok_true. Qed.
Print Assumptions C19_operation_requests.

(* ring configurations with a zero, non-power-of-two or over-maximum size, or with the log flag but no log address,
   are refused before any ioctl is issued (specification function the real backends are compared with), whatever the
   guest memory layout *)
Theorem C19_invalid_ring_refused : forall backend q mx sz fl d u av hl lg acked lay,
  let mx' := mx mod 65536 in let sz' := sz mod 65536 in
  (mx' <? sz') || (sz' =? 0) || negb (pow2 sz') = true ->
  kern_expected backend "set_vring_addr" [q; mx; sz; fl; d; u; av; hl; lg] [] acked lay = obs [] [] (VS "InvalidQueue").
Proof.
  intros backend q mx sz fl d u av hl lg acked lay mx' sz' H. unfold kern_expected.
  cbn [String.eqb Ascii.eqb Bool.eqb nth]. fold mx' sz'. rewrite H. reflexivity.
Qed.
Print Assumptions C19_invalid_ring_refused.

(* an IOTLB message written in the v1 or the v2 UAPI layout (offsets and type words from the installed header) parses
   back to the same five values, for every 64-bit address / size and every type and permission byte *)
Theorem C19_iotlb_roundtrip : forall v2 iova size uaddr perm ty,
  iotlb_fields_fit iova size uaddr perm ty -> ty <> 0 ->
  iotlb_parse v2 (iotlb_img v2 iova size uaddr perm ty) = okv (VL [VN iova; VN size; VN uaddr; VN perm; VN ty]).
Proof. exact iotlb_roundtrip_ok. Qed.
Print Assumptions C19_iotlb_roundtrip.

(* ... and the empty type is refused *)
Theorem C19_iotlb_empty_refused : forall v2 iova size uaddr perm,
  iotlb_fields_fit iova size uaddr perm 0 ->
  iotlb_parse v2 (iotlb_img v2 iova size uaddr perm 0) = VS "InvalidIotlbMsg".
Proof. exact iotlb_empty_refused. Qed.
Print Assumptions C19_iotlb_empty_refused.

(* ring-configuration validity over the expressions REGENERATED from the source on this run (Gen.GenKValid): the size test
   of both is_valid bodies is "over the maximum, zero, or not a power of two"; the ring ends checked against guest
   memory are 16 q, 6 + 2 q and 6 + 8 q bytes past the three addresses; a log flag without a log address is invalid and
   the log address handed to the kernel is the caller's exactly when the flag is set and an address was given *)
From VV Require Import Gen.GenKValid.
Theorem C19_ring_size_test_regenerated : forall q mx,
  kv_size_bad q mx = (mx <? q) || (q =? 0) || negb (pow2 q) /\ kvd_size_bad q mx = kv_size_bad q mx.
Proof. intros q mx. split; [apply kv_size_bad_spec | apply kvd_size_bad_same]. Qed.
Print Assumptions C19_ring_size_test_regenerated.
Theorem C19_ring_extents_regenerated : forall q,
  kv_desc_table_size q = 16 * q /\ kv_avail_ring_size q = 6 + 2 * q /\ kv_used_ring_size q = 6 + 8 * q.
Proof. exact kv_ring_sizes. Qed.
Print Assumptions C19_ring_extents_regenerated.
Theorem C19_log_address_rules_regenerated : forall fl has v,
  kv_log_invalid fl has = negb (N.land fl 1 =? 0) && negb has
  /\ kv_log_addr fl has v = (if negb (N.land fl 1 =? 0) && has then v else 0).
Proof. exact kv_log_rules. Qed.
Print Assumptions C19_log_address_rules_regenerated.
Theorem C19_validity_code_shape : kv_shape_ok = true.
Proof. exact kv_shape_ok_true. Qed.
Print Assumptions C19_validity_code_shape.
