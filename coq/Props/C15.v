(* Property C15: dirty-page logging records every backend write, precisely and
   atomically.  Statements only (model level); histories interleaving
   SET_LOG_BASE, memory-table changes and backend writes are decided by family
   "dmn" against Spec.MemSpec (own page-set oracle over the shared log bytes). *)
From VV Require Import Base.Bits Base.Rt Base.Val Gen.GenBitmap Model.Daemon Proofs.MemProofs Proofs.LogProofs.
From Coq Require Import Permutation.
Open Scope N_scope.

(* SET_LOG_BASE is accepted only for page-aligned guest regions that the log window covers (and a mappable
   window); it then attaches the log to every region and changes nothing else about the table; a rejected
   request changes nothing at all *)
Theorem C15_set_log_base : forall s size off file,
  match h_set_log_base s size off file with
  | (s', DOk _) => size <> 0 /\ off mod 4096 = 0 /\ off < 2 ^ 63 /\ size < 2 ^ 63
                   /\ forallb (log_fits size) (m_regs (d_mem s)) = true
                   /\ m_log (d_mem s') = Some (file, off, size)
                   /\ (forall r, In r (m_regs (d_mem s')) -> rg_log r = Some (file, off, size))
                   /\ table_of_regs (m_regs (d_mem s')) = table_of_regs (m_regs (d_mem s))
  | (s', DErr) => s' = s
  end.
Proof. exact set_log_base_spec. Qed.
Print Assumptions C15_set_log_base.

(* a written guest byte x of a logged region sets exactly bit (x/4096) mod 8 of log byte (x/4096)/8, inside the window *)
Theorem C15_bit_of_write : forall r x f off len,
  rg_log r = Some (f, off, len) -> log_fits len r = true -> rg_gpa r <= x < rg_gpa r + rg_size r ->
  mark_loc r x = Some (f, off + (x / 4096) / 8, 2 ^ ((x / 4096) mod 8)) /\ (x / 4096) / 8 < len.
Proof. exact mark_loc_exact. Qed.
Print Assumptions C15_bit_of_write.

(* a write ORs into every log location exactly the bits of the marks that address it: nothing else changes, ... *)
Theorem C15_marks_exact : forall regs n a st f o,
  store_get (apply_marks regs a n st) f o = fold_left N.lor (bits_at (marks_of regs a n) f o) (store_get st f o).
Proof. exact apply_marks_spec. Qed.
Print Assumptions C15_marks_exact.

Theorem C15_no_other_bit : forall regs n a st f o,
  bits_at (marks_of regs a n) f o = [] -> store_get (apply_marks regs a n st) f o = store_get st f o.
Proof. exact apply_marks_untouched. Qed.
Print Assumptions C15_no_other_bit.

(* ... no bit is cleared and every touched page's bit is set *)
Theorem C15_bits_only_set : forall regs n a st f o i,
  N.testbit (store_get st f o) i = true -> N.testbit (store_get (apply_marks regs a n st) f o) i = true.
Proof. exact apply_marks_monotone. Qed.
Print Assumptions C15_bits_only_set.

Theorem C15_every_mark_set : forall regs n a st f o bit,
  In (f, o, bit) (marks_of regs a n) -> forall i, N.testbit bit i = true ->
  N.testbit (store_get (apply_marks regs a n st) f o) i = true.
Proof. exact apply_marks_sets. Qed.
Print Assumptions C15_every_mark_set.

(* concurrent writers: the log byte after any interleaving of atomic fetch_or's is the same, and holds every
   writer's bit (the atomicity of AtomicU8::fetch_or itself is an assumption about the platform) *)
Theorem C15_interleavings_agree : forall l l', Permutation l l' -> forall b, fold_left N.lor l b = fold_left N.lor l' b.
Proof. exact fold_lor_perm. Qed.
Print Assumptions C15_interleavings_agree.

Theorem C15_no_lost_bit : forall l b x i, In x l -> N.testbit x i = true -> N.testbit (fold_left N.lor l b) i = true.
Proof. exact fold_lor_keeps_all. Qed.
Print Assumptions C15_no_lost_bit.

(* after ANY history of SET_LOG_BASE and memory-table changes: every region of guest memory carries the log in
   force, and that log covers it (so marks never fall outside the mapped window) *)
Theorem C15_logging_persists : forall nq maxq f pf masks ops,
  let s := log_run (dinit nq maxq f pf masks) ops in
  LogInv (d_mem s) /\ LogFits (d_mem s).
Proof.
  intros. apply log_run_inv. split.
  - intros r Hin. destruct Hin.
  - intros r f0 off len Hin. destruct Hin.
Qed.
Print Assumptions C15_logging_persists.

Theorem C15_log_stays_in_force : forall s o, m_log (d_mem s) <> None -> m_log (d_mem (lop_apply s o)) <> None.
Proof. exact log_stays. Qed.
Print Assumptions C15_log_stays_in_force.

(* non-vacuity: a log accepted for an aligned region, refused for an unaligned one and for a window that is too
   small; a region added afterwards is logged *)
Example C15_example :
  let s0 := dinit 1 256 0 0 [1] in
  let s1 := fst (h_set_mem_table s0 [[65536; 8192; 1000000; 0; 1]]) in
  let s2 := fst (h_set_log_base s1 3 0 4) in
  snd (h_set_log_base s1 3 0 4) = DOk [] /\ snd (h_set_log_base s1 2 0 4) = DErr
  /\ snd (h_set_log_base (fst (h_set_mem_table s0 [[65536; 6144; 1000000; 0; 1]])) 3 0 4) = DErr
  /\ (forall r, In r (m_regs (d_mem (fst (h_add_mem s2 [0; 4096; 2000000; 0; 2])))) -> rg_log r = Some (4, 0, 3))
  /\ store_get (m_fbytes (fst (mem_write (d_mem s2) 69632 [7]))) 4 2 = 2.
Proof. vm_compute. repeat split; intros r [<-|[<-|[]]]; reflexivity. Qed.

(* ---- over the arithmetic REGENERATED from bitmap.rs on this run (Gen.GenBitmap) ---- *)
(* AtomicBitmapMmap::new accepts a region exactly when it is non-empty, page-aligned at both ends, does not wrap, and
   the log has a byte for its highest page; it then keeps the region's first page and its number of pages *)
Theorem C15_log_size_rule_sound : forall g sz len b n,
  bm_new g sz len = Some (b, n) ->
  sz <> 0 /\ g mod 4096 = 0 /\ sz mod 4096 = 0 /\ g + (sz - 1) < 2 ^ 64 /\ ((g + sz - 1) / 4096) / 8 < len
  /\ b = g / 4096 /\ n = sz / 4096.
Proof. exact bm_new_spec. Qed.
Print Assumptions C15_log_size_rule_sound.
Theorem C15_log_size_rule_complete : forall g sz len,
  sz <> 0 -> g mod 4096 = 0 -> sz mod 4096 = 0 -> g + (sz - 1) < 2 ^ 64 -> ((g + sz - 1) / 4096) / 8 < len ->
  bm_new g sz len = Some (g / 4096, sz / 4096).
Proof. exact bm_new_complete. Qed.
Print Assumptions C15_log_size_rule_complete.
(* the pages mark_dirty walks for a write are exactly the pages of the written bytes - none more, none fewer *)
Theorem C15_pages_of_a_write : forall offset len p,
  0 < len -> offset + (len - 1) < 2 ^ 64 ->
  (bm_md_first_page offset len <= p <= bm_md_last_page offset len <-> exists i, i < len /\ p = (offset + i) / 4096).
Proof. exact md_pages_are_byte_pages. Qed.
Print Assumptions C15_pages_of_a_write.
Theorem C15_word_and_mask : forall page, bm_md_word page = page / 8 /\ bm_md_mask page = 2 ^ (page mod 8).
Proof. exact md_word_mask. Qed.
Print Assumptions C15_word_and_mask.
Theorem C15_marking_code_shape : bm_shape_ok = true.
Proof. exact bm_shape_ok_true. Qed.
Print Assumptions C15_marking_code_shape.
