#!/bin/sh
# usage: seedall.sh  -- every kept seed against its own property's check; one line per seed
cd /verif
for d in seeded/*/; do
  id=$(basename $d); p=$(python3 -c "import json;print(json.load(open('$d/meta.json'))['property'])")
  out=$(./seedtest.sh /verif/$d/patch.diff $p 2>&1)
  if echo "$out" | grep -q "not clean\|patch failed\|does not apply"; then r="PATCH-PROBLEM";
  elif echo "$out" | grep "VIOLATION" | grep -qv "no-failing-input-found"; then r="concrete";
  elif echo "$out" | grep -q "VIOLATION"; then r="no-failing-input-found";
  else r="MISSED"; fi
  echo "$id $p $r"
done
