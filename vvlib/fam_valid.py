# family "valid": every validator on the full product of per-field boundary sets
# (enumerated exhaustively) plus random bit patterns.
import itertools
from .core import VS, VH, le
from .engine import Family

M32 = 2**32 - 1
M64 = 2**64 - 1
U64_FULL = [0, 1, 2, 3, 4, 15, 16, 17, 0xfff, 0x1000, 0x1001, 2**31, M32, 2**32, 2**63 - 1, 2**63, 2**64 - 4096, M64 - 1, M64]
U64_MED = [0, 1, 0x1000, 2**32, 2**63, 2**64 - 4096, 2**64 - 4095, M64 - 1, M64]
U64_ALIGN = [0, 1, 2, 3, 4, 8, 15, 16, 17, 32, 0x1000, 2**63, M64 - 15, M64 - 3, M64 - 1, M64]
U32_FLAGBITS = [0] + [1 << i for i in range(32)] + [3, 5, 9, 0xd, 0xf, 0x11, 0x1d, M32, M32 - 1]
U64_FLAGBITS = [0] + [1 << i for i in range(64)] + [3, M64, M64 - 1]
U32_SIZE = [0, 1, 8, 4095, 4096, 4097, 2**31, M32]


def spec_types():
    codes_fe = sorted(set(list(range(0, 110)) + [2**31, M32, 2**16, 255, 256]))
    codes_be = sorted(set(list(range(0, 76)) + [2**31, M32]))
    codes_gpu = sorted(set(list(range(0, 78)) + [2**31, M32]))
    t = []
    # (type name, [(size, values)], padding layout) ; fields in wire order incl. padding fields
    t.append(("VhostUserMsgHeader<FrontendReq>", [(4, [0, 1, 2, 22, 44, 45, 2**31, M32]), (4, U32_FLAGBITS), (4, U32_SIZE)]))
    t.append(("VhostUserMsgHeader<FrontendReq>", [(4, codes_fe), (4, [1, 5, 9, 0, 2, 0x11]), (4, [0, 4096, 4097])]))
    t.append(("VhostUserMsgHeader<BackendReq>", [(4, [0, 1, 5, 10, 11, 2**31, M32]), (4, U32_FLAGBITS), (4, U32_SIZE)]))
    t.append(("VhostUserMsgHeader<BackendReq>", [(4, codes_be), (4, [1, 5, 9, 0, 2, 0x11]), (4, [0, 4096, 4097])]))
    t.append(("VhostUserGpuMsgHeader<GpuBackendReq>", [(4, [0, 1, 6, 12, 13, 2**31, M32]), (4, U32_FLAGBITS), (4, U32_SIZE)]))
    t.append(("VhostUserGpuMsgHeader<GpuBackendReq>", [(4, codes_gpu), (4, [0, 4, 1, 5, 8]), (4, [0, M32])]))
    t.append(("VhostUserMemory", [(4, [0, 1, 2, 31, 32, 33, 255, 256, 2**31, M32]), (4, [0, 1, 2**31, M32])]))
    t.append(("VhostUserMemoryRegion", [(8, U64_MED), (8, U64_MED), (8, U64_MED), (8, U64_MED)]))
    t.append(("VhostUserSingleMemoryRegion", [(8, [0, 1, M64]), (8, U64_MED), (8, U64_MED), (8, U64_MED), (8, U64_MED)]))
    t.append(("VhostUserVringAddr", [(4, [0, 7, M32]), (4, U32_FLAGBITS), (8, [0, 16]), (8, [0, 4]), (8, [0, 2]), (8, [0, M64])]))
    t.append(("VhostUserVringAddr", [(4, [0]), (4, [0, 1, 2]), (8, U64_ALIGN), (8, U64_ALIGN), (8, U64_ALIGN), (8, [0, 1])]))
    t.append(("VhostUserConfig", [(4, [0, 1, 0x100, 0xfff, 0x1000, 0x1001, 2**31, M32 - 1, M32]),
                                  (4, [0, 1, 2, 0xeff, 0xf00, 0xfff, 0x1000, 0x1001, 2**31, M32]), (4, U32_FLAGBITS)]))
    t.append(("VhostUserInflight", [(8, [0, 1, M64]), (8, [0, 1, M64]), (2, [0, 1, 2, 255, 256, 65535]), (2, [0, 1, 2, 255, 256, 65535]),
                                    (4, [0, M32])]))
    t.append(("VhostUserLog", [(8, U64_FULL), (8, U64_FULL)]))
    t.append(("VhostUserTransferDeviceState", [(4, [0, 1, 2, 3, 255, 256, 2**31, M32]), (4, [0, 1, 2, 255, 256, 2**31, M32])]))
    t.append(("VhostUserMMap", [(1, [0, 1, 255]), (7, [0, 2**56 - 1]), (8, U64_MED), (8, U64_MED), (8, U64_MED), (8, [0, 1, 2, 3, 2**63, M64])]))
    t.append(("VhostUserMMap", [(1, [0]), (7, [0]), (8, [0, M64]), (8, [0]), (8, [1]), (8, U64_FLAGBITS)]))
    t.append(("VhostUserU64", [(8, U64_FULL)]))
    t.append(("VhostUserVringState", [(4, [0, 1, M32]), (4, [0, 1, M32])]))
    return t


UUIDS = [bytes(16), bytes([255] * 16), bytes([0] * 15 + [1]), bytes([1] + [0] * 15), bytes([255] * 15 + [254]),
         bytes([254] + [255] * 15), bytes([0] * 8 + [255] * 8), bytes(range(16)), bytes([0] * 7 + [128] + [0] * 8),
         bytes([255] * 7 + [127] + [255] * 8)]


class Valid(Family):
    name = "valid"
    shards = 8

    def generate(self, rng, tier):
        out = []
        sizes = {}
        for ty, fields in spec_types():
            total = sum(s for s, _ in fields)
            sizes[ty] = [s for s, _ in fields]
            for combo in itertools.product(*[vals for _, vals in fields]):
                b = b"".join(le(v, s) for v, (s, _) in zip(combo, fields))
                out.append(([VS(ty), VH(b)], "lattice:" + ty))
        for u in UUIDS:
            out.append(([VS("VhostUserSharedMsg"), VH(u)], "lattice:VhostUserSharedMsg"))
        # one-byte mutations of nil / max uuids: every position
        for base in (0, 255):
            for pos in range(16):
                for v in (1, 128, 254):
                    b = bytearray([base] * 16)
                    b[pos] = v if base == 0 else (255 - v) % 256
                    out.append(([VS("VhostUserSharedMsg"), VH(bytes(b))], "lattice:VhostUserSharedMsg"))
        # wrong lengths
        for ty, fs in sizes.items():
            total = sum(fs)
            for d in (-1, 1):
                out.append(([VS(ty), VH(bytes(max(0, total + d)))], "badlen"))
        # random bit patterns
        nrand = 300 if tier == "quick" else 5000
        for ty, fs in sorted(sizes.items()):
            total = sum(fs)
            for _ in range(nrand):
                b = bytearray()
                for s in fs:
                    mode = rng.below(4)
                    if mode == 0:
                        v = rng.next() & ((1 << (8 * s)) - 1)
                    elif mode == 1:
                        v = rng.below(64)
                    elif mode == 2:
                        v = (((1 << (8 * s)) - 1) - rng.below(5000)) % (1 << (8 * s))
                    else:
                        v = (rng.next() & ((1 << (8 * s)) - 1)) & ~0xfff
                    b += le(v, s)
                out.append(([VS(ty), VH(bytes(b))], "random:" + ty))
        for _ in range(nrand):
            out.append(([VS("VhostUserSharedMsg"), VH(le(rng.next(), 8) + le(rng.next(), 8))], "random:VhostUserSharedMsg"))
        return out

    def nontrivial(self, args, obs):
        return obs in ('(VS "true")', '(VS "false")')
