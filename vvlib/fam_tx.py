# family "tx" (C08 sender side): one frontend request written through a socket that accepts
# only part of each write or refuses it with EAGAIN (interposed sendmsg).
from . import wire as W
from .core import VN, VS, VH, VL
from .engine import Family
from .fam_fe import Fe, St, step


class Tx(Family):
    name = "tx"
    shards = 16

    def generate(self, rng, tier):
        fe = Fe()
        out = []
        ops = ["set_owner", "set_features", "set_vring_num", "set_vring_addr", "set_vring_kick", "set_vring_call", "set_mem_table",
               "set_log_fd", "set_vring_base", "set_log_base"]
        n = 400 if tier == "quick" else 4000
        for i in range(n):
            st = St(4)
            op = rng.choice(ops)
            nums, data, fds, regions = fe.args_for(rng, st, op)
            if op in ("set_vring_num", "set_vring_base", "set_vring_addr", "set_vring_kick", "set_vring_call"):
                nums[0] = rng.below(4)
            k = rng.below(6)
            if k == 0:
                caps = [0]                                   # refused once, then accepted whole
            elif k == 1:
                caps = [0, 0, 1, 0, 2]                       # refusals interleaved with tiny writes
            elif k == 2:
                caps = [1] * (12 + rng.below(30))            # byte by byte
            elif k == 3:
                caps = [rng.choice([1, 11, 12, 13, 20])]     # one short write
            elif k == 4:
                caps = [rng.below(40) for _ in range(rng.below(8))]
            else:
                caps = []
            out.append(([VN(4), step(op, nums, data, fds, regions), VL([VN(c) for c in caps])], "partial-writes"))
        return out

    def nontrivial(self, args, obs):
        return '(VH "")' not in obs
