# family "sess": real Frontend <-> real BackendReqHandler with a recording handler (C02, C03).
from . import wire as W
from .core import VN, VS, VH, VL, split_top
from .engine import Family
from .fam_fe import Fe, St, OPS_ACK, OPS_REPLY


def sstep(name, nums=(), data=b"", fds=(), regions=(), outcome=0):
    return VL([VS(name), VL([VN(x) for x in nums]), VH(data), VL([VN(f) for f in fds]),
               VL([VL([VN(x) for x in r]) for r in regions]), VN(outcome)])


class Sess(Family):
    name = "sess"
    shards = 16
    spec = True

    def one(self, rng):
        fe = Fe()
        maxq = rng.choice([1, 2, 4, 256, 0x8000])
        st = St(maxq)
        feat = rng.choice([W.VF_PROTOCOL_FEATURES | 3, W.VF_PROTOCOL_FEATURES, W.VF_PROTOCOL_FEATURES | W.VF_LOG_ALL, 0])
        pfeat = rng.choice([W.PF_ALL, W.PF_ALL, rng.next() & W.PF_ALL])
        steps = []
        if rng.chance(2, 3):
            st.hf = rng.choice([8, 8, 8, 0])
            steps.append(sstep("set_hdr_flags", [st.hf]))
        # negotiation through the real endpoints
        steps.append(sstep("get_features"))
        st.vf = feat
        if rng.chance(5, 6):
            a = feat if rng.chance(4, 5) else feat & ~W.VF_PROTOCOL_FEATURES
            steps.append(sstep("set_features", [a], outcome=0))
            st.avf = a & st.vf
        if (feat & W.VF_PROTOCOL_FEATURES) and rng.chance(5, 6):
            steps.append(sstep("get_protocol_features"))
            a = rng.choice([W.PF_ALL, pfeat | W.PF["REPLY_ACK"], rng.next() & W.PF_ALL])
            steps.append(sstep("set_protocol_features", [a], outcome=0))
            st.apf = a
        for _ in range(1 + rng.below(7)):
            op = rng.choice(OPS_ACK + OPS_REPLY)
            nums, data, fds, regions = fe.args_for(rng, st, op)
            outcome = 0 if rng.chance(2, 3) else rng.choice([1, 1, 2, 5] if op == "get_config" else [1, 1, 2])
            steps.append(sstep(op, nums, data, fds, regions, outcome))
            if op == "set_protocol_features" and (st.vf & W.VF_PROTOCOL_FEATURES):
                st.apf = nums[0] & W.PF_ALL
            if op == "set_features":
                st.avf = nums[0] & st.vf
        return [VN(maxq), VL([VN(feat), VN(pfeat)]), VL(steps)]

    def one_focused(self, rng):
        """a fully negotiated session, then operations whose messages are as large as the protocol allows (the 4096-byte
        limit covers the payload after the 12-byte header, and is reached by configuration accesses only)"""
        maxq = 4
        feat, pfeat = W.VF_PROTOCOL_FEATURES | 3, W.PF_ALL
        steps = []
        if rng.chance(1, 2):
            steps.append(sstep("set_hdr_flags", [8]))
        steps += [sstep("get_features"), sstep("set_features", [feat], outcome=0), sstep("get_protocol_features"),
                  sstep("set_protocol_features", [W.PF_ALL], outcome=0)]
        for _ in range(1 + rng.below(3)):
            n = rng.choice([1, 8, 256, 4071, 4072, 4073, 4080, 4083, 4084])
            off = rng.choice([0, 0, 0x1000 - n]) if n <= 0x1000 else 0
            data = bytes((7 * i + n) % 256 for i in range(n))
            if rng.chance(1, 2):
                steps.append(sstep("set_config", [off, rng.choice([0, 1, 2, 3])], data, outcome=0))
            else:
                steps.append(sstep("get_config", [off, n, rng.choice([0, 1, 2, 3])], data, outcome=rng.choice([0, 0, 0, 5, 2])))
            if rng.chance(1, 2):
                steps.append(sstep("get_queue_num", outcome=0))
        return [VN(maxq), VL([VN(feat), VN(pfeat)]), VL(steps)]

    def generate(self, rng, tier):
        n = 700 if tier == "quick" else 6000
        return [(self.one(rng), "session") for _ in range(n)] + [(self.one_focused(rng), "large-messages") for _ in range(n // 7)]

    def nontrivial(self, args, obs):
        return '(VL [(VL [(VS "' in obs and "(VL [(VS \"set_" in obs or "get_" in obs
