# family "iovs": the iovec offset computation of the send/receive loops (via the verif hook)
import itertools
from .core import VN, VL
from .engine import Family


class Iovs(Family):
    name = "iovs"
    shards = 4

    def generate(self, rng, tier):
        out = []
        # exhaustive: all length vectors over {0,1,2,3,12} up to 3 entries x every skip up to total+1
        for n in range(0, 4):
            for lens in itertools.product([0, 1, 2, 3, 12], repeat=n):
                for skip in range(0, sum(lens) + 2):
                    out.append(([VL([VN(x) for x in lens]), VN(skip)], "exhaustive"))
        for _ in range(300 if tier == "quick" else 5000):
            lens = [rng.choice([0, 1, 8, 12, 40, 4096, rng.below(5000)]) for _ in range(rng.below(5))]
            skip = rng.below(sum(lens) + 3)
            out.append(([VL([VN(x) for x in lens]), VN(skip)], "random"))
        return out
