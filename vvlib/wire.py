# Protocol-level message builders used by the case generators (written from the
# vhost-user specification; independent of the crate's structs).
from .core import le

FE = dict(GET_FEATURES=1, SET_FEATURES=2, SET_OWNER=3, RESET_OWNER=4, SET_MEM_TABLE=5, SET_LOG_BASE=6, SET_LOG_FD=7,
          SET_VRING_NUM=8, SET_VRING_ADDR=9, SET_VRING_BASE=10, GET_VRING_BASE=11, SET_VRING_KICK=12, SET_VRING_CALL=13,
          SET_VRING_ERR=14, GET_PROTOCOL_FEATURES=15, SET_PROTOCOL_FEATURES=16, GET_QUEUE_NUM=17, SET_VRING_ENABLE=18,
          SEND_RARP=19, NET_SET_MTU=20, SET_BACKEND_REQ_FD=21, IOTLB_MSG=22, SET_VRING_ENDIAN=23, GET_CONFIG=24,
          SET_CONFIG=25, CREATE_CRYPTO_SESSION=26, CLOSE_CRYPTO_SESSION=27, POSTCOPY_ADVISE=28, POSTCOPY_LISTEN=29,
          POSTCOPY_END=30, GET_INFLIGHT_FD=31, SET_INFLIGHT_FD=32, GPU_SET_SOCKET=33, RESET_DEVICE=34, VRING_KICK=35,
          GET_MAX_MEM_SLOTS=36, ADD_MEM_REG=37, REM_MEM_REG=38, SET_STATUS=39, GET_STATUS=40, GET_SHARED_OBJECT=41,
          SET_DEVICE_STATE_FD=42, CHECK_DEVICE_STATE=43, GET_SHMEM_CONFIG=44)

PF = dict(MQ=1 << 0, LOG_SHMFD=1 << 1, RARP=1 << 2, REPLY_ACK=1 << 3, MTU=1 << 4, BACKEND_REQ=1 << 5, CROSS_ENDIAN=1 << 6,
          CRYPTO_SESSION=1 << 7, PAGEFAULT=1 << 8, CONFIG=1 << 9, BACKEND_SEND_FD=1 << 10, HOST_NOTIFIER=1 << 11,
          INFLIGHT_SHMFD=1 << 12, RESET_DEVICE=1 << 13, INBAND_NOTIFICATIONS=1 << 14, CONFIGURE_MEM_SLOTS=1 << 15,
          STATUS=1 << 16, XEN_MMAP=1 << 17, SHARED_OBJECT=1 << 18, DEVICE_STATE=1 << 19, GET_VRING_BASE_INFLIGHT=1 << 20,
          SHMEM=1 << 21)
PF_ALL = (1 << 22) - 1
VF_PROTOCOL_FEATURES = 1 << 30
VF_LOG_ALL = 1 << 26

M32 = 2**32 - 1
M64 = 2**64 - 1


def hdr(code, flags, size):
    return le(code & M32, 4) + le(flags & M32, 4) + le(size & M32, 4)


def msg(code, body=b"", need_reply=False, flags=None):
    f = (1 | (8 if need_reply else 0)) if flags is None else flags
    return hdr(code, f, len(body)) + body


def u64(v):
    return le(v & M64, 8)


def vring_state(i, n):
    return le(i & M32, 4) + le(n & M32, 4)


def vring_addr(i, flags, desc, used, avail, log):
    return le(i & M32, 4) + le(flags & M32, 4) + u64(desc) + u64(used) + u64(avail) + u64(log)


def region(gpa, size, ua, off):
    return u64(gpa) + u64(size) + u64(ua) + u64(off)


def mem_table(regions, pad=0, n=None):
    n = len(regions) if n is None else n
    return le(n & M32, 4) + le(pad & M32, 4) + b"".join(region(*r) for r in regions)


def single_region(gpa, size, ua, off, pad=0):
    return u64(pad) + region(gpa, size, ua, off)


def config(off, size, flags, payload=None):
    p = bytes(size & 0xfff if size <= 4096 else 0) if payload is None else payload
    return le(off & M32, 4) + le(size & M32, 4) + le(flags & M32, 4) + p


def inflight(mmap_size, mmap_off, nq, qs, pad=0):
    return u64(mmap_size) + u64(mmap_off) + le(nq & 0xffff, 2) + le(qs & 0xffff, 2) + le(pad & M32, 4)


def log(size, off):
    return u64(size) + u64(off)


def transfer(direction, phase):
    return le(direction & M32, 4) + le(phase & M32, 4)
